(* C03 - projective model of a particle-number measurement on part of the modes of a
   Fock-space state, as done by the Fock simulators with shots=None:
     _simulators/fock/pure/simulation_steps/__init__.py:particle_number_measurement
     _simulators/fock/pure/simulation_steps/utils.py:project_to_subspace
     _simulators/fock/simulation_steps.py:get_projection_operator_indices
     api/state.py:_get_auxiliary_modes
   composed by the executor (api/simulator.py) with the active-mode bookkeeping of
   ExecModel.v.  A state is a finitely supported map occupation vector -> amplitude, kept
   as a list of (vector, amplitude) pairs; amplitudes live in any type [A] with a squared
   modulus [nrm : A -> Q].  The code stores sqrt(c) * phi for a scale c the model carries
   next to the unscaled projection phi (no square roots in the model).
   Definitions only. *)
From Coq Require Import ZArith QArith List Bool Arith.
From PV Require Import C03.ExecModel.
Import ListNotations.
Open Scope nat_scope.

Definition vec := list nat.

Fixpoint vec_eqb (a b : vec) : bool :=
  match a, b with
  | [], [] => true
  | x :: r, y :: s => Nat.eqb x y && vec_eqb r s
  | _, _ => false
  end.

(* occupation numbers of the positions M, in the order of M: basis[:, modes] = basis_vector *)
Definition select (M : list nat) (v : vec) : vec := map (fun m => nth m v 0%nat) M.

(* api/state.py:_get_auxiliary_modes: the other positions, ascending *)
Definition aux (M : list nat) (d : nat) : list nat := filter (fun i => negb (memb i M)) (seq 0 d).

Fixpoint vmem (s : vec) (l : list vec) : bool :=
  match l with [] => false | a :: r => if vec_eqb a s then true else vmem s r end.
Fixpoint vnodup (l : list vec) : list vec :=
  match l with [] => [] | a :: r => if vmem a r then vnodup r else a :: vnodup r end.

Section Projective.
  Variable A : Type.
  Variable nrm : A -> Q.                    (* |a|^2 *)

  Definition pstate := list (vec * A).

  Definition weight (psi : pstate) : Q := fold_right (fun p acc => (nrm (snd p) + acc)%Q) 0%Q psi.

  (* project_to_subspace without the normalisation: keep the entries whose occupation of the
     measured positions M is s, drop those positions *)
  Definition project (d : nat) (M : list nat) (s : vec) (psi : pstate) : pstate :=
    map (fun p => (select (aux M d) (fst p), snd p))
        (filter (fun p => vec_eqb (select M (fst p)) s) psi).

  (* the outcomes with non-zero probability (every listed amplitude is non-zero) *)
  Definition outcomes (M : list nat) (psi : pstate) : list vec := vnodup (map (fun p => select M (fst p)) psi).

  (* a branch of the exact (shots=None) execution: accumulated outcome, a vector phi and a
     scale c such that the state the code holds is sqrt(c) * phi, the frequency, and the
     original labels of the modes of the state.  The initial state is taken as given (c = 1,
     whatever its norm); project_to_subspace multiplies by sqrt(1 / p) *)
  Record pbranch := mkPB { pb_out : vec; pb_phi : pstate; pb_freq : Q; pb_reg : list nat;
                           pb_scale : Q }.

  (* squared norm of the state of a branch *)
  Definition branch_norm (b : pbranch) : Q := (pb_scale b * weight (pb_phi b))%Q.

  (* one ParticleNumberMeasurement on the original labels L: the executor remaps L to
     positions in the register; the step reads the probability p(s) = c * |phi_s|^2 off the
     state AS IT IS (no normalisation: an unnormalised state gives weights that sum to its
     norm), returns the branch state sqrt(1/p) * (sqrt c * phi_s), and the executor multiplies
     p by the frequency of the branch *)
  Definition measure_branch (L : list nat) (b : pbranch) : list pbranch :=
    let reg := pb_reg b in
    let M := remap_modes reg L in
    let d := length reg in
    let c := pb_scale b in
    map (fun s => let phi' := project d M s (pb_phi b) in
                  let p := (c * weight phi')%Q in
                  mkPB (pb_out b ++ s) phi' (p * pb_freq b)%Q
                       (delete_modes_from_active reg M) (c / p)%Q)
        (outcomes M (pb_phi b)).

  (* _simulators/fock/pure/simulation_steps/measurements.py:post_select_photons: keeps the
     unnormalised projection, no outcome, frequency 1 *)
  Definition postselect_branch (L : list nat) (counts : vec) (b : pbranch) : list pbranch :=
    let reg := pb_reg b in
    let M := remap_modes reg L in
    [mkPB (pb_out b) (project (length reg) M counts (pb_phi b)) (pb_freq b)
          (delete_modes_from_active reg M) (pb_scale b)].

  Definition measure (L : list nat) (bs : list pbranch) : list pbranch := flat_map (measure_branch L) bs.

  Definition measure_seq (Ls : list (list nat)) (bs : list pbranch) : list pbranch :=
    fold_left (fun acc L => measure L acc) Ls bs.

  (* measurements and post-selections in program order *)
  Inductive pstep := PMeasure (L : list nat) | PPost (L : list nat) (counts : vec).
  Definition run_pstep (st : pstep) (bs : list pbranch) : list pbranch :=
    match st with
    | PMeasure L => measure L bs
    | PPost L counts => flat_map (postselect_branch L counts) bs
    end.
  Definition run_psteps (sts : list pstep) (bs : list pbranch) : list pbranch :=
    fold_left (fun acc st => run_pstep st acc) sts bs.

  Definition pinitial (d : nat) (psi : pstate) : list pbranch := [mkPB [] psi 1%Q (seq 0 d) 1%Q].
End Projective.

(* ---- running the model: Gaussian rationals *)
Definition Qi := (Q * Q)%type.
Definition qi_nrm (a : Qi) : Q := (fst a * fst a + snd a * snd a)%Q.
