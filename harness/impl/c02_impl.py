"""Implementation side of C02: runs piquasso's samplers with scripted / enumerating
random generators.  JSON request on stdin, one JSON line on stdout."""
import json
import sys
import warnings

import numpy as np

warnings.filterwarnings("ignore")

import piquasso as pq  # noqa: E402
from piquasso._simulators.passive import sampling as S  # noqa: E402
from piquasso._simulators.gaussian import simulation_steps as G  # noqa: E402
from piquasso._math import polynomial as P  # noqa: E402
from piquasso import _utils as UT  # noqa: E402
from piquasso.api.exceptions import InvalidSimulation  # noqa: E402

REAL_DEFAULT_RNG = np.random.default_rng


def cmat(m):
    return np.array([[complex(a, b) for a, b in row] for row in m], dtype=complex)


def fl(x):
    return [float(v) for v in np.asarray(x).ravel()]


# ----------------------------------------------------------------------------- generators
class ScriptRng:
    """Replays a script of numbers in [0,1): uniform()/random() return the number,
    choice(m) returns floor(r*m).  Every call is recorded."""

    def __init__(self, draws):
        self.draws = list(draws)
        self.pos = 0
        self.calls = []

    def __deepcopy__(self, memo):
        return self

    def _next(self):
        if self.pos >= len(self.draws):
            raise IndexError("script exhausted")
        v = self.draws[self.pos]
        self.pos += 1
        return v

    def uniform(self, *a, **k):
        v = self._next()
        self.calls.append(["u", v])
        return v

    def random(self, *a, **k):
        v = self._next()
        self.calls.append(["r", v])
        return v

    def _one(self, a, p):
        m = int(a) if isinstance(a, (int, np.integer)) else len(a)
        r = self._next()
        i = min(int(r * m), m - 1)
        if p is not None:
            # never draw an index of probability zero (a real generator cannot either)
            for _ in range(m):
                if float(p[i]) > 1e-12:
                    break
                i = (i + 1) % m
        self.calls.append(["c", m, i, None if p is None else fl(p)])
        return i if isinstance(a, (int, np.integer)) else a[i]

    def choice(self, a, size=None, p=None, **k):
        if size is None:
            return self._one(a, p)
        return np.array([self._one(a, p) for _ in range(int(size))])


class Pruned(Exception):
    pass


class EnumRng:
    """One path of a depth-first enumeration of every random choice; the weight of the path is
    the product of the probabilities the code itself handed to the generator."""

    def __init__(self, path):
        self.path = path
        self.pos = 0
        self.weight = 1.0
        self.arity = []

    def __deepcopy__(self, memo):
        return self

    def _branch(self, probs):
        if self.pos < len(self.path):
            i = self.path[self.pos]
        else:
            i = 0
            self.path.append(0)
        self.arity.append(len(probs))
        self.pos += 1
        # branches below the rounding noise of the code's own probabilities are not real
        # outcomes (e.g. the sliver left when conditional probabilities sum to 1 - 7e-15):
        # they are dropped; the mass lost is far below the 1e-8 / 1e-9 comparison tolerances
        if not (probs[i] > 1e-12):
            raise Pruned()
        self.weight *= float(probs[i])
        return i

    def _one(self, a, p):
        m = int(a) if isinstance(a, (int, np.integer)) else len(a)
        probs = [1.0 / m] * m if p is None else [float(x) for x in p]
        i = self._branch(probs)
        return i if isinstance(a, (int, np.integer)) else a[i]

    def choice(self, a, size=None, p=None, **k):
        if size is None:
            return self._one(a, p)
        return np.array([self._one(a, p) for _ in range(int(size))])

    def uniform(self, *a, **k):
        return LazyUniform(self)

    def random(self, *a, **k):
        return LazyUniform(self)


class LazyUniform:
    """A uniform number on [0,1) whose value is decided only by the comparisons the code makes
    with it: every comparison with a number c is a branch of the enumeration with the
    conditional probability of `T < c` given the earlier answers.  Covers `rng.uniform() > p`
    (loss), `rng.random() > p` (greedy post-selection), `guess < conditional` (threshold
    sampler) and `cumulative >= threshold` (inverse-CDF marginal sampler) without telling
    the harness any of the thresholds."""

    __array_ufunc__ = None

    def __init__(self, rng):
        self.rng = rng
        self.lo = 0.0
        self.hi = 1.0

    def _below(self, c):
        c = float(c)
        if c <= self.lo:
            return False
        if c >= self.hi:
            return True
        p = (c - self.lo) / (self.hi - self.lo)
        i = self.rng._branch([p, 1.0 - p])
        if i == 0:
            self.hi = c
            return True
        self.lo = c
        return False

    def __lt__(self, c):
        return self._below(c)

    def __le__(self, c):
        return self._below(c)

    def __gt__(self, c):
        return not self._below(c)

    def __ge__(self, c):
        return not self._below(c)


def enumerate_law(run_once, limit=12000):
    """run_once(rng) -> hashable outcome.  Returns {outcome: probability}, number of leaves."""
    law = {}
    path = []
    leaves = 0
    while True:
        rng = EnumRng(path)
        try:
            out = run_once(rng)
            law[out] = law.get(out, 0.0) + rng.weight
        except Pruned:
            pass
        leaves += 1
        if leaves > limit:
            raise RuntimeError("enumeration limit")
        path = path[: rng.pos]
        ar = rng.arity[: rng.pos]
        while path and path[-1] + 1 >= ar[len(path) - 1]:
            path.pop()
        if not path:
            break
        path[-1] += 1
    return law, leaves


# ----------------------------------------------------------------------------- scripted ties
def perm_laplace():
    from piquasso._simulators.connectors import NumpyConnector

    return NumpyConnector().permanent_laplace


def first_quantized(occ):
    return np.array([m for m, k in enumerate(occ) for _ in range(k)], dtype=int)


def events_of(calls, lossy):
    """Group the recorded generator calls into loop events."""
    ev = []
    i = 0
    while i < len(calls):
        c = calls[i]
        if lossy:
            if c[0] != "u":
                return None
            lost = c[2]
            i += 1
            if lost:
                ev.append(["L"])
                continue
        if i + 1 >= len(calls) or calls[i][0] != "c" or calls[i + 1][0] != "c":
            return None
        ev.append(["K", calls[i][2], calls[i + 1][2], calls[i + 1][3]])
        i += 2
    return ev


def run_postselect(case):
    U = cmat(case["U"])
    occ = case["input"]
    d = len(occ)
    n = int(sum(occ))
    rng = ScriptRng(case["draws"])
    p_keep = case.get("p_keep")
    if p_keep is None:
        rc = lambda: False  # noqa: E731
    else:
        def rc():
            v = rng.uniform()
            lost = bool(v > p_keep)   # the lambda of passive/simulation_steps.py
            rng.calls[-1].append(lost)
            return lost
    out = {"id": case["id"]}
    try:
        if case["kind"] == "plain":
            s = S._generate_sample(d, n, perm_laplace(), U, first_quantized(occ), rng=rng, reject_condition=rc)
        else:
            s = S._generate_sample_with_postselect(
                d, n, perm_laplace(), U, first_quantized(occ), rng=rng, reject_condition=rc,
                postselect_data=(tuple(case["ps_modes"]), tuple(case["ps_photons"]), case["trials"]),
                track_photons_needed=case.get("track", True))
        out["sample"] = [int(x) for x in s]
    except InvalidSimulation:
        out["sample"] = "TooManyTrials"
    except IndexError as e:
        out["sample"] = "OutOfScript" if "script exhausted" in str(e) else "IndexError"
    out["consumed"] = rng.pos
    out["events"] = events_of(rng.calls, p_keep is not None)
    return out


def run_trunc(case):
    shape = case["shape"]
    poly = np.array(case["poly"], dtype=float).reshape(shape)
    c = case["c"]
    ls = np.array(case["ls"], dtype=float)
    out = np.full(shape, 7.0)
    P.multiply_by_linear_truncated(poly.copy(), c, ls, out=out)
    al = poly.copy()
    P.multiply_by_linear_truncated(al, c, ls, out=al)
    return {"id": case["id"], "distinct": fl(out), "aliased": fl(al)}


def run_dist(case):
    """the post-selection tables of the uniform-overlap greedy sampler"""
    U = cmat(case["U"])
    dist = np.array(case["dist"], dtype=int)
    psm = np.array(case["ps_modes"], dtype=int)
    psp = np.array(case["ps_photons"], dtype=int)
    bound = np.array(case["ps_bound"], dtype=int)
    scalar = S._calculate_dist_postselection_probability(U, dist, psm, psp)
    table = S._calculate_dist_postselection_probability_table(U, dist, psm, bound)
    res = {"id": case["id"], "scalar": float(scalar), "table": [fl(t) for t in table]}
    rng = ScriptRng(case["draws"])
    try:
        smp = S._sample_dist_output_conditioned_on_postselection(U, dist, psm, psp, table, rng)
        res["sample"] = [int(x) for x in smp]
        res["weights"] = [c[3] for c in rng.calls]
        res["choices"] = [c[2] for c in rng.calls]
    except Exception as e:  # noqa: BLE001
        res["sample"] = "error:" + type(e).__name__
    return res


def run_counts(case):
    samples = [tuple(s) for s in case["samples"]]
    keys = []
    for s in samples:
        if s not in keys:
            keys.append(s)
    pm = {k: 1.0 / len(keys) for k in keys}
    real = UT.random.choices
    try:
        UT.random.choices = lambda population, weights, k: list(samples)
        fr = UT.sample_from_probability_map(pm, len(samples))
    finally:
        UT.random.choices = real
    return {"id": case["id"],
            "freq": [[list(k), v.numerator, v.denominator] for k, v in fr.items()]}


class Recorder:
    def __init__(self):
        self.args = None

    def __deepcopy__(self, memo):
        return self

    def multivariate_normal(self, mean, cov, size=None, **k):
        self.args = (np.array(mean, dtype=float), np.array(cov, dtype=float))
        n = 1 if size is None else int(size)
        return np.array([np.array(mean, dtype=float) + 0.25 * (i + 1) for i in range(n)])


def run_dyne(case):
    d = case["d"]
    hbar = case["hbar"]
    cfg = pq.Config(hbar=hbar, seed_sequence=1)
    sim = pq.GaussianSimulator(d=d, config=cfg)
    state = sim.create_initial_state()
    state.xpxp_covariance_matrix = np.array(case["sigma"], dtype=float)
    state.xpxp_mean_vector = np.array(case["mu"], dtype=float)
    modes = tuple(case["modes"])
    with pq.Program() as prog:
        if case["kind"] == "generaldyne":
            pq.Q(*modes) | pq.GeneraldyneMeasurement(np.array(case["sm"], dtype=float))
        elif case["kind"] == "heterodyne":
            pq.Q(*modes) | pq.HeterodyneMeasurement()
        else:
            pq.Q(*modes) | pq.HomodyneMeasurement(phi=case["phi"], z=case["z"])
    rec = Recorder()
    sim.config.rng = rec
    state._config.rng = rec
    res = sim.execute(prog, shots=case.get("shots", 2), initial_state=state)
    mean, cov = rec.args
    return {"id": case["id"], "mean": fl(mean), "cov": fl(cov), "dim": int(len(mean)),
            "entries": [len(s) for s in res.samples], "nsamples": len(res.samples),
            "first": fl(res.samples[0])}


# ----------------------------------------------------------------------------- exact law search
def passive_program(case, with_measurement=True, with_postselect=True):
    occ = case["input"]
    U = cmat(case["U"])
    with pq.Program() as prog:
        if case.get("overlap") is not None:
            pq.Q(all) | pq.DistinguishableNumberState(occ, particle_overlap=case["overlap"])
        else:
            pq.Q(all) | pq.NumberState(occ)
        pq.Q(all) | pq.Interferometer(U)
        if case.get("eta") is not None:
            pq.Q(all) | pq.UniformLoss(transmissivity=case["eta"])
        if case.get("loss") is not None:
            for m, t in enumerate(case["loss"]):
                pq.Q(m) | pq.Loss(transmissivity=t)
        if with_postselect and case.get("ps_modes"):
            pq.Q(*case["ps_modes"]) | pq.PostSelectPhotons(photon_counts=tuple(case["ps_photons"]))
        if with_measurement:
            if case.get("detector") is not None:
                meas = pq.ImperfectParticleNumberMeasurement(
                    detector_efficiency_matrix=np.array(case["detector"], dtype=float))
            else:
                meas = pq.ParticleNumberMeasurement()
            if case.get("measure") is not None:
                pq.Q(*case["measure"]) | meas
            else:
                pq.Q(all) | meas
    return prog


def run_law(case):
    import time
    t0 = time.time()
    d = len(case["input"])
    n = int(sum(case["input"]))
    res = {"id": case["id"]}
    cfg = pq.Config(seed_sequence=5, cutoff=n + 1, max_sample_generation_trials=case.get("trials", 1))
    sim = pq.PassiveSimulator(d=d, config=cfg)
    # exact reference from the state's own probability function, without the post-selection
    try:
        st = sim.execute(passive_program(case, False, False)).state
        ref = st.fock_probabilities_map
        res["reference"] = [[[int(x) for x in k], float(v)] for k, v in ref.items() if abs(v) > 1e-15]
    except Exception as e:  # noqa: BLE001
        res["reference_error"] = type(e).__name__ + ": " + str(e)[:200]
    if case.get("detector") is not None:
        # the exact branch weights of the same program (shots=None)
        try:
            r = pq.PassiveSimulator(d=d, config=cfg.copy()).execute(passive_program(case), shots=None)
            acc = {}
            for b in r.branches:   # several branches (different post-measurement states) may share an outcome
                k = tuple(int(x) for x in b.outcome)
                acc[k] = acc.get(k, 0.0) + float(b.frequency)
            res["exact_branches"] = [[list(k), v] for k, v in acc.items()]
        except Exception as e:  # noqa: BLE001
            res["exact_branches_error"] = type(e).__name__ + ": " + str(e)[:200]

    def make_run(shots):
        def run_once(rng):
            np.random.default_rng = lambda *a, **k: rng
            try:
                sim2 = pq.PassiveSimulator(d=d, config=cfg.copy())
                sim2.config.rng = rng
                try:
                    # a fresh program every time: an execution that raises may leave the
                    # instructions' modes remapped
                    r = sim2.execute(passive_program(case), shots=shots)
                except InvalidSimulation:
                    return "rejected"
                smp = [tuple(int(x) for x in s_) for s_ in r.samples]
                return smp[0] if shots == 1 else tuple(sorted(smp))
            finally:
                np.random.default_rng = REAL_DEFAULT_RNG
        return run_once

    try:
        law, leaves = enumerate_law(make_run(1))
        res["law"] = [[("rejected" if k == "rejected" else list(k)), v] for k, v in law.items()]
        res["leaves"] = leaves
        shots = case.get("shots", 1)
        if shots > 1 and leaves ** shots <= case.get("max_joint_leaves", 4000):
            law2, leaves2 = enumerate_law(make_run(shots), limit=case.get("max_joint_leaves", 4000) * 2)
            res["law_multi"] = [[("rejected" if k == "rejected" else [list(x) for x in k]), v] for k, v in law2.items()]
            res["leaves"] += leaves2
            res["shots"] = shots
    except Exception as e:  # noqa: BLE001
        res["law_error"] = type(e).__name__ + ": " + str(e)[:300]
    res["seconds"] = round(time.time() - t0, 2)
    return res


# ----------------------------------------------------------------------------- imperfect detection
def run_imperfect(case):
    from piquasso._simulators import simulation_steps as IS
    P = np.array(case["detector"], dtype=float)
    actual = tuple(case["actual"])
    mult = case["multiplicity"]
    res = {"id": case["id"]}
    try:
        exact = IS._get_detected_outcome_probabilities(actual, P)
        res["exact"] = [[list(k), v.numerator, v.denominator] for k, v in exact.items()]
    except Exception as e:  # noqa: BLE001
        res["exact_error"] = type(e).__name__
    rng = ScriptRng(case["draws"])
    try:
        got = IS._sample_detected_outcomes(actual, mult, P, rng)
        res["scripted"] = [[list(k), int(v)] for k, v in got.items()]
        res["calls"] = [[c[1], c[2], c[3]] for c in rng.calls]
    except Exception as e:  # noqa: BLE001
        res["scripted_error"] = type(e).__name__ + ": " + str(e)[:200]

    def run_once(rng2):
        got2 = IS._sample_detected_outcomes(actual, mult, P, rng2)
        return tuple(sorted((tuple(k), int(v)) for k, v in got2.items()))

    try:
        law, leaves = enumerate_law(run_once, limit=20000)
        res["law"] = [[[[list(k), v] for k, v in key], pr] for key, pr in law.items()]
        res["leaves"] = leaves
    except Exception as e:  # noqa: BLE001
        res["law_error"] = type(e).__name__ + ": " + str(e)[:200]
    return res


# ----------------------------------------------------------------------------- two measurements in a row
class MultiRecorder:
    def __init__(self):
        self.calls = []

    def __deepcopy__(self, memo):
        return self

    def multivariate_normal(self, mean, cov, size=None, **k):
        mean = np.array(mean, dtype=float)
        n = 1 if size is None else int(size)
        out = np.array([mean + 0.25 * (i + 1) * (1 + np.arange(len(mean))) for i in range(n)])
        self.calls.append({"mean": fl(mean), "cov": fl(cov), "dim": int(len(mean)), "returned": fl(out[0])})
        return out


def dyne_instruction(spec):
    if spec["kind"] == "generaldyne":
        return pq.GeneraldyneMeasurement(np.array(spec["sm"], dtype=float))
    if spec["kind"] == "heterodyne":
        return pq.HeterodyneMeasurement()
    return pq.HomodyneMeasurement(phi=spec["phi"], z=spec["z"])


def run_dyne2(case):
    d = case["d"]
    cfg = pq.Config(hbar=case["hbar"], seed_sequence=1)
    sim = pq.GaussianSimulator(d=d, config=cfg)
    state = sim.create_initial_state()
    state.xpxp_covariance_matrix = np.array(case["sigma"], dtype=float)
    state.xpxp_mean_vector = np.array(case["mu"], dtype=float)
    with pq.Program() as prog:
        for spec in case["steps"]:
            pq.Q(*spec["modes"]) | dyne_instruction(spec)
    rec = MultiRecorder()
    sim.config.rng = rec
    state._config.rng = rec
    res = {"id": case["id"]}
    try:
        r = sim.execute(prog, shots=1, initial_state=state)
        res["calls"] = rec.calls
        res["sample"] = fl(r.samples[0])
    except Exception as e:  # noqa: BLE001
        res["error"] = type(e).__name__ + ": " + str(e)[:300]
        res["calls"] = rec.calls
    return res


def main():
    req = json.load(sys.stdin)
    import time
    out = {"file": pq.__file__, "seconds": {}}
    t = [time.time()]

    def lap(name):
        out["seconds"][name] = round(time.time() - t[0], 1)
        t[0] = time.time()
    out["postselect"] = [run_postselect(c) for c in req.get("postselect", [])]
    lap("postselect")
    out["trunc"] = [run_trunc(c) for c in req.get("trunc", [])]
    lap("trunc")
    out["dist"] = [run_dist(c) for c in req.get("dist", [])]
    lap("dist")
    out["counts"] = [run_counts(c) for c in req.get("counts", [])]
    lap("counts")
    out["dyne"] = [run_dyne(c) for c in req.get("dyne", [])]
    lap("dyne")
    out["law"] = [run_law(c) for c in req.get("law", [])]
    lap("law")
    out["imperfect"] = [run_imperfect(c) for c in req.get("imperfect", [])]
    lap("imperfect")
    out["dyne2"] = [run_dyne2(c) for c in req.get("dyne2", [])]
    lap("dyne2")
    print(json.dumps(out))


main()
