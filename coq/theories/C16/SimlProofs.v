(* C16 - nb_calculate_state_index_matrix_list: the loops with the shared buffer compute the
   entry formula, for every d, cutoff and mode < d. *)
From Coq Require Import ZArith List Bool Lia.
From PV Require Import Comb.FockModel Comb.FockProofs C16.IndexModel C16.IndexProofs.
Import ListNotations.
Open Scope Z_scope.

Section Siml.
  Variables (d mode : nat).
  Hypothesis Hm : (mode < d)%nat.

  Lemma single_ok : modes_ok d [mode].
  Proof.
    split.
    - constructor; [intros []|constructor].
    - constructor; [exact Hm|constructor].
  Qed.

  Let aux := aux_modes d [mode].

  Lemma siml_j_loop_spec w : forall js buf,
    length w = (d - 1)%nat -> length buf = d -> gz buf aux = w ->
    snd (siml_j_loop mode buf js) = map (fun j => fock_index (merge d [mode] [Z.of_nat j] w)) js /\
    length (fst (siml_j_loop mode buf js)) = d /\
    gz (fst (siml_j_loop mode buf js)) aux = w.
  Proof.
    intros js. induction js as [|j js IH]; intros buf Hw Hb Hg; [simpl; auto|].
    cbn [siml_j_loop].
    change (upd buf mode (Z.of_nat j)) with (scatter buf [mode] [Z.of_nat j]).
    assert (E : scatter buf [mode] [Z.of_nat j] = merge d [mode] [Z.of_nat j] w).
    { rewrite <- (merge_buf d [mode] single_ok buf) by (auto; simpl; lia).
      fold aux. rewrite <- Hg. unfold gz. now rewrite scatter_gather_id. }
    destruct (IH (scatter buf [mode] [Z.of_nat j])) as [I1 [I2 I3]]; auto.
    - now rewrite scatter_length.
    - unfold gz. rewrite gather_scatter_other; [exact Hg|]. apply (aux_disjoint d [mode]).
    - destruct (siml_j_loop mode (scatter buf [mode] [Z.of_nat j]) js) as [b col]. simpl in *.
      split; [|auto]. now rewrite E, I1.
  Qed.

  Lemma siml_i_loop_spec limit : forall ws buf,
    (forall w, In w ws -> length w = (d - 1)%nat) -> length buf = d ->
    snd (siml_i_loop mode aux buf limit ws)
      = map (fun w => map (fun j => fock_index (merge d [mode] [Z.of_nat j] w)) (seq 0 limit)) ws /\
    length (fst (siml_i_loop mode aux buf limit ws)) = d.
  Proof.
    intros ws. induction ws as [|w ws IH]; intros buf Hws Hb; [simpl; auto|].
    cbn [siml_i_loop].
    assert (Hw : length w = (d - 1)%nat) by (apply Hws; now left).
    assert (Hws' : forall w', In w' ws -> length w' = (d - 1)%nat)
      by (intros w' Hw'; apply Hws; now right).
    assert (Hb1 : length (scatter buf aux w) = d) by (now rewrite scatter_length).
    assert (Hg1 : gz (scatter buf aux w) aux = w).
    { unfold gz. apply gather_scatter_same.
      - apply aux_modes_NoDup.
      - rewrite Hw. symmetry. unfold aux. rewrite (aux_modes_length d [mode] single_ok). reflexivity.
      - rewrite Hb. apply aux_modes_lt. }
    destruct (siml_j_loop_spec w (seq 0 limit) (scatter buf aux w) Hw Hb1 Hg1) as [C1 [C2 C3]].
    destruct (siml_j_loop mode (scatter buf aux w) (seq 0 limit)) as [b2 col]. simpl in C1, C2, C3.
    destruct (IH b2 Hws' C2) as [I1 I2].
    destruct (siml_i_loop mode aux b2 limit ws) as [b cols]. simpl in *.
    split; [|auto]. now rewrite C1, I1.
  Qed.

  Lemma siml_n_loop_spec c : forall ns buf,
    (forall n, In n ns -> (n < c)%nat) -> length buf = d ->
    siml_n_loop mode aux d c buf ns
    = map (fun n => map (fun w => map (fun j => fock_index (merge d [mode] [Z.of_nat j] w))
                                      (seq 0 (c - n))) (sector (d - 1) n)) ns.
  Proof.
    intros ns. induction ns as [|n ns IH]; intros buf Hns Hb; [reflexivity|].
    cbn [siml_n_loop map].
    assert (Hn : (n < c)%nat) by (apply Hns; now left).
    rewrite slice_sector by assumption.
    destruct (siml_i_loop_spec (c - n) (sector (d - 1) n) buf
                (fun w => sector_len (d - 1) n w) Hb) as [M1 M2].
    destruct (siml_i_loop mode aux buf (c - n) (sector (d - 1) n)) as [b m].
    simpl in M1, M2. subst m. f_equal. apply IH; [|exact M2].
    intros n' Hn'. apply Hns. now right.
  Qed.

  Theorem state_index_matrix_list_entry c :
    state_index_matrix_list d c mode = state_index_matrix_list_spec d c mode.
  Proof.
    unfold state_index_matrix_list, state_index_matrix_list_spec. fold aux.
    apply siml_n_loop_spec.
    - intros n Hn. apply in_seq in Hn. lia.
    - apply zeros_length.
  Qed.
End Siml.
