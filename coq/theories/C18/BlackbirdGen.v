(* GENERATED on every run by harness/props/c18.py from piquasso/core/_blackbird.py
   (_BB_TO_PQ_MAP), inspect.signature of the mapped classes and the params dictionary of a
   sentinel-instantiated object.  Do not edit. *)
From Coq Require Import String List ZArith.
From PV Require Import C18.BlackbirdModel.
Import ListNotations.
Open Scope string_scope.

Definition bb_table : list bb_row := [
  mkRow "Dgate" "Displacement" ["r"; "phi"] [false; true] [("r", 0%nat); ("phi", 1%nat)] (Some 1%Z);
  mkRow "Xgate" "PositionDisplacement" ["x"] [false] [("x", 0%nat)] (Some 1%Z);
  mkRow "Zgate" "MomentumDisplacement" ["p"] [false] [("p", 0%nat)] (Some 1%Z);
  mkRow "Sgate" "Squeezing" ["r"; "phi"] [false; true] [("r", 0%nat); ("phi", 1%nat)] (Some 1%Z);
  mkRow "Pgate" "QuadraticPhase" ["s"] [false] [("s", 0%nat)] (Some 1%Z);
  mkRow "Kgate" "Kerr" ["xi"] [false] [("xi", 0%nat)] (Some 1%Z);
  mkRow "Rgate" "Phaseshifter" ["phi"] [false] [("phi", 0%nat)] (Some 1%Z);
  mkRow "BSgate" "Beamsplitter" ["theta"; "phi"] [true; true] [("theta", 0%nat); ("phi", 1%nat)] (Some 2%Z);
  mkRow "MZgate" "MachZehnder" ["int_"; "ext"] [false; false] [("int_", 0%nat); ("ext", 1%nat)] (Some 2%Z);
  mkRow "S2gate" "Squeezing2" ["r"; "phi"] [false; true] [("r", 0%nat); ("phi", 1%nat)] (Some 2%Z);
  mkRow "CXgate" "ControlledX" ["s"] [false] [("s", 0%nat)] (Some 2%Z);
  mkRow "CZgate" "ControlledZ" ["s"] [false] [("s", 0%nat)] (Some 2%Z);
  mkRow "CKgate" "CrossKerr" ["xi"] [false] [("xi", 0%nat)] (Some 2%Z);
  mkRow "Vgate" "CubicPhase" ["gamma"] [false] [("gamma", 0%nat)] (Some 1%Z);
  mkRow "Fouriergate" "Fourier" [] [] [] (Some 1%Z)
].

Definition all_instruction_classes : list string := ["Annihilate"; "Attenuator"; "BatchApply"; "BatchInstruction"; "BatchPrepare"; "Beamsplitter"; "Beamsplitter5050"; "ControlledPhase"; "ControlledX"; "ControlledZ"; "Covariance"; "Create"; "CrossKerr"; "CubicPhase"; "DensityMatrix"; "DeterministicGaussianChannel"; "Displacement"; "DistinguishableNumberState"; "FockStateVector"; "Fourier"; "Gate"; "GaussianHamiltonian"; "GaussianTransform"; "GeneraldyneMeasurement"; "Graph"; "HeterodyneMeasurement"; "HomodyneMeasurement"; "ImperfectParticleNumberMeasurement"; "ImperfectPostSelectPhotons"; "Interferometer"; "IsingXX"; "Kerr"; "Loss"; "LossyInterferometer"; "MachZehnder"; "Mean"; "Measurement"; "MomentumDisplacement"; "NumberState"; "ParentHamiltonian"; "ParticleNumberMeasurement"; "Phaseshifter"; "PositionDisplacement"; "PostSelectPhotons"; "Preparation"; "QuadraticPhase"; "SNAP"; "Squeezing"; "Squeezing2"; "StateVector"; "Thermal"; "ThresholdMeasurement"; "UniformLoss"; "Vacuum"; "_ActiveLinearGate"; "_PassiveLinearGate"].
