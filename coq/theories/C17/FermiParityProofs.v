(* C17 - which basis vectors the non-passive gates connect: the Ising-XX rows (and the
   two-mode-squeezing pairs, rows 0 and 3 of the same table) pair vectors that differ in exactly
   the two gate modes, so the particle number changes by -2, 0 or 2; controlled phase is diagonal. *)
From Coq Require Import ZArith List Bool Lia ZifyBool.
From PV Require Import Comb.FockModel Comb.FermiModel Comb.FermiProofs C17.FermiRepModel.
Import ListNotations.
Open Scope Z_scope.

Lemma nth_upd {T} (l : list T) : forall i j x d,
  nth j (upd l i x) d = if (Nat.eqb j i && Nat.ltb i (length l))%bool then x else nth j l d.
Proof.
  induction l as [|a l IH]; intros i j x d.
  - cbn [upd length]. destruct (Nat.eqb j i); reflexivity.
  - destruct i as [|i]; destruct j as [|j]; cbn [upd nth length]; try reflexivity.
    rewrite IH. change (Nat.eqb (S j) (S i)) with (Nat.eqb j i).
    change (Nat.ltb (S i) (S (length l))) with (Nat.ltb i (length l)). reflexivity.
Qed.

Lemma upd_length {T} (l : list T) : forall i x, length (upd l i x) = length l.
Proof.
  induction l as [|a l IH]; intros i x; [reflexivity|].
  destruct i; cbn [upd length]; [reflexivity|]. now rewrite IH.
Qed.

Lemma zupd_length {T} (l : list T) i x : length (zupd l i x) = length l.
Proof. unfold zupd. destruct (i <? 0); [reflexivity|apply upd_length]. Qed.

Lemma sumZ_upd (l : list Z) : forall i x, (i < length l)%nat ->
  sumZ (upd l i x) = sumZ l - nth i l 0 + x.
Proof.
  induction l as [|a l IH]; intros i x Hi; cbn [length] in Hi; [lia|].
  destruct i as [|i]; cbn [upd nth sumZ fold_right].
  - unfold sumZ. cbn [fold_right]. lia.
  - unfold sumZ in *. cbn [fold_right]. rewrite IH by lia. lia.
Qed.

(* the vector with the two gate modes set to (x, y) *)
Definition set2 (v : list Z) (a b : nat) (x y : Z) : list Z := upd (upd v a x) b y.

Lemma scatter_set2 (v : list Z) (a b : nat) x y :
  scatter v [Z.of_nat a; Z.of_nat b] [x; y] = set2 v a b x y.
Proof.
  unfold set2. cbn [scatter]. unfold zupd.
  assert (Ea : (Z.of_nat a <? 0) = false) by lia. assert (Eb : (Z.of_nat b <? 0) = false) by lia.
  rewrite Ea, Eb, !Nat2Z.id. reflexivity.
Qed.

Lemma set2_other v a b x y i : i <> a -> i <> b -> nth i (set2 v a b x y) 0 = nth i v 0.
Proof.
  intros Ha Hb. unfold set2. rewrite !nth_upd.
  assert (E1 : Nat.eqb i b = false) by (apply Nat.eqb_neq; assumption).
  assert (E2 : Nat.eqb i a = false) by (apply Nat.eqb_neq; assumption).
  rewrite E1, E2. reflexivity.
Qed.

Lemma set2_a v a b x y : a <> b -> (a < length v)%nat -> nth a (set2 v a b x y) 0 = x.
Proof.
  intros Hab Ha. unfold set2. rewrite !nth_upd.
  assert (E1 : Nat.eqb a b = false) by (apply Nat.eqb_neq; assumption).
  rewrite E1, Nat.eqb_refl. cbn [andb].
  assert (E2 : Nat.ltb a (length v) = true) by (apply Nat.ltb_lt; assumption).
  rewrite E2. reflexivity.
Qed.

Lemma set2_b v a b x y : (b < length v)%nat -> nth b (set2 v a b x y) 0 = y.
Proof.
  intros Hb. unfold set2. rewrite nth_upd, upd_length, Nat.eqb_refl.
  assert (E2 : Nat.ltb b (length v) = true) by (apply Nat.ltb_lt; assumption).
  rewrite E2. reflexivity.
Qed.

Lemma set2_sum v a b x y : a <> b -> (a < length v)%nat -> (b < length v)%nat ->
  sumZ (set2 v a b x y) = sumZ v - nth a v 0 - nth b v 0 + x + y.
Proof.
  intros Hab Ha Hb. unfold set2. rewrite sumZ_upd by (rewrite upd_length; assumption).
  rewrite sumZ_upd by assumption. rewrite nth_upd.
  assert (E1 : Nat.eqb b a = false) by (apply Nat.eqb_neq; lia).
  rewrite E1. cbn [andb]. lia.
Qed.

(* the rows of the Ising-XX table: entry j of a row is the index of the vector with the two
   modes set to ising_rows[j]; the gate mixes entry j with entry 3-j (np.flip). *)
Definition row_vector (d : nat) (a b : nat) (aux : list Z) (j : nat) : list Z :=
  full_occ d [Z.of_nat a; Z.of_nat b] (nth j ising_rows []) aux.

Lemma ising_indices_row d cutoff a b :
  ising_indices d cutoff [Z.of_nat a; Z.of_nat b] =
  map (fun aux => map (fun j => f_index (row_vector d a b aux j)) (seq 0 4))
      (sq_walk (d - 2) (f_cutoff_dim (Z.of_nat d - 2) cutoff)).
Proof. reflexivity. Qed.

Lemma cphase_indices_row d cutoff a b :
  cphase_indices d cutoff [Z.of_nat a; Z.of_nat b] =
  map (fun aux => f_index (row_vector d a b aux 3))
      (sq_walk (d - 2) (f_cutoff_dim (Z.of_nat d - 2) cutoff)).
Proof. reflexivity. Qed.

Definition base_vector (d a b : nat) (aux : list Z) : list Z :=
  scatter (repeat 0 d) (aux_modes d [Z.of_nat a; Z.of_nat b]) aux.

Lemma scatter_length {T} : forall (ps : list Z) (v xs : list T),
  length (scatter v ps xs) = length v.
Proof.
  induction ps as [|p ps IH]; intros v xs; [reflexivity|].
  destruct xs as [|x xs]; [reflexivity|]. cbn [scatter]. rewrite IH. apply zupd_length.
Qed.

Lemma base_vector_length d a b aux : length (base_vector d a b aux) = d.
Proof. unfold base_vector. rewrite scatter_length. apply repeat_length. Qed.

Lemma row_vector_set2 d a b aux j : (j < 4)%nat ->
  row_vector d a b aux j =
  set2 (base_vector d a b aux) a b (Z.of_nat (j / 2)) (Z.of_nat (j mod 2)).
Proof.
  intros Hj. unfold row_vector, full_occ. fold (base_vector d a b aux).
  destruct j as [|[|[|[|j]]]]; try lia; cbn [nth ising_rows]; apply scatter_set2.
Qed.

(* every pair of vectors mixed by Ising-XX (entries j and 3-j of a row) - in particular the pair
   (00, 11) used by the two-mode squeezing step - agrees outside the two gate modes, is
   complementary on them, and so has particle numbers differing by -2, 0 or 2 *)
Theorem pairs_differ_in_two_modes d a b aux j :
  a <> b -> (a < d)%nat -> (b < d)%nat -> (j < 4)%nat ->
  let v := row_vector d a b aux j in
  let w := row_vector d a b aux (3 - j) in
  (forall i, i <> a -> i <> b -> nth i v 0 = nth i w 0) /\
  nth a v 0 + nth a w 0 = 1 /\ nth b v 0 + nth b w 0 = 1 /\
  (sumZ v - sumZ w = -2 \/ sumZ v - sumZ w = 0 \/ sumZ v - sumZ w = 2).
Proof.
  intros Hab Ha Hb Hj v w. subst v w.
  rewrite !row_vector_set2 by lia.
  pose proof (base_vector_length d a b aux) as HL.
  split; [|split; [|split]].
  - intros i Hia Hib. rewrite !set2_other by assumption. reflexivity.
  - rewrite !set2_a by (try assumption; lia).
    destruct j as [|[|[|[|j]]]]; try lia; reflexivity.
  - rewrite !set2_b by lia.
    destruct j as [|[|[|[|j]]]]; try lia; reflexivity.
  - rewrite !set2_sum by (try assumption; lia).
    destruct j as [|[|[|[|j]]]]; try lia; cbn; lia.
Qed.

Corollary pairs_conserve_parity d a b aux j :
  a <> b -> (a < d)%nat -> (b < d)%nat -> (j < 4)%nat ->
  (sumZ (row_vector d a b aux j)) mod 2 = (sumZ (row_vector d a b aux (3 - j))) mod 2.
Proof.
  intros Hab Ha Hb Hj.
  destruct (pairs_differ_in_two_modes d a b aux j Hab Ha Hb Hj) as [_ [_ [_ H]]].
  cbv zeta in H.
  set (x := sumZ (row_vector d a b aux j)) in *.
  set (y := sumZ (row_vector d a b aux (3 - j))) in *.
  destruct H as [H|[H|H]].
  - replace x with (y + (-1) * 2) by lia. apply Z_mod_plus_full.
  - replace x with y by lia. reflexivity.
  - replace x with (y + 1 * 2) by lia. apply Z_mod_plus_full.
Qed.

(* controlled phase: both gate modes are occupied in every listed vector *)
Theorem cphase_vectors_doubly_occupied d a b aux :
  a <> b -> (a < d)%nat -> (b < d)%nat ->
  nth a (row_vector d a b aux 3) 0 = 1 /\ nth b (row_vector d a b aux 3) 0 = 1.
Proof.
  intros Hab Ha Hb. rewrite row_vector_set2 by lia.
  pose proof (base_vector_length d a b aux) as HL.
  split; [rewrite set2_a by (try assumption; lia)|rewrite set2_b by lia]; reflexivity.
Qed.

(* ---------------------------------------------------------------- controlled phase is diagonal *)
Section Diagonal.
Variable A : Type.
Variables (zero : A) (mul : A -> A -> A).

Lemma sget_zupd (st : list A) k x i : 0 <= i ->
  sget A zero (zupd st k x) i = sget A zero st i \/ sget A zero (zupd st k x) i = x /\ i = k.
Proof.
  intros Hi. unfold sget, zupd. destruct (k <? 0) eqn:Ek; [left; reflexivity|].
  rewrite nth_upd. destruct (Nat.eqb (Z.to_nat i) (Z.to_nat k)) eqn:E; cbn [andb].
  - destruct (Nat.ltb (Z.to_nat k) (length st)); [|left; reflexivity].
    right. split; [reflexivity|]. apply Nat.eqb_eq in E. lia.
  - left. reflexivity.
Qed.

(* every amplitude after the controlled-phase step is the old amplitude or e times it:
   the gate connects no two different basis vectors *)
Theorem cphase_diagonal d cutoff modes e psi i : 0 <= i ->
  sget A zero (apply_cphase A zero mul d cutoff modes e psi) i = sget A zero psi i \/
  sget A zero (apply_cphase A zero mul d cutoff modes e psi) i = mul e (sget A zero psi i).
Proof.
  intros Hi. unfold apply_cphase.
  generalize (cphase_indices d (Z.of_nat cutoff) modes) as l.
  assert (G : forall l st,
    (sget A zero st i = sget A zero psi i \/ sget A zero st i = mul e (sget A zero psi i)) ->
    sget A zero (fold_left (fun st0 k => zupd st0 k (mul e (sget A zero psi k))) l st) i
      = sget A zero psi i \/
    sget A zero (fold_left (fun st0 k => zupd st0 k (mul e (sget A zero psi k))) l st) i
      = mul e (sget A zero psi i)).
  { induction l as [|k l IH]; intros st H; [exact H|].
    cbn [fold_left]. apply IH.
    destruct (sget_zupd st k (mul e (sget A zero psi k)) i Hi) as [E|[E ->]].
    - rewrite E. exact H.
    - right. exact E. }
  intros l. apply G. left. reflexivity.
Qed.
End Diagonal.
