(* C13 — the documented constraints on instruction parameters that are pure functions of the
   parameter values (piquasso/instructions/*.py:_validate, _math/validations.py, and the
   checks at the top of the Fock simulation steps).  Definitions only.  Exact rationals. *)
From Coq Require Import ZArith QArith List Bool.
Import ListNotations.
Open Scope Z_scope.

Definition qmat := list (list Q).

Inductive pdesc :=
| PFree                                   (* no documented constraint *)
| PSquare (rows cols : Z)                 (* gates.py:Interferometer._validate, is_square *)
| PThermal (ns : list Q)                  (* preparations.py:Thermal._validate, all_real_and_positive *)
| PSymmetric (m : qmat)                   (* gates.py:Graph._validate, is_symmetric *)
| PSymplectic (passive active : qmat)     (* gates.py:GaussianTransform._validate (real matrices) *)
| PNonneg (x : Q)                         (* channels.py:Attenuator._validate *)
| PInterval01 (x : Q)                     (* channels.py:UniformLoss._validate, all_in_interval *)
| PDetector (m : qmat)                    (* measurements.py:ImperfectParticleNumberMeasurement._validate *)
| PSnap (len cutoff : Z)                  (* fock simulation step snap: len(theta) = cutoff *)
| POccupation (occ : list Z) (cutoff : Z). (* state_vector_instruction: sum(occ) < cutoff *)

Definition qle (a b : Q) : bool := Qle_bool a b.
Definition qeq (a b : Q) : bool := Qeq_bool a b.

Fixpoint qsum (l : list Q) : Q := match l with [] => 0%Q | x :: r => (x + qsum r)%Q end.
Fixpoint zsum (l : list Z) : Z := match l with [] => 0 | x :: r => x + zsum r end.

Definition dot (a b : list Q) : Q := qsum (map (fun p => (fst p * snd p)%Q) (combine a b)).

Fixpoint transpose_n (n : nat) (m : qmat) : qmat :=
  match n with
  | O => []
  | S n' => map (fun r => hd 0%Q r) m :: transpose_n n' (map (fun r => tl r) m)
  end.
Definition ncols (m : qmat) : nat := match m with [] => O | r :: _ => length r end.
Definition transpose (m : qmat) : qmat := transpose_n (ncols m) m.

(* a * b^T *)
Definition mul_t (a b : qmat) : qmat := map (fun ra => map (fun rb => dot ra rb) b) a.
Definition msub (a b : qmat) : qmat :=
  map (fun p => map (fun q => (fst q - snd q)%Q) (combine (fst p) (snd p))) (combine a b).
Definition identity (n : nat) : qmat :=
  map (fun i => map (fun j => if Nat.eqb i j then 1%Q else 0%Q) (seq 0 n)) (seq 0 n).
Fixpoint meq (a b : qmat) : bool :=
  match a, b with
  | [], [] => true
  | ra :: a', rb :: b' =>
      (Nat.eqb (length ra) (length rb) &&
       forallb (fun p => qeq (fst p) (snd p)) (combine ra rb)) && meq a' b'
  | _, _ => false
  end.
Definition is_zero (m : qmat) : bool := forallb (forallb (fun x => qeq x 0%Q)) m.
Definition squareb (m : qmat) : bool := forallb (fun r => Nat.eqb (length r) (length m)) m.

(* [[P, A], [conj A, conj P]] K [[P, A], [conj A, conj P]]^dagger = K for real P, A:
   P P^T - A A^T = I  and  P A^T - A P^T = 0 *)
Definition symplectic_real (p a : qmat) : bool :=
  squareb p && squareb a && Nat.eqb (length p) (length a) &&
  meq (msub (mul_t p p) (mul_t a a)) (identity (length p)) &&
  is_zero (msub (mul_t p a) (mul_t a p)).

Definition documented_param_ok (d : pdesc) : bool :=
  match d with
  | PFree => true
  | PSquare r c => r =? c
  | PThermal ns => forallb (fun x => qle 0%Q x) ns
  | PSymmetric m => squareb m && meq m (transpose m)
  | PSymplectic p a => symplectic_real p a
  | PNonneg x => qle 0%Q x
  | PInterval01 x => qle 0%Q x && qle x 1%Q
  | PDetector m =>
      forallb (forallb (fun x => qle 0%Q x)) m &&
      forallb (fun col => qeq (qsum col) 1%Q) (transpose m)
  | PSnap len cutoff => len =? cutoff
  | POccupation occ cutoff => zsum occ <? cutoff
  end.
