(* Gaussian integers Z[i] and the instances of the C01 model that the check runs under
   vm_compute.  A Gaussian-rational matrix U is passed as an integer matrix M with a common
   denominator D (U = M / D); every quantity of the model is homogeneous in U (an n-photon
   amplitude has degree n), so the harness divides by D^n.  Definitions only. *)
From Coq Require Import ZArith List Bool.
From PV Require Import Comb.FockModel C01.PermModel C01.PruneModel.
Import ListNotations.
Local Open Scope nat_scope.

Definition Zi : Type := (Z * Z)%type.
Definition zi0 : Zi := (0, 0)%Z.
Definition zi1 : Zi := (1, 0)%Z.
Definition zi_add (x y : Zi) : Zi := (fst x + fst y, snd x + snd y)%Z.
Definition zi_mul (x y : Zi) : Zi :=
  (fst x * fst y - snd x * snd y, fst x * snd y + snd x * fst y)%Z.
Definition zi_eqb (x y : Zi) : bool := Z.eqb (fst x) (fst y) && Z.eqb (snd x) (snd y).

Definition zM := list (list Zi).

Definition z_perm_mult := perm_mult Zi zi0 zi1 zi_add zi_mul.
Definition z_permL := permL Zi zi0 zi1 zi_add zi_mul.
Definition z_repB := repB Zi zi0 zi1 zi_add zi_mul.
Definition z_slos_amp := slos_amp Zi zi0 zi1 zi_add zi_mul.
Definition z_rep_tables := rep_tables Zi zi0 zi1 zi_add zi_mul.
Definition z_slos_vector := slos_vector Zi zi0 zi1 zi_add zi_mul.
Definition z_program_unitary := program_unitary Zi zi0 zi1 zi_add zi_mul.

(* flat printing for the harness: every Zi as 2 integers  re im *)
Definition zi_flat (x : Zi) : list Z := [fst x; snd x].
Definition zil_flat (l : list Zi) : list Z := concat (map zi_flat l).
Definition zM_flat (m : zM) : list Z := concat (map zil_flat m).

Fixpoint list_eqb' {X} (eqb : X -> X -> bool) (l1 l2 : list X) : bool :=
  match l1, l2 with
  | [], [] => true
  | a :: r1, b :: r2 => eqb a b && list_eqb' eqb r1 r2
  | _, _ => false
  end.
Definition zil_eqb := list_eqb' zi_eqb.

(* column of the n-particle table at the input vector s: the unnormalised amplitudes
   B(t, s) for t over the sector, computed by the Fock-representation recurrence *)
Definition rep_column (T : zM) (s : list nat) : list Zi :=
  map (fun row => nth (sidx s) row zi0) T.

(* model of one passive program on a number state:
   total (scaled) unitary, amplitudes by the representation tables and by SLOS *)
Definition passive_case (d : nat) (s : list nat) (gates : list (list nat * zM * Zi))
  : zM * list Zi * list Zi :=
  let U := z_program_unitary d gates in
  let n := total s in
  let T := nth n (z_rep_tables U d (S n)) [] in
  (U, rep_column T s, z_slos_vector U d s).

(* internal consistency evaluated on every case: rep = SLOS = permanent with multiplicities *)
Definition passive_consistent (d : nat) (s : list nat) (r : zM * list Zi * list Zi) : bool :=
  let '(U, a, b) := r in
  zil_eqb a b &&
  zil_eqb a (map (fun t => z_perm_mult U t s) (sectorN d (total s))).

(* ---- flat outputs of the table-level model for the harness *)
Definition tables_flat (U : zM) (d cutoff : nat) : list Z :=
  concat (map zM_flat (z_rep_tables U d cutoff)).

Definition helpers_sector_flat (d n : nat) : list Z :=
  map Z.of_nat
    (concat (map (fun x : nat * nat * nat => let '(f, tf, m) := x in [f; tf; m]) (helper_first d n)) ++
     concat (map (fun row => concat (map (fun p : nat * nat => [fst p; snd p]) row)) (helper_sub d n))).
Definition helpers_flat (d cutoff : nat) : list Z :=
  concat (map (fun k => helpers_sector_flat d (2 + k)) (seq 0 (cutoff - 2))).

Definition passive_flat (d : nat) (s : list nat) (gates : list (list nat * zM * Zi)) : list Z :=
  let r := passive_case d s gates in
  (if passive_consistent d s r then 1%Z else 0%Z) :: zM_flat (fst (fst r)) ++ zil_flat (snd (fst r)).

(* ---- SLOS with post-selection pruning *)
Definition z_slos_vector_pruned := slos_vector_pruned Zi zi0 zi1 zi_add zi_mul.

Fixpoint lln_eqb (a b : list (list nat)) : bool :=
  match a, b with
  | [], [] => true
  | x :: r, y :: s => list_nat_eqb x y && lln_eqb r s
  | _, _ => false
  end.

(* flag: at every level k <= n the transcription of partitions_bounded_k equals the filtered
   sector (bases_spec); then the pruned vector and the final basis, flat *)
Definition pruned_flat (U : zM) (d : nat) (cons : cons_t) (s : list nat) : list Z :=
  let n := total s in
  let ok := forallb (fun k => lln_eqb (partitions_bounded_k d k cons (n - k)) (bases_spec d cons n k))
                    (seq 0 (S n)) in
  (if ok then 1%Z else 0%Z)
    :: zil_flat (z_slos_vector_pruned U d cons s)
    ++ map Z.of_nat (concat (bases_spec d cons n n)).

Definition pbk_flat (boxes particles : nat) (cons : cons_t) (klimit : nat) : list Z :=
  map Z.of_nat (concat (partitions_bounded_k boxes particles cons klimit)).
