(* C05 - post-selection bookkeeping of PassiveState, for every number of modes, every set of
   post-selected modes and every occupation vector. *)
From Coq Require Import ZArith List Arith Lia Bool Permutation.
From PV Require Import Comb.FockModel Comb.FockProofs C05.PassiveModel.
Import ListNotations.
Local Open Scope nat_scope.

(* ---------------------------------------------------------------- membership, active modes *)
Lemma memb_In x l : memb x l = true <-> In x l.
Proof.
  unfold memb. rewrite existsb_exists. split.
  - intros [y [Hy E]]. apply Nat.eqb_eq in E. now subst.
  - intros H. exists x. split; [exact H | apply Nat.eqb_refl].
Qed.

Lemma memb_false x l : memb x l = false <-> ~ In x l.
Proof.
  rewrite <- memb_In. destruct (memb x l); intuition congruence.
Qed.

Lemma active_In total ps i :
  In i (active_modes total ps) <-> (i < total /\ ~ In i ps).
Proof.
  unfold active_modes. rewrite filter_In, in_seq, negb_true_iff, memb_false.
  split; intros [H1 H2]; split; auto; lia.
Qed.

Lemma NoDup_filter {X} (f : X -> bool) l : NoDup l -> NoDup (filter f l).
Proof.
  induction 1 as [| x l Hx Hl IH]; simpl; [constructor |].
  destruct (f x); [constructor |]; auto.
  rewrite filter_In. tauto.
Qed.

Lemma active_NoDup total ps : NoDup (active_modes total ps).
Proof. apply NoDup_filter, seq_NoDup. Qed.

Lemma NoDup_app_intro {X} (l1 l2 : list X) :
  NoDup l1 -> NoDup l2 -> (forall x, In x l1 -> ~ In x l2) -> NoDup (l1 ++ l2).
Proof.
  induction 1 as [| x l Hx Hl IH]; simpl; intros H2 Hd; [exact H2 |].
  constructor.
  - rewrite in_app_iff. intros [H | H]; [tauto |]. apply (Hd x); auto.
  - apply IH; auto.
Qed.

(* active modes and post-selected modes partition [0, total) *)
Theorem active_ps_partition total ps :
  NoDup ps -> (forall p, In p ps -> p < total) ->
  Permutation (active_modes total ps ++ ps) (seq 0 total).
Proof.
  intros Hnd Hb. apply NoDup_Permutation.
  - apply NoDup_app_intro; [apply active_NoDup | exact Hnd |].
    intros x Hx. apply active_In in Hx. tauto.
  - apply seq_NoDup.
  - intros x. rewrite in_app_iff, active_In, in_seq. split.
    + intros [[H _] | H]; [lia | specialize (Hb x H); lia].
    + intros H. destruct (in_dec Nat.eq_dec x ps); [right | left]; auto. split; [lia | auto].
Qed.

(* ... so the state has  d = total - #post-selected  active modes (state.py:d) *)
Theorem active_length total ps :
  NoDup ps -> (forall p, In p ps -> p < total) ->
  length (active_modes total ps) = d_active total ps /\ length ps <= total.
Proof.
  intros Hnd Hb. pose proof (Permutation_length (active_ps_partition total ps Hnd Hb)) as H.
  rewrite app_length, seq_length in H. unfold d_active. lia.
Qed.

(* ---------------------------------------------------------------- set_nth / scatter *)
Lemma set_nth_length {X} : forall i (v : X) l, length (set_nth i v l) = length l.
Proof. induction i; intros v [| x l]; simpl; auto. Qed.

Lemma set_nth_same {X} : forall i (v d : X) l, i < length l -> nth i (set_nth i v l) d = v.
Proof.
  induction i; intros v d [| x l] H; simpl in *; try lia; auto. apply IHi. lia.
Qed.

Lemma set_nth_other {X} : forall i j (v d : X) l, i <> j -> nth j (set_nth i v l) d = nth j l d.
Proof.
  induction i; intros [| j] v d [| x l] H; simpl; auto; try lia.
Qed.

Lemma scatter_cons i idx v vals base :
  scatter (i :: idx) (v :: vals) base = scatter idx vals (set_nth i v base).
Proof. reflexivity. Qed.

Lemma scatter_length : forall idx vals base, length (scatter idx vals base) = length base.
Proof.
  induction idx as [| i idx IH]; intros [| v vals] base; try reflexivity.
  rewrite scatter_cons, IH. apply set_nth_length.
Qed.

Lemma scatter_nth_out : forall idx vals base j,
  ~ In j idx -> nth j (scatter idx vals base) 0%Z = nth j base 0%Z.
Proof.
  induction idx as [| i idx IH]; intros [| v vals] base j H; try reflexivity.
  rewrite scatter_cons, IH by (simpl in H; tauto).
  apply set_nth_other. simpl in H. intros E. apply H. now left.
Qed.

Lemma scatter_nth_in : forall idx vals base k,
  NoDup idx -> length idx = length vals -> (forall i, In i idx -> i < length base) ->
  k < length idx ->
  nth (nth k idx 0) (scatter idx vals base) 0%Z = nth k vals 0%Z.
Proof.
  induction idx as [| i idx IH]; intros [| v vals] base k Hnd Hlen Hb Hk; simpl in Hlen, Hk; try lia.
  inversion Hnd as [| ? ? Hi Hnd']; subst.
  rewrite scatter_cons. destruct k as [| k]; simpl nth.
  - rewrite scatter_nth_out by exact Hi. apply set_nth_same. apply Hb. now left.
  - apply IH; auto; try lia.
    intros j Hj. rewrite set_nth_length. apply Hb. now right.
Qed.

Lemma nth_repeat0 : forall n j, nth j (repeat 0%Z n) 0%Z = 0%Z.
Proof. induction n; intros [| j]; simpl; auto. Qed.

(* ---------------------------------------------------------------- assembling / deleting *)
Definition wf_dict (total : nat) (dct : psdict) : Prop :=
  NoDup (ps_modes dct) /\ (forall p, In p (ps_modes dct) -> p < total).

Lemma ps_lengths dct : length (ps_modes dct) = length (ps_photons dct).
Proof. unfold ps_modes, ps_photons. now rewrite !map_length. Qed.

Lemma full_occupation_length total dct occ : length (full_occupation total dct occ) = total.
Proof. unfold full_occupation. now rewrite !scatter_length, repeat_length. Qed.

Lemma full_occupation_active total dct occ k :
  wf_dict total dct -> length occ = d_active total (ps_modes dct) ->
  k < length occ ->
  nth (nth k (active_modes total (ps_modes dct)) 0) (full_occupation total dct occ) 0%Z = nth k occ 0%Z.
Proof.
  intros [Hnd Hb] Hlen Hk. unfold full_occupation.
  destruct (active_length total _ Hnd Hb) as [Hal _].
  assert (Hin : In (nth k (active_modes total (ps_modes dct)) 0) (active_modes total (ps_modes dct))).
  { apply nth_In. lia. }
  rewrite scatter_nth_out by (apply active_In in Hin; tauto).
  apply scatter_nth_in.
  - apply active_NoDup.
  - lia.
  - intros i Hi. rewrite repeat_length. apply active_In in Hi. tauto.
  - lia.
Qed.

Lemma full_occupation_ps total dct occ k :
  wf_dict total dct -> k < length (ps_modes dct) ->
  nth (nth k (ps_modes dct) 0) (full_occupation total dct occ) 0%Z = nth k (ps_photons dct) 0%Z.
Proof.
  intros [Hnd Hb] Hk. unfold full_occupation. apply scatter_nth_in; auto.
  - apply ps_lengths.
  - intros i Hi. rewrite scatter_length, repeat_length. auto.
Qed.

Lemma map_nth_seq {X} (d : X) : forall l, map (fun i => nth i l d) (seq 0 (length l)) = l.
Proof.
  intros l. apply (nth_ext _ _ d d).
  - now rewrite map_length, seq_length.
  - intros n Hn. rewrite map_length, seq_length in Hn.
    rewrite (nth_indep _ d (nth 0 l d)) by (now rewrite map_length, seq_length).
    rewrite (map_nth (fun i => nth i l d)), seq_nth by exact Hn. reflexivity.
Qed.

(* assembling the full occupation vector, then deleting the post-selected coordinates,
   gives back the active occupation; the post-selected coordinates carry the post-selected
   photon numbers; the vector has one entry per mode of the interferometer *)
Theorem assemble_then_delete total dct occ :
  wf_dict total dct -> length occ = d_active total (ps_modes dct) ->
  length (full_occupation total dct occ) = total /\
  delete_coords (ps_modes dct) (full_occupation total dct occ) = occ /\
  map (fun p => nth p (full_occupation total dct occ) 0%Z) (ps_modes dct) = ps_photons dct.
Proof.
  intros Hwf Hlen. split; [apply full_occupation_length |]. split.
  - unfold delete_coords. rewrite full_occupation_length.
    destruct Hwf as [Hnd Hb]. destruct (active_length total _ Hnd Hb) as [Hal _].
    apply (nth_ext _ _ 0%Z 0%Z).
    + rewrite map_length. lia.
    + intros k Hk. rewrite map_length in Hk.
      rewrite (nth_indep _ 0%Z (nth 0 (full_occupation total dct occ) 0%Z)) by (now rewrite map_length).
      rewrite (map_nth (fun i => nth i (full_occupation total dct occ) 0%Z)).
      apply full_occupation_active; [split; auto | auto | lia].
  - apply (nth_ext _ _ 0%Z 0%Z).
    + rewrite map_length. apply ps_lengths.
    + intros k Hk. rewrite map_length in Hk.
      rewrite (nth_indep _ 0%Z (nth 0 (full_occupation total dct occ) 0%Z)) by (now rewrite map_length).
      rewrite (map_nth (fun i => nth i (full_occupation total dct occ) 0%Z)).
      apply full_occupation_ps; auto.
Qed.

(* and conversely: a full vector that carries the post-selected photon numbers is rebuilt
   from its active part *)
Theorem delete_then_assemble total dct v :
  wf_dict total dct -> length v = total ->
  map (fun p => nth p v 0%Z) (ps_modes dct) = ps_photons dct ->
  full_occupation total dct (delete_coords (ps_modes dct) v) = v.
Proof.
  intros Hwf Hlen Hps. pose proof Hwf as [Hnd Hb].
  destruct (active_length total _ Hnd Hb) as [Hal _].
  assert (Hdl : length (delete_coords (ps_modes dct) v) = d_active total (ps_modes dct)).
  { unfold delete_coords. rewrite map_length, Hlen. exact Hal. }
  apply (nth_ext _ _ 0%Z 0%Z); [rewrite full_occupation_length; lia |].
  intros j Hj. rewrite full_occupation_length in Hj.
  destruct (in_dec Nat.eq_dec j (ps_modes dct)) as [Hin | Hout].
  - destruct (In_nth _ _ 0 Hin) as [k [Hk Ek]]. rewrite <- Ek.
    rewrite full_occupation_ps by auto.
    rewrite <- Hps.
    rewrite (nth_indep _ 0%Z (nth 0 v 0%Z)) by (now rewrite map_length).
    now rewrite (map_nth (fun p => nth p v 0%Z)).
  - assert (Ha : In j (active_modes total (ps_modes dct))) by (apply active_In; auto).
    destruct (In_nth _ _ 0 Ha) as [k [Hk Ek]]. rewrite <- Ek.
    rewrite full_occupation_active; auto; try lia.
    unfold delete_coords. rewrite Hlen.
    rewrite (nth_indep _ 0%Z (nth 0 v 0%Z)) by (rewrite map_length; lia).
    now rewrite (map_nth (fun i => nth i v 0%Z)).
Qed.

(* ---------------------------------------------------------------- _set_postselection *)
Lemma dict_set_new k v dct : ~ In k (ps_modes dct) -> dict_set k v dct = dct ++ [(k, v)].
Proof.
  induction dct as [| [k' v'] r IH]; simpl; intros H; [reflexivity |].
  destruct (Nat.eqb_spec k k'); [exfalso; apply H; now left |].
  f_equal. apply IH. tauto.
Qed.

(* a post-selection step given in the ACTIVE numbering lands on the original modes
   active[m], appended in order; the dictionary stays well formed; the cutoff drops by the
   post-selected photons *)
Theorem set_postselection_spec total dct cutoff modes counts :
  wf_dict total dct -> NoDup modes -> length modes = length counts ->
  (forall m, In m modes -> m < d_active total (ps_modes dct)) ->
  let act := active_modes total (ps_modes dct) in
  let '(dct', cutoff') := set_postselection total dct cutoff modes counts in
  dct' = dct ++ combine (map (fun m => nth m act 0) modes) counts /\
  wf_dict total dct' /\ cutoff' = (cutoff - sumZ counts)%Z.
Proof.
  intros Hwf Hnd Hlen Hb. pose proof Hwf as [Hnd0 Hb0].
  destruct (active_length total _ Hnd0 Hb0) as [Hal _].
  simpl. unfold set_postselection.
  set (act := active_modes total (ps_modes dct)).
  assert (Hgen : forall ms cs d0,
            NoDup ms -> length ms = length cs ->
            (forall m, In m ms -> m < length act) ->
            NoDup (ps_modes d0) ->
            (forall m, In m ms -> ~ In (nth m act 0) (ps_modes d0)) ->
            fold_left (fun dc mc => dict_set (fst mc) (snd mc) dc)
                      (combine (map (fun m => nth m act 0) ms) cs) d0
            = d0 ++ combine (map (fun m => nth m act 0) ms) cs).
  { induction ms as [| m ms IH]; intros [| c cs] d0 Hn Hl Hm Hd Hfresh; simpl in *; try lia;
      try (now rewrite app_nil_r).
    inversion Hn as [| ? ? Hm1 Hn']; subst.
    rewrite dict_set_new by (apply Hfresh; now left).
    rewrite IH; auto.
    - now rewrite <- app_assoc.
    - unfold ps_modes. rewrite map_app. simpl. apply NoDup_app_intro; auto.
      + repeat constructor. simpl. tauto.
      + intros x Hx [E | []]. subst x. apply (Hfresh m); auto.
    - intros m' Hm' Hin. unfold ps_modes in Hin. rewrite map_app, in_app_iff in Hin. simpl in Hin.
      destruct Hin as [Hin | [E | []]].
      + apply (Hfresh m'); auto.
      + (* nth m act = nth m' act with m <> m' contradicts NoDup act *)
        assert (m = m').
        { apply (proj1 (NoDup_nth act 0) (active_NoDup total (ps_modes dct))); auto. }
        subst. contradiction. }
  split; [| split; [| reflexivity]].
  - apply Hgen; auto.
    + intros m Hm. unfold act; rewrite Hal. now apply Hb.
    + intros m Hm Hin.
      assert (Ha : In (nth m act 0) act) by (apply nth_In; unfold act; rewrite Hal; now apply Hb).
      apply active_In in Ha. tauto.
  - rewrite Hgen; auto.
    + assert (Hkeys : ps_modes (dct ++ combine (map (fun m => nth m act 0) modes) counts)
                      = ps_modes dct ++ map (fun m => nth m act 0) modes).
      { unfold ps_modes. rewrite map_app. f_equal.
        clear - Hlen. revert counts Hlen. induction modes as [| m ms IH]; intros [| c cs] H; simpl in *; try lia; auto.
        f_equal. apply IH. lia. }
      split; rewrite Hkeys.
      * apply NoDup_app_intro; auto.
        -- clear Hgen Hkeys Hlen. induction modes as [| m ms IH]; simpl; [constructor |].
           inversion Hnd as [| ? ? Hm1 Hn']; subst. constructor.
           ++ rewrite in_map_iff. intros [m' [E Hm']].
              assert (m' = m).
              { apply (proj1 (NoDup_nth act 0) (active_NoDup total (ps_modes dct))); auto;
                  unfold act; rewrite Hal; apply Hb; simpl; auto. }
              subst. contradiction.
           ++ apply IH; auto. intros x Hx. apply Hb. now right.
        -- intros x Hx Hin. rewrite in_map_iff in Hin. destruct Hin as [m [E Hm]]. subst x.
           assert (Ha : In (nth m act 0) act) by (apply nth_In; unfold act; rewrite Hal; now apply Hb).
           apply active_In in Ha. tauto.
      * intros p. rewrite in_app_iff, in_map_iff. intros [Hp | [m [E Hm]]]; [now apply Hb0 |].
        subst p.
        assert (Ha : In (nth m act 0) act) by (apply nth_In; unfold act; rewrite Hal; now apply Hb).
        apply active_In in Ha. tauto.
    + intros m Hm. unfold act; rewrite Hal. now apply Hb.
    + intros m Hm Hin.
      assert (Ha : In (nth m act 0) act) by (apply nth_In; unfold act; rewrite Hal; now apply Hb).
      apply active_In in Ha. tauto.
Qed.

(* ---------------------------------------------------------------- the basis handed to the
   probability routine (state.py:fock_probabilities, repaired) *)
Lemma basis_row_length d c row : In row (basis d c) -> length row = d.
Proof. intros H. apply basis_complete in H. tauto. Qed.

Lemma active_nil n : active_modes n [] = seq 0 n.
Proof.
  unfold active_modes, memb. generalize (seq 0 n).
  induction l as [| a l IH]; [reflexivity | simpl in *; now rewrite IH].
Qed.

Lemma delete_coords_nil v : delete_coords [] v = v.
Proof. unfold delete_coords. rewrite active_nil. apply map_nth_seq. Qed.

(* the rows have one entry per mode of the interferometer, carry the post-selected photon
   numbers, and after deleting the post-selected coordinates they are exactly the keys of
   fock_probabilities_map, in order *)
Lemma psb_empty d c pp :
  postselected_fock_basis d c [] pp = Some (basis (d - 0) (Z.to_nat (c - sumZ pp))).
Proof. unfold postselected_fock_basis. simpl. reflexivity. Qed.

Lemma psb_nonempty d c pm pp :
  pm <> [] -> length pm <= d -> (forall m, In m pm -> m < d) ->
  postselected_fock_basis d c pm pp =
  Some (map (fun row => scatter pm pp (scatter (active_modes d pm) row (repeat 0%Z d)))
            (basis (d - length pm) (Z.to_nat (c - sumZ pp)))).
Proof.
  intros Hne Hle Hb. unfold postselected_fock_basis.
  destruct (Nat.ltb_spec d (length pm)) as [Hlt | _]; [lia |].
  destruct pm as [| p0 pm']; [congruence |].
  assert (Hex : existsb (fun m => d <=? m) (p0 :: pm') = false).
  { apply not_true_is_false. intros H. apply existsb_exists in H. destruct H as [m [Hm Hle']].
    apply Nat.leb_le in Hle'. specialize (Hb m Hm). lia. }
  rewrite Hex. reflexivity.
Qed.

Lemma scatter_all : forall l base, length l = length base ->
  scatter (seq 0 (length l)) l base = l.
Proof.
  intros l base Hl. apply (nth_ext _ _ 0%Z 0%Z).
  - now rewrite scatter_length.
  - intros j Hj. rewrite scatter_length in Hj.
    assert (Hs : nth (nth j (seq 0 (length l)) 0) (scatter (seq 0 (length l)) l base) 0%Z
                 = nth j l 0%Z).
    { apply scatter_nth_in.
      + apply seq_NoDup.
      + now rewrite seq_length.
      + intros i Hi. apply in_seq in Hi. lia.
      + rewrite seq_length. lia. }
    rewrite seq_nth in Hs by lia. exact Hs.
Qed.

Theorem fock_probabilities_basis_arity total dct cutoff :
  wf_dict total dct ->
  exists rows,
    fock_probabilities_rows total dct cutoff = Some rows /\
    map (delete_coords (ps_modes dct)) rows = table_keys total dct cutoff /\
    Forall (fun r => length r = total /\
                     map (fun p => nth p r 0%Z) (ps_modes dct) = ps_photons dct) rows /\
    rows = map (full_occupation total dct) (table_keys total dct cutoff).
Proof.
  intros Hwf. pose proof Hwf as [Hnd Hb].
  destruct (active_length total _ Hnd Hb) as [Hal Hle].
  unfold fock_probabilities_rows, table_keys.
  replace (cutoff + sumZ (ps_photons dct))%Z with (cutoff + sumZ (ps_photons dct) - 0)%Z by lia.
  set (ab := basis (d_active total (ps_modes dct)) (Z.to_nat cutoff)).
  assert (Hrows : forall row, In row ab -> length row = d_active total (ps_modes dct)).
  { intros row Hr. eapply basis_row_length. exact Hr. }
  assert (Hfull : forall row, In row ab ->
            length (full_occupation total dct row) = total /\
            delete_coords (ps_modes dct) (full_occupation total dct row) = row /\
            map (fun p => nth p (full_occupation total dct row) 0%Z) (ps_modes dct) = ps_photons dct).
  { intros row Hr. apply assemble_then_delete; auto. }
  exists (map (full_occupation total dct) ab).
  split; [| split; [| split; [| reflexivity]]].
  - destruct dct as [| kv r].
    + rewrite psb_empty. f_equal. unfold ab. cbn [ps_modes ps_photons map sumZ fold_right d_active length].
      replace (cutoff + 0 - 0 - 0)%Z with cutoff by lia.
      rewrite <- (map_id (basis (total - 0) (Z.to_nat cutoff))) at 1.
      apply map_ext_in. intros row Hr. unfold full_occupation.
      cbn [ps_modes ps_photons map]. unfold scatter at 1. cbn [combine fold_left].
      rewrite active_nil.
      pose proof (basis_row_length _ _ _ Hr) as Hl.
      assert (Hl' : length row = total) by (unfold d_active in Hl; simpl in Hl; lia).
      rewrite <- Hl'. symmetry. apply scatter_all. now rewrite repeat_length.
    + rewrite psb_nonempty; auto.
      * f_equal. unfold ab, d_active.
        replace (cutoff + sumZ (ps_photons (kv :: r)) - 0 - sumZ (ps_photons (kv :: r)))%Z with cutoff by lia.
        reflexivity.
      * destruct kv. discriminate.
  - rewrite map_map. rewrite <- (map_id ab) at 2. apply map_ext_in. intros r Hr.
    apply Hfull. exact Hr.
  - apply Forall_forall. intros r Hr. apply in_map_iff in Hr. destruct Hr as [row [E Hrow]]. subst r.
    destruct (Hfull row Hrow) as [H1 [_ H3]]. auto.
Qed.

(* what goes wrong when the routine is handed the ACTIVE number of modes (the defect of the
   unrepaired tree): whenever anything is post-selected, every row it returns is too short
   for the transmission matrix *)
Theorem postselected_basis_active_d_too_short total cutoff pm pp rows :
  pm <> [] ->
  postselected_fock_basis (total - length pm) cutoff pm pp = Some rows ->
  Forall (fun r => length r < total) rows.
Proof.
  intros Hne H. unfold postselected_fock_basis in H.
  destruct (Nat.ltb_spec (total - length pm) (length pm)) as [| Hge]; [discriminate |].
  destruct pm as [| p0 pm']; [congruence |].
  destruct (existsb _ _); [discriminate |]. injection H as <-.
  apply Forall_forall. intros r Hr. apply in_map_iff in Hr. destruct Hr as [row [E _]]. subst r.
  rewrite !scatter_length, repeat_length. simpl in *. lia.
Qed.

(* ---------------------------------------------------------------- map_to_original_modes *)
Definition count_lt (ps : list nat) (x : nat) : nat := length (filter (fun p => p <? x) ps).

Lemma count_lt_app l1 l2 x : count_lt (l1 ++ l2) x = count_lt l1 x + count_lt l2 x.
Proof. unfold count_lt. now rewrite filter_app, app_length. Qed.

Lemma count_lt_all l x : (forall p, In p l -> p < x) -> count_lt l x = length l.
Proof.
  unfold count_lt. induction l as [| a l IH]; simpl; intros H; [reflexivity |].
  destruct (Nat.ltb_spec a x) as [_ | Hge]; [simpl; f_equal; apply IH; auto |].
  specialize (H a (or_introl eq_refl)). lia.
Qed.

Lemma count_lt_perm l l' x : Permutation l l' -> count_lt l x = count_lt l' x.
Proof.
  unfold count_lt. induction 1; simpl; auto.
  - destruct (x0 <? x); simpl; congruence.
  - destruct (x0 <? x), (y <? x); reflexivity.
  - congruence.
Qed.

(* the loop over an increasing list: afterwards r is not post-selected and exactly
   count_lt of the post-selected modes lie below it *)
Definition shift (l : list nat) (m : nat) : nat := fold_left (fun x p => bump p x) l m.

Lemma shift_snoc l p m : shift (l ++ [p]) m = bump p (shift l m).
Proof. unfold shift. now rewrite fold_left_app. Qed.

Inductive increasing : list nat -> Prop :=
| inc_nil : increasing []
| inc_snoc l p : increasing l -> (forall q, In q l -> q < p) -> increasing (l ++ [p]).

Lemma shift_spec l : increasing l -> forall m,
  ~ In (shift l m) l /\ shift l m = m + count_lt l (shift l m).
Proof.
  induction 1 as [| l p Hinc IH Hlt]; intros m.
  - simpl. split; [tauto | unfold count_lt; simpl; lia].
  - rewrite shift_snoc. destruct (IH m) as [Hnot Heq]. set (r := shift l m) in *.
    unfold bump. destruct (Nat.leb_spec p r) as [Hle | Hgt].
    + split.
      * rewrite in_app_iff. simpl. intros [Hin | [E | []]]; [specialize (Hlt _ Hin); lia | lia].
      * rewrite count_lt_app.
        rewrite (count_lt_all l (S r)) by (intros q Hq; specialize (Hlt q Hq); lia).
        rewrite (count_lt_all l r) in Heq by (intros q Hq; specialize (Hlt q Hq); lia).
        unfold count_lt at 1. simpl. destruct (Nat.ltb_spec p (S r)); simpl; lia.
    + split.
      * rewrite in_app_iff. simpl. intros [Hin | [E | []]]; [tauto | lia].
      * rewrite count_lt_app. unfold count_lt at 2. simpl.
        destruct (Nat.ltb_spec p r); simpl; lia.
Qed.

(* insertion sort: a permutation, increasing when there are no duplicates *)
Lemma insert_sorted_perm x l : Permutation (x :: l) (insert_sorted x l).
Proof.
  induction l as [| y l IH]; simpl; [auto |].
  destruct (x <=? y); [auto |].
  eapply perm_trans; [apply perm_swap | apply perm_skip, IH].
Qed.

Lemma sort_nat_perm l : Permutation l (sort_nat l).
Proof.
  induction l as [| x l IH]; simpl; [auto |].
  eapply perm_trans; [apply perm_skip, IH | apply insert_sorted_perm].
Qed.

(* "increasing" from the front: head below everything else *)
Inductive incr_front : list nat -> Prop :=
| incf_nil : incr_front []
| incf_cons x l : incr_front l -> (forall q, In q l -> x < q) -> incr_front (x :: l).

Lemma insert_sorted_incr x l :
  incr_front l -> ~ In x l -> incr_front (insert_sorted x l).
Proof.
  induction 1 as [| y l Hl IH Hy]; intros Hx; simpl.
  - constructor; [constructor | intros q []].
  - destruct (Nat.leb_spec x y) as [Hle | Hgt].
    + constructor; [constructor; auto |].
      intros q [E | Hq]; [subst; simpl in Hx; lia | specialize (Hy q Hq); lia].
    + constructor.
      * apply IH. simpl in Hx. tauto.
      * intros q Hq. apply (Permutation_in _ (Permutation_sym (insert_sorted_perm x l))) in Hq.
        destruct Hq as [E | Hq]; [subst; lia | auto].
Qed.

Lemma sort_nat_incr l : NoDup l -> incr_front (sort_nat l).
Proof.
  induction 1 as [| x l Hx Hl IH]; simpl; [constructor |].
  apply insert_sorted_incr; auto.
  intros Hin. apply Hx. eapply Permutation_in; [apply Permutation_sym, sort_nat_perm | exact Hin].
Qed.

Lemma incr_front_increasing l : incr_front l -> increasing l.
Proof.
  (* induction on the length, peeling the last element *)
  remember (length l) as n eqn:Hn. revert l Hn.
  induction n as [| n IH]; intros l Hn Hl.
  - destruct l; [constructor | discriminate].
  - destruct (@exists_last _ l) as [l' [p E]]; [destruct l; simpl in *; congruence |]. subst l.
    rewrite app_length in Hn. simpl in Hn.
    assert (Hpre : incr_front l' /\ forall q, In q l' -> q < p).
    { clear IH Hn. induction l' as [| y l' IHl]; simpl in *.
      - split; [constructor | intros q []].
      - inversion Hl as [| ? ? Hl' Hy]; subst. destruct (IHl Hl') as [H1 H2].
        split.
        + constructor; auto. intros q Hq. apply Hy. rewrite in_app_iff. now left.
        + intros q [E | Hq]; [subst; apply Hy; rewrite in_app_iff; right; now left | auto]. }
    destruct Hpre as [H1 H2]. constructor; auto. apply IH; auto. lia.
Qed.

(* length of the active list below x, and the position of a free mode in it *)
Lemma active_S total ps :
  active_modes (S total) ps = active_modes total ps ++ (if memb total ps then [] else [total]).
Proof.
  unfold active_modes. rewrite seq_S, filter_app. simpl. now destruct (memb total ps).
Qed.

Lemma count_lt_S ps x : NoDup ps ->
  count_lt ps (S x) = count_lt ps x + (if memb x ps then 1 else 0).
Proof.
  unfold count_lt. induction 1 as [| a l Ha Hl IH]; simpl; [reflexivity |].
  destruct (Nat.ltb_spec a (S x)), (Nat.ltb_spec a x); simpl; try lia.
  - rewrite IH. destruct (Nat.eqb_spec x a); [lia |]. simpl. lia.
  - rewrite IH. assert (x = a) by lia. subst. rewrite Nat.eqb_refl. simpl.
    apply memb_false in Ha. rewrite Ha. lia.
  - rewrite IH. destruct (Nat.eqb_spec x a); [lia |]. reflexivity.
Qed.

Lemma count_lt_le ps x : NoDup ps -> count_lt ps x <= x.
Proof.
  intros Hnd. induction x as [| x IH].
  - unfold count_lt. clear Hnd. induction ps as [| a l IHl]; simpl; auto.
  - rewrite count_lt_S by exact Hnd. destruct (memb x ps); lia.
Qed.

Lemma active_prefix_length total ps : NoDup ps ->
  length (active_modes total ps) = total - count_lt ps total.
Proof.
  intros Hnd. induction total as [| t IH].
  - reflexivity.
  - rewrite active_S, app_length, IH, count_lt_S by exact Hnd.
    pose proof (count_lt_le ps t Hnd). destruct (memb t ps); cbn [length]; lia.
Qed.

Lemma active_nth_free total ps x : NoDup ps -> x < total -> ~ In x ps ->
  nth (x - count_lt ps x) (active_modes total ps) 0 = x.
Proof.
  intros Hnd. induction total as [| t IH]; intros Hx Hout; [lia |].
  rewrite active_S. destruct (Nat.eq_dec x t) as [-> | Hne].
  - apply memb_false in Hout. rewrite Hout.
    rewrite app_nth2; rewrite active_prefix_length by exact Hnd; [| lia].
    now rewrite Nat.sub_diag.
  - rewrite app_nth1; [apply IH; auto; lia |].
    rewrite active_prefix_length by exact Hnd.
    (* strictly more free modes below t than below x, because x itself is free *)
    assert (Hmono : forall y, x < y -> count_lt ps y - count_lt ps x <= y - x - 1 /\ count_lt ps x <= count_lt ps y).
    { induction y as [| y IHy]; [lia |]. intros Hy.
      rewrite count_lt_S by exact Hnd.
      destruct (Nat.eq_dec x y) as [-> | Hxy].
      - apply memb_false in Hout. rewrite Hout. lia.
      - destruct IHy as [H1 H2]; [lia |]. destruct (memb y ps); lia. }
    pose proof (count_lt_le ps x Hnd). destruct (Hmono t) as [H1 H2]; lia.
Qed.

Lemma count_lt_length ps x : count_lt ps x <= length ps.
Proof.
  unfold count_lt. induction ps as [| a l IH]; cbn [filter length]; [lia |].
  destruct (a <? x); cbn [length]; lia.
Qed.

(* mapping an active position back to the original mode label inverts the active numbering *)
Theorem map_to_original_inverts_active total ps m :
  NoDup ps -> (forall p, In p ps -> p < total) -> m < d_active total ps ->
  map_to_original [m] ps = [nth m (active_modes total ps) 0].
Proof.
  intros Hnd Hb Hm. unfold map_to_original.
  assert (Hfold : forall l ms, fold_left (fun ms p => map (bump p) ms) l ms = map (shift l) ms).
  { induction l as [| p l IH]; intros ms; simpl.
    - unfold shift. simpl. now rewrite map_id.
    - rewrite IH, map_map. reflexivity. }
  rewrite Hfold. simpl. f_equal.
  pose proof (sort_nat_perm ps) as Hperm.
  destruct (shift_spec (sort_nat ps) (incr_front_increasing _ (sort_nat_incr ps Hnd)) m) as [Hnot Heq].
  set (r := shift (sort_nat ps) m) in *.
  rewrite <- (count_lt_perm _ _ r Hperm) in Heq.
  assert (Hout : ~ In r ps).
  { intros Hin. apply Hnot. eapply Permutation_in; eauto. }
  pose proof (count_lt_length ps r) as Hlen.
  destruct (active_length total ps Hnd Hb) as [_ Hle]. unfold d_active in Hm.
  assert (Hm' : m = r - count_lt ps r) by lia.
  rewrite Hm' at 1. symmetry. apply active_nth_free; auto. lia.
Qed.

(* concrete instances (also exercised on the implementation by the check) *)
Example map_to_original_example : map_to_original [0; 1; 2] [3; 1] = [0; 2; 4].
Proof. reflexivity. Qed.
