(* xxpp_to_xpxp_indices / xpxp_to_xxpp_indices: closed forms, bounds, mutual inverses,
   permutations -- for every number of modes d. *)
From Coq Require Import List Arith Bool Lia Permutation.
From PV Require Import C14.ReprModel.
Import ListNotations.

Lemma x2p_list_length : forall d, length (x2p_list d) = 2 * d.
Proof.
  intro d. unfold x2p_list.
  assert (H : forall n a, length (flat_map (fun i => [i; d + i]) (seq a n)) = 2 * n).
  { induction n as [|n IH]; intro a; simpl; [reflexivity|]. rewrite IH. lia. }
  apply H.
Qed.

Lemma p2x_list_length : forall d, length (p2x_list d) = 2 * d.
Proof. intro d. unfold p2x_list. rewrite app_length, !map_length, !seq_length. lia. Qed.

Lemma flat_pair_nth : forall (d n a q : nat), q < n ->
  nth (2 * q) (flat_map (fun i => [i; d + i]) (seq a n)) 0 = a + q /\
  nth (2 * q + 1) (flat_map (fun i => [i; d + i]) (seq a n)) 0 = d + (a + q).
Proof.
  intros d n. induction n as [|n IH]; intros a q Hq; [lia|].
  destruct q as [|q].
  - simpl. split; f_equal; lia.
  - replace (2 * S q) with (S (S (2 * q))) by lia.
    replace (S (S (2 * q)) + 1) with (S (S (2 * q + 1))) by lia.
    change (flat_map (fun i => [i; d + i]) (seq a (S n)))
      with (a :: (d + a) :: flat_map (fun i => [i; d + i]) (seq (S a) n)).
    assert (SS : forall (k x y : nat) l, nth (S (S k)) (x :: y :: l) 0 = nth k l 0) by reflexivity.
    rewrite !SS.
    destruct (IH (S a) q ltac:(lia)) as [H1 H2]. rewrite H1, H2. split; lia.
Qed.

(* closed form of xxpp_to_xpxp_indices *)
Lemma x2p_even : forall d q, q < d -> x2p d (2 * q) = q.
Proof. intros d q H. unfold x2p, x2p_list. destruct (flat_pair_nth d d 0 q H) as [E _]. rewrite E. lia. Qed.
Lemma x2p_odd : forall d q, q < d -> x2p d (2 * q + 1) = d + q.
Proof. intros d q H. unfold x2p, x2p_list. destruct (flat_pair_nth d d 0 q H) as [_ E]. rewrite E. lia. Qed.

(* closed form of xpxp_to_xxpp_indices *)
Lemma p2x_lo : forall d k, k < d -> p2x d k = 2 * k.
Proof.
  intros d k H. unfold p2x, p2x_list.
  rewrite app_nth1 by (rewrite map_length, seq_length; lia).
  rewrite (nth_indep _ 0 (2 * 0)) by (rewrite map_length, seq_length; lia).
  rewrite (map_nth (fun i => 2 * i)), seq_nth by lia. lia.
Qed.
Lemma p2x_hi : forall d k, k < d -> p2x d (d + k) = 2 * k + 1.
Proof.
  intros d k H. unfold p2x, p2x_list.
  rewrite app_nth2 by (rewrite map_length, seq_length; lia).
  rewrite map_length, seq_length. replace (d + k - d) with k by lia.
  rewrite (nth_indep _ 0 (2 * 0 + 1)) by (rewrite map_length, seq_length; lia).
  rewrite (map_nth (fun i => 2 * i + 1)), seq_nth by lia. lia.
Qed.

Lemma half_cases : forall k, exists q, k = 2 * q \/ k = 2 * q + 1.
Proof.
  intro k. exists (k / 2). pose proof (Nat.div_mod k 2 ltac:(lia)) as H.
  pose proof (Nat.mod_upper_bound k 2 ltac:(lia)). lia.
Qed.

Lemma x2p_bound : forall d k, k < 2 * d -> x2p d k < 2 * d.
Proof.
  intros d k H. destruct (half_cases k) as [q [E|E]]; subst k.
  - rewrite x2p_even by lia. lia.
  - rewrite x2p_odd by lia. lia.
Qed.
Lemma p2x_bound : forall d k, k < 2 * d -> p2x d k < 2 * d.
Proof.
  intros d k H. destruct (Nat.lt_ge_cases k d) as [L|G].
  - rewrite p2x_lo by lia. lia.
  - replace k with (d + (k - d)) by lia. rewrite p2x_hi by lia. lia.
Qed.

(* the two index vectors are inverse to each other *)
Theorem p2x_x2p : forall d k, k < 2 * d -> p2x d (x2p d k) = k.
Proof.
  intros d k H. destruct (half_cases k) as [q [E|E]]; subst k.
  - rewrite x2p_even by lia. rewrite p2x_lo by lia. reflexivity.
  - rewrite x2p_odd by lia. rewrite p2x_hi by lia. reflexivity.
Qed.
Theorem x2p_p2x : forall d k, k < 2 * d -> x2p d (p2x d k) = k.
Proof.
  intros d k H. destruct (Nat.lt_ge_cases k d) as [L|G].
  - rewrite p2x_lo by lia. rewrite x2p_even by lia. reflexivity.
  - replace k with (d + (k - d)) at 1 by lia. rewrite p2x_hi by lia.
    rewrite x2p_odd by lia. lia.
Qed.

Lemma inverse_nodup : forall (l : list nat) (g : nat -> nat),
  (forall k, k < length l -> g (nth k l 0) = k) -> NoDup l.
Proof.
  intros l g H. apply (NoDup_nth l 0). intros i j Hi Hj E.
  rewrite <- (H i Hi), <- (H j Hj), E. reflexivity.
Qed.

Lemma bounded_perm : forall (l : list nat) (g : nat -> nat) n,
  length l = n -> (forall k, k < n -> nth k l 0 < n) ->
  (forall k, k < n -> g (nth k l 0) = k) -> Permutation l (seq 0 n).
Proof.
  intros l g n HL HB HG. apply NoDup_Permutation_bis.
  - apply (inverse_nodup l g). rewrite HL. exact HG.
  - rewrite seq_length. lia.
  - intros x Hx. destruct (In_nth l x 0 Hx) as [k [Hk E]]. subst x.
    apply in_seq. rewrite HL in Hk. specialize (HB k Hk). lia.
Qed.

(* both are permutations of 0 .. 2d-1 *)
Theorem x2p_permutation : forall d, Permutation (x2p_list d) (seq 0 (2 * d)).
Proof.
  intro d. apply (bounded_perm _ (p2x d)).
  - apply x2p_list_length.
  - intros k H. apply (x2p_bound d k H).
  - intros k H. apply (p2x_x2p d k H).
Qed.
Theorem p2x_permutation : forall d, Permutation (p2x_list d) (seq 0 (2 * d)).
Proof.
  intro d. apply (bounded_perm _ (x2p d)).
  - apply p2x_list_length.
  - intros k H. apply (p2x_bound d k H).
  - intros k H. apply (x2p_p2x d k H).
Qed.

(* all-in-one statement used by Props/C14.v *)
Theorem xxpp_xpxp_inverse : forall d,
  length (x2p_list d) = 2 * d /\ length (p2x_list d) = 2 * d /\
  Permutation (x2p_list d) (seq 0 (2 * d)) /\ Permutation (p2x_list d) (seq 0 (2 * d)) /\
  (forall k, k < 2 * d -> nth (nth k (x2p_list d) 0) (p2x_list d) 0 = k) /\
  (forall k, k < 2 * d -> nth (nth k (p2x_list d) 0) (x2p_list d) 0 = k).
Proof.
  intro d. repeat split.
  - apply x2p_list_length.
  - apply p2x_list_length.
  - apply x2p_permutation.
  - apply p2x_permutation.
  - apply p2x_x2p.
  - apply x2p_p2x.
Qed.
