(* C09 -- the three fermionic Laplace representations of ConnModel.v (generic walk, numba tables,
   vectorised JAX) are the same function. *)
From Coq Require Import ZArith List Arith Lia Ring.
From PV Require Import Comb.FockModel Comb.FermiModel C09.ConnModel C09.ListLemmas.
Import ListNotations.
Local Open Scope nat_scope.

Lemma map_seq_nth_id : forall X Y (g : X -> Y) (W : list X) dflt,
  map (fun i => g (nth i W dflt)) (seq 0 (length W)) = map g W.
Proof.
  intros. apply nth_ext with (d := g dflt) (d' := g dflt).
  - rewrite !map_length, seq_length. auto.
  - intros i Hi. rewrite map_length, seq_length in Hi.
    rewrite nth_map_seq by auto. symmetry. apply nth_map_in. auto.
Qed.

Lemma map2_map_map : forall X Y Z W (f : Y -> Z -> W) (g : X -> Y) (h : X -> Z) l,
  map2 f (map g l) (map h l) = map (fun x => f (g x) (h x)) l.
Proof. induction l; simpl; auto. f_equal. auto. Qed.

Lemma map3_map_map : forall X Y Z W (f : X -> Y -> Z -> W) (g : X -> Y) (h : X -> Z) l,
  map3 f l (map g l) (map h l) = map (fun x => f x (g x) (h x)) l.
Proof. induction l; simpl; auto. f_equal. auto. Qed.

Lemma delete_nth_0 : forall B (l : list B), delete_nth 0 l = tl l.
Proof. destruct l; auto. Qed.

Lemma fold_left_ext_in : forall X Y (f g : Y -> X -> Y) l a,
  (forall y x, In x l -> f y x = g y x) -> fold_left f l a = fold_left g l a.
Proof.
  induction l; simpl; intros; auto. rewrite H by auto. apply IHl. intros. apply H. auto.
Qed.

Section Fermi.
Variable A : Type.
Variables (zero one : A) (add mul sub : A -> A -> A) (opp : A -> A).

Notation gen := (fermi_generic_level A zero add mul opp).
Notation numba := (fermi_numba_level A zero add mul opp).
Notation jaxv := (fermi_jax_level A zero add mul opp).

(* the walk-based (generic) and the table-based (numba) version: no algebraic law needed *)
Lemma fermi_numba_eq_generic : forall M prev n d, 1 <= n -> numba M prev n d = gen M prev n d.
Proof.
  intros M prev n d Hn. unfold fermi_numba_level, fermi_generic_level, precalc.
  set (W := fq_walk n d).
  set (LF := fun fq : list Z => map (fun l => nth l fq 0%Z) (seq 0 n)).
  set (DF := fun fq : list Z => map (fun l => f_subspace_index_fq (delete_nth l fq) (Z.of_nat d)) (seq 0 n)).
  rewrite map_length.
  rewrite <- (map_seq_nth_id _ _ (fun fq_row => map _ W) W []).
  apply map_ext_in. intros r Hr. apply in_seq in Hr.
  rewrite (nth_map_in _ _ LF W r []) by lia.
  rewrite (nth_map_in _ _ DF W r []) by lia.
  unfold LF at 1. unfold DF at 1.
  rewrite !nth_map_seq by lia. rewrite delete_nth_0.
  rewrite <- (map_seq_nth_id _ _ (fun fq_col => fold_left _ (seq 0 n) zero) W []).
  apply map_ext_in. intros c Hc. apply in_seq in Hc.
  apply fold_left_ext_in. intros s l Hl. apply in_seq in Hl.
  rewrite (nth_map_in _ _ LF W c []) by lia.
  rewrite (nth_map_in _ _ DF W c []) by lia.
  unfold LF, DF. rewrite !nth_map_seq by lia. reflexivity.
Qed.

Hypothesis Rth : ring_theory zero one add mul sub opp (@eq A).
Add Ring AringF : Rth.

Lemma sum_fold_left : forall (t : nat -> A) ls,
  sum A zero add (map t ls) = fold_left (fun s l => add s (t l)) ls zero.
Proof.
  intros.
  assert (G : forall ls a, fold_left (fun s l => add s (t l)) ls a = add a (sum A zero add (map t ls))).
  { induction ls0; simpl; intros. - ring. - rewrite IHls0. ring. }
  rewrite G. ring.
Qed.

(* the vectorised JAX version (signs * matrix[rows][:, lap] * prev[drows][:, del], summed over
   the last axis in any order) over a commutative ring *)
Lemma fermi_jax_eq_generic : forall M prev n d, 1 <= n -> jaxv M prev n d = gen M prev n d.
Proof.
  intros M prev n d Hn. unfold fermi_jax_level, fermi_generic_level, precalc.
  set (W := fq_walk n d).
  set (LF := fun fq : list Z => map (fun l => nth l fq 0%Z) (seq 0 n)).
  set (DF := fun fq : list Z => map (fun l => f_subspace_index_fq (delete_nth l fq) (Z.of_nat d)) (seq 0 n)).
  rewrite !map_map. rewrite map2_map_map.
  apply map_ext. intro r.
  rewrite map2_map_map. apply map_ext. intro c.
  unfold LF, DF. rewrite map3_map_map.
  rewrite !nth_map_seq by lia. rewrite delete_nth_0.
  rewrite sum_fold_left. reflexivity.
Qed.

Lemma fermi_from_ext : forall (s1 s2 : list (list A) -> list (list A) -> nat -> nat -> list (list A)) M d,
  (forall prev n, 1 <= n -> s1 M prev n d = s2 M prev n d) ->
  forall count n prev, 1 <= n -> fermi_from A s1 M prev d n count = fermi_from A s2 M prev d n count.
Proof.
  induction count; simpl; intros; auto. rewrite H by auto. f_equal. apply IHcount. lia.
Qed.

Lemma fermi_reps_ext : forall (s1 s2 : list (list A) -> list (list A) -> nat -> nat -> list (list A)) M cutoff,
  (forall prev n, 1 <= n -> s1 M prev n (length M) = s2 M prev n (length M)) ->
  fermi_reps A one s1 M cutoff = fermi_reps A one s2 M cutoff.
Proof.
  intros. unfold fermi_reps. destruct cutoff as [|[|[|c]]]; auto.
  do 2 f_equal. apply fermi_from_ext; auto.
Qed.

(* calculate_interferometer_on_fermionic_fock_space: connections.py (generic, used with every
   connector's assign), numpy_/connections.py (numba) and jax_/connections.py return the same list
   of representations for every matrix and every cutoff *)
Theorem fermi_variants_agree : forall M cutoff,
  fermi_reps A one numba M cutoff = fermi_reps A one gen M cutoff /\
  fermi_reps A one jaxv M cutoff = fermi_reps A one gen M cutoff.
Proof.
  intros. split; apply fermi_reps_ext; intros.
  - apply fermi_numba_eq_generic; auto.
  - apply fermi_jax_eq_generic; auto.
Qed.

End Fermi.
