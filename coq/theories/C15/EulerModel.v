(* C15 — the post-processing of piquasso/_math/decompositions.py:euler and _get_angles of
   piquasso/decompositions/clements.py, over a ring with involution.  Definitions only. *)
From Coq Require Import List Arith Bool.
From PV Require Import C15.ClementsModel.
Import ListNotations.

Section EulerModel.
Context {A : Type} {O : ROps A}.
Local Open Scope rng_scope.

(* -M *)
Definition mopp (d : nat) (M : mat A) : mat A := mk d (fun i j => - get M i j).

(* decompositions.py:euler
     U_orig, R = polar(S, side="left");  Z = 1j * (1j * K @ logm(R))[:d, d:] = -logm(R)[:d, d:]
     D, U = takagi(Z);  return U, D, conj(U).T @ U_orig[:d, :d]
   [u] is U_orig[:d, :d]; the third factor: *)
Definition euler_first (d : nat) (U u : mat A) : mat A := mmul d (madj d U) u.

(* what the callers build from the three factors (fock/pure/simulation_steps:linear):
   passive V, then Squeezing(r = D, phi = 0) (passive cosh D, active -sinh D), then passive U.
   Blocks of Pass(U) Sq(D) Pass(V) in the complex form [[P, A], [conj A, conj P]]: *)
Definition euler_passive_block (d : nat) (U Ch V : mat A) : mat A := mmul d (mmul d U Ch) V.
Definition euler_active_block (d : nat) (U Sh V : mat A) : mat A :=
  mopp d (mmul d (mmul d U Sh) (mconj d V)).
End EulerModel.

(* ------------------------------------------------------------------ _get_angles *)
Section AnglesModel.
Context {A : Type} {O : ROps A}.
Local Open Scope rng_scope.
(* field inverse, np.isclose(., 0.0), np.abs, exp(1j*np.angle(.)), (cos, sin) of arctan *)
Variable rinv : A -> A.
Variable is0 : A -> bool.
Variable absf : A -> A.
Variable expangle : A -> A.
Variable cs_of_tan : A -> A * A.

(* clements.py:_get_angles
     if np.isclose(elim, 0.0): return pi/2, 0.0
     r = other / elim; theta = arctan(abs(r)); phi = angle(r)
   returned as (cos theta, sin theta, exp(i phi)) *)
Definition get_angles (elim other : A) : A * A * A :=
  if is0 elim then (r0, r1, r1)
  else
    let r := other * rinv elim in
    let '(c, s) := cs_of_tan (absf r) in
    (c, s, expangle r).

(* clements.py:clements  PS(phi = np.angle(diagonal)) as exp(i phi) *)
Definition get_phase (z : A) : A := expangle z.
End AnglesModel.
