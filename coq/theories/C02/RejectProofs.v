(* C02 — retry-until-accept = conditioning on acceptance, for every bound on the trials. *)
From Coq Require Import Reals Lra List Bool Arith Lia.
From PV Require Import Base.CasesLib C02.DistModel C02.DistProofs.
Import ListNotations.
Open Scope R_scope.

Theorem rejection_law : forall A (f : A -> bool) (trial : rdist (option A)) n,
  mass (retry trial n) (lift f) = mass trial (lift f) * geo (mass trial is_none) n.
Proof.
  induction n as [|n IH].
  - cbn. lra.
  - simpl retry. rewrite mass_dbind, retry_step, IH. simpl geo.
    replace (mass trial (fun r => match r with Some a => lift f (Some a) | None => false end))
      with (mass trial (lift f)).
    + (nr; lra).
    + unfold mass. f_equal; try (apply map_ext; intros [[a|] p]; reflexivity).
Qed.

(* the law of the accepted sample does not depend on the bound and is the trial's law
   conditioned on acceptance (cross-multiplied, so that no division by zero is hidden) *)
Theorem rejection_is_conditioning : forall A (f : A -> bool) (trial : rdist (option A)) n,
  mass (retry trial n) (lift f) * mass trial (lift (fun _ => true)) =
  mass (retry trial n) (lift (fun _ => true)) * mass trial (lift f).
Proof. intros. rewrite !rejection_law. (nr; ring). Qed.

Theorem retry_failure : forall A (trial : rdist (option A)) n,
  mass (retry trial n) is_none = (mass trial is_none) ^ n.
Proof.
  induction n as [|n IH].
  - cbn. lra.
  - simpl retry. rewrite mass_dbind, retry_step, IH. simpl pow.
    replace (mass trial (fun r : option A => match r with Some a => is_none (Some a) | None => false end)) with 0.
    + (nr; lra).
    + symmetry. clear. induction trial as [|[[a|] p] d IHd]; [reflexivity| |]; rewrite mass_cons, IHd; simpl; (nr; lra).
Qed.

