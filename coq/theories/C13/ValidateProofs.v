(* C13 — proofs about the validator model: each loop of the validator decides its
   declarative rule; the up-front validation decides WellFormed; a refusal for a
   structural reason happens before any step; well-formed requests are never refused for a
   structural reason, whatever the measurement outcomes. *)
From Coq Require Import ZArith List Bool Lia ZifyBool FinFun.
From PV Require Import C13.SimTypes C13.ValidateModel C13.ValidateSpec.
Import ListNotations.
Open Scope Z_scope.

(* ------------------------------------------------------------------ basics *)
Lemma memz_In : forall x l, memz x l = true <-> In x l.
Proof.
  intros x l. unfold memz. rewrite existsb_exists. split.
  - intros [y [Hy He]]. apply Z.eqb_eq in He. subst. exact Hy.
  - intros H. exists x. split; [exact H | apply Z.eqb_refl].
Qed.

Lemma memz_false : forall x l, memz x l = false <-> ~ In x l.
Proof.
  intros. rewrite <- memz_In. destruct (memz x l); split; intros; try congruence;
  try (exfalso; apply H; reflexivity).
Qed.

Lemma distinctb_NoDup : forall l, distinctb l = true <-> NoDup l.
Proof.
  induction l as [|x r IH]; simpl.
  - split; intros; [constructor | reflexivity].
  - rewrite andb_true_iff, negb_true_iff, memz_false, IH. split.
    + intros [H1 H2]. constructor; assumption.
    + intros H. inversion H; subst. split; assumption.
Qed.

Lemma isinstance_spec : forall i cl, isinstance i cl = true <-> IsInstance i cl.
Proof.
  intros. unfold isinstance, IsInstance. rewrite existsb_exists.
  split; intros [a [H1 H2]]; exists a; split; try assumption; apply memz_In; assumption.
Qed.

(* ------------------------------------------------------------------ rule by rule *)
Lemma shots_ok_spec : forall s, shots_ok s = true <-> ShotsOK s.
Proof.
  intros s. unfold ShotsOK. destruct s as [n|b| |]; simpl.
  - split.
    + intros H. right. left. exists n. split; [reflexivity | lia].
    + intros [H|[[m [H1 H2]]|H]]; try discriminate. inversion H1; subst. lia.
  - split.
    + intros H. subst. right. right. reflexivity.
    + intros [H|[[m [H1 H2]]|H]]; try discriminate. inversion H. reflexivity.
  - split; intros; [left; reflexivity | reflexivity].
  - split; intros H; [discriminate|].
    destruct H as [H|[[m [H1 H2]]|H]]; discriminate.
Qed.

Lemma check_exist_spec : forall T p, check_exist T p = true <-> Forall (Supported T) p.
Proof.
  intros. unfold check_exist. rewrite forallb_forall, Forall_forall.
  split; intros H i Hi; specialize (H i Hi); unfold supported, Supported in *;
    apply memz_In; assumption.
Qed.

Lemma in_range_spec : forall d i, in_range d i = true <-> InRange d i.
Proof.
  intros. unfold in_range, InRange. rewrite forallb_forall.
  split; intros H m Hm; specialize (H m Hm); lia.
Qed.

Lemma check_modes_spec : forall d p,
  check_modes d p = None <-> (Forall (InRange d) p /\ Forall Distinct p).
Proof.
  induction p as [|i rest IH]; simpl.
  - split; intros; [split; constructor | reflexivity].
  - destruct (in_range d i) eqn:Hr; simpl.
    + destruct (distinctb (i_modes i)) eqn:Hd; simpl.
      * rewrite IH. apply in_range_spec in Hr. apply distinctb_NoDup in Hd.
        split.
        -- intros [H1 H2]. split; constructor; assumption.
        -- intros [H1 H2]. inversion H1; inversion H2; subst. split; assumption.
      * split; [discriminate|]. intros [_ H2]. inversion H2; subst.
        apply distinctb_NoDup in H1. unfold Distinct in *. congruence.
    + split; [discriminate|]. intros [H1 _]. inversion H1; subst.
      apply in_range_spec in H2. congruence.
Qed.

Lemma check_modes_rules : forall d p e, check_modes d p = Some e -> e = RRange \/ e = RRepeated.
Proof.
  induction p as [|i rest IH]; simpl; intros e H; [discriminate|].
  destruct (in_range d i); simpl in H; [|inversion H; auto].
  destruct (distinctb (i_modes i)); simpl in H; [|inversion H; auto]. auto.
Qed.

Lemma check_modes_range_only : forall d p,
  Forall Distinct p -> ~ Forall (InRange d) p -> check_modes d p = Some RRange.
Proof.
  induction p as [|i rest IH]; simpl; intros Hd Hr.
  - exfalso. apply Hr. constructor.
  - inversion Hd; subst. destruct (in_range d i) eqn:E; simpl; [|reflexivity].
    apply distinctb_NoDup in H1. unfold Distinct in *. rewrite H1. simpl.
    apply IH; [assumption|]. intros H. apply Hr. constructor; [apply in_range_spec|]; assumption.
Qed.

Lemma check_modes_repeated_only : forall d p,
  Forall (InRange d) p -> ~ Forall Distinct p -> check_modes d p = Some RRepeated.
Proof.
  induction p as [|i rest IH]; simpl; intros Hr Hd.
  - exfalso. apply Hd. constructor.
  - inversion Hr; subst. apply in_range_spec in H1. rewrite H1. simpl.
    destruct (distinctb (i_modes i)) eqn:E; simpl; [|reflexivity].
    apply IH; [assumption|]. intros H. apply Hd. constructor; [apply distinctb_NoDup|]; assumption.
Qed.

(* preparations first *)
Lemma check_prep_from_seen : forall p before,
  existsb (fun j => negb (is_prep j)) before = true ->
  (check_prep_from before p = true <-> Forall (fun i => is_prep i = false) p).
Proof.
  induction p as [|i rest IH]; simpl; intros before Hb.
  - split; intros; [constructor | reflexivity].
  - rewrite Hb. destruct (is_prep i) eqn:Hp; simpl.
    + split; [discriminate|]. intros H. inversion H; subst. congruence.
    + rewrite IH.
      * split; intros H; [constructor; assumption | inversion H; assumption].
      * rewrite existsb_app, Hb. reflexivity.
Qed.

Lemma check_prep_from_clean : forall p before,
  existsb (fun j => negb (is_prep j)) before = false ->
  (check_prep_from before p = true <-> PrepsFirst p).
Proof.
  induction p as [|i rest IH]; simpl; intros before Hb.
  - split; [|reflexivity]. intros _. exists [], []. repeat split; constructor.
  - rewrite Hb, andb_false_r. destruct (is_prep i) eqn:Hp.
    + rewrite IH.
      * split; intros [pre [post [H1 [H2 H3]]]].
        -- exists (i :: pre), post. subst. repeat split; try assumption. constructor; assumption.
        -- destruct pre as [|j pre].
           ++ simpl in H1. subst. inversion H3; subst. congruence.
           ++ simpl in H1. inversion H1; subst. inversion H2; subst.
              exists pre, post. repeat split; assumption.
      * rewrite existsb_app, Hb. simpl. rewrite Hp. reflexivity.
    + rewrite check_prep_from_seen.
      * split.
        -- intros H. exists [], (i :: rest). repeat split; constructor; assumption.
        -- intros [pre [post [H1 [H2 H3]]]]. destruct pre as [|j pre].
           ++ simpl in H1. subst. inversion H3; assumption.
           ++ simpl in H1. inversion H1; subst. inversion H2; subst. congruence.
      * rewrite existsb_app. simpl. rewrite Hp. simpl. apply orb_true_r.
Qed.

Lemma check_prep_spec : forall p, check_prep p = true <-> PrepsFirst p.
Proof. intros. apply check_prep_from_clean. reflexivity. Qed.

(* measurements last unless allowed *)
Lemma check_meas_from_spec : forall T p len index,
  len = (index + length p)%nat ->
  (check_meas_from T len index p = true <->
   forall pre i post, p = pre ++ i :: post -> post <> [] -> is_meas i = true ->
     IsInstance i (s_mid T)).
Proof.
  induction p as [|i rest IH]; simpl; intros len index Hl.
  - split; [|reflexivity]. intros _ pre i post H. destruct pre; discriminate.
  - assert (Hlast : Nat.eqb index (len - 1) = true <-> rest = []).
    { rewrite Nat.eqb_eq. destruct rest; simpl in *; split; intros; try reflexivity;
        try discriminate; lia. }
    destruct (is_meas i && negb (Nat.eqb index (len - 1)) && negb (isinstance i (s_mid T)))
      eqn:E.
    + split; [discriminate|]. intros H.
      apply andb_true_iff in E. destruct E as [E E3]. apply andb_true_iff in E.
      destruct E as [E1 E2]. apply negb_true_iff in E2, E3.
      assert (Hne : rest <> []).
      { intros Hc. apply Hlast in Hc. congruence. }
      specialize (H [] i rest eq_refl Hne E1). apply isinstance_spec in H. congruence.
    + rewrite IH by lia. split.
      * intros H pre j post Hp Hpost Hm. destruct pre as [|k pre].
        -- simpl in Hp. inversion Hp; subst. rewrite Hm in E. simpl in E.
           apply isinstance_spec.
           destruct (isinstance j (s_mid T)); [reflexivity|].
           rewrite andb_true_r in E. apply negb_false_iff in E. apply Hlast in E. contradiction.
        -- simpl in Hp. inversion Hp; subst. apply (H pre j post eq_refl Hpost Hm).
      * intros H pre j post Hp Hpost Hm. apply (H (i :: pre) j post); try assumption.
        simpl. rewrite Hp. reflexivity.
Qed.

Lemma check_meas_spec : forall T p, check_meas T p = true <-> MeasLast T p.
Proof. intros. unfold check_meas, MeasLast. apply check_meas_from_spec. reflexivity. Qed.

(* shots=None *)
Lemma check_shots_none_spec : forall T s p,
  check_shots_none T s p = true <-> ShotsNoneOK T s p.
Proof.
  intros. unfold check_shots_none, ShotsNoneOK, none_ok. rewrite forallb_forall. split.
  - intros H Hs i Hi Hm. specialize (H i Hi). subst. rewrite Hm in H. simpl in H.
    apply isinstance_spec. destruct (isinstance i (s_none T)); [reflexivity|discriminate].
  - intros H i Hi. destruct (is_meas i) eqn:Hm; [|reflexivity].
    destruct s; try reflexivity. simpl.
    specialize (H eq_refl i Hi Hm). apply isinstance_spec in H. rewrite H. reflexivity.
Qed.

Lemma check_init_spec : forall T d init, check_init T d init = None <-> InitOK T d init.
Proof.
  intros. unfold check_init, InitOK. destruct init as [[c d']|]; [|tauto].
  destruct (c =? s_state T) eqn:E1; simpl.
  - destruct (d' =? d) eqn:E2; simpl; split; intros; try discriminate; try lia; try reflexivity.
  - split; intros; try discriminate. lia.
Qed.

Lemma check_params_spec : forall v p, check_params v p = true <-> ParamsOK v p.
Proof.
  intros. unfold check_params, ParamsOK, param_ok. destruct v; simpl.
  - rewrite forallb_forall. split.
    + intros H _ i Hi Hr. specialize (H i Hi). rewrite Hr in H. exact H.
    + intros H i Hi. destruct (i_resolved i) eqn:Hr; [|reflexivity]. simpl. apply H; auto.
  - split; intros; [discriminate | reflexivity].
Qed.

(* ------------------------------------------------------------------ the active register *)
Lemma range_spec : forall d m, In m (range d) <-> 0 <= m < d.
Proof.
  intros. unfold range. rewrite in_map_iff. split.
  - intros [k [Hk Hi]]. apply in_seq in Hi. lia.
  - intros H. exists (Z.to_nat m). split; [lia|]. apply in_seq. lia.
Qed.

Lemma range_NoDup : forall d, NoDup (range d).
Proof.
  intros. unfold range. apply Injective_map_NoDup.
  - intros a b H. lia.
  - apply seq_NoDup.
Qed.

Definition Inv (d : Z) (pre : list instr) (active : list Z) : Prop :=
  NoDup active /\ forall m, In m active <-> (0 <= m < d /\ ~ Measured pre m).

Lemma Inv_init : forall d, Inv d [] (range d).
Proof.
  intros. split; [apply range_NoDup|]. intros m. rewrite range_spec. split.
  - intros H. split; [assumption|]. intros [k [Hk _]]. inversion Hk.
  - intros [H _]. assumption.
Qed.

Lemma Measured_snoc : forall pre i m,
  Measured (pre ++ [i]) m <->
  (Measured pre m \/ (is_meas i = true /\ (i_modes i = [] \/ In m (i_modes i)))).
Proof.
  intros. unfold Measured. split.
  - intros [k [Hk [Hm Hc]]]. apply in_app_or in Hk. destruct Hk as [Hk|[Hk|[]]].
    + left. exists k. auto.
    + subst. right. auto.
  - intros [[k [Hk [Hm Hc]]]|[Hm Hc]].
    + exists k. split; [apply in_or_app; left; assumption | auto].
    + exists i. split; [apply in_or_app; right; left; reflexivity | auto].
Qed.

Definition next_active (active : list Z) (i : instr) : list Z :=
  if is_meas i then drop_measured active i else active.

Lemma check_active_cons : forall active i rest,
  check_active active (i :: rest) =
  match i_modes i with
  | [] => if arity_ok (i_cls i) active then check_active (next_active active i) rest
          else Some RActiveArity
  | _ :: _ => if forallb (fun m => memz m active) (i_modes i)
              then check_active (next_active active i) rest else Some RActive
  end.
Proof. intros. simpl. destruct (i_modes i); reflexivity. Qed.

Lemma Inv_step : forall d pre active i, Inv d pre active ->
  Inv d (pre ++ [i]) (next_active active i).
Proof.
  intros d pre active i [Hnd Hin]. unfold next_active. destruct (is_meas i) eqn:Hm.
  - unfold drop_measured. destruct (i_modes i) as [|m0 ms] eqn:Hmodes.
    + split; [constructor|]. intros m. split; [intros []|].
      intros [_ H]. apply H. apply Measured_snoc. right. auto.
    + split; [apply NoDup_filter; assumption|]. intros m. rewrite filter_In, Hin.
      rewrite negb_true_iff, memz_false, Measured_snoc. split.
      * intros [[H1 H2] H3]. split; [assumption|]. intros [H|[_ [H|H]]];
          [contradiction | congruence | rewrite Hmodes in H; contradiction].
      * intros [H1 H2]. split; [split; [assumption|]|].
        -- intros H. apply H2. left. assumption.
        -- intros H. apply H2. right. split; [assumption|]. right. rewrite Hmodes. assumption.
  - split; [assumption|]. intros m. rewrite Hin, Measured_snoc. split.
    + intros [H1 H2]. split; [assumption|]. intros [H|[H _]]; [contradiction|congruence].
    + intros [H1 H2]. split; [assumption|]. intros H. apply H2. left. assumption.
Qed.

(* the per-instruction content of ActiveModes / ActiveArity *)
Definition ModesAlive (pre : list instr) (i : instr) : Prop :=
  forall m, In m (i_modes i) -> ~ Measured pre m.

Definition ArityAlive (d : Z) (pre : list instr) (i : instr) : Prop :=
  i_modes i = [] -> forall n, c_nmodes (i_cls i) = Some n ->
  exists alive, NoDup alive /\ (forall m, In m alive <-> (0 <= m < d /\ ~ Measured pre m)) /\
                n = Z.of_nat (length alive).

Lemma arity_alive_spec : forall d pre active i, Inv d pre active -> i_modes i = [] ->
  (arity_ok (i_cls i) active = true <-> ArityAlive d pre i).
Proof.
  intros d pre active i [Hnd Hin] Hmodes. unfold arity_ok, ArityAlive.
  destruct (c_nmodes (i_cls i)) as [n|] eqn:Hn.
  - split.
    + intros H _ n' Hn'. inversion Hn'; subst. exists active. repeat split; try assumption;
        try (apply Hin; assumption); try (apply Hin; tauto). lia.
    + intros H. destruct (H Hmodes n eq_refl) as [alive [Ha [Hb Hc]]].
      assert (length alive = length active).
      { apply Nat.le_antisymm; apply NoDup_incl_length; try assumption;
          intros m Hm; [apply Hin, Hb | apply Hb, Hin]; assumption. }
      lia.
  - split; [|reflexivity]. intros _ _ n Hn'. discriminate.
Qed.

Lemma modes_alive_spec : forall d pre active i, Inv d pre active -> InRange d i ->
  (forallb (fun m => memz m active) (i_modes i) = true <-> ModesAlive pre i).
Proof.
  intros d pre active i [Hnd Hin] Hr. unfold ModesAlive. rewrite forallb_forall. split.
  - intros H m Hm. specialize (H m Hm). apply memz_In, Hin in H. tauto.
  - intros H m Hm. apply memz_In, Hin. split; [apply Hr; assumption | apply H; assumption].
Qed.

Lemma check_active_spec : forall d p pre active, Inv d pre active -> Forall (InRange d) p ->
  (check_active active p = None <->
   forall pre' i post, p = pre' ++ i :: post ->
     ModesAlive (pre ++ pre') i /\ ArityAlive d (pre ++ pre') i).
Proof.
  induction p as [|i rest IH]; intros pre active HI Hr.
  - simpl. split; [|reflexivity]. intros _ pre' i post H. destruct pre'; discriminate.
  - inversion Hr as [|? ? Hri Hrr]; subst.
    pose proof (Inv_step d pre active i HI) as HI'.
    assert (Hsplit : (forall pre' j post, i :: rest = pre' ++ j :: post ->
               ModesAlive (pre ++ pre') j /\ ArityAlive d (pre ++ pre') j) <->
             ((ModesAlive pre i /\ ArityAlive d pre i) /\
              (forall pre' j post, rest = pre' ++ j :: post ->
               ModesAlive ((pre ++ [i]) ++ pre') j /\ ArityAlive d ((pre ++ [i]) ++ pre') j))).
    { split.
      - intros H. split.
        + specialize (H [] i rest eq_refl). rewrite app_nil_r in H. exact H.
        + intros pre' j post Hp. specialize (H (i :: pre') j post).
          rewrite <- app_assoc. simpl. apply H. simpl. rewrite Hp. reflexivity.
      - intros [H1 H2] pre' j post Hp. destruct pre' as [|k pre'].
        + simpl in Hp. inversion Hp; subst. rewrite app_nil_r. exact H1.
        + simpl in Hp. inversion Hp; subst. specialize (H2 pre' j post eq_refl).
          rewrite <- app_assoc in H2. exact H2. }
    rewrite Hsplit. rewrite check_active_cons. destruct (i_modes i) as [|m0 ms] eqn:Hmodes.
    + destruct (arity_ok (i_cls i) active) eqn:Ha.
      * rewrite (IH _ _ HI' Hrr). apply (arity_alive_spec d pre active i HI Hmodes) in Ha.
        split; [intros H; split; [split; [|exact Ha]|exact H] | intros [_ H]; exact H].
        intros m Hm. rewrite Hmodes in Hm. inversion Hm.
      * split; [discriminate|]. intros [[_ H] _].
        apply (arity_alive_spec d pre active i HI Hmodes) in H. congruence.
    + pose proof (modes_alive_spec d pre active i HI Hri) as Hms. rewrite Hmodes in Hms.
      destruct (forallb (fun m => memz m active) (m0 :: ms)) eqn:Hf.
      * rewrite (IH _ _ HI' Hrr). split; [|intros [_ H]; exact H].
        intros H. split; [split; [apply Hms; reflexivity|]|exact H].
        intros Hc. rewrite Hmodes in Hc. discriminate.
      * split; [discriminate|]. intros [[H _] _]. apply Hms in H. congruence.
Qed.

(* which of the two rules an error of check_active reports *)
Lemma check_active_err : forall d p pre active e, Inv d pre active -> Forall (InRange d) p ->
  check_active active p = Some e ->
  exists pre' i post, p = pre' ++ i :: post /\
    ((e = RActive /\ ~ ModesAlive (pre ++ pre') i) \/
     (e = RActiveArity /\ ~ ArityAlive d (pre ++ pre') i)).
Proof.
  induction p as [|i rest IH]; intros pre active e HI Hr He; [discriminate|].
  inversion Hr as [|? ? Hri Hrr]; subst.
  pose proof (Inv_step d pre active i HI) as HI'. rewrite check_active_cons in He.
  destruct (i_modes i) as [|m0 ms] eqn:Hmodes.
  - destruct (arity_ok (i_cls i) active) eqn:Ha.
    + destruct (IH _ _ e HI' Hrr He) as [pre' [j [post [Hp Hc]]]].
      exists (i :: pre'), j, post. split; [simpl; rewrite Hp; reflexivity|].
      rewrite <- app_assoc in Hc. exact Hc.
    + inversion He; subst. exists [], i, rest. split; [reflexivity|]. right.
      split; [reflexivity|]. rewrite app_nil_r. intros H.
      apply (arity_alive_spec d pre active i HI Hmodes) in H. congruence.
  - pose proof (modes_alive_spec d pre active i HI Hri) as Hms. rewrite Hmodes in Hms.
    destruct (forallb (fun m => memz m active) (m0 :: ms)) eqn:Hf.
    + destruct (IH _ _ e HI' Hrr He) as [pre' [j [post [Hp Hc]]]].
      exists (i :: pre'), j, post. split; [simpl; rewrite Hp; reflexivity|].
      rewrite <- app_assoc in Hc. exact Hc.
    + inversion He; subst. exists [], i, rest. split; [reflexivity|]. left.
      split; [reflexivity|]. rewrite app_nil_r. intros H. apply Hms in H. congruence.
Qed.

Lemma active_top : forall d p, Forall (InRange d) p ->
  (check_active (range d) p = None <-> (ActiveModes p /\ ActiveArity d p)).
Proof.
  intros d p Hr. rewrite (check_active_spec d p [] (range d) (Inv_init d) Hr).
  unfold ActiveModes, ActiveArity, ModesAlive, ArityAlive. simpl. split.
  - intros H. split; intros pre i post Hp; destruct (H pre i post Hp); assumption.
  - intros [H1 H2] pre i post Hp. split; [apply (H1 pre i post Hp) | apply (H2 pre i post Hp)].
Qed.

(* ------------------------------------------------------------------ up-front validation *)
Theorem validate_upfront_wf : forall T r, validate_upfront T r = None <-> WellFormed T r.
Proof.
  intros T r. unfold validate_upfront, WellFormed. split.
  - intros H.
    destruct (shots_ok (r_shots r)) eqn:E1; simpl in H; [|discriminate].
    destruct (eff_d (r_simd r) (r_prog r)) as [d|] eqn:E2; [|discriminate].
    destruct (check_exist T (r_prog r)) eqn:E3; simpl in H; [|discriminate].
    destruct (check_modes d (r_prog r)) eqn:E4; [discriminate|].
    destruct (check_prep (r_prog r)) eqn:E5; simpl in H; [|discriminate].
    destruct (check_meas T (r_prog r)) eqn:E6; simpl in H; [|discriminate].
    destruct (check_active (range d) (r_prog r)) eqn:E7; [discriminate|].
    destruct (check_shots_none T (r_shots r) (r_prog r)) eqn:E8; simpl in H; [|discriminate].
    destruct (check_init T d (r_init r)) eqn:E9; [discriminate|].
    destruct (check_params (r_validate r) (r_prog r)) eqn:E10; simpl in H; [|discriminate].
    apply check_modes_spec in E4. destruct E4 as [E4a E4b].
    apply (active_top d _ E4a) in E7. destruct E7 as [E7a E7b].
    exists d. constructor; try assumption.
    + apply shots_ok_spec; assumption.
    + apply check_exist_spec; assumption.
    + apply check_prep_spec; assumption.
    + apply check_meas_spec; assumption.
    + apply check_shots_none_spec; assumption.
    + apply check_init_spec; assumption.
    + apply check_params_spec; assumption.
  - intros [d W]. destruct W as [wf_shots0 wf_d0 wf_supported0 wf_range0 wf_distinct0 wf_preps0 wf_meas0 wf_active0 wf_arity0 wf_none0 wf_init0 wf_params0].
    apply shots_ok_spec in wf_shots0. rewrite wf_shots0. simpl. rewrite wf_d0.
    apply check_exist_spec in wf_supported0. rewrite wf_supported0. simpl.
    assert (E4 : check_modes d (r_prog r) = None) by (apply check_modes_spec; split; assumption).
    rewrite E4.
    apply check_prep_spec in wf_preps0. rewrite wf_preps0. simpl.
    apply check_meas_spec in wf_meas0. rewrite wf_meas0. simpl.
    assert (E7 : check_active (range d) (r_prog r) = None)
      by (apply (active_top d _ wf_range0); split; assumption).
    rewrite E7.
    apply check_shots_none_spec in wf_none0. rewrite wf_none0. simpl.
    apply check_init_spec in wf_init0. rewrite wf_init0.
    apply check_params_spec in wf_params0. rewrite wf_params0. reflexivity.
Qed.

Lemma check_active_rules : forall p active e, check_active active p = Some e ->
  e = RActive \/ e = RActiveArity.
Proof.
  induction p as [|i rest IH]; intros active e H; [discriminate|].
  rewrite check_active_cons in H. destruct (i_modes i).
  - destruct (arity_ok (i_cls i) active); [eapply IH; eassumption | inversion H; auto].
  - destruct (forallb _ _); [eapply IH; eassumption | inversion H; auto].
Qed.

Lemma check_init_rules : forall T d init e, check_init T d init = Some e ->
  e = RInitType \/ e = RInitD.
Proof.
  intros T d init e H. unfold check_init in H. destruct init as [[c d']|]; [|discriminate].
  destruct (negb (c =? s_state T)); [inversion H; auto|].
  destruct (negb (d' =? d)); [inversion H; auto|discriminate].
Qed.

(* every refusal of the up-front validation is one of the R rules *)
Theorem upfront_structural : forall T r e, validate_upfront T r = Some e ->
  structural e = true /\ is_piquasso (exn_of e) = true.
Proof.
  intros T r e H. unfold validate_upfront in H.
  destruct (negb (shots_ok (r_shots r))); [inversion H; auto|].
  destruct (eff_d (r_simd r) (r_prog r)) as [d|]; [|inversion H; auto].
  destruct (negb (check_exist T (r_prog r))); [inversion H; auto|].
  destruct (check_modes d (r_prog r)) eqn:E4.
  { inversion H; subst. destruct (check_modes_rules _ _ _ E4); subst; auto. }
  destruct (negb (check_prep (r_prog r))); [inversion H; auto|].
  destruct (negb (check_meas T (r_prog r))); [inversion H; auto|].
  destruct (check_active (range d) (r_prog r)) eqn:E7.
  { inversion H; subst. destruct (check_active_rules _ _ _ E7); subst; auto. }
  destruct (negb (check_shots_none T (r_shots r) (r_prog r))); [inversion H; auto|].
  destruct (check_init T d (r_init r)) eqn:E9.
  { inversion H; subst. destruct (check_init_rules _ _ _ _ E9); subst; auto. }
  destruct (negb (check_params (r_validate r) (r_prog r))); [inversion H; auto|discriminate].
Qed.

(* ------------------------------------------------------------------ the loop *)
Lemma nth_index_of : forall l m, In m l -> nth (index_of m l) l (-1) = m.
Proof.
  induction l as [|x r IH]; simpl; intros m H; [contradiction|].
  destruct (x =? m) eqn:E; [lia|]. destruct H as [H|H]; [lia|]. apply IH. assumption.
Qed.

Lemma remap_inverse_remap : forall active modes,
  (forall m, In m modes -> In m active) -> remap_inverse active (remap active modes) = modes.
Proof.
  intros active modes. unfold remap_inverse, remap. rewrite map_map.
  induction modes as [|m r IH]; simpl; intros H; [reflexivity|].
  rewrite nth_index_of by (apply H; left; reflexivity). f_equal. apply IH.
  intros k Hk. apply H. right. assumption.
Qed.

Lemma filter_none : forall (f : Z -> bool) l, (forall x, In x l -> f x = false) -> filter f l = [].
Proof.
  induction l as [|x r IH]; simpl; intros H; [reflexivity|].
  rewrite (H x) by (left; reflexivity). apply IH. intros y Hy. apply H. right. assumption.
Qed.

Lemma existsb_negb : forall (f : Z -> bool) l, existsb (fun m => negb (f m)) l = negb (forallb f l).
Proof.
  induction l as [|x r IH]; simpl; [reflexivity|]. rewrite IH. destruct (f x); reflexivity.
Qed.

Lemma forallb_self : forall l, forallb (fun m => memz m l) l = true.
Proof. intros. apply forallb_forall. intros x H. apply memz_In. assumption. Qed.

(* the register the loop continues with is the one the up-front pass computed *)
Lemma loop_next_active : forall active i,
  forallb (fun m => memz m active) (i_modes i) = true ->
  (if is_meas i
   then delete_from_active active
          (remap active (match i_modes i with [] => active | ms => ms end))
   else active) = next_active active i.
Proof.
  intros active i H. unfold next_active. destruct (is_meas i); [|reflexivity].
  unfold delete_from_active, drop_measured. destruct (i_modes i) as [|m0 ms] eqn:Hm.
  - rewrite remap_inverse_remap by auto. apply filter_none.
    intros x Hx. apply negb_false_iff. apply memz_In. assumption.
  - rewrite remap_inverse_remap; [reflexivity|].
    intros m Hin. rewrite forallb_forall in H. apply memz_In. apply H. assumption.
Qed.

Lemma visit_rules : forall Orc v i todo ctr acc st r n,
  visit_branches Orc v i todo ctr acc st = inr (r, n) -> structural r = false.
Proof.
  induction todo as [|todo IH]; simpl; intros ctr acc st r n H; [discriminate|].
  destruct (a_cond (Orc ctr)) as [[|]|].
  - destruct (negb (i_resolved i) && negb (a_resolve (Orc ctr))); [inversion H; reflexivity|].
    destruct (v && negb (i_resolved i) && negb (a_valid (Orc ctr))); [inversion H; reflexivity|].
    destruct (a_step (Orc ctr)); [eapply IH; eassumption | inversion H; reflexivity].
  - eapply IH; eassumption.
  - inversion H; reflexivity.
Qed.

Lemma visit_benign : forall Orc v i, Benign Orc -> forall todo ctr acc st,
  exists acc' ctr' st', visit_branches Orc v i todo ctr acc st = inl (acc', ctr', st').
Proof.
  intros Orc v i HB. induction todo as [|todo IH]; simpl; intros ctr acc st.
  - eauto.
  - destruct (HB ctr) as [H1 [H2 [H3 H4]]].
    destruct (a_cond (Orc ctr)) as [[|]|]; [| apply IH | congruence].
    rewrite H2, H3. simpl. rewrite !andb_false_r.
    destruct (a_step (Orc ctr)); [apply IH | congruence].
Qed.

Lemma exec_loop_cons : forall T Orc v s i rest active br ctr st,
  exec_loop T Orc v s (i :: rest) active br ctr st =
  let modes := match i_modes i with [] => active | ms => ms end in
  if match i_modes i with [] => negb (arity_ok (i_cls i) active) | _ => false end
  then Refused LArity st else
  if existsb (fun m => negb (memz m active)) modes then Refused LInactive st else
  if negb (supported T i) then Refused LExist st else
  if is_meas i && shots_is_none s && negb (isinstance i (s_none T))
  then Refused LShotsNone st else
  match visit_branches Orc v i br ctr 0 st with
  | inr (r, n) => Refused r n
  | inl (br', ctr', st') =>
      exec_loop T Orc v s rest
                (if is_meas i then delete_from_active active (remap active modes) else active)
                br' ctr' st'
  end.
Proof. reflexivity. Qed.

(* facts the loop needs about one instruction, derived from the up-front checks *)
Lemma loop_guards : forall T s i rest active,
  check_exist T (i :: rest) = true -> check_shots_none T s (i :: rest) = true ->
  check_active active (i :: rest) = None ->
  match i_modes i with [] => negb (arity_ok (i_cls i) active) | _ => false end = false /\
  existsb (fun m => negb (memz m active)) (match i_modes i with [] => active | ms => ms end)
    = false /\
  negb (supported T i) = false /\
  is_meas i && shots_is_none s && negb (isinstance i (s_none T)) = false /\
  forallb (fun m => memz m active) (i_modes i) = true /\
  check_exist T rest = true /\ check_shots_none T s rest = true /\
  check_active (next_active active i) rest = None.
Proof.
  intros T s i rest active He Hs Ha.
  unfold check_exist in He. simpl in He. apply andb_true_iff in He. destruct He as [He1 He2].
  unfold check_shots_none in Hs. simpl in Hs. apply andb_true_iff in Hs.
  destruct Hs as [Hs1 Hs2]. unfold none_ok in Hs1. apply negb_true_iff in Hs1.
  rewrite check_active_cons in Ha. rewrite existsb_negb.
  destruct (i_modes i) as [|m0 ms] eqn:Hm.
  - destruct (arity_ok (i_cls i) active) eqn:E; [|discriminate].
    rewrite forallb_self, He1. simpl. repeat split; assumption.
  - destruct (forallb (fun m => memz m active) (m0 :: ms)) eqn:E; [|discriminate].
    rewrite He1. simpl. repeat split; assumption.
Qed.

Lemma loop_no_structural : forall T Orc v s p active br ctr st,
  check_exist T p = true -> check_shots_none T s p = true -> check_active active p = None ->
  forall r n, exec_loop T Orc v s p active br ctr st = Refused r n -> structural r = false.
Proof.
  induction p as [|i rest IH]; intros active br ctr st He Hs Ha r n H; [discriminate|].
  destruct (loop_guards T s i rest active He Hs Ha) as [G1 [G2 [G3 [G4 [G5 [G6 [G7 G8]]]]]]].
  rewrite exec_loop_cons in H. cbv zeta in H. rewrite G1, G2, G3, G4 in H.
  destruct (visit_branches Orc v i br ctr 0 st) as [[[br' ctr'] st']|[r' n']] eqn:Ev.
  - rewrite (loop_next_active active i G5) in H. eapply IH; eassumption.
  - inversion H; subst. eapply visit_rules; eassumption.
Qed.

Lemma loop_benign : forall T Orc v s, Benign Orc -> forall p active br ctr st,
  check_exist T p = true -> check_shots_none T s p = true -> check_active active p = None ->
  exists b n k, exec_loop T Orc v s p active br ctr st = Done b n k.
Proof.
  intros T Orc v s HB. induction p as [|i rest IH]; intros active br ctr st He Hs Ha.
  - simpl. eauto.
  - destruct (loop_guards T s i rest active He Hs Ha) as [G1 [G2 [G3 [G4 [G5 [G6 [G7 G8]]]]]]].
    rewrite exec_loop_cons. cbv zeta. rewrite G1, G2, G3, G4.
    destruct (visit_benign Orc v i HB br ctr 0%nat st) as [a' [c' [s' Ev]]]. rewrite Ev.
    rewrite (loop_next_active active i G5). apply IH; assumption.
Qed.

(* what validate_upfront = None provides to the loop *)
Lemma upfront_none_checks : forall T r, validate_upfront T r = None ->
  exists d, eff_d (r_simd r) (r_prog r) = Some d /\ check_exist T (r_prog r) = true /\
    check_shots_none T (r_shots r) (r_prog r) = true /\
    check_active (range d) (r_prog r) = None.
Proof.
  intros T r H. unfold validate_upfront in H.
  destruct (shots_ok (r_shots r)); simpl in H; [|discriminate].
  destruct (eff_d (r_simd r) (r_prog r)) as [d|] eqn:E2; [|discriminate].
  destruct (check_exist T (r_prog r)) eqn:E3; simpl in H; [|discriminate].
  destruct (check_modes d (r_prog r)); [discriminate|].
  destruct (check_prep (r_prog r)); simpl in H; [|discriminate].
  destruct (check_meas T (r_prog r)); simpl in H; [|discriminate].
  destruct (check_active (range d) (r_prog r)) eqn:E7; [discriminate|].
  destruct (check_shots_none T (r_shots r) (r_prog r)) eqn:E8; simpl in H; [|discriminate].
  exists d. repeat split; try reflexivity; assumption.
Qed.

(* ------------------------------------------------------------------ the three theorems *)
Theorem reject_before_evolution : forall T Orc r e n,
  run T Orc r = Refused e n -> structural e = true -> n = 0%nat.
Proof.
  intros T Orc r e n H Hs. unfold run in H.
  destruct (validate_upfront T r) eqn:E; [inversion H; reflexivity|].
  destruct (upfront_none_checks T r E) as [d [Hd [He [Hn Ha]]]]. rewrite Hd in H.
  pose proof (loop_no_structural _ _ _ _ _ _ _ _ _ He Hn Ha _ _ H). congruence.
Qed.

Theorem accept : forall T r, WellFormed T r ->
  forall Orc e n, run T Orc r = Refused e n -> structural e = false.
Proof.
  intros T r W Orc e n H. apply validate_upfront_wf in W. unfold run in H. rewrite W in H.
  destruct (upfront_none_checks T r W) as [d [Hd [He [Hn Ha]]]]. rewrite Hd in H.
  eapply loop_no_structural; eassumption.
Qed.

Theorem accept_benign : forall T r Orc, WellFormed T r -> Benign Orc ->
  exists b n k, run T Orc r = Done b n k.
Proof.
  intros T r Orc W HB. apply validate_upfront_wf in W. unfold run. rewrite W.
  destruct (upfront_none_checks T r W) as [d [Hd [He [Hn Ha]]]]. rewrite Hd.
  apply loop_benign; assumption.
Qed.

Theorem reject_iff_not_wf : forall T Orc r,
  (exists e n, run T Orc r = Refused e n /\ structural e = true) <-> ~ WellFormed T r.
Proof.
  intros T Orc r. split.
  - intros [e [n [H Hs]]] W. pose proof (accept T r W Orc e n H). congruence.
  - intros NW. destruct (validate_upfront T r) as [e|] eqn:E.
    + exists e, 0%nat. unfold run. rewrite E. split; [reflexivity|].
      apply (upfront_structural T r e E).
    + exfalso. apply NW. apply validate_upfront_wf. assumption.
Qed.

(* a structural refusal raises a Piquasso exception (class given by exn_of) *)
Theorem reject_is_piquasso : forall T Orc r e n,
  run T Orc r = Refused e n -> structural e = true -> is_piquasso (exn_of e) = true.
Proof.
  intros T Orc r e n H Hs. unfold run in H.
  destruct (validate_upfront T r) eqn:E.
  - inversion H; subst. apply (upfront_structural T r e E).
  - destruct (upfront_none_checks T r E) as [d [Hd [He [Hn Ha]]]]. rewrite Hd in H.
    pose proof (loop_no_structural _ _ _ _ _ _ _ _ _ He Hn Ha _ _ H). congruence.
Qed.
