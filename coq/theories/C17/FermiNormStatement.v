(* C17 - the full-strength normalisation statement for one passive gate of the model, kept as a
   Prop (not proved): what remains after FermiBlockNormMC.unitary_block_norm_preserved is the
   lift through gather/scatter - the passive-gate index list is a partition of the basis
   indices, the n-th block read at rank order is the compound matrix, and the sum over the
   updated list regroups by blocks. *)
From Coq Require Import ZArith List Bool Ring_theory.
From PV Require Import Comb.FockModel Comb.FermiModel C17.FermiRepModel.
Import ListNotations.
Open Scope Z_scope.

Section Statement.
Variable A : Type.
Variables (zero one : A) (add mul sub : A -> A -> A) (opp conj : A -> A).

Definition norm_sq (psi : list A) : A :=
  fold_left (fun s a => add s (mul a (conj a))) psi zero.

(* U U^dagger = 1 on lists *)
Definition unitary_rows (U : list (list A)) : Prop :=
  forall i j, (i < length U)%nat -> (j < length U)%nat ->
  dot A zero add mul (nth i U []) (map conj (nth j U [])) = if Nat.eqb i j then one else zero.

Definition passive_norm_preserved_statement : Prop :=
  ring_theory zero one add mul sub opp (@eq A) ->
  (forall x y, conj (add x y) = add (conj x) (conj y)) ->
  (forall x y, conj (mul x y) = mul (conj x) (conj y)) ->
  conj one = one -> (forall x, conj (conj x) = x) ->
  forall (d : nat) (modes : list Z) (U : list (list A)) (psi : list A),
  NoDup modes -> Forall (fun q => 0 <= q < Z.of_nat d) modes ->
  (exists a, modes = map (fun k => a + Z.of_nat k) (seq 0 (length modes))) ->
  length U = length modes -> Forall (fun row => length row = length modes) U ->
  unitary_rows U ->
  length psi = Z.to_nat (f_cutoff_dim (Z.of_nat d) (Z.of_nat (S d))) ->
  norm_sq (apply_gate A zero one add mul opp d (S d) (GPassive modes U) psi) = norm_sq psi.

End Statement.
