"""Implementation side of C07: evaluates piquasso's gate blocks and runs GaussianSimulator.

Request (JSON on stdin):
  blocks: [{"gate": name, "params": {..floats..}}]
  seqs:   [{"d": d, "hbar": float, "ops": [op, ...]}]   op = {"k": kind, ...}
     kind "gate":  {"name", "params", "modes"}                      -> pq.<name>(**params) in a Program
     kind "interf": {"matrix": [[ [re,im], ...]], "modes"}          -> pq.Interferometer
     kind "gt":    {"P": .., "A": .., "modes"}                      -> pq.GaussianTransform
     kind "raw":   {"P": .., "A": .., "modes"}                      -> simulation_steps._apply_linear directly
     kind "rawp":  {"P": .., "modes"}                               -> simulation_steps._apply_passive_linear directly
     kind "snap":  record complex_displacement / complex_covariance of the state reached so far
Answer: blocks: [{"P": [[ [re,im] ]], "A": ... or null}], seqs: [{"mean": [...], "cov": [[...]], "m","C","G"}]
"""
import json
import sys

import numpy as np

import piquasso as pq
from piquasso._simulators.gaussian import simulation_steps as steps


def cplx(mat):
    return np.array([[complex(a, b) for a, b in row] for row in mat], dtype=complex)


def out_c(arr):
    arr = np.asarray(arr)
    if arr.ndim == 1:
        return [[float(np.real(x)), float(np.imag(x))] for x in arr]
    return [[[float(np.real(x)), float(np.imag(x))] for x in row] for row in arr]


def make_gate(name, params):
    cls = getattr(pq, name)
    return cls(**params)


def run_seq(case):
    d = case["d"]
    config = pq.Config(hbar=case["hbar"])
    sim = pq.GaussianSimulator(d=d, config=config)
    state = sim.create_initial_state()
    pending = []

    def flush(state):
        if not pending:
            return state
        prog = pq.Program(instructions=list(pending))
        pending.clear()
        return sim.execute(prog, initial_state=state).state

    snaps = []
    for op in case["ops"]:
        k = op["k"]
        if k == "snap":
            state = flush(state)
            snaps.append({"mu_c": out_c(state.complex_displacement),
                          "sigma_c": out_c(state.complex_covariance)})
            continue
        modes = tuple(op["modes"])
        if k == "gate":
            pending.append(make_gate(op["name"], op["params"]).on_modes(*modes))
        elif k == "interf":
            pending.append(pq.Interferometer(cplx(op["matrix"])).on_modes(*modes))
        elif k == "gt":
            pending.append(pq.GaussianTransform(passive=cplx(op["P"]), active=cplx(op["A"])).on_modes(*modes))
        elif k == "raw":
            state = flush(state)
            steps._apply_linear(state, cplx(op["P"]), cplx(op["A"]), modes)
        elif k == "rawp":
            state = flush(state)
            steps._apply_passive_linear(state, cplx(op["P"]), modes)
        else:
            raise ValueError(k)
    state = flush(state)
    res = {
        "mean": [float(x) for x in state.xxpp_mean_vector],
        "cov": [[float(x) for x in row] for row in state.xxpp_covariance_matrix],
        "m": out_c(state._m),
        "C": out_c(state._C),
        "G": out_c(state._G),
    }
    if snaps:
        res["snaps"] = snaps
    return res


def main():
    req = json.load(sys.stdin)
    out = {}
    sim = pq.GaussianSimulator(d=2)
    state = sim.create_initial_state()
    connector, config = state._connector, state._config
    blocks = []
    for b in req.get("blocks", []):
        g = make_gate(b["gate"], b["params"])
        P = g._get_passive_block(connector, config)
        A = g._get_active_block(connector, config) if hasattr(g, "_get_active_block") else None
        blocks.append({"P": out_c(P), "A": None if A is None else out_c(A)})
    out["blocks"] = blocks
    out["seqs"] = [run_seq(c) for c in req.get("seqs", [])]
    print(json.dumps(out))


main()
