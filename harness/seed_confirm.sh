#!/bin/bash
# usage: seed_confirm.sh <dir with patch.diff + demo.py> [base-ref]
# Confirms in a scratch worktree: patch applies, package imports, demo fails with the patch
# and passes without it.  Prints a JSON line.
d=$(realpath "$1"); base=${2:-HEAD}
wt=/tmp/seedconf-$$
git -C /repo worktree add --detach $wt $base >/dev/null 2>&1 || exit 2
run() { (cd $wt && VERIF_REPO=$wt PYTHONPATH=/verif/harness/site:$wt PYTHONHASHSEED=0 NUMBA_CACHE_DIR=$wt/.nbc OMP_NUM_THREADS=2 timeout 1200 /venv/bin/python "$@"); }
run $d/demo.py > $wt/.demo_clean.log 2>&1; clean=$?
git -C $wt apply $d/patch.diff; applied=$?
rm -rf $wt/.nbc
run -c "import piquasso" > /dev/null 2>&1; imp=$?
run $d/demo.py > $wt/.demo_mut.log 2>&1; mut=$?
echo "{\"dir\": \"$1\", \"applies\": $applied, \"imports\": $imp, \"demo_exit_clean\": $clean, \"demo_exit_mutated\": $mut}"
tail -3 $wt/.demo_mut.log | sed 's/^/   mut> /'
git -C /repo worktree remove --force $wt
