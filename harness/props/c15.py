"""C15 — Matrix decompositions reconstruct their input."""
import json
import math
import os
from concurrent.futures import ThreadPoolExecutor
from fractions import Fraction

from common import (CASES_HEADER, VERIF, Check, clist, coq_eval_parallel, cq, cz, parse_coq_list,
                    run_impl)

IMPORTS = CASES_HEADER + "From PV Require Import Base.CasesLib C15.ClementsModel.\n"

# ---------------------------------------------------------------- exact Gaussian rationals
PYTH = [(3, 4, 5), (5, 12, 13), (8, 15, 17), (7, 24, 25), (20, 21, 29), (12, 35, 37), (9, 40, 41)]
F0, F1 = Fraction(0), Fraction(1)


def cmul(a, b):
    return (a[0] * b[0] - a[1] * b[1], a[0] * b[1] + a[1] * b[0])


def cadd(a, b):
    return (a[0] + b[0], a[1] + b[1])


def mmul(X, Y):
    d = len(X)
    out = []
    for i in range(d):
        row = []
        for j in range(d):
            acc = (F0, F0)
            for k in range(d):
                if X[i][k] != (F0, F0) and Y[k][j] != (F0, F0):
                    acc = cadd(acc, cmul(X[i][k], Y[k][j]))
            row.append(acc)
        out.append(row)
    return out


def ident(d):
    return [[(F1, F0) if i == j else (F0, F0) for j in range(d)] for i in range(d)]


def embed(d, i, j, c, s, e):
    M = ident(d)
    M[i][i] = cmul(e, (c, F0))
    M[i][j] = (-s, F0)
    M[j][i] = cmul(e, (s, F0))
    M[j][j] = (c, F0)
    return M


def schedule(d):
    """Mode pairs of a Clements decomposition, written independently of the model."""
    first, last = [], []
    for column in reversed(range(d - 1)):
        if column % 2 == 0:
            last += [(column + j, column + j + 1) for j in range(d - 1 - column)]
        else:
            first += [(j, j + 1) for j in reversed(range(d - 1 - column))]
    return first + list(reversed(last))


def rand_unit(rng, special=0.15):
    if rng.random() < special:
        return rng.choice([(F1, F0), (-F1, F0), (F0, F1), (F0, -F1)])
    a, b, c = rng.choice(PYTH)
    if rng.random() < 0.5:
        a, b = b, a
    return (Fraction(a * rng.choice([1, -1]), c), Fraction(b * rng.choice([1, -1]), c))


def rand_cs(rng, degenerate):
    if rng.random() < degenerate:
        return rng.choice([(F1, F0), (F0, F1)])
    a, b, c = rng.choice(PYTH)
    if rng.random() < 0.5:
        a, b = b, a
    return (Fraction(a, c), Fraction(b, c))


def gen_exact(rng, n_per_d, dmax):
    """Unitaries with Gaussian-rational entries: diag(phases) times a mesh of Pythagorean
    beamsplitters on the Clements schedule (generic), the same with trivial angles and
    special phases (exact zeros to eliminate), permutations, identity, diagonal phases."""
    cases = []
    for d in range(1, dmax + 1):
        kinds = ["identity", "diag"] + ["mesh"] * (n_per_d + 2) + ["mesh-degenerate"] * n_per_d + ["permutation"] * 2 + ["sparse-mesh"]
        for kind in kinds:
            U = ident(d)
            if kind in ("mesh", "mesh-degenerate", "sparse-mesh"):
                deg = {"mesh": 0.0, "mesh-degenerate": 0.35, "sparse-mesh": 0.8}[kind]
                for (i, j) in schedule(d):
                    c, s = rand_cs(rng, deg)
                    e = rand_unit(rng, 0.1 if kind == "mesh" else 0.5)
                    U = mmul(embed(d, i, j, c, s, e), U)
                ph = [rand_unit(rng) for _ in range(d)]
                U = [[cmul(ph[i], U[i][j]) for j in range(d)] for i in range(d)]
            elif kind == "diag":
                ph = [rand_unit(rng) for _ in range(d)]
                U = [[ph[i] if i == j else (F0, F0) for j in range(d)] for i in range(d)]
            elif kind == "permutation":
                p = list(range(d))
                rng.shuffle(p)
                U = [[(F1, F0) if p[i] == j else (F0, F0) for j in range(d)] for i in range(d)]
            cases.append({"id": len(cases), "d": d, "kind": kind, "Uq": U,
                          "U": [[[str(x[0]), str(x[1])] for x in row] for row in U]})
    return cases


# ---------------------------------------------------------------- Coq literals
def fq(x):
    """float -> dyadic rational on a 2^-60 grid (for closeness tests inside Coq)"""
    return Fraction(int(round(x * 2 ** 60)), 2 ** 60)


def cqi(z):
    return "(%s, %s)" % (cq(z[0]), cq(z[1]))


def cqi_f(re, im):
    return cqi((fq(re), fq(im)))


def cmat(M):
    return clist(M, lambda row: clist(row, cqi))


def cmat_f(M):
    return clist(M, lambda row: clist(row, lambda z: cqi_f(z[0], z[1])))


def fxi(x):
    return cz(int(round(x * 2 ** 80)))


def cfx(re, im):
    return "(%s, %s)" % (fxi(re), fxi(im))


def cbs_fx(b):
    i, j, th, ph = b
    return "(mkBS %d%%nat %d%%nat %s %s %s)" % (i, j, cfx(math.cos(th), 0.0), cfx(math.sin(th), 0.0),
                                               cfx(math.cos(ph), math.sin(ph)))


def cps_fx(p):
    return "(mkPS %d%%nat %s)" % (p[0], cfx(math.cos(p[1]), math.sin(p[1])))


def cbs_f(b):
    i, j, th, ph = b
    return "(mkBS %d%%nat %d%%nat %s %s %s)" % (i, j, cqi_f(math.cos(th), 0.0), cqi_f(math.sin(th), 0.0),
                                               cqi_f(math.cos(ph), math.sin(ph)))


def cps_f(p):
    return "(mkPS %d%%nat %s)" % (p[0], cqi_f(math.cos(p[1]), math.sin(p[1])))


def cinstr_f(ins):
    name, modes, params = ins
    if name == "Phaseshifter":
        ph = params["phi"]
        return "(IPS %d%%nat %s)" % (modes[0], cqi_f(math.cos(ph), math.sin(ph)))
    if name == "Beamsplitter":
        th, ph = params["theta"], params["phi"]
        return "(IBS %d%%nat %d%%nat %s %s %s)" % (modes[0], modes[1], cqi_f(math.cos(th), 0.0),
                                                   cqi_f(math.sin(th), 0.0), cqi_f(math.cos(ph), math.sin(ph)))
    return "(IPS 999%nat qi0)"  # unknown gate: can never match


CASE_DEFS = """
Definition tol : Q := (1 # 1000000000)%Q.
Definition qi0 : Qi := (0%Q, 0%Q).
Definition bs_close (a b : BS Qi) : bool :=
  Nat.eqb (bs_i a) (bs_i b) && Nat.eqb (bs_j a) (bs_j b) &&
  qi_close tol (bs_c a) (bs_c b) && qi_close tol (bs_s a) (bs_s b) && qi_close tol (bs_e a) (bs_e b).
Definition ps_close (a b : PS Qi) : bool :=
  Nat.eqb (ps_mode a) (ps_mode b) && qi_close tol (ps_e a) (ps_e b).
Definition instr_close (a b : Instr Qi) : bool :=
  match a, b with
  | IPS m e, IPS m' e' => Nat.eqb m m' && qi_close tol e e'
  | IBS i j c s e, IBS i' j' c' s' e' =>
      Nat.eqb i i' && Nat.eqb j j' && qi_close tol c c' && qi_close tol s s' && qi_close tol e e'
  | _, _ => false
  end.
Definition modes_of (l : list (BS Qi)) := map (fun T => (bs_i T, bs_j T)) l.
Definition pair_eqb (a b : nat * nat) := Nat.eqb (fst a) (fst b) && Nat.eqb (snd a) (snd b).
Definition qimat_eqb (X Y : mat Qi) : bool := all2 (all2 qi_eqb) X Y.
Definition b2z (b : bool) (w : Z) : Z := if b then 0 else w.

(* one case: d, the exact input U, and what the implementation returned for float(U) *)
Record icase := mkCase {
  c_d : nat; c_U : mat Qi;
  c_bs : list (BS Qi); c_ps : list (PS Qi);      (* clements(U), angles as (cos, sin, exp i phi) *)
  c_bs_fx : list (BS Fx); c_ps_fx : list (PS Fx); (* the same in fixed point *)
  c_inv : mat Qi;                                (* inverse_clements(clements(U)) *)
  c_instr : list (Instr Qi); c_instr_matrix : mat Qi;
  c_pass_col : nat; c_pass_U : mat Qi; c_pass_ops : list (BS Qi) }.

(* result: 0 = agreement; otherwise the sum of the weights of the failed comparisons;
   bit 1024 set = the model's square roots were not all rational (coefficient and step
   comparisons skipped), bit 2048 = a beamsplitter with s = 0 or c = 0 whose phase is not determined *)
Definition check (c : icase) : Z :=
  let d := c_d c in
  let dec := qi_clements d (c_U c) in
  let exact := qi_dec_ok dec in
  let ambiguous := existsb (fun T => qi_is0 (bs_s T) || qi_is0 (bs_c T)) (fst dec) in
  let impl_dec : Decomposition Qi := (c_bs c, c_ps c) in
  let impl_fx : Decomposition Fx := (c_bs_fx c, c_ps_fx c) in
  (* structure: modes of the beamsplitters and of the phaseshifters *)
  b2z (list_eqb pair_eqb (modes_of (fst dec)) (modes_of (c_bs c))
       && list_eqb pair_eqb (modes_of (fst dec)) (schedule d)
       && list_eqb Nat.eqb (map (@ps_mode Qi) (snd dec)) (map (@ps_mode Qi) (c_ps c))) 1
  (* the model recomposes exactly (sanity of the model itself) *)
  + b2z (negb exact || qimat_eqb (inverse_clements d dec) (c_U c)) 2
  (* coefficients *)
  + b2z (negb exact || ambiguous || (all2 bs_close (c_bs c) (fst dec) && all2 ps_close (c_ps c) (snd dec))) 4
  (* inverse_clements: model on the implementation's own coefficients vs the implementation *)
  + b2z (qimat_close tol (c_inv c) (qimat_of_fx (inverse_clements d impl_fx))) 8
  (* and the implementation's recomposition is the input *)
  + b2z (qimat_close tol (c_inv c) (c_U c)) 16
  (* instruction list: shape, parameters, and product of the passive blocks *)
  + b2z (all2 instr_close (c_instr c) (instructions_from_decomposition impl_dec)) 32
  + b2z (qimat_close tol (c_instr_matrix c) (qimat_of_fx (instrs_matrix d (instructions_from_decomposition impl_fx)))) 64
  + b2z (qimat_close tol (c_instr_matrix c) (c_U c)) 128
  (* the first nulling pass separately *)
  + b2z (negb exact || ambiguous || Nat.ltb d 2%nat ||
         (let '(ops, U1) := if Nat.even (c_pass_col c)
                            then apply_direct qi_angles d (c_pass_col c) (c_U c)
                            else apply_inverse qi_angles d (c_pass_col c) (c_U c) in
          qimat_close tol (c_pass_U c) U1 && all2 bs_close (c_pass_ops c) ops)) 256
  + (if exact then 0 else 1024) + (if ambiguous then 2048 else 0).
"""


def exact_body(recs, cases):
    items = []
    for r in recs:
        c = cases[r["id"]]
        fp = r.get("first_pass") or {"column": 0, "U": [], "ops": []}
        items.append("(mkCase %d%%nat %s %s %s %s %s %s %s %s %d%%nat %s %s)" % (
            c["d"], cmat(c["Uq"]), clist(r["bs"], cbs_f), clist(r["ps"], cps_f),
            clist(r["bs"], cbs_fx), clist(r["ps"], cps_fx), cmat_f(r["inv"]),
            clist(r["instr"], cinstr_f), cmat_f(r["instr_matrix"]), fp["column"], cmat_f(fp["U"]),
            clist(fp["ops"], cbs_f)))
    return IMPORTS + CASE_DEFS + "Definition cases := %s.\nEval vm_compute in map check cases.\n" % clist(items, str)


def weights_body(recs):
    """weight vector layout: pure data movement, compared exactly (floats as exact rationals)"""
    items = []
    for r in recs:
        def wbs(b):
            return "(mkWBS Q (%d%%nat, %d%%nat) %s %s)" % (b[0], b[1], cq(Fraction(b[2])), cq(Fraction(b[3])))

        def wps(p):
            return "(mkWPS Q %d%%nat %s)" % (p[0], cq(Fraction(p[1])))
        items.append("(%d%%nat, (%s, %s), %s, (%s, %s))" % (
            r["d"], clist(r["bs"], wbs), clist(r["ps"], wps), clist(r["weights"], lambda x: cq(Fraction(x))),
            clist(r["dec2_bs"], wbs), clist(r["dec2_ps"], wps)))
    return IMPORTS + """
Definition wbs_eqb (a b : WBS Q) := Nat.eqb (fst (w_modes Q a)) (fst (w_modes Q b)) && Nat.eqb (snd (w_modes Q a)) (snd (w_modes Q b))
  && Qeq_bool (w_theta Q a) (w_theta Q b) && Qeq_bool (w_phi Q a) (w_phi Q b).
Definition wps_eqb (a b : WPS Q) := Nat.eqb (w_mode Q a) (w_mode Q b) && Qeq_bool (w_ps_phi Q a) (w_ps_phi Q b).
Definition wdec_eqb (a b : WDec Q) := list_eqb wbs_eqb (fst a) (fst b) && list_eqb wps_eqb (snd a) (snd b).
Definition ok (x : nat * WDec Q * list Q * WDec Q) : bool :=
  let '(d, dec, w, dec2) := x in
  list_eqb Qeq_bool (to_weights Q dec) w && Nat.eqb (List.length w) (d * d)%%nat &&
  wdec_eqb (from_weights Q 0%%Q (schedule d) d w) dec2 && wdec_eqb dec2 dec.
Definition cases := %s.
Eval vm_compute in mismatches ok cases.
""" % clist(items, str)


def commute_cases(rng, n):
    out = []
    for _ in range(n):
        c, s = rand_cs(rng, 0.2)
        out.append((c, s, rand_unit(rng), rand_unit(rng), rand_unit(rng)))
    return out


def commute_body(cs, res):
    items = []
    for (c, s, e, e1, e2), r in zip(cs, res):
        th, ph, p1, p2 = r
        items.append("(mkBS 0%%nat 1%%nat %s %s %s, [%s; %s], %s, %s, %s)" % (
            cqi((c, F0)), cqi((s, F0)), cqi(e), cqi(e1), cqi(e2),
            cbs_f((0, 1, th, ph)), cqi_f(math.cos(p1), math.sin(p1)), cqi_f(math.cos(p2), math.sin(p2))))
    return IMPORTS + CASE_DEFS + """
Definition ok (x : BS Qi * list Qi * BS Qi * Qi * Qi) : bool :=
  let '(T, phis, T', p1, p2) := x in
  let '(out, phis') := commute_step ([], phis) T in
  all2 bs_close [T'] out && qi_close tol p1 (nth 0%%nat phis' qi0) && qi_close tol p2 (nth 1%%nat phis' qi0)
  (* and the identity itself, exactly, on the 2x2 matrices *)
  && qimat_eqb (mmul 2%%nat (madj 2%%nat (embed 2%%nat T)) (mdiag 2%%nat phis)) (mmul 2%%nat (mdiag 2%%nat phis') (prodl 2%%nat out)).
Definition cases := %s.
Eval vm_compute in mismatches ok cases.
""" % clist(items, str)


def angle(z):
    return math.atan2(float(z[1]), float(z[0]))


# ---------------------------------------------------------------- numeric certificate / search
RECON_WHAT = {
    "takagi": "takagi(A) must return a unitary U and non-negative s with U diag(s) U^T = A",
    "williamson": "williamson(M) must return a real symplectic S and a positive diagonal D, paired per mode, with S D S^T = M",
    "euler": "the three factors of euler(S) must recompose the symplectic matrix S",
    "graph": "the graph embedding must reach the requested mean photon number with a unitary interferometer",
    "clements": "clements followed by inverse_clements / the instruction list / the weight round trip must reproduce U",
}


def load_corpus():
    path = os.path.join(VERIF, "harness", "corpus", "c15.jsonl")
    out = []
    if os.path.exists(path):
        for line in open(path):
            line = line.strip()
            if line and not line.startswith("#"):
                out.append(json.loads(line))
    return out


def run(chk: Check):
    T = chk.thorough
    rng = chk.rng
    corpus = load_corpus()
    cases = gen_exact(rng, 6 if T else 2, 6)
    ccases = commute_cases(rng, 200 if T else 40)
    req = {"exact": [{"id": c["id"], "d": c["d"], "U": c["U"]} for c in cases],
           "commute": [[math.atan2(float(s), float(c)), angle(e), angle(e1), angle(e2)] for c, s, e, e1, e2 in ccases],
           "identity_modes": list(range(1, 13))}
    nseed = rng.randrange(2 ** 31)
    hseed = rng.randrange(2 ** 31)
    with ThreadPoolExecutor(max_workers=3) as ex:
        f_hist = ex.submit(run_impl, "c15_history.py", {"seed": hseed, "tier": chk.tier}, 1800)
        f_num = ex.submit(run_impl, "c15_numeric.py", {"seed": nseed, "tier": chk.tier, "corpus": corpus}, 3000)
        f_impl = ex.submit(run_impl, "c15_impl.py", req, 1800)
        chk.proofs(timeout=3000)
        impl = f_impl.result()
        corr_broken = []

        # ------------------------------------------------------------ exact tie (Clements family)
        recs = impl["exact"]
        good = [r for r in recs if not r["exc"]]
        for r in recs:
            if r["exc"]:
                c = cases[r["id"]]
                chk.violation("C15:clements:exact-%s:exception" % c["kind"],
                              "clements raised on a unitary input: " + r["exc"], {"d": c["d"], "U": c["U"]})
        chunk = 6
        bodies = [exact_body(good[i:i + chunk], cases) for i in range(0, len(good), chunk)]
        bodies.append(weights_body(good))
        bodies.append(commute_body(ccases, impl["commute"]))
        outs = coq_eval_parallel("c15_exact", bodies, jobs=4)
        codes = []
        for o in outs[:-2]:
            codes += parse_coq_list(o)[0]
        names = {1: "modes/schedule", 2: "MODEL does not recompose (model defect)", 4: "rotation coefficients",
                 8: "inverse_clements(model on impl coefficients) != impl", 16: "impl inverse_clements(clements(U)) != U",
                 32: "instruction list", 64: "product of instruction blocks (model) != impl",
                 128: "impl instruction blocks do not multiply to U", 256: "first nulling pass"}
        n_exact = n_amb = 0
        for r, code in zip(good, codes):
            c = cases[r["id"]]
            if not code & 1024:
                n_exact += 1
            if code & 2048:
                n_amb += 1
            for bit, nm in names.items():
                if code & bit:
                    corr_broken.append("clements d=%d kind=%s case %d: %s" % (c["d"], c["kind"], c["id"], nm))
                    if bit in (16, 128):
                        chk.violation("C15:clements:exact-%s:%s" % (c["kind"], "recompose" if bit == 16 else "instructions"),
                                      nm, {"d": c["d"], "U": c["U"]})
        if len(codes) != len(good):
            corr_broken.append("exact tie: %d results for %d cases" % (len(codes), len(good)))
        full = sum(1 for r, code in zip(good, codes) if not code & (1024 | 2048) and cases[r["id"]]["d"] >= 2)
        chk.stream("Clements on Gaussian-rational unitaries d<=6 vs model (modes, coefficients, first pass, inverse_clements, instruction blocks)",
                   len(good), full,
                   samples=[{"d": cases[good[3]["id"]]["d"], "kind": cases[good[3]["id"]]["kind"], "bs": good[3]["bs"][:2]}] if len(good) > 3 else None,
                   note="%d cases with all square roots rational (coefficients and nulling pass compared), %d with an undetermined phase (s=0 or c=0: compared by structure and recomposition only)" % (n_exact, n_amb))
        mm = parse_coq_list(outs[-2])[0]
        for i in mm:
            corr_broken.append("weights layout/round trip differs from model at case %d (d=%d)" % (good[i]["id"], good[i]["d"]))
        chk.stream("weight vector layout and get_decomposition_from_weights vs model (exact)", len(good),
                   sum(1 for r in good if r["d"] >= 2))
        mm = parse_coq_list(outs[-1])[0]
        for i in mm:
            corr_broken.append("_get_commute_angles differs from model commute_step at case %d" % i)
        chk.stream("_get_commute_angles vs model commute_step, and BS^-1 D = D' BS' exactly", len(ccases), len(set(ccases)))
        # schedule for d <= 12 against clements(identity)
        for d in range(1, 13):
            got = impl["identity_modes"][str(d)]
            if [tuple(x) for x in got["bs"]] != schedule(d) or got["ps"] != list(range(d)):
                corr_broken.append("clements(identity(%d)) mode sequence differs from the schedule" % d)
        sched_body = IMPORTS + "Eval vm_compute in mismatches (fun x : nat * list (nat*nat) => let '(d, s) := x in list_eqb (fun a b => Nat.eqb (fst a) (fst b) && Nat.eqb (snd a) (snd b)) (schedule d) s) %s.\n" % clist(
            range(1, 13), lambda d: "(%d%%nat, %s)" % (d, clist(impl["identity_modes"][str(d)]["bs"], lambda p: "(%d%%nat,%d%%nat)" % tuple(p))))
        mm = parse_coq_list(coq_eval_parallel("c15_sched", [sched_body])[0])[0]
        for i in mm:
            corr_broken.append("model schedule(%d) differs from clements(identity) modes" % (i + 1))
        chk.stream("mode sequence of clements(identity(d)) vs model schedule, d<=12", 12, 11, exhaustive=True)

        # ------------------------------------------------------------ certificate check + search
        num = f_num.result()
        hist = f_hist.result()
    # ------------------------------------------------------------ multi-call histories
    # several calls of the same entry point (same d, different inputs, another d in between),
    # results kept and re-checked only after the last call: a result is a function of its
    # argument alone (no shared template/cache/buffer), inputs are not modified
    n_calls = 0
    bad_hist = 0
    seen_h = set()
    for h in hist["histories"]:
        n_calls += h["n_calls"]
        if not h["problems"]:
            continue
        bad_hist += 1
        for pr in h["problems"]:
            key = "C15:%s:history:%s" % (h["fn"], pr["kind"])
            if key in seen_h:
                continue
            seen_h.add(key)
            chk.violation(key,
                          "%s, called %d times in one process with d = %s: %s (call %s) — every call must return a fresh result that depends on its argument only and stays valid after later calls"
                          % (h["fn"], h["n_calls"], h["ds"], pr["kind"], pr.get("call")),
                          {"fn": h["fn"], "dimensions_of_the_calls": h["ds"], "rng_seed": h["seed"],
                           "problem": pr, "all_problems": h["problems"][:8],
                           "reconstruction_error_per_call_[at_call, after_all_calls]": h["errs"],
                           "history": h.get("history"),
                           "replay": "harness/impl/c15_history.py with {\"seed\": %d, \"tier\": \"%s\", \"only\": [\"%s\"]}" % (hseed, chk.tier, h["fn"])})
    chk.stream("multi-call histories (search): 11 entry points, 3-6 calls each with results kept and re-checked after the last call (inputs unchanged, earlier results unchanged byte-for-byte, no shared objects/memory, earlier results still reconstruct their input)",
               n_calls, len(hist["histories"]), kind="search",
               samples=[{"fn": hist["histories"][0]["fn"], "ds": hist["histories"][0]["ds"], "errs": hist["histories"][0]["errs"]}] if hist["histories"] else None,
               note="%d histories with a problem" % bad_hist)
    per = {}
    hyp_fail = {}
    worst_seen = {}
    for c in num["cases"]:
        fn = c["fn"]
        tol = 1e-8 * (1 + c["scale"])
        st = per.setdefault(fn, {"n": 0, "fams": set(), "bad": 0})
        st["n"] += 1
        st["fams"].add(c["family"])
        expected_exc = fn == "graph" and c["family"] == "zero-matrix"
        failed = []
        if c["exc"] and not expected_exc:
            failed.append(("exception", c["exc"]))
        for k, v in c["recon"].items():
            if not (v <= tol):
                failed.append((k, v))
        for k, v in c["hyp"].items():
            if not (v <= tol):
                hyp_fail.setdefault((fn, k), []).append((c["family"], v))
        if failed:
            st["bad"] += 1
            fam = c["family"]
            kind = failed[0][0]
            key = "C15:%s:%s:%s" % (fn, fam, kind)
            prev = worst_seen.get(key)
            val = failed[0][1]
            if prev is None:
                worst_seen[key] = True
                chk.violation(key, "%s — residual %s = %s on input class '%s'" % (RECON_WHAT[fn], kind, val, fam),
                              {"fn": fn, "family": fam, "desc": c["desc"], "d": c["d"], "failed": failed[:6],
                               "input": c.get("input"), "n": c.get("n"),
                               "call": {"takagi": "piquasso._math.decompositions.takagi(A, pq.NumpyConnector())",
                                        "williamson": "piquasso._math.decompositions.williamson(M, pq.NumpyConnector())",
                                        "euler": "piquasso._math.decompositions.euler(S, pq.NumpyConnector())",
                                        "graph": "decompose_adjacency_matrix_into_circuit / pq.Graph on pq.GaussianSimulator",
                                        "clements": "piquasso.decompositions.clements.clements / inverse_clements"}[fn]})
    for fn, st in sorted(per.items()):
        chk.stream("certificate check (test): %s on random and structured-degenerate float inputs — library contracts and reconstruction" % fn,
                   st["n"], len(st["fams"]), kind="search",
                   samples=[{"families": sorted(st["fams"])[:12]}],
                   note="%d inputs with a failing reconstruction" % st["bad"])
    for (fn, k), lst in sorted(hyp_fail.items()):
        chk.notes.append("glue hypothesis %s.%s not met on %d inputs (families %s; worst %.3g) — the glue lemma does not apply to those runs"
                         % (fn, k, len(lst), sorted({f for f, _ in lst})[:6], max(v for _, v in lst)))
    chk.assumptions += [
        "Clements: isclose(x, 0) is modelled as x = 0 and arctan/abs/angle/cos/sin/exp as exact square roots of rationals; cases whose square roots are irrational are compared by structure, recomposition and inverse_clements only",
        "Takagi/Williamson/Euler: svd, schur, sqrtm, polar, logm (LAPACK/SciPy) and root_scalar are not modelled; their contracts are hypotheses of the glue lemmas and are evaluated numerically on the actual outputs of every run (test)",
        "purity: the Gallina model is a pure function, so 'a result depends only on its argument and is not changed by later calls' holds in the model by construction (weights_roundtrip_history states it for a list of calls); for the implementation it is checked by the multi-call histories (test), not proved",
        "the Gaussian-rational instance (Qi with Qred) of the ring operations is executed but not proved to satisfy the ring laws (setoid equality); the theorems are stated for every ring with Leibniz equality",
    ]
    chk.finish(
        rule="exact tie: unitaries with Gaussian-rational entries (non-trivial: d>=2, all model square roots rational, no undetermined phase); certificate check: one evaluation per generated matrix, non-trivial = number of distinct input families",
        explanation="Theorems of coq/theories/Props/C15.v (every d, every commutative ring with involution) about the Gallina model of clements.py; tie = the model run at the Gaussian rationals inside coqc against piquasso on the same unitaries; Takagi/Williamson/Euler/graph embedding: glue lemmas under library contracts + per-run numeric certificate check and failing-input search on degenerate families (test).",
        correspondence_broken=corr_broken,
    )
