(* C05 - evaluation harness used by the generated cases files of harness/props/c05.py:
   runs the model on one case and lists the interfaces on which the observations made on
   the implementation differ from it.  Definitions only. *)
From Coq Require Import ZArith QArith List Bool Arith Qabs.
From PV Require Import Base.CasesLib Comb.FockModel C05.PassiveModel.
Import ListNotations.

Definition tol : Q := 1 # 1000000000.
Definition close (m i : Q) : bool := Qle_bool (Qabs (i - m)) (tol * (1 + Qabs m))%Q.
Fixpoint all_close (ms is_ : list Q) : bool :=
  match ms, is_ with
  | [], [] => true
  | m :: r, i :: r' => close m i && all_close r r'
  | _, _ => false
  end.
Definition nat_list_eqb := list_eqb Nat.eqb.

(* status of an interface on the implementation: 0 value, 1 refused
   (NotImplementedCalculation), 2 other exception (reported by the harness itself) *)
Record observed := {
  o_d_active : nat; o_total : nat; o_cutoff : Z;
  o_active : list nat; o_ps_modes : list nat; o_ps_photons : list Z;
  o_single : list Q;
  o_table_st : Z; o_table : list Q;
  o_keys_st : Z; o_keys : list (list Z);
  o_norm_st : Z; o_norm : Q;
  o_sv_st : Z; o_sv : list (Q * Q);
  o_marg : list (list nat * Z * list (list Z) * list Q);
  o_T : list (list (Q * Q))
}.

Record case := {
  c_N : list (list Zi); c_D : Z; c_d : nat; c_nloss : nat;
  c_s : list Z; c_ov : overlap;
  c_steps : list (list nat * list Z); c_cutoff0 : Z; c_lossy : bool;
  c_obs : observed
}.

(* a case given as an instruction sequence: the matrices are computed by the model *)
Record seqcase := {
  s_d : nat; s_s : list Z; s_ov : overlap; s_seq : list step; s_cutoff0 : Z; s_lossy : bool;
  s_obs : observed
}.

Definition ov_gram (ov : overlap) (n : nat) : list (list Zi) * Z :=
  match ov with
  | Indist => (uniform_gram n 1 1, 1%Z)
  | Uniform x => (uniform_gram n (Qnum x) (Zpos (Qden x)), Zpos (Qden x))
  | Gram G Dg => (G, Dg)
  end.
Definition is_indist (ov : overlap) : bool := match ov with Indist => true | _ => false end.
(* simulation_steps.py:distinguishable_number_state : a scalar overlap close to 1 is stored as
   None, i.e. the state is flagged indistinguishable *)
Definition normalise_overlap (ov : overlap) : overlap :=
  match ov with Uniform x => if Qeq_bool x 1 then Indist else ov | _ => ov end.

Definition flag (b : bool) (code : Z) : list Z := if b then [] else [code].

(* codes: 1 generator (not an isometry); 2 bookkeeping; 3 single outcome; 4 table;
   5 table keys; 6 norm; 7 state vector; 8 marginal; 9 reference table does not sum to 1;
   10 repaired coefficient-extraction formula differs from the reference (exact);
   21 / 22 / 23 single / table / norm (= sum of the table) differ from the reference but equal
   the formula as coded;
   31 rows handed to the probability routine are not aligned with the table keys;
   32 the interferometer / transmission matrix held by the state *)
Definition close_zi (D : Z) (m : Zi) (i : Q * Q) : bool :=
  close (inject_Z (fst m) / inject_Z D)%Q (fst i) && close (inject_Z (snd m) / inject_Z D)%Q (snd i).
Fixpoint all2 {X Y} (f : X -> Y -> bool) (a : list X) (b : list Y) : bool :=
  match a, b with
  | [], [] => true
  | x :: r, y :: r' => f x y && all2 f r r'
  | _, _ => false
  end.

Definition check_core (N : list (list Zi)) (D : Z) (d nl : nat) (s : list Z) (ov : overlap)
           (dct : psdict) (cutoff : Z) (lossy : bool) (o : observed) : list Z :=
  let c_lossy := fun _ : unit => lossy in let c := tt in
  let keys := table_keys d dct cutoff in
  let ref := ref_table N D d nl ov s dct cutoff in
  let n := Z.to_nat (sumZ s) in
  let mref := match o_marg o with
              | [] => []
              | _ => if Z.eqb (marginal_cutoff s dct) cutoff then ref
                     else ref_table N D d nl ov s dct (marginal_cutoff s dct)
              end in
  let '(G, Dg) := ov_gram ov n in
  let fulls := map (full_occupation d dct) keys in
  let coded := map (ryser_coeff true N D d G Dg s) fulls in
  let repaired := map (ryser_coeff false N D d G Dg s) fulls in
  let ovn := normalise_overlap ov in
  let ryser_single := negb (is_indist ovn) && (c_lossy c || match ov with Gram _ _ => true | _ => false end) in
  let ryser_table := c_lossy c || negb (is_indist ovn) in
  flag (is_isometry N D d) 1 ++
  flag (Nat.eqb (o_d_active o) (d_active d (ps_modes dct)) && Nat.eqb (o_total o) d &&
        Z.eqb (o_cutoff o) cutoff &&
        nat_list_eqb (o_active o) (active_modes d (ps_modes dct)) &&
        nat_list_eqb (o_ps_modes o) (ps_modes dct) && zl_eqb (o_ps_photons o) (ps_photons dct)) 2 ++
  (if all_close ref (o_single o) then []
   else if ryser_single && all_close coded (o_single o) then [21] else [3]) ++
  (match o_table_st o with
   | 0%Z => if all_close ref (o_table o) then []
          else if ryser_table && all_close coded (o_table o) then [22] else [4]
   | 2%Z => []
   | _ => [4]
   end) ++
  (match o_keys_st o with
   | 0%Z => flag (zll_eqb (o_keys o) keys) 5
   | 2%Z => []
   | _ => [5]
   end) ++
  (match o_norm_st o with
   | 0%Z => match dct with
            | [] => flag (close 1%Q (o_norm o)) 6
            | _ => (* norm of a post-selected state = sum of fock_probabilities *)
                   if close (qsum ref) (o_norm o) then []
                   else if ryser_table && close (qsum coded) (o_norm o) then [23] else [6]
            end
   | 2%Z => []
   | _ => [6]
   end) ++
  (let accepts := negb (c_lossy c) && is_indist ovn in
   match o_sv_st o with
   | 0%Z => flag (accepts &&
                (fix go (ms : list (Zi * Z)) (is_ : list (Q * Q)) : bool :=
                   match ms, is_ with
                   | [], [] => true
                   | (p, f) :: r, (re, im) :: r' =>
                       (* impl^2 * s!t! = (perm/D^n)^2  and  Re(impl * conj perm) >= 0 *)
                       let dn := inject_Z (D ^ Z.of_nat n) in
                       let pr := (inject_Z (fst p) / dn)%Q in let pi := (inject_Z (snd p) / dn)%Q in
                       let ff := inject_Z f in
                       close (pr * pr - pi * pi)%Q ((re * re - im * im) * ff)%Q &&
                       close (2 * pr * pi)%Q (2 * re * im * ff)%Q &&
                       Qle_bool (- tol)%Q (re * pr + im * pi)%Q && go r r'
                   | _, _ => false
                   end) (ref_amplitudes N d s dct cutoff) (o_sv o)) 7
   | 1%Z => flag (negb accepts) 7
   | _ => []
   end) ++
  concat (map (fun m : list nat * Z * list (list Z) * list Q =>
     let '(M, st, ks, vs) := m in
     let accepts := (negb (c_lossy c) || is_uniform N d) && is_indist ovn in
     match st with
     | 0%Z => let '(outs, vals) := ref_marginal_from d s dct mref M in
            flag (accepts && zll_eqb ks outs && all_close vals vs) 8
     | 1%Z => flag (negb accepts) 8
     | _ => []
     end) (o_marg o)) ++
  flag (match dct with
        | [] => if (sumZ s <? cutoff)%Z then Qeq_bool (qsum ref) 1%Q else true
        | _ => true end) 9 ++
  flag (list_eqb Qeq_bool repaired ref) 10 ++
  flag (match fock_probabilities_rows d dct cutoff with
        | Some rows => zll_eqb rows fulls
        | None => false end) 31 ++
  flag (all2 (all2 (close_zi D)) (firstn d N) (o_T o)) 32.

Definition check_case (c : case) : list Z :=
  let '(dct, cutoff) := set_postselections (c_d c) [] (c_cutoff0 c) (c_steps c) in
  check_core (c_N c) (c_D c) (c_d c) (c_nloss c) (c_s c) (c_ov c) dct cutoff (c_lossy c) (c_obs c).

(* sequence case: transmission rows, loss rows, dictionary and cutoff all come from the model
   of the instruction sequence *)
Definition check_seq (c : seqcase) : list Z :=
  let st := run_sequence (s_d c) (s_cutoff0 c) (s_seq c) in
  check_core (q_T st ++ q_L st) (q_D st) (s_d c) (length (q_L st)) (s_s c) (s_ov c)
             (q_dct st) (q_cutoff st) (s_lossy c) (s_obs c).

Definition run_cases (l : list case) : list (list Z) := map check_case l.
Definition run_seqcases (l : list seqcase) : list (list Z) := map check_seq l.
