(* C12 - model of the executor's handling of the caller's instruction objects.
   Definitions only (proofs are in ExecProofs.v), stdlib style.

   Host objects are explicit records.  A parameter value keeps apart what the caller
   wrote: a plain value, a string, an Expression object, a callable.  Mutation through
   a reference (instruction._modes, instruction._params) is a function returning the
   new record; the instruction list is threaded through the executor and returned, so
   "what the caller holds afterwards" is the second component of the result.

   Everything the executor cannot know (condition values, resolved parameter values,
   _validate, the simulation step: whether it raises and which sub-branches come back)
   is read from a history, one event per call, in call order.  Quantifying over every
   history covers every fault position, every stage and every outcome history.

   The repairs are switches of a [variant], so that the same definitions describe the
   tree before the fix commits ([current]) and the repaired tree ([repaired] = the fixes
   branch: try/finally restoration, the caller's string kept, and validation moved in
   front of the evolution); the check says which of them the implementation follows. *)
From Coq Require Import ZArith List Bool.
Import ListNotations.
Open Scope Z_scope.

(* ------------------------------------------------------------------ parameters *)
Inductive pval :=
| PConst (v : Z)       (* number / array / anything neither str nor callable *)
| PStr (src : Z)       (* the caller's string (src identifies the text) *)
| PExpr (src : Z)      (* core/_expressions.py:Expression built from that text *)
| PCallable (c : Z).   (* the caller's callable *)

Definition params := list (Z * pval).   (* a dict: insertion-ordered, keys = names *)

Definition upd1 (k : Z) (v : pval) (kv : Z * pval) : Z * pval :=
  if fst kv =? k then (fst kv, v) else kv.
Definition has_key (k : Z) (ps : params) : bool := existsb (fun kv => fst kv =? k) ps.
(* dict.__setitem__: an existing key keeps its position *)
Definition set_key (k : Z) (v : pval) (ps : params) : params :=
  if has_key k ps then map (upd1 k v) ps else ps ++ [(k, v)].
(* dict.update *)
Definition update (ps us : params) : params :=
  fold_left (fun acc u => set_key (fst u) (snd u) acc) us ps.

Definition is_callable (p : pval) : bool :=
  match p with PCallable _ | PExpr _ => true | _ => false end.
Definition is_str (p : pval) : bool := match p with PStr _ => true | _ => false end.
Definition to_expr (p : pval) : pval := match p with PStr s => PExpr s | x => x end.

(* api/instruction.py:Instruction._get_unresolved_params
   {**callable_params, **{name: Expression(param) for str params}} *)
Definition get_unresolved (ps : params) : params :=
  filter (fun kv => is_callable (snd kv)) ps
  ++ map (fun kv => (fst kv, to_expr (snd kv))) (filter (fun kv => is_str (snd kv)) ps).
(* fixes/C12-keep-caller-string.diff: the caller's own objects under the same names *)
Definition originals (ps : params) : params :=
  filter (fun kv => is_callable (snd kv)) ps ++ filter (fun kv => is_str (snd kv)) ps.

(* ------------------------------------------------------------------ instructions *)
Inductive kind := KPrep | KGate | KMeas.

Record instr := mkI {
  i_kind : kind;            (* isinstance(_, Preparation / Measurement) *)
  i_known : bool;           (* type(instruction) is a key of simulator._instruction_map *)
  i_nmodes : option Z;      (* NUMBER_OF_MODES *)
  i_mid_ok : bool;          (* in _measurement_classes_allowed_mid_circuit *)
  i_none_ok : bool;         (* in _measurement_classes_allowed_with_shots_none *)
  i_modes : list Z;         (* what the [modes] property returns; [] = no modes given *)
  i_params : params;        (* _params *)
  i_unres : params;         (* _unresolved_params, fixed by __init__ *)
  i_orig : params;          (* _original_unresolved_params (repair), fixed by __init__ *)
  i_cond : option Z         (* _condition (callable or Expression), None if absent *)
}.

(* api/instruction.py:Instruction.__init__ *)
Definition mk_instr (k : kind) (known : bool) (nm : option Z) (mid none : bool)
  (modes : list Z) (ps : params) (c : option Z) : instr :=
  mkI k known nm mid none modes ps (get_unresolved ps) (originals ps) c.

Definition with_modes (i : instr) (m : list Z) : instr :=
  mkI (i_kind i) (i_known i) (i_nmodes i) (i_mid_ok i) (i_none_ok i) m
      (i_params i) (i_unres i) (i_orig i) (i_cond i).
Definition with_params (i : instr) (ps : params) : instr :=
  mkI (i_kind i) (i_known i) (i_nmodes i) (i_mid_ok i) (i_none_ok i) (i_modes i)
      ps (i_unres i) (i_orig i) (i_cond i).

Definition is_meas (i : instr) : bool := match i_kind i with KMeas => true | _ => false end.
Definition is_prep (i : instr) : bool := match i_kind i with KPrep => true | _ => false end.

(* ------------------------------------------------------------------ outcomes, histories *)
Inductive err :=
| EInvalidParameter | EInvalidSimulation | EInvalidModes | EInvalidState
| EInvalidProgram | EValueError | EPiquasso | EInjected | EInactiveModes.

Inductive ev :=
| EvRaise                                (* this call raises *)
| EvVal (z : Z) (subs : list (list Z)).  (* it returns: z = condition truth value (0 = false)
                                            or parameter value; subs = outcomes of the
                                            sub-branches a simulation step returns *)
Definition hist := list ev.

(* what each external call got to see *)
Inductive call :=
| CCond (idx : Z) (outcome : list Z)
| CParam (idx : Z) (name : Z) (outcome : list Z)
| CValidate (idx : Z) (modes : list Z) (ps : params)
| CStep (idx : Z) (modes : list Z) (ps : params) (outcome : list Z).

Record variant := mkV {
  v_fin : bool;   (* fixes/C12-restore-on-exception.diff: try/finally around remap and resolve *)
  v_keep : bool;  (* fixes/C12-keep-caller-string.diff: write back the caller's object *)
  v_up : bool     (* "reject invalid programs before any evolution": repeated modes, measured-mode
                     re-use, mode-less arity, shots=None support and _validate of
                     outcome-independent instructions are checked in execute_instructions;
                     inside the loop _validate only runs for outcome-dependent instructions *)
}.
Definition current := mkV false false false.
Definition repaired := mkV true true true.

(* ------------------------------------------------------------------ modes *)
Definition memz (x : Z) (l : list Z) : bool := existsb (Z.eqb x) l.

(* tuple.index *)
Fixpoint index_of (x : Z) (l : list Z) : Z :=
  match l with [] => 0 | y :: r => if x =? y then 0 else 1 + index_of x r end.

(* api/simulator.py:Simulator._remap_modes *)
Definition remap_modes (active modes : list Z) : list Z := map (fun m => index_of m active) modes.
(* api/simulator.py:Simulator._remap_modes_inverse *)
Definition remap_inverse (active modes : list Z) : list Z :=
  map (fun m => nth (Z.to_nat m) active 0) modes.
(* api/simulator.py:Simulator._delete_modes_from_active *)
Definition delete_modes (active modes : list Z) : list Z :=
  filter (fun m => negb (memz m (remap_inverse active modes))) active.

(* api/instruction.py:Instruction._validate_modes (called by the [modes] setter) *)
Definition modes_ok (i : instr) (m : list Z) : bool :=
  match i_nmodes i with Some n => Z.of_nat (length m) =? n | None => true end.

Fixpoint range_from (a : Z) (n : nat) : list Z :=
  match n with O => [] | S k => a :: range_from (a + 1) k end.
Definition range (d : Z) : list Z := range_from 0 (Z.to_nat d).

(* ------------------------------------------------------------------ per-branch part *)
(* api/instruction.py:Instruction._resolve_params: every unresolved parameter is called
   with the branch's outcomes; _params.update(...) only happens when all succeeded.
   The trace is accumulated in reverse. *)
Fixpoint resolve_all (idx : Z) (outcome : list Z) (us : params) (h : hist) (tr : list call)
  : option params * hist * list call :=
  match us with
  | [] => (Some [], h, tr)
  | u :: r =>
    let tr1 := CParam idx (fst u) outcome :: tr in
    match h with
    | EvVal z _ :: h' =>
      let '(res, h2, tr2) := resolve_all idx outcome r h' tr1 in
      (match res with Some rs => Some ((fst u, PConst z) :: rs) | None => None end, h2, tr2)
    | _ => (None, tl h, tr1)
    end
  end.

(* api/instruction.py:Instruction._is_resolved *)
Definition is_resolved (i : instr) : bool := match i_unres i with [] => true | _ => false end.

(* api/instruction.py:Instruction._unresolve_params *)
Definition unresolve (v : variant) (i : instr) : instr :=
  with_params i (update (i_params i) (if v_keep v then i_orig i else i_unres i)).

(* api/simulator.py:Simulator._apply_instruction_to_branches, the loop over branches.
   A branch is represented by its outcome tuple.  Returns the new branches or the
   exception, and the instruction object as it is left. *)
Fixpoint branch_loop (v : variant) (validate : bool) (idx : Z) (i : instr)
  (bs : list (list Z)) (h : hist) (tr : list call)
  : (err + list (list Z)) * instr * hist * list call :=
  match bs with
  | [] => (inr [], i, h, tr)
  | b :: rest =>
    (* instruction._is_condition_met(branch.outcome) *)
    let '(cres, h1, tr1) :=
      match i_cond i with
      | None => (Some true, h, tr)
      | Some _ =>
        match h with
        | EvVal z _ :: h' => (Some (negb (z =? 0)), h', CCond idx b :: tr)
        | _ => (None, tl h, CCond idx b :: tr)
        end
      end in
    match cres with
    | None => (inl EPiquasso, i, h1, tr1)
    | Some false =>
      let '(r, i', h2, tr2) := branch_loop v validate idx i rest h1 tr1 in
      (match r with inr nb => inr (b :: nb) | inl e => inl e end, i', h2, tr2)
    | Some true =>
      let '(rres, h2, tr2) := resolve_all idx b (i_unres i) h1 tr1 in
      match rres with
      | None => (inl EInvalidParameter, i, h2, tr2)
      | Some rs =>
        let i1 := with_params i (update (i_params i) rs) in
        let on_raise := if v_fin v then unresolve v i1 else i1 in
        (* if self.config.validate [and not is_instruction_resolved]: instruction._validate(...) *)
        let '(vok, h3, tr3) :=
          if validate && (negb (v_up v) || negb (is_resolved i)) then
            match h2 with
            | EvVal _ _ :: h' => (true, h', CValidate idx (i_modes i1) (i_params i1) :: tr2)
            | _ => (false, tl h2, CValidate idx (i_modes i1) (i_params i1) :: tr2)
            end
          else (true, h2, tr2) in
        if negb vok then (inl EInjected, on_raise, h3, tr3) else
        let tr4 := CStep idx (i_modes i1) (i_params i1) b :: tr3 in
        match h3 with
        | EvVal _ subs :: h4 =>
          (* subbranch.outcome = branch.outcome + subbranch.outcome *)
          let newb := map (fun o => b ++ o) subs in
          let i2 := unresolve v i1 in
          let '(r, i', h5, tr5) := branch_loop v validate idx i2 rest h4 tr4 in
          (match r with inr nb => inr (newb ++ nb) | inl e => inl e end, i', h5, tr5)
        | _ => (inl EInjected, on_raise, tl h3, tr4)
        end
      end
    end
  end.

(* api/simulator.py:Simulator._apply_instruction_to_branches *)
Definition apply_to_branches (v : variant) (validate shots_none : bool) (idx : Z) (i : instr)
  (bs : list (list Z)) (h : hist) (tr : list call)
  : (err + list (list Z)) * instr * hist * list call :=
  if negb (i_known i) then (inl EInvalidSimulation, i, h, tr)        (* _get_simulation_step *)
  else if is_meas i && shots_none && negb (i_none_ok i) then (inl EInvalidParameter, i, h, tr)
  else branch_loop v validate idx i bs h tr.

(* ------------------------------------------------------------------ the instruction loop *)
(* api/simulator.py:Simulator._do_execute_instructions.  Returns the result, the list of
   instruction objects as left behind, and the trace. *)
Fixpoint do_exec (v : variant) (validate shots_none : bool) (idx : Z) (active : list Z)
  (prog : list instr) (bs : list (list Z)) (h : hist) (tr : list call)
  : (err + list (list Z)) * list instr * list call :=
  match prog with
  | [] => (inr bs, [], tr)
  | i :: rest =>
    let original := i_modes i in
    (* if instruction.modes is tuple(): instruction.modes = active_modes *)
    let modeless := match i_modes i with [] => true | _ => false end in
    if modeless && negb (modes_ok i active) then (inl EInvalidProgram, i :: rest, tr) else
    let i1 := if modeless then with_modes i active else i in
    let leave (x : instr) := if v_fin v then with_modes x original else x in
    if existsb (fun m => negb (memz m active)) (i_modes i1)
    then (inl EValueError, leave i1 :: rest, tr) else
    let rm := remap_modes active (i_modes i1) in
    if negb (modes_ok i1 rm) then (inl EInvalidProgram, leave i1 :: rest, tr) else
    let i2 := with_modes i1 rm in
    let '(r, i3, h1, tr1) := apply_to_branches v validate shots_none idx i2 bs h tr in
    match r with
    | inl e => (inl e, leave i3 :: rest, tr1)
    | inr bs' =>
      let active' := if is_meas i3 then delete_modes active (i_modes i3) else active in
      let i4 := with_modes i3 original in            (* instruction._modes = original_modes *)
      let '(r2, rest', tr2) := do_exec v validate shots_none (idx + 1) active' rest bs' h1 tr1 in
      (r2, i4 :: rest', tr2)
    end
  end.

(* ------------------------------------------------------------------ validation up front *)
Definition list_max (l : list Z) : Z := fold_left Z.max l (hd 0 l).

(* api/simulator.py:_infer_number_of_modes_from_instructions *)
Definition infer_d (prog : list instr) : option Z :=
  fold_left (fun (nm : option Z) i =>
    match i_modes i with
    | [] => nm
    | m =>
      let mx := list_max m in
      match nm with
      | None => Some (mx + 1)
      | Some n => if (n =? 0) || (mx >=? n) then Some (mx + 1) else nm
      end
    end) prog None.

(* api/simulator.py:Simulator._try_to_infer_d_from_instructions: self.d or infer(...) *)
Definition try_infer_d (sim_d : option Z) (prog : list instr) : option Z :=
  match sim_d with
  | Some d => if d =? 0 then infer_d prog else Some d
  | None => infer_d prog
  end.

(* _validate_preparations_at_beginning *)
Fixpoint preps_first (seen_other : bool) (prog : list instr) : bool :=
  match prog with
  | [] => true
  | i :: r => if is_prep i then negb seen_other && preps_first seen_other r
              else preps_first true r
  end.
(* _validate_measurements_at_end *)
Fixpoint meas_last (prog : list instr) : bool :=
  match prog with
  | [] => true
  | i :: r => match r with
              | [] => true
              | _ => negb (is_meas i && negb (i_mid_ok i)) && meas_last r
              end
  end.

Fixpoint distinct (l : list Z) : bool :=
  match l with [] => true | x :: r => negb (memz x r) && distinct r end.

(* api/simulator.py:Simulator._validate_active_modes (fixes branch): the modes of a measurement
   leave the register whatever the outcome, so re-use is detected beforehand *)
Fixpoint validate_active (active : list Z) (prog : list instr) : option err :=
  match prog with
  | [] => None
  | i :: r =>
    let bad :=
      match i_modes i with
      | [] => if negb (modes_ok i active) then Some EInvalidProgram else None
      | m => if existsb (fun x => negb (memz x active)) m then Some EInactiveModes else None
      end in
    match bad with
    | Some e => Some e
    | None =>
      let active' :=
        if is_meas i then
          match i_modes i with
          | [] => []
          | m => filter (fun x => negb (memz x m)) active
          end
        else active in
      validate_active active' r
    end
  end.

(* api/simulator.py:Simulator._validate_instructions *)
Definition validate_instructions (v : variant) (prog : list instr) (d : Z) : option err :=
  if negb (forallb i_known prog) then Some EInvalidSimulation
  else if negb (forallb (fun i => forallb (fun m => (0 <=? m) && (m <? d)) (i_modes i)
                                   && (negb (v_up v) || distinct (i_modes i))) prog)
       then Some EInvalidModes
  else if negb (preps_first false prog) then Some EInvalidSimulation
  else if negb (meas_last prog) then Some EInvalidSimulation
  else if v_up v then validate_active (range d) prog
  else None.

(* api/simulator.py:Simulator.validate *)
Definition validate_program (v : variant) (sim_d : option Z) (prog : list instr) : option err :=
  match try_infer_d sim_d prog with
  | None => Some EInvalidSimulation
  | Some d => validate_instructions v prog d
  end.

(* api/simulator.py:Simulator._validate_resolved_parameters (fixes branch): _validate of every
   instruction whose parameters do not depend on outcomes, before the evolution; the
   instruction is seen as the caller wrote it (modes not remapped) *)
Fixpoint prevalidate (idx : Z) (prog : list instr) (h : hist) (tr : list call)
  : bool * hist * list call :=
  match prog with
  | [] => (true, h, tr)
  | i :: r =>
    if is_resolved i then
      let tr1 := CValidate idx (i_modes i) (i_params i) :: tr in
      match h with
      | EvVal _ _ :: h' => prevalidate (idx + 1) r h' tr1
      | _ => (false, tl h, tr1)
      end
    else prevalidate (idx + 1) r h tr
  end.

(* api/simulator.py:Simulator.execute / execute_instructions.
   shots: None = shots=None, Some n = the integer n.
   init: None = no initial_state, Some (right_class, d0) otherwise. *)
Definition execute (v : variant) (validate : bool) (sim_d : option Z) (shots : option Z)
  (init : option (bool * Z)) (prog : list instr) (h : hist)
  : (err + list (list Z)) * list instr * list call :=
  let bad_shots :=
    match shots with
    | Some n => if n <=? 0 then Some EInvalidParameter else None
    | None => None
    end in
  match bad_shots with
  | Some e => (inl e, prog, [])
  | None =>
    match try_infer_d sim_d prog with
    | None => (inl EInvalidSimulation, prog, [])
    | Some d =>
      match validate_instructions v prog d with
      | Some e => (inl e, prog, [])
      | None =>
        let shots_none := match shots with None => true | _ => false end in
        (* _validate_shots_none_support *)
        if v_up v && shots_none && existsb (fun i => is_meas i && negb (i_none_ok i)) prog
        then (inl EInvalidParameter, prog, []) else
        let bad_state :=
          match init with
          | Some (right_class, d0) => negb right_class || negb (d0 =? d)
          | None => false
          end in
        if bad_state then (inl EInvalidState, prog, []) else
        let '(pok, h0, tr0) :=
          if v_up v && validate then prevalidate 0 prog h [] else (true, h, []) in
        if negb pok then (inl EInjected, prog, rev tr0) else
        let '(r, prog', tr) := do_exec v validate shots_none 0 (range d) prog [[]] h0 tr0 in
        (r, prog', rev tr)
      end
    end
  end.

(* ------------------------------------------------------------------ flat encodings (for the tie) *)
Definition ser_pval (p : pval) : list Z :=
  match p with PConst v => [0; v] | PStr s => [1; s] | PExpr s => [2; s] | PCallable c => [3; c] end.
Definition ser_list (l : list Z) : list Z := Z.of_nat (length l) :: l.
Definition ser_params (ps : params) : list Z :=
  Z.of_nat (length ps) :: flat_map (fun kv => fst kv :: ser_pval (snd kv)) ps.
Definition ser_instr (i : instr) : list Z :=
  ser_list (i_modes i) ++ ser_params (i_params i)
  ++ match i_cond i with None => [0] | Some c => [1; c] end.
Definition ser_prog (p : list instr) : list Z := Z.of_nat (length p) :: flat_map ser_instr p.
Definition ser_call (c : call) : list Z :=
  match c with
  | CCond idx o => [0; idx] ++ ser_list o
  | CParam idx name o => [1; idx; name] ++ ser_list o
  | CValidate idx m ps => [2; idx] ++ ser_list m ++ ser_params ps
  | CStep idx m ps o => [3; idx] ++ ser_list m ++ ser_params ps ++ ser_list o
  end.
Definition ser_trace (t : list call) : list Z := Z.of_nat (length t) :: flat_map ser_call t.
Definition err_code (e : err) : Z :=
  match e with
  | EInvalidParameter => 1 | EInvalidSimulation => 2 | EInvalidModes => 3 | EInvalidState => 4
  | EInvalidProgram => 5 | EValueError => 6 | EPiquasso => 7 | EInjected => 8
  | EInactiveModes => 9
  end.
Definition ser_result (r : err + list (list Z)) : list Z :=
  match r with
  | inl e => [err_code e]
  | inr bs => 0 :: Z.of_nat (length bs) :: flat_map ser_list bs
  end.
Definition ser_run (x : (err + list (list Z)) * list instr * list call) : list Z :=
  let '(r, p, t) := x in ser_result r ++ ser_prog p ++ ser_trace t.
