(* C09 -- Results do not depend on the numerical connector.
   Only statements closed by [exact]; proofs live in C09/.  What is proved is the *logic* of the
   connector layer (assignment laws, accumulator, equality of the re-implemented recurrences,
   independence of the modelled steps from the connector); agreement of the NumPy / TensorFlow /
   JAX numerics themselves is a differential test in the check, not a theorem. *)
From Coq Require Import List Arith Ring QArith.
From PV Require Import C09.ConnModel C09.ListLemmas C09.ConnProofs C09.Carriers.
Import ListNotations.
Open Scope nat_scope.

Section Laws.
Variable A : Type.
Variable zero : A.

(* assign, frame: a position that is not in the index array keeps its value *)
Theorem C09_assign_frame : forall (v : list A) idx vals k,
  ~ In k idx -> nth k (assign_list A v idx vals) zero = nth k v zero.
Proof. exact (assign_list_frame A zero). Qed.

(* assign, get-after-set: position idx[a] reads vals[a] unless a later entry repeats idx[a]
   (so with repeated indices the last value stays) *)
Theorem C09_assign_get_after_set : forall (v : list A) idx vals a,
  a < length idx -> a < length vals -> nth a idx 0 < length v ->
  ~ In (nth a idx 0) (skipn (S a) idx) ->
  nth (nth a idx 0) (assign_list A v idx vals) zero = nth a vals zero.
Proof. exact (assign_list_get A zero). Qed.

Theorem C09_assign_length : forall (v : list A) idx vals,
  length (assign_list A v idx vals) = length v.
Proof. exact (assign_list_length A). Qed.

(* matrix assignment through a pair of index arrays (get_operator_index / np.ix_) *)
Theorem C09_assign_pairs_frame : forall (M : list (list A)) R C vals i j,
  ~ In (i, j) (combine (concat R) (concat C)) ->
  get2 A zero (assign_pairs A M R C vals) i j = get2 A zero M i j.
Proof. exact (assign_pairs_frame A zero). Qed.

Theorem C09_assign_pairs_get_after_set : forall (M : list (list A)) R C vals a,
  let P := combine (concat R) (concat C) in
  NoDup P -> a < length P -> a < length (concat vals) ->
  fst (nth a P (0, 0)) < length M -> snd (nth a P (0, 0)) < length (nth (fst (nth a P (0, 0))) M []) ->
  get2 A zero (assign_pairs A M R C vals) (fst (nth a P (0, 0))) (snd (nth a P (0, 0)))
  = nth a (concat vals) zero.
Proof. exact (assign_pairs_get A zero). Qed.

(* np.ix_(rows, cols) after broadcasting writes exactly rows x cols, nothing else changes *)
Theorem C09_assign_ix_frame : forall (M : list (list A)) rows cols vals i j,
  ~ (In i rows /\ In j cols) ->
  get2 A zero (assign_ix A M rows cols vals) i j = get2 A zero M i j.
Proof. exact (assign_ix_frame A zero). Qed.

(* the Python-list accumulator (append, index ignored) and the TensorArray accumulator (slot
   writes) stack to the same matrix for the write order 0, 1, 2, ... used by gate_matrices.py *)
Theorem C09_accumulators_agree : forall rows : list (list A), fill_list A rows = fill_arr A rows.
Proof. exact (accumulators_agree A). Qed.
End Laws.
Print Assumptions C09_assign_frame.
Print Assumptions C09_assign_get_after_set.
Print Assumptions C09_assign_length.
Print Assumptions C09_assign_pairs_frame.
Print Assumptions C09_assign_pairs_get_after_set.
Print Assumptions C09_assign_ix_frame.
Print Assumptions C09_accumulators_agree.

Section Algebra.
Variable A : Type.
Variables (zero one : A) (add mul sub : A -> A -> A) (opp inv : A -> A).
Hypothesis Rth : ring_theory zero one add mul sub opp (@eq A).
Let dv := div A mul inv.

(* BuiltinConnector.calculate_interferometer_on_fock_space (einsum, used by TensorFlow and JAX)
   and the numba triple loop of NumpyConnector compute the same list of representations, for
   every number of levels (cutoff), every well-shaped helper tuple (every d) and every matrix
   over a commutative ring *)
Theorem C09_generic_rep_eq_numba_rep : forall U hs,
  Forall (wf_level A U) hs ->
  generic_reps A zero one add mul dv U hs = numba_reps A zero one add mul dv U hs.
Proof. exact (generic_reps_eq_numba_reps A zero one add mul sub opp inv Rth). Qed.

(* ... and each entry is the documented sum (Eq. (71) of the reference, divided by the weight) *)
Theorem C09_numba_rep_entry : forall U prev h k i,
  k < length (l_fnz A h) -> i < length (l_sq A h) ->
  nth i (nth k (numba_level A zero add mul dv U prev h) []) zero
  = spec_entry A zero add mul dv U prev h k i.
Proof. exact (numba_level_spec A zero one add mul sub opp inv Rth). Qed.

(* parametricity: the pure-Fock passive step, written once over a connector record, gives the
   same state vector for any two connectors that meet the deterministic specification *)
Theorem C09_passive_step_connector_independent : forall c1 c2 sv U hs index_list,
  conn_ok A zero one add mul inv c1 -> conn_ok A zero one add mul inv c2 ->
  Forall (wf_level A U) hs ->
  Forall (fun idx => valid_idx (length sv) (concat idx)) index_list ->
  passive_step A zero add mul c1 sv U hs index_list = passive_step A zero add mul c2 sv U hs index_list.
Proof. exact (passive_step_connector_independent A zero one add mul inv). Qed.

Theorem C09_gaussian_mean_step_connector_independent : forall c1 c2 m T modes,
  conn_ok A zero one add mul inv c1 -> conn_ok A zero one add mul inv c2 ->
  valid_idx (length m) modes ->
  gaussian_mean_step A zero add mul c1 m T modes = gaussian_mean_step A zero add mul c2 m T modes.
Proof. exact (gaussian_mean_step_connector_independent A zero one add mul inv). Qed.

(* non-vacuity of conn_ok: the NumPy-semantics connector and the one using the generic
   recurrence both satisfy it *)
Theorem C09_reference_connectors_ok :
  conn_ok A zero one add mul inv (numpy_connector A zero one add mul dv) /\
  conn_ok A zero one add mul inv (generic_connector A zero one add mul dv).
Proof.
  exact (conj (numpy_connector_ok A zero one add mul inv)
              (generic_connector_ok A zero one add mul sub opp inv Rth)).
Qed.
End Algebra.
Print Assumptions C09_generic_rep_eq_numba_rep.
Print Assumptions C09_numba_rep_entry.
Print Assumptions C09_passive_step_connector_independent.
Print Assumptions C09_gaussian_mean_step_connector_independent.
Print Assumptions C09_reference_connectors_ok.

(* non-vacuity: repeated index, last value stays; negative index normalisation *)
Example C09_example_repeated_index :
  assign_list nat [10; 20; 30] [1; 1; 2] [7; 8; 9] = [10; 8; 9].
Proof. reflexivity. Qed.
Example C09_example_negative_index :
  assign_list_z nat [10; 20; 30] [(-1)%Z; 0%Z] [7; 8] = Some [8; 20; 7]
  /\ assign_list_z nat [10; 20; 30] [3%Z] [7] = None.
Proof. split; reflexivity. Qed.

(* the model runs at the Gaussian rationals (the carrier used by the tie): both recurrences on
   one small well-shaped level, and the result is not the trivial one *)
Example C09_example_reps_at_Qi :
  let U := [[(1, 0); (0, 1)]; [(1 # 2, 1 # 2); (-1 # 1, 0)]]%Q in
  let h := Build_level Qi [[0; 1]; [1; 0]] [0; 1] [0; 1]
             [[(1, 0); (2, 0)]; [(1, 0); (1, 0)]]%Q [(1, 0); (2, 0)]%Q in
  qilll_eqb (numba_reps Qi qi0 qi1 qi_add qi_mul qi_div U [h])
            (generic_reps Qi qi0 qi1 qi_add qi_mul qi_div U [h]) = true
  /\ qilll_eqb (numba_reps Qi qi0 qi1 qi_add qi_mul qi_div U [h]) [[[qi1]]; U; [[qi0; qi0]; [qi0; qi0]]] = false.
Proof. split; vm_compute; reflexivity. Qed.
