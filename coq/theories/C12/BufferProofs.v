(* C12 - proofs about the buffer model. *)
From Coq Require Import ZArith QArith Qabs List Bool.
From PV Require Import C12.BufferModel.
Import ListNotations.

(* with the copy, the caller's buffer is what it was, for every size and content *)
Theorem connector_pfaffian_preserves_buffer : forall n m, snd (connector_pfaffian true n m) = m.
Proof.
  intros n m. unfold connector_pfaffian. destruct (pfaffian_kernel n m) as [[v m'] t]. reflexivity.
Qed.

(* and the copy does not change the value *)
Theorem connector_pfaffian_value_same : forall n m,
  fst (connector_pfaffian true n m) = fst (connector_pfaffian false n m).
Proof.
  intros n m. unfold connector_pfaffian. destruct (pfaffian_kernel n m) as [[v m'] t]. reflexivity.
Qed.

(* sizes for which the kernel never writes: nothing to pivot or eliminate *)
Theorem kernel_small_buffer_unchanged : forall n m, (n <= 2)%nat ->
  snd (fst (pfaffian_kernel n m)) = m.
Proof.
  intros n m H. destruct n as [|[|[|n]]]; try (exfalso; inversion H as [|? H1]; inversion H1 as [|? H2]; inversion H2; fail).
  - reflexivity.
  - reflexivity.
  - unfold pfaffian_kernel. simpl.
    destruct (Qeq_bool (getq m 1) 0); reflexivity.
Qed.

Definition w4 : buf := map q_of_z [0; 1; 2; 3; -1; 0; 4; 5; -2; -4; 0; 6; -3; -5; -6; 0]%Z.

(* without the copy a 4 x 4 input is pivoted and eliminated in the caller's buffer *)
Theorem pfaffian_inplace_refuted_on_current :
  exists n m, snd (connector_pfaffian false n m) <> m.
Proof. exists 4%nat, w4. vm_compute. discriminate. Qed.

Example pfaffian_w4_value : Qeq_bool (fst (connector_pfaffian true 4 w4)) (8 # 1) = true.
Proof. vm_compute. reflexivity. Qed.
