"""C10 implementation runner (TensorFlow process).

 * gate:  the hand-written gradient functions of the state-vector application
          (_create_linear_active_gate_gradient_function, _create_linear_passive_gate_gradient_function)
          and the forward functions, called directly with NumPy inputs, index matrices either the
          implementation's own or supplied; eager (static upstream) and inside tf.function
          (symbolic upstream, the tnp code path);
 * rep:   calculate_interferometer_on_fock_space, _calculate_subspace_grad and
          _calculate_interferometer_gradient_on_fock_space with supplied helper tables;
 * disp:  create_single_mode_displacement_gradient / create_single_mode_squeezing_gradient;
 * e2e:   tf.GradientTape gradients / jacobians of simulator outputs.
"""
import json
import logging
import os
import sys

import numpy as np

sys.path.insert(0, os.path.dirname(os.path.abspath(__file__)))


def c(x):
    """[re, im] nested lists -> complex ndarray"""
    a = np.asarray(x, dtype=np.float64)
    return a[..., 0] + 1j * a[..., 1]


def uc(a):
    a = np.asarray(a)
    return np.stack([a.real, a.imag], axis=-1).tolist()


def main():
    req = json.load(sys.stdin)
    import tensorflow as tf

    tf.get_logger().setLevel(logging.ERROR)
    import numba as nb
    import piquasso as pq
    from piquasso._simulators.fock.pure import simulation_steps as ss
    import importlib
    pl = importlib.import_module("piquasso._simulators.fock.pure.simulation_steps.passive_linear")
    from piquasso._simulators.fock.simulation_steps import (
        calculate_state_index_matrix_list,
        calculate_index_list_for_appling_interferometer,
        calculate_interferometer_helper_indices,
    )
    from piquasso._math import gradients as gr
    from piquasso._math import gate_matrices as gm
    import c10_circuits as cc

    conn = pq.TensorflowConnector()
    out = {"repo": os.path.dirname(os.path.dirname(pq.__file__))}

    # ------------------------------------------------------------------ gate rules
    res = []
    for case in req.get("gate", []):
        r = {}
        try:
            sv = c(case["state"])
            up = c(case["upstream"])
            if case["index"] == "real":
                if case["kind"] == "active":
                    idx = calculate_state_index_matrix_list(case["d"], case["cutoff"], case["mode"])
                else:
                    idx = calculate_index_list_for_appling_interferometer(
                        tuple(case["modes"]), case["d"], case["cutoff"])
                idx = [np.asarray(x) for x in idx]
            else:
                idx = [np.asarray(x, dtype=np.int32) for x in case["blocks"]]
            r["blocks"] = [x.tolist() for x in idx]
            if case["kind"] == "active":
                M = c(case["matrix"])
                fwd = ss._calculate_state_vector_after_apply_active_gate(sv.copy(), M, idx, conn)
                gfun = ss._create_linear_active_gate_gradient_function(sv, M, idx, conn)
            else:
                Ms = [c(m) for m in case["matrices"]]
                fwd = pl._calculate_state_vector_after_interferometer(sv.copy(), Ms, idx, conn)
                gfun = pl._create_linear_passive_gate_gradient_function(sv, Ms, idx, conn)
            r["fwd"] = uc(fwd)
            gs, gmat = gfun(tf.constant(up))
            r["gs"] = uc(gs.numpy())
            r["gm"] = uc(gmat.numpy()) if case["kind"] == "active" else [uc(x.numpy()) for x in gmat]
            if case.get("graph"):
                @tf.function
                def graph(u):
                    return gfun(u)

                gs2, gmat2 = graph(tf.constant(up))
                r["gs_graph"] = uc(gs2.numpy())
                r["gm_graph"] = (uc(gmat2.numpy()) if case["kind"] == "active"
                                 else [uc(x.numpy()) for x in gmat2])
        except Exception as e:  # reported, compared as a failure by the check
            r["error"] = "%s: %s" % (type(e).__name__, str(e)[:300])
        res.append(r)
    out["gate"] = res

    # ------------------------------------------------------------------ representation rules
    res = []
    for case in req.get("rep", []):
        r = {}
        try:
            U = c(case["U"])
            d = U.shape[0]
            if case.get("real_tables"):
                helper = calculate_interferometer_helper_indices(d=d, cutoff=case["cutoff"])
                tabs = [tuple(np.asarray(helper[q][p]) for q in range(5)) for p in range(len(helper[0]))]
                r["tabs"] = [{"si": t[0].tolist(), "fnz": t[1].tolist(), "fs": t[2].tolist(),
                              "w2": np.rint(t[3] ** 2).astype(int).tolist(),
                              "sf2": np.rint(t[4] ** 2).astype(int).tolist()} for t in tabs]
            else:
                tabs = [(np.asarray(t["si"], dtype=np.int32), np.asarray(t["fnz"], dtype=np.int32),
                         np.asarray(t["fs"], dtype=np.int32), np.asarray(t["w"], dtype=np.float64),
                         np.asarray(t["sf"], dtype=np.float64)) for t in case["tabs"]]
                helper = tuple(nb.typed.List([t[q] for t in tabs]) for q in range(5))
            reps = conn.calculate_interferometer_on_fock_space(U, helper) if False else None
            from piquasso._simulators.connectors.numpy_.interferometer import (
                calculate_interferometer_on_fock_space)
            reps = [np.asarray(x) for x in calculate_interferometer_on_fock_space(U, helper)]
            r["reps"] = [uc(x) for x in reps[2:]]
            row, col = case["row"], case["col"]
            G = np.zeros_like(U)
            G[row, col] = 1.0
            chain = []
            for p, t in enumerate(tabs):
                G = pl._calculate_subspace_grad(row, col, reps[p + 1], t, U, G)
                chain.append(uc(G))
            r["grads"] = chain
            ups = [c(u) for u in case["upstream"]]
            gfun = pl._calculate_interferometer_gradient_on_fock_space(U, conn, reps, helper)
            full = gfun(*[tf.constant(u) for u in ups])
            r["full"] = uc(np.asarray(full))
        except Exception as e:
            r["error"] = "%s: %s" % (type(e).__name__, str(e)[:300])
        res.append(r)
    out["rep"] = res

    # ------------------------------------------------------------------ displacement / squeezing rules
    res = []
    for case in req.get("disp", []):
        r = {}
        try:
            cutoff = case["cutoff"]
            rr, phi = case["r"], case["phi"]
            up = c(case["upstream"])
            if case["kind"] == "displacement":
                mat = gm.create_single_mode_displacement_matrix(rr, phi, cutoff, np.complex128, conn)
                gfun = gr.create_single_mode_displacement_gradient(rr, phi, cutoff, np.asarray(mat), conn)
            else:
                mat = gm.create_single_mode_squeezing_matrix(rr, phi, cutoff, np.complex128, conn)
                gfun = gr.create_single_mode_squeezing_gradient(rr, phi, cutoff, np.asarray(mat), conn)
            r["matrix"] = uc(np.asarray(mat))
            gr_, gphi = gfun(tf.constant(up))
            r["grad"] = [float(gr_.numpy()), float(gphi.numpy())]
            # oracle: Richardson central differences of the NumPy matrix function, contracted
            # the way TensorFlow contracts a holomorphic-in-entries upstream: Re sum(up * conj(dM))
            npc = pq.NumpyConnector()
            mk = (gm.create_single_mode_displacement_matrix if case["kind"] == "displacement"
                  else gm.create_single_mode_squeezing_matrix)

            def F(a, b):
                return np.asarray(mk(a, b, cutoff, np.complex128, npc))

            fd = []
            h = 1e-3
            for da, db in ((1.0, 0.0), (0.0, 1.0)):
                d1 = (F(rr + h * da, phi + h * db) - F(rr - h * da, phi - h * db)) / (2 * h)
                d2 = (F(rr + h / 2 * da, phi + h / 2 * db) - F(rr - h / 2 * da, phi - h / 2 * db)) / h
                dM = (4 * d2 - d1) / 3
                fd.append(float(np.real(np.sum(up * np.conj(dM)))))
            r["fd"] = fd
            # the same derivative through the public entry point (custom-gradient wrapper and any
            # fast path in front of the rule), eager tape, both parameters differentiated
            from piquasso._math import fock as fk
            get_op = (fk.get_single_mode_displacement_operator if case["kind"] == "displacement"
                      else fk.get_single_mode_squeezing_operator)
            rv = tf.Variable(rr, dtype=tf.float64)
            pv = tf.Variable(phi, dtype=tf.float64)
            with tf.GradientTape() as tape:
                M = get_op(r=rv, phi=pv, cutoff=cutoff, complex_dtype=np.complex128, connector=conn)
                L = tf.math.real(tf.reduce_sum(tf.constant(np.conj(up)) * tf.cast(M, tf.complex128)))
            g = tape.gradient(L, [rv, pv])
            r["tape"] = [0.0 if x is None else float(np.real(np.asarray(x))) for x in g]
            r["tape_none"] = [x is None for x in g]
            r["entry_matrix_err"] = float(np.abs(np.asarray(M) - F(rr, phi)).max())
        except Exception as e:
            r["error"] = "%s: %s" % (type(e).__name__, str(e)[:300])
        res.append(r)
    out["disp"] = res

    # ------------------------------------------------------------------ end to end
    res = []
    for case in req.get("e2e", []):
        spec, theta = case["spec"], np.asarray(case["theta"], dtype=np.float64)
        r = {}
        for mode in case["modes"]:
            try:
                th = tf.Variable(theta)
                if mode == "eager_rows":
                    with tf.GradientTape(persistent=True) as tape:
                        o = cc.run(spec, th, conn, conn.np)
                        outs = [o[i] for i in range(o.shape[0])]
                    J = np.array([np.asarray(tape.gradient(x, th)) for x in outs])
                    val = o.numpy()
                elif mode == "eager_jacobian":
                    with tf.GradientTape() as tape:
                        o = cc.run(spec, th, conn, conn.np)
                    J = tape.jacobian(o, th).numpy()
                    val = o.numpy()
                elif mode in ("function", "function_jit"):
                    conn2 = pq.TensorflowConnector(
                        decorate_with=tf.function(jit_compile=True) if mode == "function_jit" else tf.function)

                    def f(th):
                        with tf.GradientTape() as tape:
                            o = cc.run(spec, th, conn2, conn2.np)
                        return o, tape.jacobian(o, th)

                    o, J = f(th)
                    val, J = o.numpy(), J.numpy()
                elif mode == "outer_function":
                    @tf.function
                    def f(th):
                        with tf.GradientTape() as tape:
                            o = cc.run(spec, th, conn, conn.np)
                        return o, tape.jacobian(o, th)

                    o, J = f(th)
                    val, J = o.numpy(), J.numpy()
                else:
                    raise ValueError(mode)
                r[mode] = {"value": np.real(val).tolist(), "jac": np.real(J).tolist()}
            except Exception as e:
                r[mode] = {"error": "%s: %s" % (type(e).__name__, str(e)[:300])}
        res.append(r)
    out["e2e"] = res
    print(json.dumps(out))


main()
