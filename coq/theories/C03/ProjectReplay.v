(* C03 - comparison of the projective model, run with Gaussian-rational amplitudes, with
   the branches returned by the Fock simulators for shots=None.  Definitions only. *)
From Coq Require Import ZArith QArith Qabs List Bool Arith.
From PV Require Import Base.CasesLib C03.ExecModel C03.ProjectModel.
Import ListNotations.

Definition qstate := pstate Qi.

Definition run_proj (d : nat) (psi : qstate) (Ls : list (list nat)) : list (pbranch Qi) :=
  measure_seq Qi qi_nrm Ls (pinitial Qi d psi).

(* measurements and post-selections in program order *)
Definition run_steps (d : nat) (psi : qstate) (sts : list pstep) : list (pbranch Qi) :=
  run_psteps Qi qi_nrm sts (pinitial Qi d psi).

Fixpoint lookup (v : vec) (phi : qstate) : option Qi :=
  match phi with [] => None | (u, a) :: r => if vec_eqb u v then Some a else lookup v r end.

Definition tol : Q := 1 # 1000000000.
Definition close (a b : Q) : bool := Qle_bool (Qabs (a - b)) (tol * (1 + Qabs a)).

(* the implementation's amplitude x must be sqrt(c) * phi_v (c the scale of the branch, > 0),
   decided without square roots:  |x|^2 = c * |phi_v|^2,  x * conj(phi_v) real and positive *)
Definition amp_ok (c : Q) (phi : qstate) (e : vec * Qi) : bool :=
  let '(v, x) := e in
  match lookup v phi with
  | None => false
  | Some a =>
      close (c * qi_nrm a) (qi_nrm x) &&
      close 0 (snd x * fst a - fst x * snd a) &&
      negb (Qle_bool (fst x * fst a + snd x * snd a) 0)
  end.

(* an observed branch: outcome, frequency, d of the state (None: no state left), the non-zero
   entries of its state vector, the squared norm the implementation reports for the state *)
Definition obranch := (vec * Q * option nat * list (vec * Qi))%type.

Definition pbranch_ok (bs : list (pbranch Qi)) (o : obranch) : bool :=
  let '(s, f, d, entries) := o in
  match find (fun b => vec_eqb (pb_out Qi b) s) bs with
  | None => false
  | Some b =>
      close (pb_freq Qi b) f &&
      match d with
      | None => Nat.eqb (length (pb_reg Qi b)) 0
      | Some n => Nat.eqb (length (pb_reg Qi b)) n &&
                  Nat.eqb (length entries) (length (pb_phi Qi b)) &&
                  forallb (amp_ok (pb_scale Qi b) (pb_phi Qi b)) entries
      end
  end.

(* the model branches against the observed ones, and the observed weight sum against the
   squared norm of the state just before the last measurement as the model computes it
   (exact_weights_sum / measure_branch_weights_sum) *)
Definition proj_case_ok (d : nat) (psi : qstate) (sts : list pstep) (obs : list obranch) : bool :=
  let bs := run_steps d psi sts in
  Nat.eqb (length bs) (length obs) && forallb (pbranch_ok bs) obs &&
  close (sumQ (map (pb_freq Qi) bs)) (sumQ (map (fun o => snd (fst (fst o))) obs)).

(* sequential and joint measurement agree inside the model (evaluated; the theorem is
   ProjectProofs.sequential_eq_joint) *)
Definition seq_joint_model_ok (d : nat) (psi : qstate) (L1 L2 : list nat) : bool :=
  let a := run_proj d psi [L1; L2] in
  let b := run_proj d psi [L1 ++ L2] in
  Nat.eqb (length a) (length b) &&
  forallb (fun x => existsb (fun y => vec_eqb (pb_out Qi x) (pb_out Qi y) &&
                                      Qeq_bool (pb_freq Qi x) (pb_freq Qi y) &&
                                      list_eqb Nat.eqb (pb_reg Qi x) (pb_reg Qi y) &&
                                      list_eqb (fun p q => vec_eqb (fst p) (fst q) && Qeq_bool (fst (snd p)) (fst (snd q))
                                                           && Qeq_bool (snd (snd p)) (snd (snd q)))
                                               (pb_phi Qi x) (pb_phi Qi y)) b) a.
