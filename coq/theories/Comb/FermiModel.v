(* Executable model of the fermionic Fock-basis functions.
   piquasso/fermionic/_utils.py : get_fock_subspace_dimension, get_cutoff_fock_space_dimension,
     _to_first_quantized, get_fock_subspace_index_first_quantized, get_fock_space_index,
     next_first_quantized, _to_second_quantized, next_second_quantized,
     get_fock_space_basis, binary_to_fock_indices, fock_to_binary_indices *)
From Coq Require Import ZArith List Bool Lia.
From PV Require Import Comb.FockModel.
Import ListNotations.
Open Scope Z_scope.

Definition f_subspace_dim (d k : Z) : Z := comb d k.

Definition f_cutoff_dim (d cutoff : Z) : Z :=
  fold_left (fun s k => s + f_subspace_dim d (Z.of_nat k)) (seq 0 (Z.to_nat cutoff)) 0.

(* positions of the entries equal to 1 *)
Fixpoint to_fq_from (i : Z) (occ : list Z) : list Z :=
  match occ with
  | [] => []
  | x :: r => if x =? 1 then i :: to_fq_from (i + 1) r else to_fq_from (i + 1) r
  end.
Definition to_fq (occ : list Z) : list Z := to_fq_from 0 occ.

(* sum_ = comb(d,n) - 1 - sum_i comb(d - fq[i] - 1, n - i) *)
Definition f_subspace_index_fq (fq : list Z) (d : Z) : Z :=
  let n := Z.of_nat (length fq) in
  if n =? 0 then 0 else
  let '(s, _) := fold_left (fun '(s, i) q => (s - comb (d - q - 1) (n - i), i + 1)) fq
                   (comb d n - 1, 0) in s.

Definition f_index_fq (fq : list Z) (d : Z) : Z :=
  f_cutoff_dim d (Z.of_nat (length fq)) + f_subspace_index_fq fq d.

Definition f_index (occ : list Z) : Z := f_index_fq (to_fq occ) (Z.of_nat (length occ)).
Definition f_subspace_index (occ : list Z) : Z :=
  f_subspace_index_fq (to_fq occ) (Z.of_nat (length occ)).

(* next_first_quantized: scan i = 0.. from the right; the first position with
   fq[l-i-1] < d-i-1 is incremented and the positions after it become consecutive;
   if none, the next sector starts at [0..l]. *)
Fixpoint next_fq_aux (d : Z) (revfq : list Z) (i : Z) : option (list Z) :=
  (* revfq = fq reversed, current head is fq[l-i-1]; returns the new fq (not reversed) *)
  match revfq with
  | [] => None
  | q :: rest =>
      if q <? d - i - 1 then
        Some (rev rest ++ map (fun j => q + 1 + Z.of_nat j) (seq 0 (S (Z.to_nat i))))
      else next_fq_aux d rest (i + 1)
  end.

Definition next_fq (fq : list Z) (d : Z) : list Z :=
  match next_fq_aux d (rev fq) 0 with
  | Some r => r
  | None => map Z.of_nat (seq 0 (S (length fq)))
  end.

Definition to_sq (fq : list Z) (d : nat) : list Z :=
  map (fun m => if existsb (Z.eqb (Z.of_nat m)) fq then 1 else 0) (seq 0 d).

Definition next_sq (occ : list Z) : list Z :=
  to_sq (next_fq (to_fq occ) (Z.of_nat (length occ))) (length occ).

Fixpoint iterate_list {A} (f : A -> A) (n : nat) (x : A) : list A :=
  match n with O => [] | S n' => x :: iterate_list f n' (f x) end.

(* get_fock_space_basis(d, cutoff): zeros, then next_second_quantized repeatedly *)
Definition f_basis (d : nat) (cutoff : Z) : list (list Z) :=
  iterate_list next_sq (Z.to_nat (f_cutoff_dim (Z.of_nat d) cutoff)) (repeat 0 d).

(* recursive specification of the same order: n ones on d modes, 1 before 0 *)
Fixpoint f_sector (d n : nat) : list (list Z) :=
  match d with
  | O => match n with O => [[]] | S _ => [] end
  | S d' =>
      (match n with O => [] | S n' => map (cons 1) (f_sector d' n') end)
      ++ map (cons 0) (f_sector d' n)
  end.
Definition f_basis_spec (d c : nat) : list (list Z) := concat (map (f_sector d) (seq 0 c)).

(* binary_to_fock_indices(d): binary value of each basis vector in Fock order *)
Definition binary_value (occ : list Z) : Z := fold_left (fun a x => 2 * a + x) occ 0.
Definition b2f (d : nat) : list Z := map binary_value (f_basis d (Z.of_nat d + 1)).
(* fock_to_binary_indices(d): inverse permutation as a list *)
Definition f2b (d : nat) : list Z :=
  let l := b2f d in
  map (fun b => match find (fun p => snd p =? Z.of_nat b) (combine (map Z.of_nat (seq 0 (length l))) l)
                with Some p => fst p | None => -1 end) (seq 0 (length l)).
