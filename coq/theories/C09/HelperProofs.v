(* C09 -- the helper-index tuple of HelperModel.v is well-shaped for every d and cutoff, hence
   the generic and the numba recurrence agree on it. *)
From Coq Require Import ZArith List Arith Lia Ring.
From PV Require Import Comb.FockModel C09.ConnModel C09.ListLemmas C09.ConnProofs C09.HelperModel.
Import ListNotations.
Local Open Scope nat_scope.

Section HelperWf.
Variable A : Type.
Variables (zero one : A) (add mul sub : A -> A -> A) (opp inv : A -> A).
Variable sqrtA : Z -> A.

Lemma first_nonzero_lt : forall v d, 1 <= d -> first_nonzero v d < d.
Proof.
  intros. unfold first_nonzero.
  destruct (find _ (seq 0 d)) eqn:E; [| lia].
  apply find_some in E. destruct E as [E _]. apply in_seq in E. lia.
Qed.

Lemma helper_level_wf : forall (U : list (list A)) d n, 1 <= d ->
  (forall k, k < d -> length (nth k U []) = d) ->
  wf_level A U (helper_level A sqrtA d n).
Proof.
  intros U d n Hd HU. unfold wf_level, helper_level. simpl.
  destruct (sector d n) as [|v vs] eqn:E; simpl.
  - repeat split; constructor.
  - rewrite !map_length, seq_length.
    repeat split; auto.
    + constructor. { rewrite map_length, seq_length. auto. }
      apply Forall_forall. intros r Hr. apply in_map_iff in Hr. destruct Hr as [w [<- _]].
      rewrite map_length, seq_length. auto.
    + constructor. { rewrite map_length, seq_length. auto. }
      apply Forall_forall. intros r Hr. apply in_map_iff in Hr. destruct Hr as [w [<- _]].
      rewrite map_length, seq_length. auto.
    + constructor. { apply HU. apply first_nonzero_lt. auto. }
      apply Forall_forall. intros r Hr. apply in_map_iff in Hr. destruct Hr as [w [<- _]].
      apply HU. apply first_nonzero_lt. auto.
Qed.

Lemma helper_wf : forall (U : list (list A)) d cutoff, 1 <= d ->
  (forall k, k < d -> length (nth k U []) = d) ->
  Forall (wf_level A U) (helper A sqrtA d cutoff).
Proof.
  intros. unfold helper. apply Forall_forall. intros h Hh. apply in_map_iff in Hh.
  destruct Hh as [n [<- _]]. apply helper_level_wf; auto.
Qed.

Hypothesis Rth : ring_theory zero one add mul sub opp (@eq A).

(* for every number of modes d >= 1, every cutoff and every d x d matrix: the einsum version and
   the numba kernel agree on the helper tuple the simulator really passes *)
Theorem generic_eq_numba_on_helper : forall (U : list (list A)) d cutoff, 1 <= d ->
  (forall k, k < d -> length (nth k U []) = d) ->
  generic_reps A zero one add mul (div A mul inv) U (helper A sqrtA d cutoff)
  = numba_reps A zero one add mul (div A mul inv) U (helper A sqrtA d cutoff).
Proof.
  intros. apply (generic_reps_eq_numba_reps A zero one add mul sub opp inv Rth).
  apply helper_wf; auto.
Qed.
End HelperWf.
