(* C01 — the index tables of calculate_interferometer_helper_indices /
   calculate_interferometer_on_fock_space compute the function [repB]:
   looking the table of sector n up at the sub-space indices of t and s gives repB U n t s.
   Uses the C06 theorems (the index of the i-th listed vector is i). *)
From Coq Require Import ZArith List Bool Lia Ring.
From PV Require Import Comb.FockModel Comb.Binom Comb.FockProofs C01.PermModel C01.PermProofs.
Import ListNotations.
Local Open Scope nat_scope.

(* ---------------------------------------------------------------- vectors: nat <-> Z *)
Definition validN (d n : nat) (v : list nat) : Prop := length v = d /\ total v = n.

Lemma to_nat_of_nat v : map Z.to_nat (map Z.of_nat v) = v.
Proof. rewrite map_map. rewrite <- (map_id v) at 2. apply map_ext. intros; apply Nat2Z.id. Qed.

Lemma sumZ_of_nat v : sumZ (map Z.of_nat v) = Z.of_nat (total v).
Proof. induction v as [|x r IH]; [reflexivity|]. unfold sumZ in *. simpl. rewrite IH. lia. Qed.

Lemma validN_valid d n v : validN d n v -> valid d (Z.of_nat n) (map Z.of_nat v).
Proof.
  intros [H1 H2]. repeat split.
  - now rewrite map_length.
  - rewrite sumZ_of_nat. now rewrite H2.
  - apply Forall_forall. intros x Hx. apply in_map_iff in Hx. destruct Hx as [y [<- _]]. lia.
Qed.

Lemma nth_map_lt {X Y} (f : X -> Y) l i dx dy : i < length l -> nth i (map f l) dy = f (nth i l dx).
Proof.
  intros H. rewrite (nth_indep _ dy (f dx)) by (now rewrite map_length). apply map_nth.
Qed.

(* ---------------------------------------------------------------- sub-space index *)
Lemma sector_lookup d n (v : list Z) : valid (S d) (Z.of_nat n) v ->
  (Z.to_nat (fock_subspace_index v) < length (sector (S d) n))%nat /\
  nth (Z.to_nat (fock_subspace_index v)) (sector (S d) n) [] = v.
Proof.
  intros [Hlen [Hsum Hpos]].
  destruct v as [|x t]; [discriminate|].
  inversion Hpos as [|? ? Hx Ht]; subst.
  unfold fock_subspace_index. cbn [tl].
  assert (Hst : (0 <= sumZ t)%Z) by now apply sumZ_nonneg.
  unfold sumZ in Hsum. cbn [fold_right] in Hsum. fold (sumZ t) in Hsum.
  assert (Hin : In t (basis d (S n))).
  { apply basis_complete. repeat split; [simpl in Hlen; lia | exact Ht | lia]. }
  destruct (In_nth _ _ [] Hin) as [i [Hi Hnth]].
  assert (Hidx : fock_index t = Z.of_nat i) by (rewrite <- Hnth; now apply index_nth).
  rewrite Hidx, Nat2Z.id. rewrite sector_S_basis, map_length. split; [exact Hi|].
  rewrite (nth_map_lt _ _ _ [] []) by exact Hi. rewrite Hnth. f_equal. lia.
Qed.

Lemma sidx_lookup d n v : validN (S d) n v ->
  sidx v < length (sectorN (S d) n) /\ nth (sidx v) (sectorN (S d) n) [] = v.
Proof.
  intros H. destruct (sector_lookup d n _ (validN_valid _ _ _ H)) as [H1 H2].
  unfold sidx, sectorN. rewrite map_length. split; [exact H1|].
  rewrite (nth_map_lt _ _ _ [] []) by exact H1. rewrite H2. apply to_nat_of_nat.
Qed.

Lemma sectorN_0_length d : length (sectorN (S d) 0) = 1.
Proof.
  unfold sectorN. rewrite map_length. apply Nat2Z.inj. rewrite sector_length.
  rewrite Nat.add_0_r. apply binom_nn.
Qed.

(* ---------------------------------------------------------------- unit vectors *)
Lemma comb_succ_diag k : comb (Z.of_nat k) (Z.of_nat k + 1) = 0%Z.
Proof.
  replace (Z.of_nat k + 1)%Z with (Z.of_nat (S k)) by lia. rewrite comb_nat. apply binom_gt. lia.
Qed.
Lemma comb_diag k : comb (Z.of_nat k) (Z.of_nat k) = 1%Z.
Proof. rewrite comb_nat. apply binom_nn. Qed.

Lemma fock_index_total0 v : total v = 0 -> fock_index (map Z.of_nat v) = 0%Z.
Proof.
  induction v as [|x r IH]; intros H; [reflexivity|].
  simpl in H. assert (x = 0) by lia. subst x. cbn [map]. rewrite fock_index_cons.
  rewrite IH by (simpl in H; lia). rewrite sumZ_of_nat, map_length.
  replace (total r) with 0 by (simpl in H; lia).
  replace (Z.of_nat 0 + Z.of_nat 0 + Z.of_nat (length r))%Z with (Z.of_nat (length r)) by lia.
  rewrite comb_succ_diag. reflexivity.
Qed.

Lemma fock_index_total1 v : forall f, total v = 1 -> first_nz v = Some f ->
  fock_index (map Z.of_nat v) = Z.of_nat (S f).
Proof.
  induction v as [|x r IH]; intros f H E; [discriminate|].
  cbn [map]. rewrite fock_index_cons, sumZ_of_nat, map_length.
  destruct x as [|x]; cbn [first_nz] in E.
  - destruct (first_nz r) as [f'|] eqn:E'; [|discriminate]. injection E as <-.
    simpl in H. rewrite (IH f' H eq_refl). rewrite H.
    replace (Z.of_nat 0 + Z.of_nat 1 + Z.of_nat (length r))%Z with (Z.of_nat (S (length r))) by lia.
    replace (Z.of_nat (length r) + 1)%Z with (Z.of_nat (S (length r))) by lia.
    rewrite comb_diag. lia.
  - injection E as <-. simpl in H. assert (x = 0) by lia. subst x.
    assert (Hr : total r = 0) by lia.
    rewrite (fock_index_total0 r Hr), Hr.
    replace (Z.of_nat 1 + Z.of_nat 0 + Z.of_nat (length r))%Z with (Z.of_nat (S (length r))) by lia.
    replace (Z.of_nat (length r) + 1)%Z with (Z.of_nat (S (length r))) by lia.
    rewrite comb_diag. lia.
Qed.

(* the sub-space index of a one-photon vector is the mode of the photon *)
Lemma sidx_total1 v f : total v = 1 -> first_nz v = Some f -> sidx v = f.
Proof.
  intros H E. unfold sidx, fock_subspace_index.
  destruct v as [|x r]; [discriminate|]. cbn [map tl].
  destruct x as [|x]; cbn [first_nz] in E.
  - destruct (first_nz r) as [f'|] eqn:E'; [|discriminate]. injection E as <-.
    simpl in H. rewrite (fock_index_total1 r f' H E'). lia.
  - injection E as <-. simpl in H. rewrite fock_index_total0 by lia. reflexivity.
Qed.

Section Tables.
Variable A : Type.
Variables (a0 a1 : A) (aadd amul asub : A -> A -> A) (aopp : A -> A).
Hypothesis Aring : ring_theory a0 a1 aadd amul asub aopp (@eq A).
Add Ring ARing2 : Aring.

Notation asum := (asum A a0 aadd).
Notation nscale := (nscale A a0 aadd).
Notation entry := (entry A a0).
Notation repB := (repB A a0 a1 aadd amul).
Notation lookup := (lookup A a0).
Notation rep_sector := (rep_sector A a0 aadd amul).
Notation rep_tables := (rep_tables A a0 a1 aadd amul).
Notation rep_tables_from := (rep_tables_from A a0 aadd amul).

Lemma length_dec_at j v : length (dec_at j v) = length v.
Proof. revert j. induction v as [|x r IH]; intros [|j]; simpl; auto. Qed.

Lemma total_dec_pos v : forall j, nth j v 0 <> 0 -> S (total (dec_at j v)) = total v.
Proof.
  induction v as [|x r IH]; intros [|j] H; simpl in *; try lia.
  rewrite <- (IH j H). lia.
Qed.

Lemma first_nz_pos v f : first_nz v = Some f -> nth f v 0 <> 0.
Proof.
  revert f. induction v as [|x r IH]; intros f H; [discriminate|].
  destruct x as [|x]; cbn [first_nz] in H.
  - destruct (first_nz r) as [f'|] eqn:E; [|discriminate]. injection H as <-. simpl. now apply IH.
  - injection H as <-. simpl. lia.
Qed.

(* sums over one-photon input vectors collapse to one term *)
Lemma asum_unit (g : nat -> A) s : forall j0 k, total s = 1 -> first_nz s = Some j0 ->
  asum (map (fun j => nscale (nth j s 0) (g (k + j))) (seq 0 (length s))) = g (k + j0).
Proof.
  induction s as [|x r IH]; intros j0 k H E; [discriminate|].
  cbn [length seq map]. rewrite asum_cons by exact Aring. rewrite <- seq_shift, map_map.
  destruct x as [|x]; cbn [first_nz] in E.
  - destruct (first_nz r) as [f'|] eqn:E'; [|discriminate]. injection E as <-.
    simpl in H. cbn [nth PermModel.nscale].
    rewrite (asum_map_ext A a0 aadd _ (fun j => nscale (nth j r 0) (g (S k + j)))).
    + rewrite (IH f' (S k) H eq_refl). replace (S k + f') with (k + S f') by lia. ring.
    + intros j _. cbn [nth]. do 2 f_equal. lia.
  - injection E as <-. simpl in H. assert (x = 0) by lia. subst x.
    cbn [nth PermModel.nscale].
    rewrite (asum_map_ext A a0 aadd _ (fun _ => a0)).
    + assert (Hz : forall l : list nat, asum (map (fun _ => a0) l) = a0).
      { induction l as [|y l IHl]; [reflexivity|]. cbn [map]. rewrite asum_cons, IHl. ring. }
      rewrite Hz. ring.
    + intros j _. cbn [nth]. assert (Hr : total r = 0) by lia.
      assert (Hn : nth j r 0 = 0).
      { clear -Hr. revert j. induction r as [|y r IHr]; intros [|j]; simpl in *; try lia.
        apply IHr. lia. }
      rewrite Hn. reflexivity.
Qed.

(* one sector from the previous one *)
Lemma rep_sector_correct U d n prev :
  (forall t s, validN (S d) n t -> validN (S d) n s ->
     lookup prev (sidx t) (sidx s) = repB U n t s) ->
  forall t s, validN (S d) (S n) t -> validN (S d) (S n) s ->
     lookup (rep_sector U (S d) (S n) prev) (sidx t) (sidx s) = repB U (S n) t s.
Proof.
  intros Hprev t s Ht Hs.
  destruct (sidx_lookup d (S n) t Ht) as [Ht1 Ht2].
  destruct (sidx_lookup d (S n) s Hs) as [Hs1 Hs2].
  unfold PermModel.lookup, PermModel.rep_sector, helper_first, helper_sub.
  rewrite map_map.
  rewrite (nth_map_lt _ _ _ [] []) by exact Ht1. rewrite Ht2.
  destruct Ht as [Htl Htt]. destruct Hs as [Hsl Hst].
  cbn [PermModel.repB].
  destruct (first_nz t) as [f|] eqn:E.
  2:{ apply first_nz_none in E. lia. }
  rewrite map_map.
  rewrite (nth_map_lt _ _ _ [] a0) by exact Hs1. rewrite Hs2. rewrite Hsl.
  apply asum_map_ext. intros j Hj. apply in_seq in Hj.
  rewrite (nth_map_lt _ _ _ 0 (0, 0)) by (rewrite seq_length; lia).
  rewrite seq_nth by lia. cbn [Nat.add].
  destruct (Nat.eq_dec (nth j s 0) 0) as [Hz|Hnz].
  - rewrite Hz. reflexivity.
  - f_equal. f_equal. apply Hprev.
    + split; [now rewrite length_dec_at|]. pose proof (total_dec t f E). lia.
    + split; [now rewrite length_dec_at|]. pose proof (total_dec_pos s j Hnz). lia.
Qed.

Definition table_ok U d n (T : list (list A)) : Prop :=
  forall t s, validN (S d) n t -> validN (S d) n s -> lookup T (sidx t) (sidx s) = repB U n t s.

Lemma table0_ok U d : table_ok U d 0 [[a1]].
Proof.
  intros t s Ht Hs.
  destruct (sidx_lookup d 0 t Ht) as [H1 _]. destruct (sidx_lookup d 0 s Hs) as [H2 _].
  rewrite sectorN_0_length in H1, H2.
  replace (sidx t) with 0 by lia. replace (sidx s) with 0 by lia. reflexivity.
Qed.

Lemma table1_ok U d : table_ok U d 1 U.
Proof.
  intros t s [Htl Htt] [Hsl Hst].
  cbn [PermModel.repB].
  destruct (first_nz t) as [f|] eqn:Et.
  2:{ apply first_nz_none in Et. lia. }
  destruct (first_nz s) as [j0|] eqn:Es.
  2:{ apply first_nz_none in Es. lia. }
  rewrite (sidx_total1 t f Htt Et), (sidx_total1 s j0 Hst Es).
  rewrite (asum_map_ext A a0 aadd _ (fun j => nscale (nth j s 0) (entry U f (0 + j)))).
  - rewrite (asum_unit (fun j => entry U f j) s j0 0 Hst Es). reflexivity.
  - intros j _. f_equal. cbn [Nat.add]. ring.
Qed.

Lemma tables_from_ok U d : forall count n prev k,
  table_ok U d n prev -> k < count ->
  table_ok U d (S n + k) (nth k (rep_tables_from U (S d) (S n) count prev) []).
Proof.
  induction count as [|c IH]; intros n prev k Hprev Hk; [lia|].
  cbn [PermModel.rep_tables_from].
  assert (Hr : table_ok U d (S n) (rep_sector U (S d) (S n) prev)).
  { intros t s Ht Hs. now apply rep_sector_correct. }
  destruct k as [|k].
  - cbn [nth]. now rewrite Nat.add_0_r.
  - cbn [nth]. replace (S n + S k) with (S (S n) + k) by lia. apply IH; [exact Hr | lia].
Qed.

(* Tier A.1 at the level of the code's tables: for every number of modes d >= 1, every
   cutoff and every sector n below max(cutoff, 2), the entry of the n-th matrix at the
   sub-space indices of t and s is repB U n t s *)
Theorem rep_tables_correct U d cutoff n t s :
  n < Nat.max cutoff 2 -> validN (S d) n t -> validN (S d) n s ->
  lookup (nth n (rep_tables U (S d) cutoff) []) (sidx t) (sidx s) = repB U n t s.
Proof.
  intros Hn Ht Hs. unfold PermModel.rep_tables.
  destruct n as [|[|n]].
  - cbn [nth]. exact (table0_ok U d t s Ht Hs).
  - cbn [nth]. exact (table1_ok U d t s Ht Hs).
  - cbn [nth]. replace (S (S n)) with (S 1 + n) by lia.
    refine (tables_from_ok U d (cutoff - 2) 1 U n (table1_ok U d) _ t s Ht Hs). lia.
Qed.

(* the tables hold the permanent with multiplicities *)
Theorem rep_tables_permanent U d cutoff n t s :
  n < Nat.max cutoff 2 -> validN (S d) n t -> validN (S d) n s ->
  lookup (nth n (rep_tables U (S d) cutoff) []) (sidx t) (sidx s) =
  perm_mult A a0 a1 aadd amul U t s.
Proof.
  intros Hn Ht Hs. rewrite rep_tables_correct by assumption.
  apply (fock_rep_is_permanent A a0 a1 aadd amul asub aopp Aring). apply Ht.
Qed.

(* ---------------------------------------------------------------- SLOS tables *)
Notation slosB := (slosB A a0 a1 aadd amul).
Notation slos_step := (slos_step A a0 aadd amul).
Notation slos_run := (slos_run A a0 aadd amul).

Lemma slos_step_ok U d k p done cur :
  (forall t, validN (S d) k t -> nth (sidx t) cur a0 = slosB U (rev done) t) ->
  forall t, validN (S d) (S k) t ->
    nth (sidx t) (slos_step U (S d) (S k) p cur) a0 = slosB U (rev (done ++ [p])) t.
Proof.
  intros Hcur t Ht.
  destruct (sidx_lookup d (S k) t Ht) as [H1 H2].
  unfold PermModel.slos_step.
  rewrite (nth_map_lt _ _ _ [] a0) by exact H1. rewrite H2.
  rewrite rev_app_distr. cbn [rev app PermModel.slosB].
  destruct Ht as [Hl Htot]. rewrite Hl.
  apply asum_map_ext. intros i _.
  destruct (Nat.eq_dec (nth i t 0) 0) as [Hz|Hnz].
  - rewrite Hz. reflexivity.
  - do 2 f_equal. apply Hcur. split; [now rewrite length_dec_at|].
    pose proof (total_dec_pos t i Hnz). lia.
Qed.

Lemma slos_run_ok U d : forall sched k done cur,
  (forall t, validN (S d) k t -> nth (sidx t) cur a0 = slosB U (rev done) t) ->
  forall t, validN (S d) (k + length sched) t ->
    nth (sidx t) (slos_run U (S d) k sched cur) a0 = slosB U (rev (done ++ sched)) t.
Proof.
  induction sched as [|p rest IH]; intros k done cur Hcur t Ht.
  - cbn [PermModel.slos_run length] in *. rewrite app_nil_r. apply Hcur.
    now rewrite Nat.add_0_r in Ht.
  - cbn [PermModel.slos_run]. replace (done ++ p :: rest) with ((done ++ [p]) ++ rest)
      by (rewrite <- app_assoc; reflexivity).
    apply IH.
    + intros t' Ht'. now apply slos_step_ok.
    + cbn [length] in Ht. now replace (S k + length rest) with (k + S (length rest)) by lia.
Qed.

Lemma photons_from_length t : forall i, length (photons_from i t) = total t.
Proof.
  induction t as [|x r IH]; intros i; [reflexivity|].
  cbn [photons_from]. rewrite app_length, repeat_length, IH. reflexivity.
Qed.

(* the vector computed by calculate_state_vector (unnormalised, no post-selection), read at
   the sub-space index of t, is the function slos_amp *)
Theorem slos_vector_correct U d s t :
  validN (S d) (total s) t ->
  nth (sidx t) (slos_vector A a0 a1 aadd amul U (S d) s) a0 = slos_amp A a0 a1 aadd amul U s t.
Proof.
  intros Ht. unfold PermModel.slos_vector, PermModel.slos_amp.
  change (photons s) with ([] ++ photons s) at 2.
  apply (slos_run_ok U d (photons s) 0 [] [a1]).
  - intros t0 Ht0. destruct (sidx_lookup d 0 t0 Ht0) as [H1 _].
    rewrite sectorN_0_length in H1. replace (sidx t0) with 0 by lia. reflexivity.
  - unfold photons. rewrite photons_from_length. exact Ht.
Qed.

End Tables.
