(* C02 — laws of the samplers written in the finite-distribution monad (DistModel.v),
   proved at the real numbers: categorical draw, retry-until-accept = conditioning,
   chain-rule sampler = joint law (telescoping, every number of modes). *)
From Coq Require Import Reals Lra List Bool Arith Lia.
From PV Require Import Base.CasesLib C02.DistModel.
Import ListNotations.
Open Scope R_scope.

Definition Rleb (a b : R) : bool := if Rle_dec a b then true else false.
Definition RN : num := mknum R 0 1 Rplus Rmult Rminus Rdiv Rleb.

Ltac nr := cbn [n0 n1 nadd nmul nsub ndiv RN T] in *.

Notation rsum := (nsum (N:=RN)).
Notation rdist := (dist RN).

Lemma rsum_nil : rsum [] = 0. Proof. reflexivity. Qed.
Lemma rsum_cons : forall x l, rsum (x :: l) = x + rsum l. Proof. reflexivity. Qed.
Lemma rsum_app : forall a b, rsum (a ++ b) = rsum a + rsum b.
Proof. induction a; intros; simpl app; rewrite ?rsum_nil, ?rsum_cons; [(nr; lra) | rewrite IHa; (nr; lra)]. Qed.

Lemma mass_nil : forall A (f : A -> bool), mass (N:=RN) [] f = 0. Proof. reflexivity. Qed.
Lemma mass_cons : forall A (f : A -> bool) a p d,
  mass (N:=RN) ((a, p) :: d) f = (if f a then p else 0) + mass d f.
Proof. reflexivity. Qed.
Lemma mass_app : forall A (f : A -> bool) (d1 d2 : rdist A), mass (d1 ++ d2) f = mass d1 f + mass d2 f.
Proof. intros. unfold mass. rewrite map_app, rsum_app. reflexivity. Qed.

Lemma mass_dscale : forall A (f : A -> bool) c (d : rdist A), mass (dscale c d) f = c * mass d f.
Proof.
  induction d as [|[a p] d IH]; [cbn; (nr; lra)|].
  change (dscale c ((a, p) :: d)) with ((a, c * p) :: dscale c d).
  rewrite !mass_cons, IH. destruct (f a); (nr; lra).
Qed.

Lemma mass_dret : forall A (f : A -> bool) a, mass (N:=RN) (dret a) f = if f a then 1 else 0.
Proof. intros. unfold dret. rewrite mass_cons, mass_nil. destruct (f a); (nr; lra). Qed.

Lemma mass_dbind : forall A B (f : B -> bool) (d : rdist A) (k : A -> rdist B),
  mass (dbind d k) f = rsum (map (fun ap => snd ap * mass (k (fst ap)) f) d).
Proof.
  induction d as [|[a p] d IH]; intros; [reflexivity|].
  simpl dbind. rewrite mass_app, mass_dscale, IH. reflexivity.
Qed.

(* ---- categorical draw: probability of an event = weight of the event / total weight *)
Lemma mass_divide : forall A (f : A -> bool) (ws : list (A * R)) t,
  mass (N:=RN) (map (fun aw => (fst aw, snd aw / t)) ws) f = mass (N:=RN) ws f / t.
Proof.
  induction ws as [|[a w] ws IH]; intros; [cbn; unfold Rdiv; lra|].
  rewrite map_cons. cbn [fst snd]. rewrite !mass_cons, IH. destruct (f a); unfold Rdiv; (nr; lra).
Qed.

Theorem categorical_law : forall A (f : A -> bool) (ws : list (A * R)),
  mass (choice (N:=RN) ws) f = mass (N:=RN) ws f / total (N:=RN) ws.
Proof. intros. unfold choice. apply (mass_divide A f ws (total (N:=RN) ws)). Qed.

Lemma mass_true_total : forall A (d : rdist A), mass d (fun _ => true) = total d.
Proof. induction d as [|[a p] d IH]; [reflexivity|]. rewrite mass_cons, IH. reflexivity. Qed.

Theorem categorical_total : forall A (ws : list (A * R)),
  total (N:=RN) ws <> 0 -> total (choice (N:=RN) ws) = 1.
Proof.
  intros. rewrite <- mass_true_total, categorical_law, mass_true_total. (nr; field). auto.
Qed.

(* ---- retry until accept = conditioning on acceptance, for every bound on the trials *)
Definition lift {A} (f : A -> bool) (r : option A) : bool :=
  match r with Some a => f a | None => false end.
Definition is_none {A} (r : option A) : bool := match r with None => true | _ => false end.

Fixpoint geo (q : R) (n : nat) : R := match n with O => 0 | S m => 1 + q * geo q m end.

Lemma retry_step : forall A (g : option A -> bool) (d : rdist (option A)) (D : rdist (option A)),
  rsum (map (fun ap => snd ap * mass (match fst ap with
                                      | Some a => dret (N:=RN) (Some a)
                                      | None => D end) g) d)
  = mass d (fun r => match r with Some a => g (Some a) | None => false end)
    + mass d is_none * mass D g.
Proof.
  induction d as [|[r p] d IH]; intros.
  - cbn. lra.
  - rewrite map_cons, rsum_cons, IH, !mass_cons. destruct r as [a|]; cbn [fst snd is_none].
    + rewrite mass_dret. destruct (g (Some a)); (nr; lra).
    + (nr; lra).
Qed.

