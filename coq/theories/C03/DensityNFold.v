(* C03 - the chain rule for any number of measurements in the density-matrix model: outcome-set
   equivalence, two steps from an arbitrary branch, then induction over k (as ProjectNFold.v
   does for pure states). *)
From Coq Require Import ZArith QArith Qfield List Bool Arith Lia.
From PV Require Import C03.ExecModel C03.ExecProofs C03.ProjectModel C03.ProjectProofs
  C03.ProjectNFold C03.DensityModel C03.DensityProofs.
Import ListNotations.
Open Scope nat_scope.

Section DensityNFold.
  Variable A : Type.
  Variable tr : A -> Q.
  Notation dstate := (dstate A).
  Notation dbranch := (dbranch A).
  Notation dproject := (dproject A).
  Notation dtrace := (dtrace A tr).
  Notation dwt := (dwt A tr).
  Notation dchild := (dchild A tr).
  Notation doutcomes := (doutcomes A).
  Notation ket := (ket A).
  Notation bra := (bra A).
  Notation dwf := (dwf A).
  Notation dsame := (dsame A).
  Notation dmeasure := (dmeasure A tr).
  Notation dmeasure_branch := (dmeasure_branch A tr).
  Notation dmeasure_seq := (dmeasure_seq A tr).

  (* every listed diagonal entry is positive (a density matrix with its zero entries dropped) *)
  Definition dpositive (rho : dstate) : Prop :=
    Forall (fun p => ket p = bra p -> (0 < tr (snd p))%Q) rho.

  Lemma dwt_nonneg rho p : dpositive rho -> In p rho -> (0 <= dwt p)%Q.
  Proof.
    intros P Hp. unfold dpositive in P. rewrite Forall_forall in P. unfold DensityModel.dwt.
    destruct (vec_eqb (ket p) (bra p)) eqn:E; [|apply Qle_refl].
    apply vec_eqb_eq in E. apply Qlt_le_weak. now apply P.
  Qed.

  Lemma dtrace_nonneg rho : dpositive rho -> (0 <= dtrace rho)%Q.
  Proof.
    induction rho as [|p r IH]; intros P; simpl. apply Qle_refl.
    apply Qle_trans with (0 + 0)%Q. apply Qle_refl. apply Qplus_le_compat.
    - apply (dwt_nonneg (p :: r)); auto. now left.
    - apply IH. now inversion P.
  Qed.

  Lemma dtrace_pos rho p : dpositive rho -> In p rho -> ket p = bra p -> (0 < dtrace rho)%Q.
  Proof.
    induction rho as [|q r IH]; intros P Hp D; simpl. contradiction.
    inversion P as [|? ? Pq Pr]; subst. destruct Hp as [->|Hp].
    - apply Qlt_le_trans with (dwt p + 0)%Q.
      + rewrite Qplus_0_r. unfold DensityModel.dwt. rewrite D, vec_eqb_refl. apply Pq. exact D.
      + apply Qplus_le_compat. apply Qle_refl. now apply dtrace_nonneg.
    - apply Qlt_le_trans with (0 + dtrace r)%Q.
      + rewrite Qplus_0_l. now apply (IH Pr Hp).
      + apply Qplus_le_compat; [|apply Qle_refl]. apply (dwt_nonneg (q :: r)); auto. now left.
  Qed.

  (* ---- outcomes *)
  Lemma vnodup_In_iff s l : In s (vnodup l) <-> In s l.
  Proof.
    split; [|apply vnodup_In'].
    induction l as [|a r IH]; simpl; auto. destruct (vmem a r); simpl; intuition.
  Qed.

  Lemma doutcomes_In M (rho : dstate) s :
    In s (doutcomes M rho) <-> exists p, In p rho /\ ket p = bra p /\ select M (ket p) = s.
  Proof.
    unfold DensityModel.doutcomes. rewrite vnodup_In_iff, in_map_iff. split.
    - intros (p & E & Hp). apply filter_In in Hp. destruct Hp as [Hp D]. apply vec_eqb_eq in D. eauto.
    - intros (p & Hp & D & E). exists p. split; auto. apply filter_In. split; auto. now apply vec_eqb_eq.
  Qed.

  Lemma dproject_In d M s (rho : dstate) q :
    In q (dproject d M s rho) <->
    exists p, In p rho /\ select M (ket p) = s /\ select M (bra p) = s /\
              q = ((select (aux M d) (ket p), select (aux M d) (bra p)), snd p).
  Proof.
    unfold DensityModel.dproject. rewrite in_map_iff. split.
    - intros (p & <- & Hp). apply filter_In in Hp. destruct Hp as [Hp C].
      apply andb_prop in C. destruct C as [C1 C2]. apply vec_eqb_eq in C1. apply vec_eqb_eq in C2.
      exists p. auto.
    - intros (p & Hp & C1 & C2 & ->). exists p. split; auto. apply filter_In. split; auto.
      rewrite C1, C2, !vec_eqb_refl. reflexivity.
  Qed.

  Lemma dproject_diag_origin d M s (rho : dstate) p :
    dwf d rho -> In p rho -> select M (ket p) = s -> select M (bra p) = s ->
    select (aux M d) (ket p) = select (aux M d) (bra p) -> ket p = bra p.
  Proof.
    intros W Hp C1 C2 E. unfold DensityProofs.dwf in W. rewrite Forall_forall in W.
    destruct (W p Hp) as [Lk Lb]. apply (select_ext M d); auto. congruence.
  Qed.

  Lemma doutcomes_split d M1 M2 (rho : dstate) s :
    dwf d rho -> incl M2 (aux M1 d) ->
    In s (doutcomes (M1 ++ M2) rho) <->
    exists s1 s2, s = s1 ++ s2 /\ In s1 (doutcomes M1 rho) /\
                  In s2 (doutcomes (remap_modes (aux M1 d) M2) (dproject d M1 s1 rho)).
  Proof.
    intros W Hin. rewrite doutcomes_In. split.
    - intros (p & Hp & D & <-). exists (select M1 (ket p)), (select M2 (ket p)).
      split; [apply select_app|]. split.
      + apply doutcomes_In. eauto.
      + apply doutcomes_In.
        exists ((select (aux M1 d) (ket p), select (aux M1 d) (bra p)), snd p). split; [|split].
        * apply dproject_In. exists p. rewrite <- D. repeat split; auto.
        * unfold DensityModel.ket, DensityModel.bra. simpl. unfold DensityModel.ket, DensityModel.bra in D. now rewrite D.
        * unfold DensityModel.ket at 1. simpl. now apply select_remap_aux.
    - intros (s1 & s2 & -> & Hs1 & Hs2). apply doutcomes_In in Hs2. destruct Hs2 as (q & Hq & Dq & Eq).
      apply dproject_In in Hq. destruct Hq as (p & Hp & C1 & C2 & ->).
      unfold DensityModel.ket at 1, DensityModel.bra at 1 in Dq. simpl in Dq.
      unfold DensityModel.ket at 1 in Eq. simpl in Eq.
      assert (D : ket p = bra p) by (apply (dproject_diag_origin d M1 s1 rho p W Hp C1 C2); exact Dq).
      exists p. split; auto. split; auto.
      rewrite select_app, C1. f_equal. rewrite <- Eq. symmetry. now apply select_remap_aux.
  Qed.

  (* ---- reachable branches *)
  Definition dgood (b : dbranch) : Prop :=
    NoDup (db_reg A b) /\ dwf (length (db_reg A b)) (db_rho A b) /\ dpositive (db_rho A b) /\
    (0 < db_scale A b)%Q.

  Lemma dblock_trace_pos d M s (rho : dstate) :
    dwf d rho -> dpositive rho -> In s (doutcomes M rho) -> (0 < dtrace (dproject d M s rho))%Q.
  Proof.
    intros W P Hs. apply doutcomes_In in Hs. destruct Hs as (p & Hp & D & E).
    apply (dtrace_pos _ ((select (aux M d) (ket p), select (aux M d) (bra p)), snd p)).
    - apply Forall_forall. intros q Hq Dq. apply dproject_In in Hq.
      destruct Hq as (p' & Hp' & C1 & C2 & ->). simpl.
      unfold DensityModel.ket at 1, DensityModel.bra at 1 in Dq. simpl in Dq.
      unfold dpositive in P. rewrite Forall_forall in P. apply P; auto.
      apply (dproject_diag_origin d M s rho p' W Hp' C1 C2). exact Dq.
    - apply dproject_In. exists p. rewrite <- D. repeat split; auto.
    - unfold DensityModel.ket, DensityModel.bra. simpl. unfold DensityModel.ket, DensityModel.bra in D. now rewrite D.
  Qed.

  Lemma dwf_block d M s (rho : dstate) : dwf (length (aux M d)) (dproject d M s rho).
  Proof.
    apply Forall_forall. intros q Hq. apply dproject_In in Hq. destruct Hq as (p & _ & _ & _ & ->).
    unfold DensityModel.ket, DensityModel.bra. simpl. now rewrite !select_length.
  Qed.

  Lemma dpositive_block d M s (rho : dstate) : dwf d rho -> dpositive rho -> dpositive (dproject d M s rho).
  Proof.
    intros W P. apply Forall_forall. intros q Hq Dq. apply dproject_In in Hq.
    destruct Hq as (p' & Hp' & C1 & C2 & ->). simpl.
    unfold DensityModel.ket at 1, DensityModel.bra at 1 in Dq. simpl in Dq.
    unfold dpositive in P. rewrite Forall_forall in P. apply P; auto.
    apply (dproject_diag_origin d M s rho p' W Hp' C1 C2). exact Dq.
  Qed.

  Lemma dgood_child L b s :
    dgood b -> incl L (db_reg A b) -> In s (doutcomes (remap_modes (db_reg A b) L) (db_rho A b)) ->
    dgood (dchild L b s).
  Proof.
    intros (ND & W & P & C) Hin Hs. unfold dgood, DensityModel.dchild. cbn [db_out db_rho db_freq db_reg db_scale].
    split; [|split; [|split]].
    - rewrite delete_active_spec by auto. now apply NoDup_filter.
    - rewrite delete_length by auto. apply dwf_block.
    - now apply dpositive_block.
    - pose proof (dblock_trace_pos _ _ _ _ W P Hs) as T.
      apply Qlt_shift_div_l.
      + rewrite <- (Qmult_0_l 0). apply Qmult_lt_compat_nonneg; split; auto; apply Qle_refl.
      + rewrite Qmult_0_l. assumption.
  Qed.

  Lemma dmeasure_branch_In L b x :
    In x (dmeasure_branch L b) <->
    exists s, In s (doutcomes (remap_modes (db_reg A b) L) (db_rho A b)) /\ x = dchild L b s.
  Proof.
    unfold DensityModel.dmeasure_branch. rewrite in_map_iff.
    split; intros (s & H1 & H2); exists s; split; auto.
  Qed.

  (* ---- equivalence of branch lists *)
  Definition dequiv (l l' : list dbranch) : Prop :=
    (forall x, In x l -> exists x', In x' l' /\ dsame x x') /\
    (forall x', In x' l' -> exists x, In x l /\ dsame x x').

  Lemma dsame_refl b : dsame b b.
  Proof. unfold DensityProofs.dsame. repeat split; reflexivity. Qed.

  Lemma dsame_trans a b c : dsame a b -> dsame b c -> dsame a c.
  Proof.
    unfold DensityProofs.dsame. intros (A1 & A2 & A3 & A4 & A5) (B1 & B2 & B3 & B4 & B5).
    repeat split; try congruence; eapply Qeq_trans; eauto.
  Qed.

  Lemma dequiv_refl l : dequiv l l.
  Proof. split; intros x Hx; exists x; split; auto; apply dsame_refl. Qed.

  Lemma dequiv_trans a b c : dequiv a b -> dequiv b c -> dequiv a c.
  Proof.
    intros [A1 A2] [B1 B2]. split.
    - intros x Hx. destruct (A1 x Hx) as (y & Hy & S1). destruct (B1 y Hy) as (z & Hz & S2).
      exists z. split; auto. eapply dsame_trans; eauto.
    - intros z Hz. destruct (B2 z Hz) as (y & Hy & S2). destruct (A2 y Hy) as (x & Hx & S1).
      exists x. split; auto. eapply dsame_trans; eauto.
  Qed.

  (* ---- two steps from an arbitrary branch *)
  Theorem dtwo_step_from_branch b L1 L2 :
    dgood b -> incl L1 (db_reg A b) ->
    incl L2 (filter (fun m => negb (memb m L1)) (db_reg A b)) ->
    dequiv (dmeasure L2 (dmeasure_branch L1 b)) (dmeasure_branch (L1 ++ L2) b).
  Proof.
    intros G H1 H2. pose proof G as (ND & W & P & C).
    assert (HM2 : incl (remap_modes (db_reg A b) L2)
                       (aux (remap_modes (db_reg A b) L1) (length (db_reg A b)))) by (now apply remap_incl_aux).
    assert (EM : remap_modes (db_reg A b) (L1 ++ L2) = remap_modes (db_reg A b) L1 ++ remap_modes (db_reg A b) L2)
      by (unfold remap_modes; apply map_app).
    assert (SB : forall s1 s2,
               In s1 (doutcomes (remap_modes (db_reg A b) L1) (db_rho A b)) ->
               In s2 (doutcomes (remap_modes (aux (remap_modes (db_reg A b) L1) (length (db_reg A b))) (remap_modes (db_reg A b) L2))
                                (dproject (length (db_reg A b)) (remap_modes (db_reg A b) L1) s1 (db_rho A b))) ->
               dsame (dchild L2 (dchild L1 b s1) s2) (dchild (L1 ++ L2) b (s1 ++ s2))).
    { intros s1 s2 Hs1 Hs2.
      assert (Hl : length s1 = length L1).
      { apply doutcomes_In in Hs1. destruct Hs1 as (p & _ & _ & <-).
        rewrite select_length. unfold remap_modes. now rewrite map_length. }
      apply dtwo_step_child; auto.
      - now apply Qpos_neq0.
      - apply Qpos_neq0. now apply dblock_trace_pos.
      - apply Qpos_neq0. apply dblock_trace_pos; auto. rewrite EM.
        apply (doutcomes_split (length (db_reg A b))); auto. exists s1, s2. auto. }
    split.
    - intros x Hx. unfold DensityModel.dmeasure in Hx. apply in_flat_map in Hx. destruct Hx as (b1 & Hb1 & Hx).
      apply dmeasure_branch_In in Hb1. destruct Hb1 as (s1 & Hs1 & ->).
      apply dmeasure_branch_In in Hx. destruct Hx as (s2 & Hs2 & ->).
      cbn [DensityModel.dchild db_reg db_rho] in Hs2. rewrite (remap_after_delete _ L1 L2) in Hs2 by auto.
      exists (dchild (L1 ++ L2) b (s1 ++ s2)). split.
      + apply dmeasure_branch_In. exists (s1 ++ s2). split; auto. rewrite EM.
        apply (doutcomes_split (length (db_reg A b))); auto. exists s1, s2. auto.
      + now apply SB.
    - intros x' Hx'. apply dmeasure_branch_In in Hx'. destruct Hx' as (s & Hs & ->).
      rewrite EM in Hs. apply (doutcomes_split (length (db_reg A b))) in Hs; auto.
      destruct Hs as (s1 & s2 & -> & Hs1 & Hs2).
      exists (dchild L2 (dchild L1 b s1) s2). split.
      + unfold DensityModel.dmeasure. apply in_flat_map. exists (dchild L1 b s1). split.
        * apply dmeasure_branch_In. exists s1. auto.
        * apply dmeasure_branch_In. exists s2. split; auto. cbn [DensityModel.dchild db_reg db_rho].
          rewrite (remap_after_delete _ L1 L2) by auto. exact Hs2.
      + now apply SB.
  Qed.

  (* ---- measuring is a congruence *)
  Lemma dchild_congr L b b' s : dsame b b' -> dsame (dchild L b s) (dchild L b' s).
  Proof.
    unfold DensityProofs.dsame, DensityModel.dchild. intros (E1 & E2 & E3 & E4 & E5).
    cbn [db_out db_rho db_freq db_reg db_scale].
    rewrite E1, E2, E4. repeat split; auto.
    - now rewrite E3, E5.
    - now rewrite E5.
  Qed.

  Lemma dmeasure_congr L l l' : dequiv l l' -> dequiv (dmeasure L l) (dmeasure L l').
  Proof.
    intros [H1 H2]. split.
    - intros x Hx. apply in_flat_map in Hx. destruct Hx as (b & Hb & Hx).
      destruct (H1 b Hb) as (b' & Hb' & S). apply dmeasure_branch_In in Hx. destruct Hx as (s & Hs & ->).
      exists (dchild L b' s). split; [|now apply dchild_congr].
      apply in_flat_map. exists b'. split; auto. apply dmeasure_branch_In. exists s. split; auto.
      destruct S as (_ & E2 & _ & E4 & _). now rewrite <- E2, <- E4.
    - intros x' Hx'. apply in_flat_map in Hx'. destruct Hx' as (b' & Hb' & Hx').
      destruct (H2 b' Hb') as (b & Hb & S). apply dmeasure_branch_In in Hx'. destruct Hx' as (s & Hs & ->).
      exists (dchild L b s). split; [|now apply dchild_congr].
      apply in_flat_map. exists b. split; auto. apply dmeasure_branch_In. exists s. split; auto.
      destruct S as (_ & E2 & _ & E4 & _). now rewrite E2, E4.
  Qed.

  Lemma dmeasure_seq_congr Ls l l' : dequiv l l' -> dequiv (dmeasure_seq Ls l) (dmeasure_seq Ls l').
  Proof.
    revert l l'. induction Ls as [|L r IH]; intros l l' E; simpl; auto.
    apply IH. now apply dmeasure_congr.
  Qed.

  Lemma dmeasure_singleton L b : dmeasure L [b] = dmeasure_branch L b.
  Proof. unfold DensityModel.dmeasure. simpl. apply app_nil_r. Qed.

  (* k measurements one after the other = one joint measurement, from any reachable branch *)
  Theorem dnfold_from_branch : forall n Ls b,
    length Ls <= n -> Ls <> [] -> dgood b -> disjoint_in (db_reg A b) Ls ->
    dequiv (dmeasure_seq Ls [b]) (dmeasure_seq [concat Ls] [b]).
  Proof.
    induction n as [|n IH]; intros Ls b Hn Hne G D.
    - destruct Ls; [congruence|simpl in Hn; lia].
    - destruct Ls as [|L1 [|L2 rest]]; [congruence| |].
      + cbn [concat]. rewrite app_nil_r. apply dequiv_refl.
      + destruct D as (H1 & H2 & D3).
        change (dmeasure_seq (L1 :: L2 :: rest) [b]) with (dmeasure_seq rest (dmeasure L2 (dmeasure L1 [b]))).
        rewrite dmeasure_singleton.
        apply dequiv_trans with (dmeasure_seq rest (dmeasure_branch (L1 ++ L2) b)).
        * apply dmeasure_seq_congr. now apply dtwo_step_from_branch.
        * rewrite <- dmeasure_singleton.
          change (dmeasure_seq rest (dmeasure (L1 ++ L2) [b])) with (dmeasure_seq ((L1 ++ L2) :: rest) [b]).
          replace (concat (L1 :: L2 :: rest)) with (concat ((L1 ++ L2) :: rest)) by (simpl; now rewrite app_assoc).
          apply IH; auto.
          -- simpl in *. lia.
          -- discriminate.
          -- simpl. split.
             ++ apply incl_app; auto. now apply incl_filter_incl in H2.
             ++ rewrite filter_filter in D3.
                erewrite filter_ext; [exact D3|]. intros m. simpl. now rewrite memb_app, negb_orb.
  Qed.

  (* from the initial density matrix on d modes (entries indexed by vectors of length d, listed
     diagonal entries positive; the trace need not be 1) *)
  Theorem dnfold_sequential_eq_joint d (rho : dstate) Ls :
    dwf d rho -> dpositive rho -> Ls <> [] -> disjoint_in (seq 0 d) Ls ->
    dequiv (dmeasure_seq Ls (dinitial A d rho)) (dmeasure_seq [concat Ls] (dinitial A d rho)).
  Proof.
    intros W P Hne D. apply (dnfold_from_branch (length Ls)); auto.
    unfold dgood. cbn [db_reg db_rho db_scale]. rewrite seq_length. repeat split; auto. apply seq_NoDup.
  Qed.
End DensityNFold.
