"""Fail-closed translator: piquasso/instructions/gates.py  ->  coq/theories/C07/GatesGen.v

Reads the bodies of `_get_passive_block` / `_get_active_block` of the built-in linear gates with
Python's `ast` and re-emits the returned array literal as a matrix of terms over complex numbers
on an abstract base ring (C07/CxBase.v): symbols cos_x / sin_x for np.cos(x), np.sin(x),
np.exp(1j*x); cosh_r / sinh_r; the raw parameter s; half for "/ 2"; rt2i for "/ np.sqrt(2)".
Every construct outside the small grammar below raises TranslateError (the check then reports
the proof obligation as broken).  Nothing is evaluated; no piquasso import is needed.
"""
import ast
import os

PASSIVE = ["Beamsplitter", "Beamsplitter5050", "Phaseshifter", "MachZehnder", "Fourier"]
ACTIVE = ["Squeezing", "QuadraticPhase", "Squeezing2", "ControlledX", "ControlledZ"]
TRIG_PARAMS = {"theta", "phi", "int_", "ext"}
HYP_PARAMS = {"r"}
RAW_PARAMS = {"s"}


class TranslateError(Exception):
    pass


def _fail(node, msg):
    raise TranslateError("gates.py line %s: %s" % (getattr(node, "lineno", "?"), msg))


class _Block:
    """Symbolic evaluation of one method body."""

    def __init__(self, cls, fn):
        self.cls = cls
        self.fn = fn
        self.env = {}
        self.params = []

    # ---- helpers
    def is_np(self, node):
        """node denotes the numpy module of the connector: `np` bound locally to connector.np,
        or the expression `connector.np` itself."""
        if isinstance(node, ast.Name):
            return self.env.get(node.id) == ("np",)
        return (isinstance(node, ast.Attribute) and node.attr == "np"
                and isinstance(node.value, ast.Name) and node.value.id == "connector")

    def np_func(self, node):
        if isinstance(node, ast.Attribute) and self.is_np(node.value):
            return node.attr
        return None

    def param_of(self, node):
        if isinstance(node, ast.Name):
            v = self.env.get(node.id)
            if v is not None and v[0] == "param":
                return v[1]
        return None

    def scalar(self, v, node):
        if v[0] == "scalar":
            return v[1]
        if v[0] == "param":
            if v[1] in RAW_PARAMS:
                return "(creal o (p_%s e))" % v[1]
            _fail(node, "parameter %r used outside cos/sin/cosh/sinh/exp(1j*.)" % v[1])
        _fail(node, "scalar expected, got %s" % v[0])

    def is_const(self, node, value):
        return isinstance(node, ast.Constant) and type(node.value) is type(value) and node.value == value

    # ---- expressions
    def ev(self, n):
        if isinstance(n, ast.Constant):
            if type(n.value) is int and 0 <= n.value <= 16:
                return ("scalar", "(cnat o %d)" % n.value)
            if type(n.value) is complex and n.value == 1j:
                return ("scalar", "(ci o)")
            _fail(n, "constant %r not allowed" % (n.value,))
        if isinstance(n, ast.Name):
            if n.id not in self.env:
                _fail(n, "unknown name %r" % n.id)
            v = self.env[n.id]
            if v == ("np",):
                _fail(n, "module used as a value")
            return v
        if isinstance(n, ast.UnaryOp):
            if not isinstance(n.op, ast.USub):
                _fail(n, "unary operator not allowed")
            v = self.ev(n.operand)
            if v[0] == "mat":
                return ("mat", [["(copp o %s)" % x for x in row] for row in v[1]])
            return ("scalar", "(copp o %s)" % self.scalar(v, n))
        if isinstance(n, ast.BinOp):
            return self.binop(n)
        if isinstance(n, ast.Call):
            return self.call(n)
        _fail(n, "expression %s not allowed" % type(n).__name__)

    def binop(self, n):
        if isinstance(n.op, ast.Div):
            # only division by the literal 2 or by np.sqrt(2)
            if self.is_const(n.right, 2):
                factor = "(creal o (half e))"
            elif (isinstance(n.right, ast.Call) and self.np_func(n.right.func) == "sqrt"
                  and len(n.right.args) == 1 and not n.right.keywords
                  and self.is_const(n.right.args[0], 2)):
                factor = "(creal o (rt2i e))"
            else:
                _fail(n, "division only by 2 or np.sqrt(2)")
            v = self.ev(n.left)
            if v[0] == "mat":
                return ("mat", [["(cmul o %s %s)" % (x, factor) for x in row] for row in v[1]])
            return ("scalar", "(cmul o %s %s)" % (self.scalar(v, n), factor))
        ops = {ast.Add: "cadd", ast.Sub: "csub", ast.Mult: "cmul"}
        for k, name in ops.items():
            if isinstance(n.op, k):
                break
        else:
            _fail(n, "operator %s not allowed" % type(n.op).__name__)
        a = self.ev(n.left)
        b = self.ev(n.right)
        if a[0] == "mat" or b[0] == "mat":
            if name != "cmul" or (a[0] == "mat" and b[0] == "mat"):
                _fail(n, "only scalar * matrix is allowed on matrices")
            if a[0] == "mat":
                s = self.scalar(b, n)
                return ("mat", [["(cmul o %s %s)" % (x, s) for x in row] for row in a[1]])
            s = self.scalar(a, n)
            return ("mat", [["(cmul o %s %s)" % (s, x) for x in row] for row in b[1]])
        return ("scalar", "(%s o %s %s)" % (name, self.scalar(a, n), self.scalar(b, n)))

    def call(self, n):
        f = self.np_func(n.func)
        if f is None:
            _fail(n, "call of something that is not connector.np.<function>")
        kw = {k.arg for k in n.keywords}
        if f == "array":
            if kw - {"dtype"} or len(n.args) != 1:
                _fail(n, "np.array: only one positional argument and dtype=")
            arg = n.args[0]
            if not isinstance(arg, ast.List) or not arg.elts:
                _fail(n, "np.array of a non-literal")
            if all(isinstance(r, ast.List) for r in arg.elts):
                rows = []
                for r in arg.elts:
                    rows.append([self.scalar(self.ev(x), x) for x in r.elts])
                if len({len(r) for r in rows}) != 1 or len(rows) != len(rows[0]):
                    _fail(n, "np.array literal is not square")
                return ("mat", rows)
            _fail(n, "np.array literal must be a list of lists")
        if kw or len(n.args) != 1:
            _fail(n, "np.%s: exactly one positional argument" % f)
        arg = n.args[0]
        if f in ("cos", "sin"):
            p = self.param_of(arg)
            if p not in TRIG_PARAMS:
                _fail(n, "np.%s of something that is not an angle parameter" % f)
            return ("scalar", "(creal o (%s_%s e))" % (f, p))
        if f in ("cosh", "sinh"):
            p = self.param_of(arg)
            if p not in HYP_PARAMS:
                _fail(n, "np.%s of something that is not the parameter r" % f)
            return ("scalar", "(creal o (%s_%s e))" % (f, p))
        if f == "conj":
            return ("scalar", "(cconj o %s)" % self.scalar(self.ev(arg), n))
        if f == "exp":
            # exp(1j * x) or exp(1j * np.array([x, y]))
            if not (isinstance(arg, ast.BinOp) and isinstance(arg.op, ast.Mult)
                    and self.is_const(arg.left, 1j)):
                _fail(n, "np.exp only of 1j * <angle>")
            x = arg.right
            p = self.param_of(x)
            if p is not None:
                if p not in TRIG_PARAMS:
                    _fail(n, "np.exp(1j*%s): not an angle parameter" % p)
                return ("scalar", "(cexpi (cos_%s e) (sin_%s e))" % (p, p))
            if (isinstance(x, ast.Call) and self.np_func(x.func) == "array" and len(x.args) == 1
                    and not x.keywords and isinstance(x.args[0], ast.List)):
                ps = [self.param_of(y) for y in x.args[0].elts]
                if not ps or any(q not in TRIG_PARAMS for q in ps):
                    _fail(n, "np.exp(1j*np.array([...])): entries must be angle parameters")
                return ("vec", ["(cexpi (cos_%s e) (sin_%s e))" % (q, q) for q in ps])
            _fail(n, "np.exp only of 1j * <angle>")
        _fail(n, "np.%s not allowed" % f)

    # ---- statements
    def run(self):
        a = self.fn.args
        if [x.arg for x in a.args] != ["self", "connector", "config"] or a.vararg or a.kwarg \
                or a.kwonlyargs or a.defaults:
            _fail(self.fn, "unexpected signature")
        for st in self.fn.body:
            if isinstance(st, ast.Expr) and isinstance(st.value, ast.Constant) \
                    and isinstance(st.value.value, str):
                continue
            if isinstance(st, ast.Assign) and len(st.targets) == 1:
                tgt, val = st.targets[0], st.value
                if isinstance(tgt, ast.Name):
                    if self.is_np(val) and not isinstance(val, ast.Name):
                        self.env[tgt.id] = ("np",)
                        continue
                    p = self.self_param(val)
                    if p is not None:
                        self.env[tgt.id] = ("param", p)
                        if p not in self.params:
                            self.params.append(p)
                        continue
                    v = self.ev(val)
                    if v[0] != "scalar":
                        _fail(st, "only scalars may be bound to a local name")
                    self.env[tgt.id] = v
                    continue
                if isinstance(tgt, ast.Tuple) and all(isinstance(x, ast.Name) for x in tgt.elts):
                    v = self.ev(val)
                    if v[0] != "vec" or len(v[1]) != len(tgt.elts):
                        _fail(st, "tuple unpacking of a non-vector")
                    for x, t in zip(tgt.elts, v[1]):
                        self.env[x.id] = ("scalar", t)
                    continue
                _fail(st, "assignment target not allowed")
            if isinstance(st, ast.Return) and st is self.fn.body[-1]:
                v = self.ev(st.value)
                if v[0] != "mat":
                    _fail(st, "the block returned is not a matrix literal")
                return v[1]
            _fail(st, "statement %s not allowed" % type(st).__name__)
        _fail(self.fn, "no return")

    def self_param(self, val):
        """self._params["x"] / self.params["x"] -> "x" """
        if (isinstance(val, ast.Subscript) and isinstance(val.value, ast.Attribute)
                and val.value.attr in ("_params", "params")
                and isinstance(val.value.value, ast.Name) and val.value.value.id == "self"):
            sl = val.slice
            if isinstance(sl, ast.Constant) and isinstance(sl.value, str):
                p = sl.value
                if p not in TRIG_PARAMS | HYP_PARAMS | RAW_PARAMS:
                    _fail(val, "unknown gate parameter %r" % p)
                return p
            _fail(val, "parameter subscript is not a string literal")
        return None


def _coq_matrix(rows):
    return "[" + ";\n   ".join("[" + ";\n    ".join(r) + "]" for r in rows) + "]"


def translate(repo):
    """Returns (text of GatesGen.v, metadata).  Raises TranslateError."""
    path = os.path.join(repo, "piquasso", "instructions", "gates.py")
    tree = ast.parse(open(path).read(), path)
    classes = {c.name: c for c in tree.body if isinstance(c, ast.ClassDef)}
    out = [
        "(* GENERATED by harness/impl/c07_translate.py from piquasso/instructions/gates.py.",
        "   Do not edit: rewritten by ./check C07 on every run. *)",
        "From Coq Require Import List.",
        "From PV Require Import C07.CxBase.",
        "Import ListNotations.",
        "",
    ]
    meta = {}
    for name in PASSIVE + ACTIVE:
        if name not in classes:
            raise TranslateError("class %s not found in gates.py" % name)
        cls = classes[name]
        bases = [b.id for b in cls.bases if isinstance(b, ast.Name)]
        want = "_PassiveLinearGate" if name in PASSIVE else "_ActiveLinearGate"
        if bases != [want]:
            raise TranslateError("class %s: bases %s, expected [%s]" % (name, bases, want))
        fns = {f.name: f for f in cls.body if isinstance(f, ast.FunctionDef)}
        nmodes = None
        for st in cls.body:
            if isinstance(st, ast.Assign) and len(st.targets) == 1 \
                    and isinstance(st.targets[0], ast.Name) and st.targets[0].id == "NUMBER_OF_MODES":
                if isinstance(st.value, ast.Constant) and type(st.value.value) is int:
                    nmodes = st.value.value
        if nmodes is None:
            raise TranslateError("class %s: NUMBER_OF_MODES is not an integer literal" % name)
        kinds = ["passive"] + (["active"] if name in ACTIVE else [])
        if name in PASSIVE and "_get_active_block" in fns:
            raise TranslateError("class %s: passive gate defines an active block" % name)
        meta[name] = {"modes": nmodes, "kinds": kinds, "params": []}
        for kind in kinds:
            m = "_get_%s_block" % kind
            if m not in fns:
                raise TranslateError("class %s: method %s missing" % (name, m))
            blk = _Block(name, fns[m])
            rows = blk.run()
            if len(rows) != nmodes:
                raise TranslateError("class %s.%s: %dx%d block for NUMBER_OF_MODES=%d"
                                     % (name, m, len(rows), len(rows), nmodes))
            for p in blk.params:
                if p not in meta[name]["params"]:
                    meta[name]["params"].append(p)
            out.append("(* gates.py:%s.%s (line %d) *)" % (name, m, fns[m].lineno))
            out.append("Definition %s_%s {B : Type} (o : Ops B) (e : Env B) : list (list (Cx B)) :=\n  %s.\n"
                       % (name, kind, _coq_matrix(rows)))
    out.append("")
    return "\n".join(out), meta


def write_if_changed(path, text):
    try:
        if open(path).read() == text:
            return False
    except FileNotFoundError:
        pass
    tmp = path + ".tmp"
    with open(tmp, "w") as f:
        f.write(text)
    os.replace(tmp, path)
    return True


if __name__ == "__main__":
    import sys

    text, meta = translate(sys.argv[1] if len(sys.argv) > 1 else "/repo")
    sys.stdout.write(text)
