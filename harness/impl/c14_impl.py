"""Implementation side of C14: runs piquasso's GaussianState on the requested inputs.

Request: {"cases": [case, ...]}; numbers are strings "p/q" (exact rationals), complex numbers
pairs of such strings.  For every case and every hbar of the case the real GaussianState
code is executed; all outputs are flat lists of floats (complex -> re, im).
"""
import json
import sys
from fractions import Fraction

import numpy as np

import piquasso as pq
from piquasso._simulators.connectors import NumpyConnector
from piquasso._simulators.gaussian.state import GaussianState
import piquasso._simulators.gaussian.state as gstate_module
from piquasso._math.fock import get_fock_space_basis


def fr(x):
    return float(Fraction(x))


def cvec(v):
    return np.array([complex(fr(a), fr(b)) for a, b in v], dtype=complex)


def cmat(m):
    return np.array([[complex(fr(a), fr(b)) for a, b in row] for row in m], dtype=complex)


def flat(x):
    a = np.asarray(x)
    if np.iscomplexobj(a):
        a = a.astype(complex).ravel()
        out = []
        for z in a:
            out += [float(z.real), float(z.imag)]
        return out
    return [float(t) for t in a.astype(float).ravel()]


def cflat(x):
    a = np.asarray(x).astype(complex).ravel()
    out = []
    for z in a:
        out += [float(z.real), float(z.imag)]
    return out


def fresh(d, cfg):
    return GaussianState(d=d, connector=NumpyConnector(), config=cfg)


def from_ladder(d, cfg, m, C, G):
    st = fresh(d, cfg)
    st._m = m.copy()
    st._C = C.copy()
    st._G = G.copy()
    return st


def getters(st):
    """Same order as C14/SurdRun.v:getters."""
    return (
        flat(st.xxpp_mean_vector)
        + flat(st.xxpp_covariance_matrix)
        + flat(st.xxpp_correlation_matrix)
        + flat(st.xpxp_mean_vector)
        + flat(st.xpxp_covariance_matrix)
        + flat(st.xpxp_correlation_matrix)
        + cflat(st.complex_displacement)
        + cflat(st.complex_covariance)
        + [float(st.mean_photon_number())]
    )


def ladder(st):
    return cflat(st._m) + cflat(st._C) + cflat(st._G)


def guarded(f):
    try:
        return f()
    except Exception as e:  # reported, never hidden
        return {"error": type(e).__name__ + ": " + str(e)[:200]}


def run_case(case):
    d = case["d"]
    m, C, G = cvec(case["m"]), cmat(case["C"]), cmat(case["G"])
    res = {"id": case["id"], "per_hbar": []}
    for hb in case["hbars"]:
        hbar = fr(hb)
        cfg = pq.Config(hbar=hbar, cutoff=case.get("cutoff", 4))
        st = from_ladder(d, cfg, m, C, G)
        r = {"hbar": hb}
        if case.get("tie", True):
            r["getters"] = getters(st)
            # setter paths (validation on: the inputs are physical)
            mean_q = np.array([fr(x) for x in case["set_mean"]])
            cov_q = hbar * np.array([[fr(x) for x in row] for row in case["sigma"]])
            s2 = fresh(d, cfg)
            s2.xpxp_mean_vector = mean_q
            s2.xpxp_covariance_matrix = cov_q
            r["via_xpxp"] = ladder(s2)
            r["via_xpxp_back"] = flat(s2.xpxp_mean_vector) + flat(s2.xpxp_covariance_matrix)
            perm = list(range(0, 2 * d, 2)) + list(range(1, 2 * d, 2))  # harness-side reordering
            s3 = fresh(d, cfg)
            s3.xxpp_mean_vector = mean_q[perm]
            s3.xxpp_covariance_matrix = cov_q[np.ix_(perm, perm)]
            r["via_xxpp"] = ladder(s3)
            # reduced + rotated
            modes = tuple(case["modes"])
            t = fr(case["t"])
            phi = 2 * np.arctan(t)
            rr = st.reduced(modes).rotated(phi)
            r["red_rot"] = getters(rr)
            mu, cov = st.xpxp_reduced_rotated_mean_and_covariance(modes, phi)
            r["red_rot_api"] = flat(mu) + flat(cov)
            r["mpn_modes"] = float(st.mean_photon_number(modes))
            r["purity"] = float(st.get_purity())
            r["xp_moments"] = cflat([st.get_xp_string_moment(s) for s in case["strings"]])
            r["ladder_moments"] = cflat([st.get_ladder_string_moment(s) for s in case["strings"]])
            # what get_threshold_detection_probability hands to its kernel
            captured = []

            def spy_nd(cov_, occ):
                captured.append((np.array(cov_), None))
                return 0.0

            def spy_d(cov_, mean_, occ):
                captured.append((np.array(cov_), np.array(mean_)))
                return 0.0

            old = (gstate_module.calculate_click_probability_nondisplaced,
                   gstate_module.calculate_click_probability)
            gstate_module.calculate_click_probability_nondisplaced = spy_nd
            gstate_module.calculate_click_probability = spy_d
            try:
                st.get_threshold_detection_probability((1,) * d)
            finally:
                (gstate_module.calculate_click_probability_nondisplaced,
                 gstate_module.calculate_click_probability) = old
            cov_, mean_ = captured[0]
            r["normalised"] = flat(cov_) + (flat(mean_) if mean_ is not None else [])
            r["normalised_has_mean"] = mean_ is not None
            # --- arguments of the kernels of the ladder-moment observables
            r["variance"] = [float(st.variance_photon_number())]
            cap = {}

            class SpyND:
                def __init__(self, complex_covariance, connector):
                    cap["density"] = ("nondisplaced", None, np.array(complex_covariance))

            class SpyD:
                def __init__(self, complex_displacement, complex_covariance, connector):
                    cap["density"] = ("displaced", np.array(complex_displacement), np.array(complex_covariance))

            old_c = (gstate_module.NondisplacedDensityMatrixCalculation,
                     gstate_module.DisplacedDensityMatrixCalculation)
            gstate_module.NondisplacedDensityMatrixCalculation = SpyND
            gstate_module.DisplacedDensityMatrixCalculation = SpyD
            try:
                st._get_density_matrix_calculation()
            finally:
                (gstate_module.NondisplacedDensityMatrixCalculation,
                 gstate_module.DisplacedDensityMatrixCalculation) = old_c
            kind, dd, dc = cap["density"]
            r["density_kind"] = kind
            r["density_args"] = (cflat(dd) if dd is not None else []) + cflat(dc)

            class Stop(Exception):
                pass

            def spy_w(arg, connector):
                cap["williamson"] = np.array(arg)
                raise Stop()

            old_w = gstate_module.williamson
            gstate_module.williamson = spy_w
            try:
                st.purify()
            except Stop:
                pass
            finally:
                gstate_module.williamson = old_w
            r["purify_arg"] = flat(cap["williamson"])
            # phase shifter: the matrix whose determinant / linear system is taken
            angles = [2 * np.arctan(fr(t_)) for t_ in case["ps_t"]]
            old_det = np.linalg.det

            def spy_det(a):
                cap.setdefault("ps_M", np.array(a))
                return old_det(a)

            np.linalg.det = spy_det
            try:
                st.get_phaseshifter_expectation_value(angles)
            finally:
                np.linalg.det = old_det
            r["ps_M"] = cflat(cap["ps_M"])
        if case.get("search", False):
            o = {}
            sh = np.sqrt(hbar)
            o["normalised_mean"] = flat(st.xpxp_mean_vector / sh)
            o["normalised_cov"] = flat(st.xpxp_covariance_matrix / hbar)
            o["normalised_corr"] = flat(st.xxpp_correlation_matrix / hbar)
            o["mean_photon_number"] = [float(st.mean_photon_number())]
            o["variance_photon_number"] = [float(st.variance_photon_number())]
            o["purity"] = [float(st.get_purity())]
            o["is_pure"] = [float(st.is_pure())]
            other = from_ladder(d, cfg, cvec(case["m2"]), cmat(case["C2"]), cmat(case["G2"]))
            o["fidelity"] = guarded(lambda: [float(st.fidelity(other)), float(other.fidelity(st))])
            o["threshold"] = guarded(lambda: [float(st.get_threshold_detection_probability(tuple(occ)))
                                              for occ in case["threshold_occ"]])
            o["particle"] = guarded(lambda: [float(st.get_particle_detection_probability(np.array(occ)))
                                             for occ in case["particle_occ"]])
            o["fock_probabilities"] = guarded(lambda: flat(st.fock_probabilities))
            if d <= 2:
                o["density_matrix"] = guarded(lambda: cflat(st.density_matrix))
            o["parity"] = guarded(lambda: [float(st.get_parity_operator_expectation_value())])
            o["phaseshifter"] = guarded(lambda: cflat([st.get_phaseshifter_expectation_value(list(a))
                                                       for a in case["angles"]]))
            o["ladder_moments"] = cflat([st.get_ladder_string_moment(s) for s in case["strings"]])
            o["xp_moments_normalised"] = cflat(
                [st.get_xp_string_moment(s) / sh ** len(s) for s in case["strings"]])
            # Wigner function at points that scale with sqrt(hbar), times hbar^d
            pos = [[sh * x for x in p] for p in case["wigner_pos"]]
            mom = [[sh * x for x in p] for p in case["wigner_mom"]]
            o["wigner_scaled"] = guarded(lambda: flat(st.wigner_function(pos, mom) * hbar ** d))
            A = np.array(case["quad_A"], dtype=float) / hbar
            b = np.array(case["quad_b"], dtype=float) / sh
            o["quadratic"] = guarded(lambda: [float(np.real(
                st.quadratic_polynomial_expectation(A, b, 0.25, phi=0.3)))])
            o["purify_purity"] = guarded(lambda: [float(st.purify().get_purity())]) if d <= 2 else []
            r["obs"] = o
        if case.get("search", False) and d >= 2:
            # reduced / mean_photon_number(modes) / marginal probabilities for the mode tuple as
            # given (any order), next to the quantities of the full state they must agree with
            modes = tuple(case["modes"])
            q = {}
            red = st.reduced(modes)
            q["reduced_xpxp"] = flat(red.xpxp_mean_vector) + flat(red.xpxp_covariance_matrix)
            q["reduced_complex"] = cflat(red.complex_displacement) + cflat(red.complex_covariance)
            q["full_xpxp_mean"] = flat(st.xpxp_mean_vector)
            q["full_xpxp_cov"] = flat(st.xpxp_covariance_matrix)
            q["full_complex_disp"] = cflat(st.complex_displacement)
            q["full_complex_cov"] = cflat(st.complex_covariance)
            q["mpn_modes"] = float(st.mean_photon_number(modes))
            q["mpn_each"] = [float(st.mean_photon_number((a,))) for a in modes]
            if hb == case["hbars"][0] and len(modes) >= 2:
                def marg(ms):
                    mp = st.get_marginal_fock_probabilities(tuple(ms))
                    return [[list(map(int, key)), float(v)] for key, v in mp.items()]
                q["marginal"] = guarded(lambda: marg(modes))
                q["marginal_reversed"] = guarded(lambda: marg(modes[::-1]))
            r["reduced_direct"] = q
        if case.get("consistency", False):
            k = {}
            # Wigner function against the product of one-mode Wigner functions is only valid
            # for product states; the general reference is computed by the harness from the
            # exact moments, here only the raw values at unscaled points are returned.
            k["wigner"] = guarded(lambda: flat(st.wigner_function(case["wigner_pos"], case["wigner_mom"])))
            k["wigner_modes"] = guarded(lambda: [
                flat(st.wigner_function([[p[a] for a in case["modes"]] for p in case["wigner_pos"]],
                                        [[p[a] for a in case["modes"]] for p in case["wigner_mom"]],
                                        modes=tuple(case["modes"])))])
            if "fock_cutoff" in case:
                cfg2 = pq.Config(hbar=hbar, cutoff=case["fock_cutoff"])
                st2 = from_ladder(d, cfg2, m, C, G)
                basis = get_fock_space_basis(d=d, cutoff=case["fock_cutoff"])
                pr = st2.fock_probabilities
                k["fock_total"] = float(np.sum(pr))
                ref = []
                for a in case["angles"]:
                    z = np.sum(pr * np.exp(1j * (basis @ np.array(a))))
                    ref += [float(z.real), float(z.imag)]
                k["phaseshifter_from_fock"] = ref
                k["phaseshifter"] = guarded(lambda: cflat(
                    [st2.get_phaseshifter_expectation_value(list(a)) for a in case["angles"]]))
                k["parity_from_fock"] = float(np.sum(pr * (-1.0) ** np.sum(basis, axis=1)))
                k["parity"] = guarded(lambda: float(st2.get_parity_operator_expectation_value()))
                k["mean_photon_from_fock"] = float(np.sum(pr * np.sum(basis, axis=1)))
                k["mean_photon"] = float(st2.mean_photon_number())
                tot = np.sum(basis, axis=1)
                k["variance_from_fock"] = float(np.sum(pr * tot ** 2) - np.sum(pr * tot) ** 2)
                k["variance"] = float(st2.variance_photon_number())
            r["consistency"] = k
        res["per_hbar"].append(r)
    return res


def main():
    req = json.load(sys.stdin)
    out = {"cases": [run_case(c) for c in req["cases"]], "piquasso": pq.__file__}
    from piquasso._math.transformations import xxpp_to_xpxp_indices, xpxp_to_xxpp_indices
    out["indices"] = []
    for d in req.get("index_d", []):
        out["indices"] += [int(x) for x in xxpp_to_xpxp_indices(d)] + [int(x) for x in xpxp_to_xxpp_indices(d)]
    print(json.dumps(out))


main()
