(* C19 — Dual-rail translation preserves qubit-circuit statistics.
   Only statements closed by [exact]; proofs live in C19/.  Everything below is about the model
   DRModel.v instantiated with EncodeGen.v, which the check regenerates from the repository on
   every run (emitted instruction lists, gates.py blocks, the two fixed CZ angles). *)
From Coq Require Import ZArith QArith List Bool Arith Ring Reals Qreals.
From PV Require Import C19.DRBase C19.EncodeGen C19.DRModel C19.DRProofs C19.KLMProofs C19.RealInst.
Import ListNotations.
Open Scope nat_scope.

Definition is_ring {A} (O : ops A) : Prop :=
  ring_theory (o0 O) (o1 O) (oadd O) (omul O) (fun x y => oadd O x (oopp O y)) (oopp O) (@eq A).

(* 1. every single-qubit gate (h,x,y,z,rx,ry,rz,u,p), every qubit, every value of the angle
      symbols, every commutative ring of scalars: the gates.py blocks of the emitted instructions
      multiply to the Qiskit matrix exactly (no global phase) *)
Theorem C19_encode_gate_matrix : forall A (O : ops A), is_ring O ->
  forall q g, encoded_gate_matrix O q g = Some (gate_matrix O g).
Proof. exact (@encode_gate_matrix). Qed.
Print Assumptions C19_encode_gate_matrix.

(* ... in particular at the reals *)
Theorem C19_encode_gate_matrix_real : forall q g, encoded_gate_matrix Rops q g = Some (gate_matrix Rops g).
Proof. exact (encode_gate_matrix Rops Rops_ring). Qed.
Print Assumptions C19_encode_gate_matrix_real.

(* 2 (partial). gate level and block level of the homomorphism: executing, in order, the
   instructions emitted for gate g (resp. for a whole conditioned-block body) on the rails of
   qubit q, on ANY n-qubit code state psi, is the qubit gate (resp. the gate sequence) on qubit q.
   The program-level induction (measurements, outcome positions read by the conditions) is the
   Definition encode_homomorphism_statement of DRProofs.v and is not proved. *)
Theorem C19_encode_homomorphism_partial_gate : forall A (O : ops A), is_ring O -> forall q g,
  exists l, instantiate O [2 * q; 2 * q + 1] (gsyms O g) (emitted_of g) = Some l /\
            forall psi, run_ops O l psi = Some (apply1 O q (gate_matrix O g) psi).
Proof. exact (@encoded_gate_acts). Qed.
Print Assumptions C19_encode_homomorphism_partial_gate.

Theorem C19_encode_homomorphism_partial_block : forall A (O : ops A), is_ring O -> forall q body,
  exists l, encode_gates O q body = Some l /\
            forall psi, run_ops O l psi = Some (apply_gates O q body psi).
Proof. exact (@encode_gates_acts). Qed.
Print Assumptions C19_encode_homomorphism_partial_block.

(* 3a. the CZ block emitted by _cz_on_two_bosonic_qubits, as a 4-mode network with the ancillas
       found in (1,1): its transition amplitudes (permanents) are these polynomials in the
       (cos, sin) of the two fixed angles, over every commutative ring *)
Theorem C19_klm_network_poly : forall A (O : ops A), is_ring O -> forall c1 s1 c2 s2 x y a b,
  In (x, y, a, b) klm_cases ->
  klm_amp O c1 s1 c2 s2 x y a b = Some (klm_poly O c1 s1 c2 s2 x y a b, o0 O).
Proof. exact (@klm_network_poly). Qed.
Print Assumptions C19_klm_network_poly.

(* 3b. exact KLM angles: sqrt 6/9 * diag(1,1,1,-1) on the code states, all leakage amplitudes 0 *)
Theorem C19_klm_cz_exact : forall c1 s1 c2 s2 r2 r3 r6 : R,
  (r2 * r2 = 2 -> r3 * r3 = 3 -> r6 = r2 * r3 ->
  3 * (c1 * c1) = 1 -> 3 * (s1 * s1) = 2 -> 3 * (c1 * s1) = r2 ->
  6 * (c2 * c2) = 3 + r6 -> 6 * (s2 * s2) = 3 - r6 -> 6 * (c2 * s2) = r3 ->
  forall x y a b, In (x, y, a, b) klm_cases ->
  exists p, klm_amp Rops c1 s1 c2 s2 x y a b = Some (p, 0) /\ 9 * p = r6 * klm_target x y a b)%R.
Proof. exact klm_cz_exact. Qed.
Print Assumptions C19_klm_cz_exact.

(* 4. the angles the code uses (54.74 and 17.63 degrees): every amplitude within 1e-4 *)
Theorem C19_klm_cz_rounded : forall x y a b, In (x, y, a, b) klm_cases ->
  exists p, klm_amp Rops (cos klm_th1) (sin klm_th1) (cos klm_th2) (sin klm_th2) x y a b = Some (p, 0%R)
            /\ (Rabs (p - sqrt 6 / 9 * klm_target x y a b) <= 1 / 10000)%R.
Proof. exact klm_cz_rounded. Qed.
Print Assumptions C19_klm_cz_rounded.

Theorem C19_klm_angle_error :
  (Rabs (cos klm_th1 * cos klm_th1 - 1 / 3) <= 1 / 10000 /\
   Rabs (cos klm_th2 * cos klm_th2 - (3 + sqrt 6) / 6) <= 1 / 10000)%R.
Proof. exact klm_angle_error. Qed.
Print Assumptions C19_klm_angle_error.

(* non-vacuity: the cases are the eight photon-number conserving transitions *)
Example C19_klm_cases : klm_cases =
  [(0,0,0,0); (0,1,0,1); (0,1,1,0); (1,0,0,1); (1,0,1,0); (1,1,0,2); (1,1,1,1); (1,1,2,0)].
Proof. reflexivity. Qed.
Example C19_klm_target_cz : (klm_target 1 1 1 1 = -1 /\ klm_target 0 1 0 1 = 1 /\ klm_target 0 1 1 0 = 0)%R.
Proof. repeat split; reflexivity. Qed.
