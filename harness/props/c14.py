"""C14 — Gaussian states are hbar-invariant and representation-consistent."""
import json
import math
import os
from fractions import Fraction as F

import numpy as np

from common import (CASES_HEADER, VERIF, Check, coq_eval_parallel, parse_coq_list, run_impl)

IMPORTS = CASES_HEADER + "From PV Require Import C14.ReprModel C14.SurdRun.\n"
HBARS = ["1/2", "1", "2", "37/10"]
# the search spans every order of magnitude the implementation is meant to accept (all hbar>0);
# reference value: hbar=2 (the default, the only one the test-suite uses)
HBARS_WIDE = ["2", "1.054571817e-34", "1e-18", "1e-6", "1e-2", "1/2", "1", "37/10", "1e3", "1e8"]
CORPUS = os.path.join(VERIF, "harness", "corpus", "c14.jsonl")


# ----------------------------------------------------------------------------- exact linear algebra
def mat_mul(a, b):
    n, m, p = len(a), len(b), len(b[0])
    return [[sum(a[i][k] * b[k][j] for k in range(m)) for j in range(p)] for i in range(n)]


def transpose(a):
    return [list(r) for r in zip(*a)]


def eye(n):
    return [[F(int(i == j)) for j in range(n)] for i in range(n)]


PYTH = [(F(3, 5), F(4, 5)), (F(5, 13), F(12, 13)), (F(4, 5), F(-3, 5)), (F(-7, 25), F(24, 25)),
        (F(0), F(1)), (F(8, 17), F(15, 17)), (F(12, 13), F(-5, 13))]


def rand_symplectic(rng, d, strength):
    """Rational symplectic matrix in xpxp ordering: product of one-mode rotations,
    one-mode squeezers and two-mode beamsplitter rotations."""
    S = eye(2 * d)
    squeezes = [F(3, 2), F(2, 3), F(2), F(1, 2), F(4, 3), F(5, 4)] if strength == "strong" else \
        [F(5, 4), F(4, 5), F(6, 5), F(9, 10)]
    nfac = rng.randint(d, 2 * d + 2)
    for _ in range(nfac):
        T = eye(2 * d)
        kind = rng.random()
        if kind < 0.35:  # rotation of one mode
            k = rng.randrange(d)
            c, s = rng.choice(PYTH)
            T[2 * k][2 * k], T[2 * k][2 * k + 1] = c, s
            T[2 * k + 1][2 * k], T[2 * k + 1][2 * k + 1] = -s, c
        elif kind < 0.7 or d == 1:  # squeezer
            k = rng.randrange(d)
            u = rng.choice(squeezes)
            T[2 * k][2 * k], T[2 * k + 1][2 * k + 1] = u, 1 / u
        else:  # beamsplitter-like rotation between two modes
            a, b = rng.sample(range(d), 2)
            c, s = rng.choice(PYTH)
            for e in (0, 1):
                T[2 * a + e][2 * a + e], T[2 * a + e][2 * b + e] = c, s
                T[2 * b + e][2 * a + e], T[2 * b + e][2 * b + e] = -s, c
        S = mat_mul(T, S)
    return S


def ladder_from_sigma(sig, d):
    """(C, G) of the state whose dimensionless xpxp covariance is sig (input generation only)."""
    perm = list(range(0, 2 * d, 2)) + list(range(1, 2 * d, 2))
    x = [[sig[perm[i]][perm[j]] for j in range(2 * d)] for i in range(2 * d)]
    b = [[(x[i][j] - (1 if i == j else 0)) / 4 for j in range(2 * d)] for i in range(2 * d)]
    C = [[(b[i][j] + b[d + i][d + j], b[i][d + j] - b[d + i][j]) for j in range(d)] for i in range(d)]
    G = [[(b[i][j] - b[d + i][d + j], b[i][d + j] + b[d + i][j]) for j in range(d)] for i in range(d)]
    return C, G


SMALL = [F(0), F(1, 2), F(-1, 2), F(1, 3), F(-3, 4), F(2, 5), F(1), F(-1, 4), F(3, 2)]


def rand_state(rng, d, strength="strong", displaced=None, mixed=None):
    S = rand_symplectic(rng, d, strength)
    if mixed is None:
        mixed = rng.random() < 0.5
    nus = [rng.choice([F(1), F(3, 2), F(2), F(5, 4)] if strength == "strong" else [F(1), F(11, 10)])
           if mixed else F(1) for _ in range(d)]
    D = [[(nus[i // 2] if i == j else F(0)) for j in range(2 * d)] for i in range(2 * d)]
    sig = mat_mul(mat_mul(S, D), transpose(S))
    C, G = ladder_from_sigma(sig, d)
    if displaced is None:
        displaced = rng.random() < 0.7
    scale = F(1) if strength == "strong" else F(1, 3)
    m = [(rng.choice(SMALL) * scale, rng.choice(SMALL) * scale) if displaced else (F(0), F(0)) for _ in range(d)]
    return {"d": d, "sigma": sig, "C": C, "G": G, "m": m, "mixed": mixed, "displaced": displaced}


def enc(x):
    return "%d/%d" % (x.numerator, x.denominator)


def enc_state(st, suffix=""):
    return {"m" + suffix: [[enc(a), enc(b)] for a, b in st["m"]],
            "C" + suffix: [[[enc(a), enc(b)] for a, b in row] for row in st["C"]],
            "G" + suffix: [[[enc(a), enc(b)] for a, b in row] for row in st["G"]]}


def occupations(rng, d, total_max):
    v = [0] * d
    for _ in range(rng.randint(0, total_max)):
        v[rng.randrange(d)] += 1
    return v


def make_case(rng, cid, d, tie, search, consistency=False, strength="strong", displaced=None,
              mixed=None, fock_cutoff=None, hbars=HBARS, descending=False):
    st = rand_state(rng, d, strength, displaced, mixed)
    nm = rng.randint(1, d)
    modes = rng.sample(range(d), nm)  # any order
    if descending and d >= 2:
        nm = max(nm, 2)
        modes = sorted(rng.sample(range(d), nm), reverse=True)
        if nm >= 3:
            modes[0], modes[1] = modes[1], modes[0]  # neither ascending nor descending
    t = rng.choice([F(1, 2), F(1, 3), F(-2, 3), F(3, 4), F(2), F(-1, 5)])
    strings = []
    for L in (1, 2, 2, 3, 4):
        strings.append([rng.randrange(2 * d) for _ in range(L)])
    strings.append([0, d])
    strings.append([d, 0])
    case = {"id": cid, "d": d, "hbars": list(hbars), "tie": tie, "search": search,
            "consistency": consistency, "modes": modes, "t": enc(t), "strings": strings,
            "sigma": [[enc(x) for x in row] for row in st["sigma"]],
            "set_mean": [enc(rng.choice(SMALL)) for _ in range(2 * d)],
            "ps_t": [enc(rng.choice([F(1, 2), F(1, 3), F(-2, 3), F(3, 4), F(2), F(-1, 5), F(5, 2)])) for _ in range(d)],
            "mixed": st["mixed"], "displaced": st["displaced"], "cutoff": 4 if d <= 2 else 3}
    case.update(enc_state(st))
    if search:
        other = rand_state(rng, d, strength)
        case.update(enc_state(other, "2"))
        case["threshold_occ"] = [[rng.randint(0, 1) for _ in range(d)] for _ in range(2)] + [[1] * d]
        case["particle_occ"] = [occupations(rng, d, 3) for _ in range(2)] + [[0] * d]
        case["angles"] = [[round(rng.uniform(-3, 3), 3) for _ in range(d)] for _ in range(2)]
        A = [[round(rng.uniform(-1, 1), 3) for _ in range(2 * d)] for _ in range(2 * d)]
        case["quad_A"] = [[(A[i][j] + A[j][i]) / 2 for j in range(2 * d)] for i in range(2 * d)]
        case["quad_b"] = [round(rng.uniform(-1, 1), 3) for _ in range(2 * d)]
    if search or consistency:
        case["wigner_pos"] = [[round(rng.uniform(-1.5, 1.5), 3) for _ in range(d)] for _ in range(2)]
        case["wigner_mom"] = [[round(rng.uniform(-1.5, 1.5), 3) for _ in range(d)] for _ in range(2)]
    if consistency and fock_cutoff:
        case["fock_cutoff"] = fock_cutoff
        case["angles"] = [[round(rng.uniform(0.2, 3), 3) for _ in range(d)],
                          [round(rng.uniform(-3, -0.2), 3) if i % 2 else round(rng.uniform(0.2, 3), 3) for i in range(d)]]
    return case


# ----------------------------------------------------------------------------- Coq side
def cq(s):
    x = F(s)
    n = "(%d)" % x.numerator if x.numerator < 0 else "%d" % x.numerator
    return "(Qmake %s %d)" % (n, x.denominator)


def cql(v):
    return "[" + "; ".join(cq(x) for x in v) + "]"


def cqll(m):
    return "[" + "; ".join(cql(r) for r in m) + "]"


def ccl(v):
    return "[" + "; ".join("(%s, %s)" % (cq(a), cq(b)) for a, b in v) + "]"


def ccll(m):
    return "[" + "; ".join(ccl(r) for r in m) + "]"


def natl(v):
    return "[" + "; ".join("%d%%nat" % x for x in v) + "]"


GROUPS = ["getters", "via_xpxp", "via_xpxp_back", "via_xxpp", "red_rot", "purity", "xp_moments",
          "ladder_moments", "normalised", "variance", "ps_M", "purify_arg"]


def coq_body(case, hb, with_purity):
    d = case["d"]
    h = F(hb)
    perm = list(range(0, 2 * d, 2)) + list(range(1, 2 * d, 2))
    sig = [[F(x) for x in row] for row in case["sigma"]]
    cov = [[h * x for x in row] for row in sig]
    mean = [F(x) for x in case["set_mean"]]
    cov_x = [[cov[perm[i]][perm[j]] for j in range(2 * d)] for i in range(2 * d)]
    mean_x = [mean[perm[i]] for i in range(2 * d)]
    t = F(case["t"])
    c, s = (1 - t * t) / (1 + t * t), 2 * t / (1 + t * t)
    e = lambda x: "%d/%d" % (x.numerator, x.denominator)
    n = len(case["modes"])
    strings = "[" + "; ".join(natl(x) for x in case["strings"]) + "]"
    zs = []
    for t_ in case["ps_t"]:
        tt = F(t_)
        zs.append((e((1 - tt * tt) / (1 + tt * tt)), e(2 * tt / (1 + tt * tt))))
    body = """
Definition hb : Q := %s.
Definition d : nat := %d%%nat.
Definition st := mk_state %s %s %s.
Definition s2 := via_xpxp hb d %s %s.
Eval vm_compute in getters hb d st.
Eval vm_compute in ladder d s2.
Eval vm_compute in (out_vec (2 * d) (xpxp_mean (KS hb) c_rt2 c_sh d s2) ++ out_mat (2 * d) (xpxp_cov (KS hb) (c_hbar hb) d s2))%%list.
Eval vm_compute in ladder d (via_xxpp hb d %s %s).
Eval vm_compute in getters hb %d%%nat (red_rot hb %s %s %s st).
Eval vm_compute in %s.
Eval vm_compute in xp_moments hb d st %s.
Eval vm_compute in ladder_moments hb d st %s.
Eval vm_compute in normalised hb d st.
Eval vm_compute in variance_out hb d st.
Eval vm_compute in ps_out hb d st %s.
Eval vm_compute in purify_arg_out hb d st.
""" % (cq(hb), d, ccl(case["m"]), ccll(case["C"]), ccll(case["G"]),
       cql(map(e, mean)), cqll([map(e, r) for r in cov]),
       cql(map(e, mean_x)), cqll([map(e, r) for r in cov_x]),
       n, natl(case["modes"]), cq(e(c)), cq(e(s)),
       "purity_sq hb d st" if with_purity else "@nil Z",
       strings, strings, ccl(zs))
    return body


def surds_to_floats(ints, hb):
    """8 integers per value: a + b*sqrt2 + c*sqrt(hbar) + e*sqrt(2*hbar)."""
    assert len(ints) % 8 == 0, len(ints)
    h = float(F(hb))
    w = (1.0, math.sqrt(2.0), math.sqrt(h), math.sqrt(2.0 * h))
    out = []
    for i in range(0, len(ints), 8):
        v = 0.0
        for k in range(4):
            num, den = ints[i + 2 * k], ints[i + 2 * k + 1]
            if num:
                v += (num / den) * w[k]
        out.append(v)
    return out


def close(model, impl, tol=1e-9):
    return abs(model - impl) <= tol * (1 + abs(model))


def compare(model, impl, tol=1e-9):
    """index of the first disagreement, or None"""
    if len(model) != len(impl):
        return -1
    for i, (a, b) in enumerate(zip(model, impl)):
        if not (math.isfinite(b) and close(a, b, tol)):
            return i
    return None


# ----------------------------------------------------------------------------- search helpers
def wigner_reference(mu, cov, pos, mom):
    """Gaussian Wigner density at X = (x_1..x_d, p_1..p_d) from the xxpp moments (mu, cov)."""
    d = len(mu) // 2
    inv = np.linalg.inv(cov)
    norm = 1.0 / (np.pi ** d * np.sqrt(np.linalg.det(cov)))
    grid = []
    for p in mom:
        for x in pos:
            X = np.array(list(x) + list(p)) - mu
            grid.append(float(norm * np.exp(-X @ inv @ X)))
    return grid


def all_close(a, b, tol):
    if isinstance(a, dict) or isinstance(b, dict):
        return a == b
    if len(a) != len(b):
        return False
    return all(math.isfinite(y) and abs(x - y) <= tol * (1 + abs(x)) for x, y in zip(a, b))


def load_corpus():
    if not os.path.exists(CORPUS):
        return []
    return [json.loads(l) for l in open(CORPUS) if l.strip()]


SITE = {"purity": "get_purity", "is_pure": "get_purity", "purify_purity": "get_purity"}


class Dedup:
    """One reported violation per stable key (first witness, with the number of repeats)."""

    def __init__(self, chk):
        self.chk = chk
        self.seen = {}

    def add(self, key, what, witness):
        if key in self.seen:
            self.seen[key]["witness"]["further_failing_inputs"] += 1
            return
        witness = dict(witness)
        witness["further_failing_inputs"] = 0
        self.seen[key] = {"what": what, "witness": witness}

    def flush(self):
        for key, v in self.seen.items():
            self.chk.violation(key, v["what"], v["witness"])


def run(chk: Check, only_cases=None):
    chk.proofs()
    viol = Dedup(chk)
    T = chk.thorough
    rng = chk.rng
    corr_broken = []

    # ------------------------------------------------------------------ cases
    cases = []
    if only_cases is None:
        for c in load_corpus():
            cases.append(c)
        nid = [0]

        def add(**kw):
            nid[0] += 1
            cases.append(make_case(rng, "g%d" % nid[0], **kw))

        # tie + search on the same states; sizes per tier
        plan = [(1, 2), (2, 3), (3, 2), (4, 1)] if not T else [(1, 6), (2, 10), (3, 8), (4, 4)]
        for d, n in plan:
            for k in range(n):
                add(d=d, tie=True, search=True, consistency=(d >= 2),
                    displaced=(None if k else True), mixed=(None if k != 1 else True), descending=(k == 0))
        # more search-only states (no Coq run): pure/mixed, displaced/not
        for d, n in ([(1, 2), (2, 4), (3, 3), (4, 1)] if not T else [(1, 12), (2, 20), (3, 14), (4, 6)]):
            for k in range(n):
                add(d=d, tie=False, search=True, consistency=(d >= 2), displaced=(k % 2 == 0), mixed=(k % 3 != 0),
                    hbars=HBARS_WIDE, descending=(k == 0))
        # low-energy states with a Fock-space reference for the phase-shifter / parity value
        for d, cut, n in ([(1, 14, 1), (2, 12, 2)] if not T else [(1, 20, 2), (2, 14, 4), (3, 7, 2)]):
            for k in range(n):
                add(d=d, tie=False, search=False, consistency=True, strength="weak", fock_cutoff=cut,
                    hbars=["2", "37/10"] if k else ["2"])
    else:
        cases = only_cases

    # single-threaded kernels: the OpenMP/numba pools oversubscribe a shared machine badly
    index_d = list(range(0, 13)) + ([17, 32, 64] if T else [17])
    impl = run_impl("c14_impl.py", {"cases": cases, "index_d": index_d}, timeout=3000,
                    extra_env={"OMP_NUM_THREADS": "1", "OPENBLAS_NUM_THREADS": "1", "MKL_NUM_THREADS": "1",
                               "NUMBA_NUM_THREADS": "2"})
    by_id = {c["id"]: c for c in impl["cases"]}
    chk.notes.append("implementation loaded from " + impl["piquasso"])

    # ------------------------------------------------------------------ correspondence (exact model vs floats)
    tie_cases = [c for c in cases if c.get("tie")]
    jobs = []
    for c in tie_cases:
        for hb in c["hbars"]:
            with_purity = c["d"] <= 3  # 8x8 Laplace expansion over surds is too slow for a tie
            jobs.append((c, hb, with_purity))
    # several (state, hbar) jobs per generated file (coqc start-up dominates a single job)
    per_file = max(1, (len(jobs) + 3) // 4) if not T else 12
    chunks = [jobs[i:i + per_file] for i in range(0, len(jobs), per_file)]
    bodies = [IMPORTS + "".join("Module J%d.%sEnd J%d.\n" % (k, coq_body(c, hb, wp), k)
                                for k, (c, hb, wp) in enumerate(ch)) for ch in chunks]
    # the index vectors themselves (exact)
    bodies.append(IMPORTS + "Eval vm_compute in map Z.of_nat (flat_map (fun d => x2p_list d ++ p2x_list d) %s)%%list.\n"
                  % natl(index_d))
    outs = coq_eval_parallel("c14_tie", bodies, jobs=4)
    idx_model = parse_coq_list(outs.pop())
    if not idx_model or idx_model[0] != impl["indices"]:
        corr_broken.append("xxpp_to_xpxp_indices / xpxp_to_xxpp_indices: model != implementation for some d in %s" % index_d)
    chk.stream("xxpp<->xpxp index vectors vs model (exact)", len(index_d), len(index_d) - 2, exhaustive=False,
               samples=[{"d": 3, "xxpp_to_xpxp": [0, 3, 1, 4, 2, 5]}])
    all_groups = []
    for ch, out in zip(chunks, outs):
        g = parse_coq_list(out)
        if len(g) != len(GROUPS) * len(ch):
            corr_broken.append("model output has %d groups for %d jobs" % (len(g), len(ch)))
            g = g + [[]] * (len(GROUPS) * len(ch) - len(g))
        for k in range(len(ch)):
            all_groups.append(g[k * len(GROUPS):(k + 1) * len(GROUPS)])
    n_values = 0
    model_xxpp = {}
    for (c, hb, wp), groups in zip(jobs, all_groups):
        if any(len(x) == 0 and n not in ("purity",) for n, x in zip(GROUPS, groups)):
            corr_broken.append("model produced no output for case %s hbar=%s" % (c["id"], hb))
            continue
        r = next(x for x in by_id[c["id"]]["per_hbar"] if x["hbar"] == hb)
        d = c["d"]
        # the round trip stated directly on the implementation (independent of the model)
        given = [float(F(x)) for x in c["set_mean"]] + [float(F(hb) * F(x)) for row in c["sigma"] for x in row]
        if not all_close(given, r["via_xpxp_back"], 1e-9):
            viol.add("C14:xpxp-setters:get-after-set",
                     "xpxp_mean_vector / xpxp_covariance_matrix read back differ from the values just set",
                     {"case_id": c["id"], "d": d, "hbar": hb, "set_mean": c["set_mean"], "sigma_over_hbar": c["sigma"],
                      "read_back": r["via_xpxp_back"][:8]})
        for name, ints in zip(GROUPS, groups):
            if name == "purity":
                if not wp:
                    continue
                num, den = surds_to_floats(ints, hb)
                model = [math.sqrt(num / den)]
                got = [r["purity"]]
            elif name == "normalised":
                model = surds_to_floats(ints, hb)
                got = r["normalised"]
                if not r["normalised_has_mean"]:
                    model = model[: 4 * d * d]
            else:
                model = surds_to_floats(ints, hb)
                got = r[name]
            n_values += len(model)
            bad = compare(model, got)
            if bad is not None:
                corr_broken.append("%s: model != implementation at case %s (d=%d) hbar=%s, entry %d: model %r impl %r"
                                   % (name, c["id"], d, hb, bad,
                                      model[bad] if 0 <= bad < len(model) else None,
                                      got[bad] if 0 <= bad < len(got) else None))
            if name == "getters":
                # what _get_density_matrix_calculation hands over: complex displacement / covariance,
                # and the displaced / non-displaced decision (a function of _m only)
                off = 4 * d + 16 * d * d
                disp_model = model[off:off + 4 * d]
                cov_model = model[off + 4 * d:off + 4 * d + 8 * d * d]
                displaced = any(F(a) != 0 or F(b) != 0 for a, b in c["m"])
                want_kind = "displaced" if displaced else "nondisplaced"
                if r["density_kind"] != want_kind:
                    corr_broken.append("density calculation: %s chosen for case %s hbar=%s, model (m %s 0) says %s"
                                       % (r["density_kind"], c["id"], hb, "!=" if displaced else "==", want_kind))
                else:
                    badd = compare((disp_model if displaced else []) + cov_model, r["density_args"])
                    if badd is not None:
                        corr_broken.append("density calculation arguments: model != implementation at case %s hbar=%s entry %d"
                                           % (c["id"], hb, badd))
                model_xxpp[(c["id"], hb)] = (np.array(model[:2 * d]), np.array(model[2 * d:2 * d + 4 * d * d]).reshape(2 * d, 2 * d))
            if name == "red_rot":
                # the public API for the same thing
                nn = len(c["modes"])
                off = 2 * nn + 2 * (2 * nn) ** 2
                api_model = model[off:off + 2 * nn + (2 * nn) ** 2]
                bad = compare(api_model, r["red_rot_api"])
                if bad is not None:
                    corr_broken.append("xpxp_reduced_rotated_mean_and_covariance: model != implementation at case %s hbar=%s entry %d"
                                       % (c["id"], hb, bad))
                if not close(model[-1], r["mpn_modes"]):
                    corr_broken.append("mean_photon_number(modes): model != implementation at case %s hbar=%s" % (c["id"], hb))
    nontriv = sum(len(c["hbars"]) for c in tie_cases if c["d"] >= 2 or c["displaced"])
    chk.stream("getters, setters, reduced+rotated, purity, string moments, kernel arguments: exact model (Q[sqrt2,sqrt hbar]) vs floats at hbar in {1/2,1,2,37/10}",
               len(jobs), nontriv,
               samples=[{"id": c["id"], "d": c["d"], "hbar": hb, "modes": c["modes"], "t": c["t"], "m": c["m"]} for c, hb, _ in jobs[:2]],
               note="%d scalar values compared; d histogram %s" % (n_values, {d: sum(1 for c in tie_cases if c["d"] == d) for d in (1, 2, 3, 4)}))

    # ------------------------------------------------------------------ search 1: hbar invariance on the implementation
    n_eval = 0
    n_states = 0
    n_hb_pairs = 0
    for c in cases:
        if not c.get("search"):
            continue
        res = by_id[c["id"]]["per_hbar"]
        ref = next((x for x in res if x["hbar"] == "2"), res[0])
        n_states += 1
        n_hb_pairs += len(res) - 1
        for r in res:
            for name, val in r["obs"].items():
                n_eval += 1
                if isinstance(val, dict):
                    viol.add("C14:%s:raises" % SITE.get(name, name), "%s raises on a physical state: %s" % (name, val["error"]),
                                  {"case": c, "hbar": r["hbar"], "error": val["error"]})
                    continue
                if r is ref:
                    continue
                tol = 1e-8 if name not in ("fock_probabilities", "density_matrix", "particle", "wigner_scaled") else 1e-7
                if name == "fidelity":
                    # F_0 contains sqrt(w^2-1) with symplectic eigenvalues w that equal 1 for pure
                    # states: rounding of order 1e-16 in w becomes 1e-8 in the result (F(a,b) and
                    # F(b,a) at the same hbar already differ by that much), so 1e-6 is the float64
                    # resolution of this formula
                    tol = 1e-6
                if not all_close(ref["obs"][name], val, tol):
                    viol.add("C14:%s:hbar-dependent" % SITE.get(name, name),
                                  "%s of the same ladder moments differs between hbar=%s and hbar=%s" % (name, ref["hbar"], r["hbar"]),
                                  {"case_id": c["id"], "d": c["d"], "m": c["m"], "C": c["C"], "G": c["G"],
                                   "hbar_ref": ref["hbar"], "value_ref": ref["obs"][name][:6],
                                   "hbar": r["hbar"], "value": val[:6],
                                   "call": "GaussianState with _m,_C,_G as given under Config(hbar=...)"})
    # ------------------------------------------------------------------ search 1b: reduced / marginals, any mode order
    n_red = 0
    for c in cases:
        if not (c.get("search") and c["d"] >= 2):
            continue
        d, modes = c["d"], c["modes"]
        n = len(modes)
        asc = modes == sorted(modes)
        for r in by_id[c["id"]]["per_hbar"]:
            q = r.get("reduced_direct")
            if q is None:
                continue
            n_red += 1
            fm, fc = q["full_xpxp_mean"], np.array(q["full_xpxp_cov"]).reshape(2 * d, 2 * d)
            sel = [2 * a + e for a in modes for e in (0, 1)]
            exp = [fm[i] for i in sel] + [float(fc[i, j]) for i in sel for j in sel]
            cd = q["full_complex_disp"]
            cc = q["full_complex_cov"]
            csel = list(modes) + [d + a for a in modes]
            cexp = [x for i in csel for x in cd[2 * i:2 * i + 2]] + \
                   [x for i in csel for j in csel for x in cc[2 * (2 * d * i + j):2 * (2 * d * i + j) + 2]]
            for name, e_, g_ in (("xpxp", exp, q["reduced_xpxp"]), ("complex", cexp, q["reduced_complex"])):
                scale = max([abs(x) for x in e_] + [1e-300])
                if len(e_) != len(g_) or any(abs(x - y) > 1e-12 * scale for x, y in zip(e_, g_)):
                    viol.add("C14:reduced:mode-order" if not asc else "C14:reduced:ascending-modes",
                             "reduced(modes) does not hold the %s moments of the listed modes in the listed order" % name,
                             {"case_id": c["id"], "d": d, "hbar": r["hbar"], "modes": modes, "m": c["m"], "C": c["C"], "G": c["G"],
                              "expected_from_full_state": e_[:2 * n], "got": g_[:2 * n],
                              "call": "GaussianState(_m,_C,_G).reduced(%s).%s_* vs the same entries of the full state" % (tuple(modes), name)})
            if abs(q["mpn_modes"] - sum(q["mpn_each"])) > 1e-9 * (1 + abs(q["mpn_modes"])):
                viol.add("C14:mean_photon_number:modes", "mean_photon_number(modes) is not the sum over the listed modes",
                         {"case_id": c["id"], "d": d, "hbar": r["hbar"], "modes": modes, "got": q["mpn_modes"], "each": q["mpn_each"]})
            if "marginal" in q:
                n_red += 1
                a_, b_ = q["marginal"], q["marginal_reversed"]
                if isinstance(a_, dict) or isinstance(b_, dict):
                    viol.add("C14:get_marginal_fock_probabilities:raises", "marginal probabilities raise",
                             {"case_id": c["id"], "modes": modes, "error": a_ if isinstance(a_, dict) else b_})
                else:
                    rev = {tuple(k[::-1]): v for k, v in b_}
                    bad = [(k, v, rev.get(tuple(k))) for k, v in a_
                           if rev.get(tuple(k)) is None or abs(v - rev[tuple(k)]) > 1e-9]
                    if bad:
                        viol.add("C14:get_marginal_fock_probabilities:mode-order",
                                 "p_modes(n) differs from p_reversed-modes(reversed n): the marginal ignores the order of the modes",
                                 {"case_id": c["id"], "d": d, "hbar": r["hbar"], "modes": modes, "m": c["m"], "C": c["C"], "G": c["G"],
                                  "occupation": bad[0][0], "p_modes": bad[0][1], "p_reversed_modes_at_reversed_occupation": bad[0][2]})
    chk.stream("reduced(modes) / mean_photon_number(modes) / marginal Fock probabilities against the full state, mode tuples in any order",
               n_red, n_red, kind="search", samples=[{"modes": c["modes"], "d": c["d"]} for c in cases if c.get("search") and c["d"] >= 2][:3])

    chk.stream("every observable of the same ladder moments at every hbar of the case, 4 values for tied states, 10 values from 1.05e-34 to 1e8 otherwise, each compared with hbar=2 (normalised quadratures, photon statistics, purity, fidelity, threshold/particle probabilities, density matrix, parity, phase shifter, string moments, Wigner density, quadratic expectation)",
               n_eval, n_hb_pairs, kind="search",
               samples=[{"id": c["id"], "d": c["d"], "mixed": c["mixed"], "displaced": c["displaced"]} for c in cases if c.get("search")][:2])

    # ------------------------------------------------------------------ search 2: representations against each other
    n_cons = 0
    for c in cases:
        if not c.get("consistency"):
            continue
        for r in by_id[c["id"]]["per_hbar"]:
            k = r["consistency"]
            d = c["d"]
            hb = r["hbar"]
            # Wigner density against the density defined by the xxpp moments
            if (c["id"], hb) in model_xxpp:
                mu, cov = model_xxpp[(c["id"], hb)]
            else:
                # search-only case: exact moments from the ladder moments (harness formula, floats)
                mu, cov = harness_xxpp(c, hb)
            refw = wigner_reference(mu, cov, c["wigner_pos"], c["wigner_mom"])
            n_cons += 1
            if isinstance(k["wigner"], dict) or not all_close(refw, k["wigner"], 1e-8):
                viol.add("C14:wigner_function:d>=2" if d >= 2 else "C14:wigner_function:d=1",
                              "wigner_function(positions, momentums) is not the Gaussian density of the state's own xxpp mean and covariance at (x_1..x_d, p_1..p_d)",
                              {"case_id": c["id"], "d": d, "hbar": hb, "m": c["m"], "C": c["C"], "G": c["G"],
                               "positions": c["wigner_pos"], "momentums": c["wigner_mom"],
                               "expected": refw, "got": k["wigner"]})
            if "fock_cutoff" in c:
                n_cons += 3
                slack = 1e-6 + 4 * abs(1 - k["fock_total"])
                ps, ref = k["phaseshifter"], k["phaseshifter_from_fock"]
                if isinstance(ps, dict) or any(abs(a - b) > slack for a, b in zip(ref, ps)):
                    viol.add("C14:get_phaseshifter_expectation_value:d>=2" if d >= 2 else "C14:get_phaseshifter_expectation_value:d=1",
                                  "get_phaseshifter_expectation_value disagrees with sum_n p(n) exp(i n.phi) over the state's own Fock probabilities",
                                  {"case_id": c["id"], "d": d, "hbar": hb, "m": c["m"], "C": c["C"], "G": c["G"],
                                   "angles": c["angles"], "from_fock_probabilities": ref, "got": ps,
                                   "fock_total": k["fock_total"], "cutoff": c["fock_cutoff"]})
                if isinstance(k["parity"], dict) or abs(k["parity"] - k["parity_from_fock"]) > slack:
                    viol.add("C14:get_parity_operator_expectation_value:fock",
                                  "parity expectation disagrees with sum_n p(n) (-1)^|n|",
                                  {"case_id": c["id"], "d": d, "hbar": hb, "m": c["m"], "C": c["C"], "G": c["G"],
                                   "from_fock_probabilities": k["parity_from_fock"], "got": k["parity"]})
                if abs(k["mean_photon"] - k["mean_photon_from_fock"]) > 1e-5 + 40 * abs(1 - k["fock_total"]):
                    viol.add("C14:mean_photon_number:fock",
                                  "mean photon number disagrees with sum_n p(n) |n|",
                                  {"case_id": c["id"], "d": d, "hbar": hb,
                                   "from_fock_probabilities": k["mean_photon_from_fock"], "got": k["mean_photon"]})
                if "variance" in k and abs(k["variance"] - k["variance_from_fock"]) > 1e-4 + 400 * abs(1 - k["fock_total"]):
                    viol.add("C14:variance_photon_number:fock",
                             "photon-number variance disagrees with the variance of the state's own Fock probabilities",
                             {"case_id": c["id"], "d": d, "hbar": hb, "m": c["m"], "C": c["C"], "G": c["G"],
                              "from_fock_probabilities": k["variance_from_fock"], "got": k["variance"],
                              "fock_total": k["fock_total"]})
    chk.stream("representations against each other on the implementation: Wigner density vs xxpp moments; phase-shifter, parity, mean photon number vs the state's Fock probabilities",
               n_cons, n_cons, kind="search")

    viol.flush()
    chk.assumptions += [
        "the model's constants rt2, sh, isq stand for np.sqrt(2), np.sqrt(hbar), 1/np.sqrt(2*hbar); the theorems assume rt2^2=2, sh^2=hbar, isq*rt2*sh=1 (true of positive reals; RealInst.v proves it for every hbar>0)",
        "fidelity / threshold kernels (inv, eigvals, det, torontonian) are arbitrary functions of the arrays they receive; only their arguments are modelled (the threshold arguments are captured from the running code and compared)",
        "exact model values a+b*sqrt2+c*sqrt(hbar)+e*sqrt(2 hbar) are converted to floats by the harness (Python math.sqrt)",
    ]
    chk.finish(
        rule="tie: one evaluation = one (state, hbar) pair, non-trivial when d>=2 or displaced; search: 3 non-reference hbar values per state; consistency: one per reference comparison",
        explanation="Theorems of coq/theories/Props/C14.v (every d, every commutative ring / every real hbar>0) about the Gallina model C14/ReprModel.v; tie = the same definitions run exactly over Q[sqrt2, sqrt hbar] inside coqc and compared with piquasso's floats; search = hbar-invariance and mutual consistency stated directly on the implementation.",
        correspondence_broken=corr_broken,
    )


def harness_xxpp(c, hb):
    d = c["d"]
    h = float(F(hb))
    m = np.array([complex(float(F(a)), float(F(b))) for a, b in c["m"]])
    C = np.array([[complex(float(F(a)), float(F(b))) for a, b in row] for row in c["C"]])
    G = np.array([[complex(float(F(a)), float(F(b))) for a, b in row] for row in c["G"]])
    mu = np.concatenate([m.real, m.imag]) * math.sqrt(2 * h)
    cov = h * (2 * np.block([[(G + C).real, (G + C).imag], [(G - C).imag, (C - G).real]]) + np.identity(2 * d))
    return mu, cov


def replay(chk: Check, path):
    data = json.load(open(path))
    ids = {v["witness"].get("case_id") for v in data.get("violations", [])}
    print("replaying the check (cases are regenerated from seed %s); violating case ids recorded: %s"
          % (data.get("seed"), sorted(x for x in ids if x)))
    chk.seed = int(data.get("seed", 0))
    import random
    chk.rng = random.Random(chk.seed * 1000003 + 14)
    chk.tier = data.get("tier", chk.tier)
    run(chk)
