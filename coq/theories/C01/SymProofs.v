(* C01 — symmetry of the permanent (transposition, permutation of the columns) for the
   list form [permL], and the consequence: SLOS computes the same permanent with
   multiplicities as the Fock-representation recurrence. *)
From Coq Require Import ZArith List Bool Lia Ring Permutation.
From PV Require Import Comb.FockModel C01.PermModel C01.PermProofs.
Import ListNotations.
Local Open Scope nat_scope.

Section Sym.
Variable A : Type.
Variables (a0 a1 : A) (aadd amul asub : A -> A -> A) (aopp : A -> A).
Hypothesis Aring : ring_theory a0 a1 aadd amul asub aopp (@eq A).
Add Ring ARing3 : Aring.

Notation asum := (asum A a0 aadd).
Notation entry := (entry A a0).
Notation permL := (permL A a0 a1 aadd amul).
Notation perm_mult := (perm_mult A a0 a1 aadd amul).
Notation slos_amp := (slos_amp A a0 a1 aadd amul).
Notation slosB := (slosB A a0 a1 aadd amul).

(* ---------------------------------------------------------------- sums *)
Lemma asum_add {X} (F G : X -> A) l :
  asum (map (fun x => aadd (F x) (G x)) l) = aadd (asum (map F l)) (asum (map G l)).
Proof. induction l as [|x l IH]; simpl; [ring | rewrite IH; ring]. Qed.

Lemma asum_scal {X} (c : A) (F : X -> A) l :
  asum (map (fun x => amul c (F x)) l) = amul c (asum (map F l)).
Proof. induction l as [|x l IH]; simpl; [ring | rewrite IH; ring]. Qed.

Lemma asum_zero {X} (l : list X) : asum (map (fun _ => a0) l) = a0.
Proof. induction l as [|x l IH]; simpl; [reflexivity | rewrite IH; ring]. Qed.

Lemma asum_exchange {X Y} (F : X -> Y -> A) lx ly :
  asum (map (fun x => asum (map (fun y => F x y) ly)) lx) =
  asum (map (fun y => asum (map (fun x => F x y) lx)) ly).
Proof.
  induction lx as [|x lx IH]; cbn [map].
  - rewrite asum_zero. reflexivity.
  - rewrite (asum_cons A a0 aadd), IH, <- asum_add. reflexivity.
Qed.

Lemma asum_perm (l l' : list A) : Permutation l l' -> asum l = asum l'.
Proof.
  induction 1; simpl; try ring.
  - rewrite IHPermutation. reflexivity.
  - now rewrite IHPermutation1.
Qed.

Lemma picks_length {X} (l : list X) q r : In (q, r) (picks l) -> S (length r) = length l.
Proof.
  revert q r. induction l as [|x l IH]; intros q r H; [destruct H|].
  cbn [picks] in H. destruct H as [H|H].
  - injection H as <- <-. reflexivity.
  - apply in_map_iff in H. destruct H as [[y r'] [E Hin]]. injection E as <- <-.
    cbn [snd length]. f_equal. now apply (IH y r').
Qed.

(* ---------------------------------------------------------------- expansion along the
   first column *)
Lemma permL_first_column e : forall ps q qs, length ps = S (length qs) ->
  permL e ps (q :: qs) =
  asum (map (fun pr => amul (e (fst pr) q) (permL e (snd pr) qs)) (picks ps)).
Proof.
  induction ps as [|p0 ps0 IH]; intros q qs Hlen; [discriminate|].
  cbn [length] in Hlen. injection Hlen as Hlen.
  cbn [PermModel.permL picks map fst snd].
  rewrite !(asum_cons A a0 aadd). cbn [fst snd]. f_equal.
  rewrite !map_map. cbn [fst snd].
  (* left: sum over picks qs, with the induction hypothesis inside *)
  rewrite (asum_map_ext A a0 aadd _
    (fun cr => asum (map (fun pr => amul (amul (e p0 (fst cr)) (e (fst pr) q))
                                        (permL e (snd pr) (snd cr))) (picks ps0)))).
  2:{ intros [c r] Hin. cbn [fst snd].
      rewrite (IH q r) by (pose proof (picks_length qs c r Hin); lia).
      rewrite <- asum_scal. apply asum_map_ext. intros pr _. ring. }
  rewrite asum_exchange.
  apply asum_map_ext. intros [p ps'] _. cbn [fst snd PermModel.permL].
  rewrite <- asum_scal. apply asum_map_ext. intros cr _. ring.
Qed.

(* transposition *)
Theorem permL_transpose e : forall qs ps, length ps = length qs ->
  permL e ps qs = permL (fun q p => e p q) qs ps.
Proof.
  induction qs as [|q qs IH]; intros ps Hlen.
  - destruct ps; [reflexivity | discriminate].
  - rewrite permL_first_column by exact Hlen. cbn [PermModel.permL].
    apply asum_map_ext. intros [p ps'] Hin. cbn [fst snd]. f_equal.
    apply IH. pose proof (picks_length ps p ps' Hin). cbn [length] in Hlen. lia.
Qed.

(* ---------------------------------------------------------------- permutation of the
   columns *)
Definition pickR (x y : nat * list nat) : Prop := fst x = fst y /\ Permutation (snd x) (snd y).

Lemma pickR_cons z L L' : Forall2 pickR L L' ->
  Forall2 pickR (map (fun yr => (fst yr, z :: snd yr)) L) (map (fun yr => (fst yr, z :: snd yr)) L').
Proof.
  induction 1; cbn [map]; constructor; [|assumption].
  destruct H as [H1 H2]. split; cbn [fst snd]; [exact H1 | now constructor].
Qed.

Lemma pickR_refl L : Forall2 pickR L L.
Proof. induction L; constructor; [split; reflexivity | assumption]. Qed.

Lemma pickR_trans L1 L2 L3 : Forall2 pickR L1 L2 -> Forall2 pickR L2 L3 -> Forall2 pickR L1 L3.
Proof.
  intros H. revert L3. induction H; intros L3 H3; inversion H3; subst; constructor.
  - destruct H as [Ha Hb]. destruct H4 as [Hc Hd]. split; [congruence | now transitivity (snd y)].
  - now apply IHForall2.
Qed.

Lemma Forall2_flip' {X Y} (P : X -> Y -> Prop) l l' :
  Forall2 P l l' -> Forall2 (fun b a => P a b) l' l.
Proof. induction 1; constructor; assumption. Qed.

Lemma picks_perm (l l' : list nat) : Permutation l l' ->
  exists L, Permutation (picks l) L /\ Forall2 pickR L (picks l').
Proof.
  induction 1 as [| x l l' Hp IH | x y l | l l' l'' H1 IH1 H2 IH2].
  - exists []. split; constructor.
  - destruct IH as [L [HL HR]].
    exists ((x, l) :: map (fun yr => (fst yr, x :: snd yr)) L). split.
    + cbn [picks]. constructor. now apply Permutation_map.
    + cbn [picks]. constructor; [split; [reflexivity | exact Hp] | now apply pickR_cons].
  - exists ((x, y :: l) :: (y, x :: l) ::
            map (fun yr => (fst yr, y :: snd yr)) (map (fun yr => (fst yr, x :: snd yr)) (picks l))).
    split.
    + cbn [picks map fst snd]. rewrite !map_map. cbn [fst snd]. apply perm_swap.
    + cbn [picks map fst snd]. constructor; [split; reflexivity|].
      constructor; [split; reflexivity|].
      rewrite !map_map. cbn [fst snd].
      generalize (picks l). intros P. induction P as [|a P IHP]; cbn [map]; constructor;
        [split; [reflexivity | apply perm_swap] | exact IHP].
  - destruct IH1 as [L1 [HP1 HR1]]. destruct IH2 as [L2 [HP2 HR2]].
    (* picks l ~ L1 R picks l' ~ L2 R picks l'' *)
    destruct (Permutation_Forall2 HP2 (Forall2_flip' _ _ _ HR1)) as [L1' [HP1' HR1']].
    exists L1'. split.
    + now transitivity L1.
    + apply (pickR_trans _ L2); [|exact HR2].
      apply Forall2_flip' in HR1'. exact HR1'.
Qed.

Lemma asum_pickR (F G : nat * list nat -> A) L L' :
  Forall2 pickR L L' ->
  (forall x y, pickR x y -> F x = G y) ->
  asum (map F L) = asum (map G L').
Proof.
  intros H HFG. induction H; cbn [map]; [reflexivity|].
  rewrite !(asum_cons A a0 aadd). f_equal; [now apply HFG | exact IHForall2].
Qed.

Theorem permL_perm_columns e : forall ps qs qs', Permutation qs qs' ->
  permL e ps qs = permL e ps qs'.
Proof.
  induction ps as [|p ps IH]; intros qs qs' Hp; [reflexivity|].
  cbn [PermModel.permL].
  destruct (picks_perm qs qs' Hp) as [L [HL HR]].
  rewrite (asum_perm _ (map (fun qr => amul (e p (fst qr)) (permL e ps (snd qr))) L))
    by (now apply Permutation_map).
  apply (asum_pickR _ _ L (picks qs') HR).
  intros x y [H1 H2]. rewrite H1. f_equal. now apply IH.
Qed.

(* ---------------------------------------------------------------- SLOS *)
Lemma photons_length t : length (photons t) = total t.
Proof.
  unfold photons. generalize 0. induction t as [|x r IH]; intros i; [reflexivity|].
  cbn [photons_from]. rewrite app_length, repeat_length, IH. reflexivity.
Qed.

(* Tier A.2 without pruning: SLOS computes the permanent with multiplicities *)
Theorem slos_is_permanent U s t : total t = total s -> slos_amp U s t = perm_mult U t s.
Proof.
  intros Htot. unfold PermModel.slos_amp, PermModel.perm_mult.
  rewrite (slosB_permL A a0 a1 aadd amul asub aopp Aring).
  rewrite (permanent_permL A a0 a1 aadd amul).
  rewrite <- (permL_transpose (entry U) (rev (photons s)) (photons t))
    by (rewrite rev_length, !photons_length; exact Htot).
  apply permL_perm_columns. apply Permutation_sym, Permutation_rev.
Qed.

(* Tier A.5 (pure-Fock path vs passive-simulator path, functions of the vectors):
   the two recurrences give the same unnormalised amplitude on every input *)
Corollary rep_equals_slos U s t : total t = total s ->
  repB A a0 a1 aadd amul U (total t) t s = slos_amp U s t.
Proof.
  intros H. rewrite (slos_is_permanent U s t H).
  now apply (fock_rep_is_permanent A a0 a1 aadd amul asub aopp Aring).
Qed.

End Sym.
