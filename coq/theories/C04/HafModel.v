(* C04 -- model of the integer bookkeeping of the hafnian reduction
   (piquasso/_math/hafnian/utils.py), definitions only:
     utils.py:match_occupation_numbers  -- pairs repeated modes into edges with repetition counts
     utils.py:get_kept_edges            -- mixed-radix digits of the index of a sub-multiset
   np.argsort is modelled as a stable ascending sort (ties: the larger index comes later), which
   is what numba's sort does on the short arrays in scope; the exact tie compares edge lists. *)
From Coq Require Import Arith List Bool.
From PV Require Import C04.PermModel.
Import ListNotations.
Local Close Scope Z_scope.
Local Open Scope nat_scope.

(* (index, value) of the last maximum of l, skipping the index [a] if given: the last element
   of the stable argsort, resp. the last but one when [a] is the last *)
Fixpoint amax_ex (l : list nat) (a : option nat) : option (nat * nat) :=
  match l with
  | [] => None
  | x :: t =>
      let a' := match a with Some (S k) => Some k | _ => None end in
      let r := amax_ex t a' in
      match a with
      | Some 0 => option_map (fun kv => (S (fst kv), snd kv)) r
      | _ => match r with
             | None => Some (0, x)
             | Some (k, v) => if x <=? v then Some (S k, v) else Some (0, x)
             end
      end
  end.

(* an edge: (repetitions, mode, mode) *)
Definition edge := (nat * nat * nat)%type.

(* one iteration of the while loop *)
Definition mo_step (nvec : list nat) : option (list nat * edge) :=
  match amax_ex nvec None with
  | None => None
  | Some (a, n0) =>
      match amax_ex nvec (Some a) with
      | None => None
      | Some (b, n1) =>
          let h := n0 / 2 in
          if n1 <? h
          then Some (set_nth a (n0 - 2 * h) nvec, (h, a, a))
          else Some (set_nth b 0 (set_nth a (n0 - n1) nvec), (n1, a, b))
      end
  end.

Inductive mo_result : Type :=
| MoOk (edges : list edge) (residual : list nat)
| MoOutOfFuel
| MoStuck.

(* while sum(nvec) > 1 *)
Fixpoint mo_loop (fuel : nat) (nvec : list nat) : mo_result :=
  if sum_nat nvec <=? 1 then MoOk [] nvec
  else match fuel with
       | O => MoOutOfFuel
       | S f =>
           match mo_step nvec with
           | None => MoStuck
           | Some (nvec', e) =>
               match mo_loop f nvec' with
               | MoOk es res => MoOk (e :: es) res
               | r => r
               end
           end
       end.

(* utils.py:match_occupation_numbers; the residual (what is left unmatched, at most one
   particle) is not returned by the Python function, it is kept for the theorem *)
Definition match_occupation_numbers (nvec : list nat) : mo_result :=
  if length nvec =? 1
  then MoOk [(nth 0 nvec 0 / 2, 0, 0)] [nth 0 nvec 0 mod 2]
  else mo_loop (sum_nat nvec) nvec.

(* utils.py:get_kept_edges: ret[i] = index % (reps[i]+1); index //= reps[i]+1 *)
Definition get_kept_edges (edge_reps : list nat) (index : nat) : list nat :=
  chain_of (map S edge_reps) index.

(* how often mode i is used by the edges *)
Definition incidence (es : list edge) (i : nat) : nat :=
  fold_right Nat.add 0
    (map (fun e : edge => let '(rep, a, b) := e in
                          rep * ((if a =? i then 1 else 0) + (if b =? i then 1 else 0))) es).

(* output as the Python function returns it: repetition counts and the flat index list *)
Definition mo_reps (es : list edge) : list nat := map (fun e : edge => fst (fst e)) es.
Definition mo_indices (es : list edge) : list nat := flat_map (fun e : edge => [snd (fst e); snd e]) es.
