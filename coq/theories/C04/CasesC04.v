(* Encoders used by the generated correspondence files of the C04 check (no proofs). *)
From Coq Require Import ZArith List.
From PV Require Import C04.PermModel.
Import ListNotations.
Local Open Scope Z_scope.

Definition enc_perm (o : outcome (Zi * nat)) : list Z :=
  match o with
  | Ok ((re, im), e) => [0; re; im; Z.of_nat e]
  | Overflow => [1; 0; 0; 0]
  | DivByZero => [2; 0; 0; 0]
  | BadInput => [3; 0; 0; 0]
  end.

(* status, exponent, count, then re/im pairs *)
Definition enc_lap (o : outcome (list Zi * nat)) : list Z :=
  match o with
  | Ok (l, e) => 0 :: Z.of_nat e :: Z.of_nat (length l) :: flat_map (fun x : Zi => [fst x; snd x]) l
  | Overflow => [1; 0; 0]
  | DivByZero => [2; 0; 0]
  | BadInput => [3; 0; 0]
  end.

Definition zi_list (x : Zi) : list Z := [fst x; snd x].
