(* C12 - the caller's array handed to a matrix entry point.  Model of src/pfaffian.cpp
   (Parlett-Reid with pivoting, in the buffer it is given: numpy_utils.hpp:numpy_to_matrix
   shares the memory of a C-contiguous array) over exact rationals, and of the wrapper
   connectors/connector.py:BuiltinConnector.pfaffian.  Definitions only. *)
From Coq Require Import ZArith QArith Qabs List Bool.
Import ListNotations.

Definition buf := list Q.          (* row-major n*n *)
Definition getq (m : buf) (i : nat) : Q := nth i m 0.
Fixpoint setq (m : buf) (i : nat) (v : Q) : buf :=
  match m, i with
  | [], _ => []
  | _ :: r, O => v :: r
  | x :: r, S j => x :: setq r j v
  end.

Definition abs_gt (a b : Q) : bool := negb (Qle_bool (Qabs a) (Qabs b)).   (* |a| > |b| *)
Definition abs_eq (a b : Q) : bool := Qeq_bool (Qabs a) (Qabs b).

(* for (i = k+2; i < n; i++) if (|m[i*n+k]| > |m[kp*n+k]|) kp = i;
   the flag records an exact tie between candidates after the first elimination step
   (the entries are then rounded quotients in floating point, which may decide either
   way; such inputs are left out of the differential run) *)
Fixpoint find_pivot (m : buf) (n k cnt i kp : nat) (tie : bool) : nat * bool :=
  match cnt with
  | O => (kp, tie)
  | S c =>
    let a := getq m (i * n + k) in
    let b := getq m (kp * n + k) in
    find_pivot m n k c (S i) (if abs_gt a b then i else kp)
               (tie || (negb (Nat.eqb k 0) && abs_eq a b && negb (Qeq_bool a 0)))
  end.

(* swap rows a and b / columns a and b, element by element as the loops do *)
Fixpoint swap_rows (m : buf) (n a b cnt i : nat) : buf :=
  match cnt with
  | O => m
  | S c =>
    let x := getq m (a * n + i) in
    let y := getq m (b * n + i) in
    swap_rows (setq (setq m (a * n + i) y) (b * n + i) x) n a b c (S i)
  end.
Fixpoint swap_cols (m : buf) (n a b cnt i : nat) : buf :=
  match cnt with
  | O => m
  | S c =>
    let x := getq m (i * n + a) in
    let y := getq m (i * n + b) in
    swap_cols (setq (setq m (i * n + a) y) (i * n + b) x) n a b c (S i)
  end.

(* for j: m[i*n+j] += tau[i-(k+2)]*m[j*n+k+1] - tau[j-(k+2)]*m[i*n+k+1] *)
Fixpoint elim_row (m : buf) (tau : list Q) (n k i cnt j : nat) : buf :=
  match cnt with
  | O => m
  | S c =>
    let v := getq m (i * n + j)
             + (nth (i - (k + 2)) tau 0 * getq m (j * n + k + 1)
                - nth (j - (k + 2)) tau 0 * getq m (i * n + k + 1)) in
    elim_row (setq m (i * n + j) v) tau n k i c (S j)
  end.
Fixpoint elim_rows (m : buf) (tau : list Q) (n k cnt i : nat) : buf :=
  match cnt with
  | O => m
  | S c => elim_rows (elim_row m tau n k i (n - (k + 2)) (k + 2)) tau n k c (S i)
  end.

(* the loop over k = 0, 2, 4, ... < n-1 of src/pfaffian.cpp:pfaffian_cpp *)
Fixpoint pf_loop (fuel : nat) (n k : nat) (m : buf) (res : Q) (tie : bool) : Q * buf * bool :=
  match fuel with
  | O => (res, m, tie)
  | S f =>
    if Nat.leb (n - 1) k then (res, m, tie) else
    let '(kp, tie1) := find_pivot m n k (n - (k + 2)) (k + 2) (k + 1) tie in
    let '(m1, res1) :=
      if Nat.eqb kp (k + 1) then (m, res)
      else (swap_cols (swap_rows m n (k + 1) kp n 0) n (k + 1) kp n 0, - res) in
    let element := getq m1 (k * n + k + 1) in
    if Qeq_bool element 0 then (0, m1, tie1) else
    let tau := map (fun i => getq m1 (k * n + (k + 2 + i)) / element) (seq 0 (n - (k + 2))) in
    let m2 := elim_rows m1 tau n k (n - (k + 2)) (k + 2) in
    pf_loop f n (k + 2) m2 (res1 * element) tie1
  end.

(* src/pfaffian.cpp:pfaffian_cpp: value, the buffer as it is left, tie flag *)
Definition pfaffian_kernel (n : nat) (m : buf) : Q * buf * bool :=
  if Nat.eqb n 0 then (1, m, false)
  else if Nat.odd n then (0, m, false)
  else pf_loop n n 0 m 1 false.

(* connectors/connector.py:BuiltinConnector.pfaffian.  [copy] = fixes/C12-pfaffian-copy-python.diff
   (the kernel gets np.array(matrix), a private buffer).  Returns the value and the caller's
   buffer as it is afterwards. *)
Definition connector_pfaffian (copy : bool) (n : nat) (m : buf) : Q * buf :=
  let '(v, m', _) := pfaffian_kernel n m in
  (v, if copy then m else m').

Definition q_of_z (z : Z) : Q := inject_Z z.
