(* Executable model of the representations of a Gaussian state in piquasso.
   Definitions only (no proofs) so that the model still runs when a proof breaks.

   piquasso/_math/transformations.py        : xxpp_to_xpxp_indices, xpxp_to_xxpp_indices
   piquasso/_simulators/gaussian/state.py   : xxpp_mean_vector, xxpp_covariance_matrix,
       xxpp_correlation_matrix, xpxp_mean_vector, xpxp_covariance_matrix,
       xpxp_correlation_matrix, the four setters, complex_displacement,
       complex_covariance, rotated, reduced, mean_photon_number, get_purity,
       get_xp_string_moment / _string_moment, and the arguments handed to the numerical
       kernels by fidelity, get_threshold_detection_probability, wigner_function.

   Everything is written over an arbitrary type A with ring operations given as section
   variables.  The same definitions are (a) reasoned about over an abstract commutative
   ring in ReprProofs.v and (b) run over the exact ring Q[sqrt 2, sqrt hbar] (SurdRun.v)
   against the implementation.

   A complex number is a pair (re, im).  A vector is a function nat -> A, a matrix a
   function nat -> nat -> A; the dimension is carried separately, entries outside the
   dimension are never read by a faithful caller.  NumPy fancy indexing M[np.ix_(a, a)]
   becomes fun i j => M (a i) (a j); np.block becomes [block].

   Constants that are irrational or inverses in the code are parameters here:
     rt2 = np.sqrt(2), sh = np.sqrt(hbar), isq = 1/np.sqrt(2*hbar),
     ihbar = 1/hbar, i4 = 1/4, i2 = 1/2.
   The proofs assume exactly rt2*rt2 = 2, sh*sh = hbar, isq*(rt2*sh) = 1, ihbar*hbar = 1,
   4*i4 = 1, 2*i2 = 1 (i.e. hbar <> 0 and the square roots exist). *)
From Coq Require Import List Arith Bool.
Import ListNotations.

(* ---- transformations.py:xxpp_to_xpxp_indices
     for i in range(d): indices[2*i] = i; indices[2*i+1] = d + i ---- *)
Definition x2p_list (d : nat) : list nat := flat_map (fun i => [i; d + i]) (seq 0 d).
(* ---- transformations.py:xpxp_to_xxpp_indices
     for i in range(d): indices[i] = 2*i; indices[d+i] = 2*i + 1 ---- *)
Definition p2x_list (d : nat) : list nat :=
  map (fun i => 2 * i) (seq 0 d) ++ map (fun i => 2 * i + 1) (seq 0 d).
Definition x2p (d k : nat) : nat := nth k (x2p_list d) 0.
Definition p2x (d k : nat) : nat := nth k (p2x_list d) 0.

(* the ring operations the model is written over *)
Record ops (A : Type) := mkops {
  o0 : A; o1 : A; oadd : A -> A -> A; omul : A -> A -> A; osub : A -> A -> A; oopp : A -> A }.
Arguments o0 {A}. Arguments o1 {A}. Arguments oadd {A}. Arguments omul {A}.
Arguments osub {A}. Arguments oopp {A}.

Section Model.
Context {A : Type} (K : ops A).
Local Notation r0 := (o0 K).
Local Notation r1 := (o1 K).
Local Notation ropp := (oopp K).
Local Infix "+!" := (oadd K) (at level 50, left associativity).
Local Infix "*!" := (omul K) (at level 40, left associativity).
Local Infix "-!" := (osub K) (at level 50, left associativity).

Definition r2 : A := r1 +! r1.
Definition r4 : A := r2 +! r2.

Fixpoint rpow (x : A) (n : nat) : A :=
  match n with O => r1 | S n' => x *! rpow x n' end.

(* sum_{k<n} f k, as np.trace / @ / np.sum accumulate *)
Fixpoint sumn (n : nat) (f : nat -> A) : A :=
  match n with O => r0 | S n' => sumn n' f +! f n' end.

Definition Cx : Type := (A * A)%type.
Definition re (z : Cx) : A := fst z.
Definition im (z : Cx) : A := snd z.
Definition cmul (x y : Cx) : Cx :=
  (re x *! re y -! im x *! im y, re x *! im y +! im x *! re y).
Definition cadd (x y : Cx) : Cx := (re x +! re y, im x +! im y).
Definition cconj (x : Cx) : Cx := (re x, ropp (im x)).
Definition cscale (a : A) (x : Cx) : Cx := (a *! re x, a *! im x).

Definition vec := nat -> A.
Definition mat := nat -> nat -> A.
Definition cvec := nat -> Cx.
Definition cmat := nat -> nat -> Cx.

Definition ident : mat := fun i j => if i =? j then r1 else r0.

(* np.block([[P, Q], [R, S]]) with d x d blocks *)
Definition block {T} (d : nat) (P Q R S : nat -> nat -> T) : nat -> nat -> T :=
  fun i j =>
    if i <? d then (if j <? d then P i j else Q i (j - d))
    else (if j <? d then R (i - d) j else S (i - d) (j - d)).
(* np.concatenate([u, v]) with len u = d *)
Definition concat {T} (d : nat) (u v : nat -> T) : nat -> T :=
  fun k => if k <? d then u k else v (k - d).

(* the ladder-moment representation (_m, _C, _G) of a d-mode state *)
Record gstate := { gm : cvec; gC : cmat; gG : cmat }.

(* ---- state.py:xxpp_mean_vector
     concatenate([m.real, m.imag]) * sqrt(2) * sqrt(hbar) ---- *)
Definition xxpp_mean (rt2 sh : A) (d : nat) (s : gstate) : vec :=
  fun k => (concat d (fun a => re (gm s a)) (fun a => im (gm s a)) k *! rt2) *! sh.

(* ---- state.py:xxpp_covariance_matrix
     (2*block([[(G+C).real,(G+C).imag],[(G-C).imag,(-G+C).real]]) + identity(2d)) * hbar *)
Definition dimless_xxpp_cov (d : nat) (s : gstate) : mat :=
  fun i j =>
    r2 *! block d
      (fun a b => re (gG s a b) +! re (gC s a b))
      (fun a b => im (gG s a b) +! im (gC s a b))
      (fun a b => im (gG s a b) -! im (gC s a b))
      (fun a b => ropp (re (gG s a b)) +! re (gC s a b)) i j
    +! ident i j.
Definition xxpp_cov (hbar : A) (d : nat) (s : gstate) : mat :=
  fun i j => dimless_xxpp_cov d s i j *! hbar.

(* ---- state.py:xxpp_correlation_matrix   cov + 2*outer(mean, mean) ---- *)
Definition xxpp_corr (hbar rt2 sh : A) (d : nat) (s : gstate) : mat :=
  fun i j => xxpp_cov hbar d s i j +! r2 *! (xxpp_mean rt2 sh d s i *! xxpp_mean rt2 sh d s j).

(* ---- state.py:xpxp_mean_vector, xpxp_covariance_matrix, xpxp_correlation_matrix
     the xxpp quantity indexed with xxpp_to_xpxp_indices(d) ---- *)
Definition xpxp_mean (rt2 sh : A) (d : nat) (s : gstate) : vec :=
  fun k => xxpp_mean rt2 sh d s (x2p d k).
Definition xpxp_cov (hbar : A) (d : nat) (s : gstate) : mat :=
  fun i j => xxpp_cov hbar d s (x2p d i) (x2p d j).
Definition xpxp_corr (hbar rt2 sh : A) (d : nat) (s : gstate) : mat :=
  fun i j => xxpp_corr hbar rt2 sh d s (x2p d i) (x2p d j).

(* ---- state.py:xpxp_mean_vector.setter
     m = (value[::2] + 1j*value[1::2]) / sqrt(2*hbar) ---- *)
Definition set_xpxp_mean (isq : A) (v : vec) : cvec :=
  fun k => (v (2 * k) *! isq, v (2 * k + 1) *! isq).

(* ---- state.py:xpxp_covariance_matrix.setter ---- *)
Definition set_xpxp_cov_blocks (ihbar i4 : A) (d : nat) (new_cov : mat) : mat :=
  fun i j =>
    ((new_cov (p2x d i) (p2x d j) *! ihbar) -! ident i j) *! i4.
Definition set_xpxp_cov_C (ihbar i4 : A) (d : nat) (new_cov : mat) : cmat :=
  let b := set_xpxp_cov_blocks ihbar i4 d new_cov in
  fun i j => (b i j +! b (d + i) (d + j), b i (d + j) -! b (d + i) j).
Definition set_xpxp_cov_G (ihbar i4 : A) (d : nat) (new_cov : mat) : cmat :=
  let b := set_xpxp_cov_blocks ihbar i4 d new_cov in
  fun i j => (b i j -! b (d + i) (d + j), b i (d + j) +! b (d + i) j).

(* both xpxp setters applied to a fresh state *)
Definition set_xpxp (ihbar i4 isq : A) (d : nat) (mean : vec) (cov : mat) : gstate :=
  {| gm := set_xpxp_mean isq mean;
     gC := set_xpxp_cov_C ihbar i4 d cov;
     gG := set_xpxp_cov_G ihbar i4 d cov |}.

(* ---- state.py:xxpp_mean_vector.setter / xxpp_covariance_matrix.setter
     self.xpxp_... = value[xxpp_to_xpxp_indices(d)] ---- *)
Definition set_xxpp (ihbar i4 isq : A) (d : nat) (mean : vec) (cov : mat) : gstate :=
  set_xpxp ihbar i4 isq d (fun k => mean (x2p d k)) (fun i j => cov (x2p d i) (x2p d j)).

(* ---- state.py:complex_displacement   concatenate([m, m.conj()]) ---- *)
Definition complex_displacement (d : nat) (s : gstate) : cvec :=
  concat d (gm s) (fun k => cconj (gm s k)).

(* ---- state.py:complex_covariance
     2*block([[C.conj(), G], [G.conj(), C]]) + identity(2d) ---- *)
Definition complex_cov (d : nat) (s : gstate) : cmat :=
  fun i j =>
    cadd (cscale r2 (block d (fun a b => cconj (gC s a b)) (gG s)
                             (fun a b => cconj (gG s a b)) (gC s) i j))
         (ident i j, r0).

(* ---- state.py:rotated   phase = exp(-1j*phi); C, G*phase**2, m*phase.
     c = cos phi, s = sin phi ---- *)
Definition rotated (c s : A) (st : gstate) : gstate :=
  let phase : Cx := (c, ropp s) in
  let phase2 := cmul phase phase in
  {| gm := fun k => cmul (gm st k) phase;
     gC := gC st;
     gG := fun i j => cmul (gG st i j) phase2 |}.

(* ---- state.py:reduced   C[ix_(modes,modes)], G[ix_(modes,modes)], m[modes] ---- *)
Definition reduced (modes : nat -> nat) (st : gstate) : gstate :=
  {| gm := fun k => gm st (modes k);
     gC := fun i j => gC st (modes i) (modes j);
     gG := fun i j => gG st (modes i) (modes j) |}.

(* ---- state.py:mean_photon_number   (trace(C) + m.conj() @ m).real ---- *)
Definition mean_photon_number (d : nat) (s : gstate) : A :=
  re (cadd (sumn d (fun k => re (gC s k k)), sumn d (fun k => im (gC s k k)))
           (sumn d (fun k => re (cmul (cconj (gm s k)) (gm s k))),
            sumn d (fun k => im (cmul (cconj (gm s k)) (gm s k))))).

(* ---- determinant (np.linalg.det) as its Laplace expansion along the first row; used
   only for get_purity, whose square is algebraic ---- *)
Definition minor (M : mat) (j : nat) : mat :=
  fun a b => M (S a) (if b <? j then b else S b).
Fixpoint det (n : nat) (M : mat) : A :=
  match n with
  | O => r1
  | S n' => sumn n (fun j => (if Nat.even j then M 0 j else ropp (M 0 j)) *! det n' (minor M j))
  end.

(* ---- state.py:get_purity, squared:  purity^2 = num / den.
   Shipped code:   2**d  / sqrt(det(xxpp_covariance_matrix))
   Repaired code:  hbar**d / sqrt(det(xxpp_covariance_matrix))   (fixes/C14-purity-hbar.diff) *)
Definition purity_sq_den (hbar : A) (d : nat) (s : gstate) : A := det (2 * d) (xxpp_cov hbar d s).
Definition purity_sq_num_shipped (d : nat) : A := rpow r2 (2 * d).
Definition purity_sq_num (hbar : A) (d : nat) : A := rpow hbar (2 * d).

(* ---- state.py:_string_moment (extended Wick recursion) over complex moments.
   recursive(op_list): [] -> 1; [a] -> mu[a];
   first::rest -> mu[first]*recursive(rest) + sum_j V[first, rest[j]]*recursive(rest minus j).
   Fuel = length of the list (structural on it). ---- *)
Fixpoint remove_nth {T} (j : nat) (l : list T) : list T :=
  match l, j with
  | [], _ => []
  | _ :: r, O => r
  | a :: r, S j' => a :: remove_nth j' r
  end.
Definition cr0 : Cx := (r0, r0).
Definition cr1 : Cx := (r1, r0).
Fixpoint csum_list (l : list Cx) : Cx :=
  match l with [] => cr0 | a :: r => cadd a (csum_list r) end.
Fixpoint string_moment_fuel (fuel : nat) (mu : nat -> Cx) (V : nat -> nat -> Cx)
  (ops : list nat) : Cx :=
  match fuel with
  | O => cr1
  | S f =>
    match ops with
    | [] => cr1
    | first :: rest =>
      match rest with
      | [] => mu first
      | _ =>
        cadd (cmul (mu first) (string_moment_fuel f mu V rest))
             (csum_list (map (fun j => cmul (V first (nth j rest 0))
                                            (string_moment_fuel f mu V (remove_nth j rest)))
                             (seq 0 (length rest))))
      end
    end
  end.
Definition string_moment (mu : nat -> Cx) (V : nat -> nat -> Cx) (ops : list nat) : Cx :=
  string_moment_fuel (length ops) mu V ops.

(* symplectic.py:xp_symplectic_form   [[0, I], [-I, 0]] *)
Definition xp_symplectic_form (d : nat) : mat :=
  block d (fun _ _ => r0) ident (fun a b => ropp (ident a b)) (fun _ _ => r0).

(* ---- state.py:get_xp_string_moment
     mu = xxpp_mean_vector; V = cov_xxpp/2 + 0.5j*hbar*xp_symplectic_form(d) ---- *)
Definition xp_string_moment (hbar rt2 sh i2 : A) (d : nat) (s : gstate) (ops : list nat) : Cx :=
  string_moment (fun k => (xxpp_mean rt2 sh d s k, r0))
                (fun i j => (xxpp_cov hbar d s i j *! i2, (i2 *! hbar) *! xp_symplectic_form d i j))
                ops.

(* ---- state.py:get_ladder_string_moment
     mu = complex_displacement; V = block([[G, C.T + I], [C, conj(G)]]) ---- *)
Definition ladder_string_moment (d : nat) (s : gstate) (ops : list nat) : Cx :=
  string_moment (complex_displacement d s)
                (block d (gG s) (fun a b => cadd (gC s b a) (ident a b, r0))
                         (gC s) (fun a b => cconj (gG s a b)))
                ops.

(* ---- tabulation: the arrays handed to numerical kernels ---- *)
Definition tab1 {T} (n : nat) (v : nat -> T) : list T := map v (seq 0 n).
Definition tab2 {T} (n : nat) (M : nat -> nat -> T) : list (list T) :=
  map (fun i => map (M i) (seq 0 n)) (seq 0 n).

(* ---- the normalised moments that fidelity, get_threshold_detection_probability
   (and purify) compute before calling LAPACK / torontonian:
     xpxp_covariance_matrix / hbar,   xpxp_mean_vector / sqrt(hbar) ---- *)
Definition norm_xpxp_cov (hbar ihbar : A) (d : nat) (s : gstate) : list (list A) :=
  tab2 (2 * d) (fun i j => xpxp_cov hbar d s i j *! ihbar).
Definition norm_xpxp_mean (rt2 sh ish : A) (d : nat) (s : gstate) : list A :=
  tab1 (2 * d) (fun k => xpxp_mean rt2 sh d s k *! ish).

Section Kernels.
(* the numerical kernels are external: any functions of the arrays they are given *)
Variable R : Type.
Variable fidelity_kernel : list (list A) -> list (list A) -> list A -> list A -> R.
Variable click_kernel : list (list A) -> list A -> list nat -> R.

(* ---- state.py:fidelity: everything after the four normalisations ---- *)
Definition fidelity_model (hbar ihbar rt2 sh ish : A) (d : nat) (s1 s2 : gstate) : R :=
  fidelity_kernel (norm_xpxp_cov hbar ihbar d s1) (norm_xpxp_cov hbar ihbar d s2)
                  (norm_xpxp_mean rt2 sh ish d s1) (norm_xpxp_mean rt2 sh ish d s2).
(* ---- state.py:get_threshold_detection_probability ---- *)
Definition threshold_model (hbar ihbar rt2 sh ish : A) (d : nat) (s : gstate) (occ : list nat) : R :=
  click_kernel (norm_xpxp_cov hbar ihbar d s) (norm_xpxp_mean rt2 sh ish d s) occ.
End Kernels.

End Model.
Arguments Cx : clear implicits.
Arguments vec : clear implicits.
Arguments mat : clear implicits.
Arguments cvec : clear implicits.
Arguments cmat : clear implicits.
Arguments gstate : clear implicits.
