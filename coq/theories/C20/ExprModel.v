(* C20 — model of piquasso/core/_expressions.py (Expression._validate, Expression._eval,
   Expression.__init__, Expression.__call__) and, separately, the specification [py_eval]
   written from the Python language reference.  Definitions only.

   Primitive operations ([operator.add] ..., truthiness, [seq[key]], construction of tuples,
   lists and slice objects) are Section variables: CPython and piquasso call the very same
   functions, so everything proved here is about control flow, for every primitive semantics. *)
From Coq Require Import ZArith List String Bool.
From PV Require Import C20.Ast C20.WhitelistGen.
Import ListNotations.
Open Scope string_scope.

(* ------------------------------------------------------------------ validation *)

(* _expressions.py:Expression._validate — [isinstance(n, allowed_tuple)].  The parser only
   instantiates the concrete leaf classes, so isinstance is membership of the class. *)
Definition allowed (k : cls) : bool := existsb (cls_eqb k) ALLOWED.

(* _validate: [isinstance(n.value, (int, float, bool))] *)
Definition const_ok (c : const) : bool :=
  match c with
  | CInt _ | CBool _ | CFloat _ => true
  | CComplex | CStr | CBytes | CNone | CEllipsis => false
  end.

Definition opt_all {A} (f : A -> bool) (o : option A) : bool :=
  match o with None => true | Some a => f a end.

(* _validate: the three tests applied to every node reached by [ast.walk] (operator and
   context nodes included).  ast.walk is breadth-first; the order only selects which message
   is raised first, acceptance is "every node passes", which is what is modelled. *)
Fixpoint validate (t : expr) : bool :=
  match t with
  | Constant c => allowed KConstant && const_ok c
  | Name id cx => allowed KName && String.eqb id "x" && allowed (KCtx cx)
  | Tuple es cx => allowed KTuple && allowed (KCtx cx) && forallb validate es
  | EList es cx => allowed KList && allowed (KCtx cx) && forallb validate es
  | UnaryOp op e => allowed KUnaryOp && allowed (KUn op) && validate e
  | BinOp l op r => allowed KBinOp && allowed (KBin op) && validate l && validate r
  | BoolOp op es => allowed KBoolOp && allowed (KBool op) && forallb validate es
  | Compare l ops es =>
      allowed KCompare && forallb (fun o => allowed (KCmp o)) ops && validate l
      && forallb validate es
  | Subscript v s cx => allowed KSubscript && allowed (KCtx cx) && validate v && validate s
  | Slice lo up st =>
      allowed KSlice && opt_all validate lo && opt_all validate up && opt_all validate st
  | Other k ch => allowed (KOther k) && forallb validate ch
  end.

(* Expression.__init__ after a successful ast.parse: the root is an ast.Expression node *)
Definition validate_tree (body : expr) : bool := allowed KExpression && validate body.

(* ------------------------------------------------------------------ what the parser guarantees *)

(* Where a node stands: as an expression, as the slice of a Subscript ("key"), or as a direct
   element of the Tuple that is the slice of a Subscript ("item" of a slice list). *)
Inductive position := PExpr | PKey | PItem.
Definition item_pos (p : position) : position := match p with PKey => PItem | _ => PExpr end.
Definition slice_ok (p : position) : bool := match p with PExpr => false | _ => true end.

(* Invariants of the trees CPython 3.12's parser returns (Python/Python.asdl, Python-ast.c
   validation): a BoolOp has at least two values; a Compare has as many operators as
   comparators and at least one; a Slice occurs only as the slice of a Subscript or as a direct
   element of the Tuple that is the slice of a Subscript; Index/ExtSlice are never produced.
   [shape t] is evaluated on every parsed tree by the correspondence run. *)
Fixpoint shape_at (p : position) (t : expr) : bool :=
  match t with
  | Constant _ | Name _ _ => true
  | Tuple es _ => forallb (shape_at (item_pos p)) es
  | EList es _ => forallb (shape_at PExpr) es
  | UnaryOp _ e => shape_at PExpr e
  | BinOp l _ r => shape_at PExpr l && shape_at PExpr r
  | BoolOp _ es => (2 <=? List.length es)%nat && forallb (shape_at PExpr) es
  | Compare l ops es =>
      (List.length ops =? List.length es)%nat && (1 <=? List.length ops)%nat
      && shape_at PExpr l && forallb (shape_at PExpr) es
  | Subscript v s _ => shape_at PExpr v && shape_at PKey s
  | Slice lo up st =>
      slice_ok p && opt_all (shape_at PExpr) lo && opt_all (shape_at PExpr) up
      && opt_all (shape_at PExpr) st
  | Other k ch =>
      match k with OIndex | OExtSlice => false | _ => forallb (shape_at PExpr) ch end
  end.
Definition shape (t : expr) : bool := shape_at PExpr t.

(* ------------------------------------------------------------------ the grammar of the property *)

(* "numbers, booleans, the outcome tuple x, indexing and slicing, arithmetic, comparison and
   boolean operators" — plus tuple and list displays (right-hand sides of comparisons with
   slices), see DESIGN.md.  [InG p t]: t belongs to the grammar when standing at position p;
   a proper slice [lo:up:step] is in the grammar only as a key or as an item of a slice list. *)
Definition grammar_binops : list binop := [Add; Sub; Mult; Div; Mod; Pow; BitXor].
Definition grammar_unaryops : list unaryop := [UAdd; USub; Not].
Definition grammar_cmpops : list cmpop := [Eq; NotEq; Lt; LtE; Gt; GtE].

Inductive OptP {A} (P : A -> Prop) : option A -> Prop :=
| OptP_none : OptP P None
| OptP_some : forall a, P a -> OptP P (Some a).

Inductive InG : position -> expr -> Prop :=
| G_int : forall p z, InG p (Constant (CInt z))
| G_bool : forall p b, InG p (Constant (CBool b))
| G_float : forall p f, InG p (Constant (CFloat f))
| G_x : forall p, InG p (Name "x" Load)
| G_tuple : forall p es, Forall (InG (item_pos p)) es -> InG p (Tuple es Load)
| G_list : forall p es, Forall (InG PExpr) es -> InG p (EList es Load)
| G_unary : forall p op e, In op grammar_unaryops -> InG PExpr e -> InG p (UnaryOp op e)
| G_binary : forall p l op r,
    In op grammar_binops -> InG PExpr l -> InG PExpr r -> InG p (BinOp l op r)
| G_boolop : forall p op es,
    (2 <= List.length es)%nat -> Forall (InG PExpr) es -> InG p (BoolOp op es)
| G_compare : forall p l ops es,
    List.length ops = List.length es -> (1 <= List.length ops)%nat ->
    Forall (fun o => In o grammar_cmpops) ops ->
    InG PExpr l -> Forall (InG PExpr) es -> InG p (Compare l ops es)
| G_subscript : forall p v k, InG PExpr v -> InG PKey k -> InG p (Subscript v k Load)
| G_slice : forall p lo up st,
    slice_ok p = true -> OptP (InG PExpr) lo -> OptP (InG PExpr) up -> OptP (InG PExpr) st ->
    InG p (Slice lo up st).

(* the language of the property: expressions *)
Definition InGrammar (t : expr) : Prop := InG PExpr t.

(* ------------------------------------------------------------------ evaluation *)

Inductive unsupported := UnsUnary | UnsBinary | UnsBool | UnsCmp | UnsNode.

Section Eval.
  Variable value : Type.          (* Python objects *)
  Variable exn : Type.            (* Python exceptions raised by primitives *)

  (* outcome of a primitive call *)
  Inductive pres := POk (v : value) | PErr (e : exn).

  (* outcome of an evaluation *)
  Inductive res :=
  | Ok (v : value)
  | Raise (e : exn)                        (* exception raised by a primitive, propagated *)
  | Unsupported (u : unsupported)          (* _eval: raise InvalidExpression("Unsupported ...") *)
  | NotPython.                             (* py_eval only: not an expression of the language *)

  Variable of_const : const -> value.                    (* node.value *)
  Variable v_tuple : list value -> value.                (* tuple(...) *)
  Variable v_list : list value -> value.                 (* [...] *)
  Variable v_slice : value -> value -> value -> value.   (* slice(a, b, c) *)
  Variable v_none v_true v_false : value.
  Variable call : opfun -> list value -> pres.           (* operator.f applied to the arguments *)
  Variable truth : value -> bool.                        (* bool(v); total on the value domain *)
  Variable getitem : value -> value -> pres.             (* seq[key] *)
  Variable name_error : exn.

  Definition lift (p : pres) : res := match p with POk v => Ok v | PErr e => Raise e end.

  Definition bind (r : res) (k : value -> res) : res :=
    match r with Ok v => k v | other => other end.
  Notation "x <- a ;; b" := (bind a (fun x => b)) (at level 61, a at next level, right associativity).

  Section WithX.
  Variable x : value.

  Section Lists.
    Variable ev : expr -> res.
    (* left-to-right evaluation of a list of expressions, stopping at the first exception *)
    Fixpoint eval_list (es : list expr) : (list value -> res) -> res :=
      fun k =>
      match es with
      | [] => k []
      | e :: r => v <- ev e ;; eval_list r (fun vs => k (v :: vs))
      end.
    Definition eval_opt (o : option expr) : res :=
      match o with Some e => ev e | None => Ok v_none end.
  End Lists.

  (* _expressions.py:Expression._eval, clause by clause, on the tree repaired by
     fixes/C20-slice-in-subscript-tuple.diff (an [ast.Slice] clause builds the slice object;
     the Subscript clause evaluates its slice through _eval). *)
  Fixpoint pq_eval (node : expr) : res :=
    match node with
    | Constant c => Ok (of_const c)                          (* return node.value *)
    | Name _ _ => Ok x                                        (* return x *)
    | Tuple es _ => eval_list pq_eval es (fun vs => Ok (v_tuple vs))
    | EList es _ => eval_list pq_eval es (fun vs => Ok (v_list vs))
    | UnaryOp op e =>
        match assoc unaryop_eqb op UNARYOPS with              (* fn = UNARYOPS.get(type(node.op)) *)
        | None => Unsupported UnsUnary
        | Some fn => v <- pq_eval e ;; lift (call fn [v])
        end
    | BinOp l op r =>
        match assoc binop_eqb op BINOPS with
        | None => Unsupported UnsBinary
        | Some fn => a <- pq_eval l ;; b <- pq_eval r ;; lift (call fn [a; b])
        end
    | BoolOp And es =>
        (* result = True; for v in values: result = eval(v); if not result: return result *)
        (fix loop (result : value) (vs : list expr) : res :=
           match vs with
           | [] => Ok result
           | e :: rest => r <- pq_eval e ;; if negb (truth r) then Ok r else loop r rest
           end) v_true es
    | BoolOp Or es =>
        (fix loop (result : value) (vs : list expr) : res :=
           match vs with
           | [] => Ok result
           | e :: rest => r <- pq_eval e ;; if truth r then Ok r else loop r rest
           end) v_false es
    | Compare l ops es =>
        left <- pq_eval l ;;
        (fix loop (left : value) (ops : list cmpop) (es : list expr) {struct es} : res :=
           match ops, es with                                 (* zip(node.ops, node.comparators) *)
           | op :: ops', e :: es' =>
               right <- pq_eval e ;;
               match assoc cmpop_eqb op CMPOPS with
               | None => Unsupported UnsCmp
               | Some fn =>
                   c <- lift (call fn [left; right]) ;;
                   if negb (truth c) then Ok v_false else loop right ops' es'
               end
           | _, _ => Ok v_true
           end) left ops es
    | Slice lo up st =>
        start <- eval_opt pq_eval lo ;; stop <- eval_opt pq_eval up ;;
        step <- eval_opt pq_eval st ;; Ok (v_slice start stop step)
    | Subscript v sl _ =>
        seq <- pq_eval v ;;
        (* if isinstance(sl, getattr(ast, "Index", ())): sl = sl.value *)
        key <- match sl with Other OIndex [inner] => pq_eval inner | _ => pq_eval sl end ;;
        lift (getitem seq key)
    | Other _ _ => Unsupported UnsNode
    end.

  (* ---------------- the specification: Python language reference, section 6 *)

  (* 6.5-6.9, "Mapping Operators to Functions" of the operator module *)
  Definition spec_binop (o : binop) : opfun :=
    match o with
    | Add => op_add | Sub => op_sub | Mult => op_mul | MatMult => op_matmul | Div => op_truediv
    | Mod => op_mod | Pow => op_pow | LShift => op_lshift | RShift => op_rshift | BitOr => op_or
    | BitXor => op_xor | BitAnd => op_and | FloorDiv => op_floordiv
    end.
  Definition spec_unaryop (o : unaryop) : opfun :=
    match o with Invert => op_invert | Not => op_not | UAdd => op_pos | USub => op_neg end.
  Definition spec_cmpop (o : cmpop) : opfun :=
    match o with
    | Eq => op_eq | NotEq => op_ne | Lt => op_lt | LtE => op_le | Gt => op_gt | GtE => op_ge
    | Is => op_is | IsNot => op_is_not | In_ => op_contains_rev | NotIn => op_not_contains_rev
    end.

  Fixpoint py_eval (p : position) (e : expr) {struct e} : res :=
    match e with
    | Constant c => Ok (of_const c)                                     (* 6.2.2 literals *)
    | Name id _ => if String.eqb id "x" then Ok x else Raise name_error  (* 6.2.1, namespace {x} *)
    | Tuple es _ =>
        (* 6.15 left to right; 6.3.3: in a slice list the key is the tuple of the converted items *)
        eval_list (py_eval (item_pos p)) es (fun vs => Ok (v_tuple vs))
    | EList es _ => eval_list (py_eval PExpr) es (fun vs => Ok (v_list vs))
    | UnaryOp op a => v <- py_eval PExpr a ;; lift (call (spec_unaryop op) [v])
    | BinOp a op b =>
        va <- py_eval PExpr a ;; vb <- py_eval PExpr b ;; lift (call (spec_binop op) [va; vb])
    | BoolOp op es =>
        (* 6.11: "x and y" evaluates x; if x is false its value is returned, otherwise y is
           evaluated and the resulting value is returned; dually for "or" *)
        (fix chain (vs : list expr) : res :=
           match vs with
           | [] => NotPython
           | [last] => py_eval PExpr last
           | a :: rest =>
               va <- py_eval PExpr a ;;
               match op with
               | And => if truth va then chain rest else Ok va
               | Or => if truth va then Ok va else chain rest
               end
           end) es
    | Compare a ops es =>
        (* 6.10: a op1 b op2 c is a op1 b and b op2 c, with b evaluated once *)
        va <- py_eval PExpr a ;;
        (fix chain (left : value) (ops : list cmpop) (es : list expr) {struct es} : res :=
           match ops, es with
           | [op], [b] => vb <- py_eval PExpr b ;; lift (call (spec_cmpop op) [left; vb])
           | op :: ops', b :: es' =>
               vb <- py_eval PExpr b ;;
               c <- lift (call (spec_cmpop op) [left; vb]) ;;
               if truth c then chain vb ops' es' else Ok c
           | _, _ => NotPython
           end) va ops es
    | Subscript prim key _ =>
        (* 6.3.2/6.3.3: the primary is evaluated first, then the key *)
        vp <- py_eval PExpr prim ;; vk <- py_eval PKey key ;; lift (getitem vp vk)
    | Slice lo up st =>
        (* 6.3.3: a proper slice converts to a slice object of lower, upper, stride (None when
           absent); it is not an expression on its own *)
        if slice_ok p then
          a <- eval_opt (py_eval PExpr) lo ;; b <- eval_opt (py_eval PExpr) up ;;
          c <- eval_opt (py_eval PExpr) st ;; Ok (v_slice a b c)
        else NotPython
    | Other _ _ => NotPython            (* outside the language of the property *)
    end.

  End WithX.

  (* _expressions.py:Expression.__call__: x = x if x is not None else tuple() *)
  Definition pq_call (body : expr) (arg : option value) : res :=
    pq_eval (match arg with Some v => v | None => v_tuple [] end) body.

  (* _expressions.py:Expression.__init__ (after ast.parse) followed by __call__: a rejected
     tree yields no callable at all *)
  Definition pq_expression (body : expr) : option (option value -> res) :=
    if validate_tree body then Some (pq_call body) else None.
End Eval.

Arguments Ok {value exn} v.
Arguments Raise {value exn} e.
Arguments Unsupported {value exn} u.
Arguments NotPython {value exn}.
Arguments POk {value exn} v.
Arguments PErr {value exn} e.
