(* C10 — lemmas about finite sums over a commutative ring, dual numbers, complexification. *)
From Coq Require Import List Arith Bool Ring Lia Permutation.
From PV Require Import C10.Alg.
Import ListNotations.

Declare Scope a_scope.
Delimit Scope a_scope with a.

Section Sums.
  Variable A : Type.
  Variable O : Ops A.
  Hypothesis Ath : ring_theory (o0 O) (o1 O) (oadd O) (omul O) (osub O) (oopp O) (@eq A).
  Add Ring Aring : Ath.
  Notation "0" := (o0 O) : a_scope.
  Notation "1" := (o1 O) : a_scope.
  Infix "+" := (oadd O) : a_scope.
  Infix "*" := (omul O) : a_scope.
  Infix "-" := (osub O) : a_scope.
  Local Open Scope a_scope.

  Lemma sum_map_nil : forall X (f : X -> A), sum_map O f [] = 0.
  Proof. reflexivity. Qed.

  Lemma sum_map_cons : forall X (f : X -> A) x l, sum_map O f (x :: l) = f x + sum_map O f l.
  Proof. reflexivity. Qed.

  Lemma sum_map_ext : forall X (f g : X -> A) l,
    (forall x, In x l -> f x = g x) -> sum_map O f l = sum_map O g l.
  Proof.
    induction l as [|x l IH]; intros H; [reflexivity|].
    rewrite !sum_map_cons, (H x (or_introl eq_refl)), IH; [reflexivity|].
    intros y Hy; apply H; right; exact Hy.
  Qed.

  Lemma sum_map_ext' : forall X (f g : X -> A) l,
    (forall x, f x = g x) -> sum_map O f l = sum_map O g l.
  Proof. intros; apply sum_map_ext; auto. Qed.

  Lemma sum_map_app : forall X (f : X -> A) l1 l2,
    sum_map O f (l1 ++ l2) = sum_map O f l1 + sum_map O f l2.
  Proof.
    induction l1 as [|x l1 IH]; intros l2; simpl app.
    - rewrite sum_map_nil; ring.
    - rewrite !sum_map_cons, IH; ring.
  Qed.

  Lemma sum_map_map : forall X Y (g : X -> Y) (f : Y -> A) l,
    sum_map O f (map g l) = sum_map O (fun x => f (g x)) l.
  Proof.
    induction l as [|x l IH]; [reflexivity|].
    simpl map; rewrite !sum_map_cons, IH; reflexivity.
  Qed.

  Lemma sum_map_add : forall X (f g : X -> A) l,
    sum_map O (fun x => f x + g x) l = sum_map O f l + sum_map O g l.
  Proof.
    induction l as [|x l IH]; [rewrite !sum_map_nil; ring|].
    rewrite !sum_map_cons, IH; ring.
  Qed.

  Lemma sum_map_zero : forall X (l : list X), sum_map O (fun _ => 0) l = 0.
  Proof.
    induction l as [|x l IH]; [reflexivity|].
    rewrite sum_map_cons, IH; ring.
  Qed.

  Lemma sum_map_mul_l : forall X (f : X -> A) c l,
    c * sum_map O f l = sum_map O (fun x => c * f x) l.
  Proof.
    induction l as [|x l IH]; [rewrite !sum_map_nil; ring|].
    rewrite !sum_map_cons, <- IH; ring.
  Qed.

  Lemma sum_map_mul_r : forall X (f : X -> A) c l,
    sum_map O f l * c = sum_map O (fun x => f x * c) l.
  Proof.
    induction l as [|x l IH]; [rewrite !sum_map_nil; ring|].
    rewrite !sum_map_cons, <- IH; ring.
  Qed.

  Lemma sum_map_swap : forall X Y (f : X -> Y -> A) l1 l2,
    sum_map O (fun x => sum_map O (fun y => f x y) l2) l1 =
    sum_map O (fun y => sum_map O (fun x => f x y) l1) l2.
  Proof.
    induction l1 as [|x l1 IH]; intros l2.
    - rewrite sum_map_nil. symmetry. apply sum_map_zero.
    - rewrite sum_map_cons, IH.
      rewrite <- sum_map_add. apply sum_map_ext'; intros y.
      rewrite sum_map_cons; reflexivity.
  Qed.

  Lemma sum_map_repeat : forall X (f : X -> A) x k,
    sum_map O f (repeat x k) = of_nat O k * f x.
  Proof.
    induction k as [|k IH]; simpl repeat; simpl of_nat.
    - rewrite sum_map_nil; ring.
    - rewrite sum_map_cons, IH; ring.
  Qed.

  Lemma sum_map_seq_shift : forall (f : nat -> A) s n,
    sum_map O f (seq (S s) n) = sum_map O (fun t => f (S t)) (seq s n).
  Proof.
    intros f s n. rewrite <- seq_shift, sum_map_map. reflexivity.
  Qed.

  Lemma sum_map_perm : forall X (f : X -> A) l1 l2,
    Permutation l1 l2 -> sum_map O f l1 = sum_map O f l2.
  Proof.
    induction 1.
    - reflexivity.
    - rewrite !sum_map_cons, IHPermutation; reflexivity.
    - rewrite !sum_map_cons; ring.
    - congruence.
  Qed.

  (* dual numbers: components of a sum *)
  Lemma std_sum_map : forall X (f : X -> A * A) l,
    fst (sum_map (dualOps O) f l) = sum_map O (fun x => fst (f x)) l.
  Proof.
    induction l as [|x l IH]; [reflexivity|].
    change (sum_map (dualOps O) f (x :: l)) with (oadd (dualOps O) (f x) (sum_map (dualOps O) f l)).
    rewrite sum_map_cons, <- IH. reflexivity.
  Qed.

  Lemma eps_sum_map : forall X (f : X -> A * A) l,
    snd (sum_map (dualOps O) f l) = sum_map O (fun x => snd (f x)) l.
  Proof.
    induction l as [|x l IH]; [reflexivity|].
    change (sum_map (dualOps O) f (x :: l)) with (oadd (dualOps O) (f x) (sum_map (dualOps O) f l)).
    rewrite sum_map_cons, <- IH. reflexivity.
  Qed.

  Lemma std_of_nat : forall k, fst (of_nat (dualOps O) k) = of_nat O k.
  Proof. induction k as [|k IH]; [reflexivity|]. simpl. rewrite IH. reflexivity. Qed.
  Lemma eps_of_nat : forall k, snd (of_nat (dualOps O) k) = 0.
  Proof. induction k as [|k IH]; [reflexivity|]. simpl. rewrite IH. ring. Qed.

  (* the dual numbers over a commutative ring form a commutative ring *)
  Lemma dual_ring : ring_theory (o0 (dualOps O)) (o1 (dualOps O)) (oadd (dualOps O))
      (omul (dualOps O)) (osub (dualOps O)) (oopp (dualOps O)) (@eq (A * A)).
  Proof.
    constructor; intros; repeat match goal with x : (A * A)%type |- _ => destruct x end;
      cbn; f_equal; ring.
  Qed.

  (* so does the complexification *)
  Lemma cplx_ring : ring_theory (o0 (cplxOps O)) (o1 (cplxOps O)) (oadd (cplxOps O))
      (omul (cplxOps O)) (osub (cplxOps O)) (oopp (cplxOps O)) (@eq (A * A)).
  Proof.
    constructor; intros; repeat match goal with x : (A * A)%type |- _ => destruct x end;
      cbn; f_equal; ring.
  Qed.
End Sums.
