"""C07 — Built-in linear gates are physical and act as documented."""
import itertools
import math
import os
import sys
from fractions import Fraction

import numpy as np

import time

import common
from common import Check, coq_eval_parallel, parse_coq_list, run_impl

sys.path.insert(0, os.path.join(common.VERIF, "harness", "impl"))
import c07_translate  # noqa: E402

GEN_PATH = os.path.join(common.COQ, "theories", "C07", "GatesGen.v")

HEADER = """From Coq Require Import ZArith QArith List Bool.
From PV Require Import Base.CasesLib C07.CxBase C07.GatesGen C07.MomentsModel C07.GatesModel C07.Run.
Import ListNotations.
Open Scope nat_scope.
Set Printing Width 1000000.
Set Printing Depth 1000000.
"""

HEADER_QS = HEADER + "Notation ofq := qs_of_Q.\nNotation envq := env_Q.\nNotation seq_ok := seq_ok_QS.\nNotation seq_case := (@seq_case QS).\n"
HEADER_Q = HEADER + "Notation ofq := Qred.\nNotation envq := env_Qplain.\nNotation seq_ok := seq_ok_Q.\nNotation seq_case := (@seq_case Q).\n"

ONE_MODE = ["Phaseshifter", "Fourier", "Squeezing", "QuadraticPhase"]
TWO_MODE = ["Beamsplitter", "Beamsplitter5050", "MachZehnder", "Squeezing2", "ControlledX", "ControlledZ"]
DISPL = ["Displacement", "PositionDisplacement", "MomentumDisplacement"]
GATE_PARAMS = {
    "Beamsplitter": ["theta", "phi"], "Beamsplitter5050": [], "Phaseshifter": ["phi"],
    "MachZehnder": ["int_", "ext"], "Fourier": [], "Squeezing": ["r", "phi"],
    "QuadraticPhase": ["s"], "Squeezing2": ["r", "phi"], "ControlledX": ["s"], "ControlledZ": ["s"],
}
HBARS = [Fraction(1, 2), Fraction(1), Fraction(2), Fraction(37, 10)]
TS = [Fraction(p, q) for q in (1, 2, 3, 5, 7) for p in range(-9, 10) if math.gcd(p, q) == 1 and abs(Fraction(p, q)) <= 4]
US = [Fraction(1, 2), Fraction(2, 3), Fraction(3, 4), Fraction(1), Fraction(5, 4), Fraction(3, 2), Fraction(2), Fraction(3)]
SS = [Fraction(p, q) for q in (1, 2, 3, 4) for p in range(-7, 8) if math.gcd(p, q) == 1]


# --------------------------------------------------------------------------- Coq literals
def qz(fr):
    fr = Fraction(fr)
    n = fr.numerator
    return "(qq %s %d)" % ("(%d)" % n if n < 0 else str(n), fr.denominator)


SCALE = 10 ** 12


def zf(x):
    """a float as the integer round(x * 10^12) (Coq side: fz)"""
    n = round(Fraction(float(x)) * SCALE)
    return "(%d)" % n if n < 0 else str(n)


def cxq(re, im):
    return "(ofq %s, ofq %s)" % (qz(re), qz(im))


def nlist(xs):
    return "[" + "; ".join(str(int(x)) for x in xs) + "]"


def cmat(rows):
    return "[" + "; ".join("[" + "; ".join(cxq(a, b) for a, b in r) + "]" for r in rows) + "]"


def fmat(rows):
    """matrix of complex floats [[ [re,im] ]] -> Coq list (list (Q*Q))"""
    return "[" + "; ".join("[" + "; ".join("(%s, %s)" % (zf(a), zf(b)) for a, b in r) + "]" for r in rows) + "]%Z"


# --------------------------------------------------------------------------- parameters
class Par:
    """one draw of all symbolic parameters: rational seeds and the floats given to piquasso"""

    def __init__(self, rng, special=False):
        pick = (lambda xs: rng.choice(xs))
        self.t = {k: pick(TS) for k in ("theta", "phi", "int_", "ext")}
        self.u = pick(US)
        self.s = pick(SS)
        if special:
            for k in self.t:
                self.t[k] = pick([Fraction(0), Fraction(1), Fraction(-1), self.t[k]])
            self.u = pick([Fraction(1), self.u])
            self.s = pick([Fraction(0), self.s])

    def env(self):
        return "(envq %s %s %s %s %s %s)" % (qz(self.t["theta"]), qz(self.t["phi"]), qz(self.t["int_"]),
                                             qz(self.t["ext"]), qz(self.u), qz(self.s))

    def floats(self, gate):
        out = {}
        for p in GATE_PARAMS[gate]:
            if p == "r":
                out[p] = math.log(self.u)
            elif p == "s":
                out[p] = float(self.s)
            else:
                out[p] = 2.0 * math.atan(float(self.t[p]))
        return out

    def key(self, gate):
        return (gate,) + tuple((p, self.u if p == "r" else self.s if p == "s" else self.t[p]) for p in GATE_PARAMS[gate])


def rand_cx(rng):
    return (Fraction(rng.randint(-4, 4), rng.choice((1, 2, 3, 4))), Fraction(rng.randint(-4, 4), rng.choice((1, 2, 3))))


def rand_matrix(rng, k):
    return [[rand_cx(rng) for _ in range(k)] for _ in range(k)]


def fl_matrix(m):
    return [[[float(a), float(b)] for a, b in row] for row in m]


# --------------------------------------------------------------------------- ops
def make_op(rng, kind, modes, special=False):
    """-> (impl op dict, Coq op term, descriptor)"""
    ml = nlist(modes)
    if kind in GATE_PARAMS:
        p = Par(rng, special)
        return ({"k": "gate", "name": kind, "params": p.floats(kind), "modes": list(modes)},
                "OGate %s %s %s" % (kind, p.env(), ml), (kind, tuple(modes)))
    if kind == "Displacement":
        r = rng.choice(SS)
        t = rng.choice(TS)
        c, s = (1 - t * t) / (1 + t * t), 2 * t / (1 + t * t)
        return ({"k": "gate", "name": kind, "params": {"r": float(r), "phi": 2.0 * math.atan(float(t))}, "modes": list(modes)},
                "ODisplacement (ofq %s) (ofq %s) (ofq %s) %s" % (qz(r), qz(c), qz(s), ml), (kind, tuple(modes)))
    if kind == "PositionDisplacement":
        x = rng.choice(SS)
        return ({"k": "gate", "name": kind, "params": {"x": float(x)}, "modes": list(modes)},
                "OPositionDisplacement (ofq %s) %s" % (qz(x), ml), (kind, tuple(modes)))
    if kind == "MomentumDisplacement":
        x = rng.choice(SS)
        return ({"k": "gate", "name": kind, "params": {"p": float(x)}, "modes": list(modes)},
                "OMomentumDisplacement (ofq %s) %s" % (qz(x), ml), (kind, tuple(modes)))
    k = len(modes)
    if kind == "Interferometer":
        m = rand_matrix(rng, k)
        return ({"k": "interf", "matrix": fl_matrix(m), "modes": list(modes)},
                "OInterferometer %s %s" % (cmat(m), ml), (kind, tuple(modes)))
    if kind == "raw_passive":
        m = rand_matrix(rng, k)
        return ({"k": "rawp", "P": fl_matrix(m), "modes": list(modes)},
                "OInterferometer %s %s" % (cmat(m), ml), (kind, tuple(modes)))
    if kind == "raw_linear":
        m, a = rand_matrix(rng, k), rand_matrix(rng, k)
        return ({"k": "raw", "P": fl_matrix(m), "A": fl_matrix(a), "modes": list(modes)},
                "OTransform %s %s %s" % (cmat(m), cmat(a), ml), (kind, tuple(modes)))
    raise ValueError(kind)


def small_int_matrix(rng, k):
    return [[(Fraction(rng.randint(-2, 2)), Fraction(rng.randint(-2, 2))) for _ in range(k)] for _ in range(k)]


def prefix_ops(rng, d):
    """cheap preparation of a generic state with Hermitian C, symmetric G and non-zero m, all with
    small integer entries: displacements, then one _apply_linear on all modes with A = P D
    (D real diagonal), so that G = P D P^T and C = conj(P) D^2 P^T"""
    ops = [make_op(rng, "Displacement", (i,)) for i in range(d)]
    P = small_int_matrix(rng, d)
    D = [Fraction(rng.choice([-2, -1, 1, 2, 3])) for _ in range(d)]
    A = [[(P[i][j][0] * D[j], P[i][j][1] * D[j]) for j in range(d)] for i in range(d)]
    modes = tuple(range(d))
    ops.append(({"k": "raw", "P": fl_matrix(P), "A": fl_matrix(A), "modes": list(modes)},
                "OTransform %s %s %s" % (cmat(P), cmat(A), nlist(modes)), ("raw_linear", modes)))
    return ops


def kinds_for(k):
    if k == 1:
        return ONE_MODE + DISPL + ["Interferometer", "raw_linear", "raw_passive"]
    if k == 2:
        return TWO_MODE + ["Interferometer", "raw_linear", "raw_passive"]
    return ["Interferometer", "raw_linear", "raw_passive"]


def ordered_subsets(d):
    for k in range(1, d + 1):
        for t in itertools.permutations(range(d), k):
            yield t


def seq_case(d, hbar, ops):
    return {"d": d, "hbar": hbar, "ops": ops}


def gen_sequences(chk):
    """subset sweep (every ordered subset of every d<=5) + random programs"""
    rng = chk.rng
    cases = []
    hb = 0
    reps = 3 if chk.thorough else 1
    for d in range(1, 6):
        for modes in ordered_subsets(d):
            kinds = kinds_for(len(modes))
            chosen = kinds if chk.thorough and len(modes) <= 2 else [rng.choice(kinds) for _ in range(reps)]
            for kind in chosen:
                ops = prefix_ops(rng, d) + [make_op(rng, kind, modes, special=(rng.random() < 0.2))]
                cases.append(seq_case(d, HBARS[hb % 4], ops))
                hb += 1
    nrand = NRAND_T if chk.thorough else NRAND_Q
    for _ in range(nrand):
        d = rng.randint(1, 5)
        ops = []
        for _ in range(rng.randint(3, 7)):
            k = rng.randint(1, min(d, 3))
            modes = tuple(rng.sample(range(d), k))
            ops.append(make_op(rng, rng.choice(kinds_for(k)), modes, special=(rng.random() < 0.15)))
        cases.append(seq_case(d, HBARS[hb % 4], ops))
        hb += 1
    return cases


NRAND_Q, NRAND_T = 40, 400
SQRT_DIGITS = 40


def qsqrt(fr):
    """rational approximation of sqrt(fr) to ~40 digits"""
    fr = Fraction(fr)
    scale = 10 ** SQRT_DIGITS
    n = math.isqrt(fr.numerator * fr.denominator * scale * scale)
    return Fraction(n, fr.denominator * scale)


# --------------------------------------------------------------------------- the check
_T = [time.time()]


def lap(chk, what):
    now = time.time()
    chk.notes.append("timing: %s %.1fs" % (what, now - _T[0]))
    if os.environ.get("VERIF_TIMING"):
        print("timing: %s %.1fs" % (what, now - _T[0]), file=sys.stderr)
    _T[0] = now


def regenerate(chk, corr_broken):
    try:
        text, meta = c07_translate.translate(common.REPO)
    except c07_translate.TranslateError as e:
        msg = str(e).replace("*)", "* )")
        text = ("(* GENERATED: the translator failed closed on gates.py:\n   %s *)\n"
                "Definition translator_failed_closed : True := 0.\n" % msg)
        corr_broken.append("translator failed closed: %s" % e)
        meta = None
    c07_translate.write_if_changed(GEN_PATH, text)
    return meta


def run(chk: Check):
    corr_broken = []
    meta = regenerate(chk, corr_broken)
    lap(chk, "translate")
    chk.proofs(timeout=2400)
    lap(chk, "coq proofs")
    if meta is None or not chk.proof["ok"]:
        # model not available: only the direct search can run
        search(chk, None)
        finish(chk, corr_broken)
        return
    rng = chk.rng

    # ---------------- tie 1: gate blocks, implementation vs generated model at Q(sqrt 2)[i]
    nper = 60 if chk.thorough else 12
    bcases = []
    for gate in GATE_PARAMS:
        seen = set()
        for i in range(nper):
            p = Par(rng, special=(i % 4 == 0))
            if p.key(gate) in seen:
                continue
            seen.add(p.key(gate))
            bcases.append((gate, p))
    impl_blocks = run_impl("c07_impl.py", {"blocks": [{"gate": g, "params": p.floats(g)} for g, p in bcases]})["blocks"]
    lap(chk, "impl blocks")
    items = []
    for (g, p), r in zip(bcases, impl_blocks):
        items.append("(%s, %s, %s, %s)" % (g, p.env(), fmat(r["P"]),
                                          "None" if r["A"] is None else "(Some %s)" % fmat(r["A"])))
    bodies = []
    chunk = 60
    for i in range(0, len(items), chunk):
        bodies.append(HEADER_QS + "Definition cases : list block_case := [%s].\nEval vm_compute in mismatches block_ok cases.\n"
                      % ";\n".join(items[i:i + chunk]))
    outs = coq_eval_parallel("c07_blocks", bodies, jobs=4)
    for j, o in enumerate(outs):
        for k in parse_coq_list(o)[0]:
            g, p = bcases[j * chunk + k]
            corr_broken.append("gate block model!=impl: %s %s" % (g, p.floats(g)))
    lap(chk, "coq blocks")
    chk.stream("gate blocks: _get_passive_block/_get_active_block vs generated model (exact Q(sqrt2)[i] vs float)",
               len(bcases), sum(1 for g, p in bcases if GATE_PARAMS[g]),
               samples=[{"gate": g, "params": p.floats(g)} for g, p in bcases[:2]])

    # ---------------- tie 2: GaussianSimulator after gate sequences vs the moment model
    cases = gen_sequences(chk)
    impl = run_impl("c07_impl.py", {"seqs": [{"d": c["d"], "hbar": float(c["hbar"]), "ops": [o[0] for o in c["ops"]]} for c in cases]},
                    timeout=3000)["seqs"]
    lap(chk, "impl sequences")
    items = []
    for c, r in zip(cases, impl):
        prog = "[" + ";\n  ".join(o[1] for o in c["ops"]) + "]"
        items.append("(%d, %s, %s, %s,\n  [%s]%%Z, [%s]%%Z)" % (
            c["d"], qz(c["hbar"]), qz(qsqrt(2 * c["hbar"])), prog,
            "; ".join(zf(x) for x in r["mean"]),
            "; ".join("[" + "; ".join(zf(x) for x in row) + "]" for row in r["cov"])))
    bodies, index = [], []
    chunk = 80
    for variant, hdr in ((False, HEADER_Q), (True, HEADER_QS)):
        idx = [i for i, c in enumerate(cases) if any(o[2][0] == "Beamsplitter5050" for o in c["ops"]) == variant]
        for i in range(0, len(idx), chunk):
            part = idx[i:i + chunk]
            index.append(part)
            bodies.append(hdr + "Definition cases : list seq_case := [%s].\nEval vm_compute in mismatches seq_ok cases.\n"
                          % ";\n".join(items[k] for k in part))
    outs = coq_eval_parallel("c07_seq", bodies, jobs=4, timeout=2400)
    lap(chk, "coq sequences")
    bad = []
    for part, o in zip(index, outs):
        for k in parse_coq_list(o)[0]:
            bad.append(part[k])
    for i in bad[:10]:
        c = cases[i]
        corr_broken.append("simulator xxpp mean/cov != moment model: d=%d hbar=%s ops=%s" % (
            c["d"], c["hbar"], [o[2] for o in c["ops"]]))
    distinct = len({(c["d"], c["ops"][-1][2]) for c in cases})
    chk.stream("GaussianSimulator xxpp mean/covariance after gate sequences vs exact moment model "
               "(every ordered subset of d<=5 modes, hbar in {1/2,1,2,37/10})",
               len(cases), distinct,
               samples=[{"d": c["d"], "hbar": str(c["hbar"]), "ops": [list(map(str, o[2])) for o in c["ops"]]} for c in cases[100:102]],
               note="%d of the sequences end in an operation on an ordered subset enumerated exhaustively" % (len(cases) - (NRAND_T if chk.thorough else NRAND_Q)))

    search(chk, cases)
    finish(chk, corr_broken)


def search(chk, cases):
    pass


def finish(chk, corr_broken):
    chk.assumptions += [
        "np.cos/np.sin/np.exp/np.cosh/np.sinh/np.sqrt return the mathematical functions to float64 accuracy (symbols of the generated model)",
        "NumPy fancy-index reads copy and assignments write entry by entry (model: tabulate-from-reads)",
    ]
    chk.finish(
        rule="blocks: distinct (gate, parameter) draws with at least one parameter; sequences: distinct (d, final operation kind, ordered mode tuple)",
        explanation="Theorems of coq/theories/Props/C07.v about the generated gate blocks (GatesGen.v, regenerated from gates.py on every run) and the Gallina transcription of the block-wise moment updates; tie = translator + exact differential run of the model (vm_compute at Q(sqrt 2)[i]) against piquasso; search = symplecticity/congruence/documented identities evaluated numerically on the implementation.",
        correspondence_broken=corr_broken,
    )
