(* C02 — finite distributions over a number structure, and the samplers of
   piquasso written as programs in that monad.  Definitions only.
   The same definitions are *run* at Q (exact, by the correspondence check) and
   *proved about* at R (DistProofs.v). *)
From Coq Require Import ZArith QArith List Bool.
Import ListNotations.

Record num : Type := mknum {
  T :> Type;
  n0 : T; n1 : T;
  nadd : T -> T -> T; nmul : T -> T -> T; nsub : T -> T -> T; ndiv : T -> T -> T;
  nleb : T -> T -> bool                       (* a <= b *)
}.
Arguments n0 {_}. Arguments n1 {_}. Arguments nadd {_}. Arguments nmul {_}.
Arguments nsub {_}. Arguments ndiv {_}. Arguments nleb {_}.

Definition QN : num := mknum Q 0%Q 1%Q Qplus Qmult Qminus Qdiv Qle_bool.

Section Dist.
  Variable N : num.
  Notation "a +' b" := (nadd a b) (at level 50, left associativity).
  Notation "a *' b" := (nmul a b) (at level 40, left associativity).
  Notation "a -' b" := (nsub a b) (at level 50, left associativity).
  Notation "a /' b" := (ndiv a b) (at level 40, left associativity).

  Definition nsum (l : list N) : N := fold_right nadd n0 l.

  Definition dist (A : Type) : Type := list (A * N).

  (* probability of an event *)
  Definition mass {A} (d : dist A) (f : A -> bool) : N :=
    nsum (map (fun ap : A * N => if f (fst ap) then snd ap else n0) d).
  Definition total {A} (d : dist A) : N := nsum (map snd d).

  Definition dret {A} (a : A) : dist A := [(a, n1)].
  Definition dscale {A} (c : N) (d : dist A) : dist A :=
    map (fun ap : A * N => (fst ap, c *' snd ap)) d.
  Fixpoint dbind {A B} (d : dist A) (k : A -> dist B) : dist B :=
    match d with
    | [] => []
    | ap :: r => dscale (snd ap) (k (fst ap)) ++ dbind r k
    end.
  Definition dmap {A B} (f : A -> B) (d : dist A) : dist B :=
    map (fun ap : A * N => (f (fst ap), snd ap)) d.

  (* random.choices(population, weights) / rng.choice(a, p=w/sum(w)):
     categorical draw with weights normalised by their sum
     (_utils.py:sample_from_probability_map, sampling.py:_sample_from_pmf,
      gaussian/simulation_steps.py:_generate_sample `weights /= np.sum(weights)`) *)
  Definition choice {A} (ws : list (A * N)) : dist A :=
    map (fun aw : A * N => (fst aw, snd aw /' total ws)) ws.

  (* ---- chain-rule sampler: at every step the next entry x is drawn with weight
     P (prefix ++ [x]); used with P = joint probability of a prefix of outcomes
     (gaussian/simulation_steps.py:_generate_threshold_samples_using_torontonian,
      _generate_sample; passive/sampling.py:generate_marginal_samples) *)
  Section Chain.
    Variable X : Type.
    Variable outs : list X.
    Variable P : list X -> N.
    Fixpoint chain (n : nat) (pre : list X) : dist (list X) :=
      match n with
      | O => dret pre
      | S m => dbind (choice (map (fun x => (x, P (pre ++ [x]))) outs))
                     (fun x => chain m (pre ++ [x]))
      end.
  End Chain.

  (* ---- retry-until-accept with a bound on the number of trials
     (the `while retry` loops of sampling.py): None = rejected / too many trials *)
  Fixpoint retry {A} (trial : dist (option A)) (n : nat) : dist (option A) :=
    match n with
    | O => dret None
    | S m => dbind trial (fun r => match r with
                                   | Some a => dret (Some a)
                                   | None => retry trial m
                                   end)
    end.

  (* ---- inverse-CDF draw of sampling.py:generate_marginal_samples:
     accumulate conditional probabilities until `cumulative >= threshold`;
     returns the photon number at which the loop stops (the last one when it never breaks) *)
  Fixpoint inverse_cdf (ps : list N) (acc : N) (threshold : N) (k : nat) : nat :=
    match ps with
    | [] => Nat.pred k
    | p :: r => let acc' := acc +' p in
                if nleb threshold acc' then k else inverse_cdf r acc' threshold (S k)
    end.

  (* ---- threshold sampler, one shot, as a function of the script of uniforms
     (gaussian/simulation_steps.py:_generate_threshold_samples_using_torontonian).
     p0 s = get_probability(modes[:len s + 1], s ++ [0]) *)
  Section Threshold.
    Variable p0 : list nat -> N.
    Fixpoint threshold_run (guesses : list N) (s : list nat) (prev : N) : list nat :=
      match guesses with
      | [] => s
      | g :: r =>
          let cond := p0 s /' prev in
          (* guess < conditional  <=>  not (conditional <= guess) *)
          if negb (nleb cond g) then threshold_run r (s ++ [O]) (prev *' cond)
          else threshold_run r (s ++ [1%nat]) (prev *' (n1 -' cond))
      end.
  End Threshold.
End Dist.

Arguments mass {N A}. Arguments total {N A}. Arguments dret {N A}. Arguments dbind {N A B}.
Arguments dmap {N A B}. Arguments dscale {N A}. Arguments choice {N A}.
Arguments chain {N X}. Arguments retry {N A}. Arguments nsum {N}.
Arguments inverse_cdf {N}. Arguments threshold_run {N}.

(* ---- _utils.py:get_counts — binning in order of first occurrence *)
Section Counts.
  Variable A : Type.
  Variable eqb : A -> A -> bool.
  Fixpoint bump_count (a : A) (cs : list (A * nat)) : list (A * nat) :=
    match cs with
    | [] => [(a, 1%nat)]
    | (b, k) :: r => if eqb a b then (b, S k) :: r else (b, k) :: bump_count a r
    end.
  Definition get_counts (samples : list A) : list (A * nat) :=
    fold_left (fun cs a => bump_count a cs) samples [].
  (* _utils.py:sample_from_probability_map — Fraction(multiplicity, shots) *)
  Definition frequencies (samples : list A) : list (A * Q) :=
    map (fun ak : A * nat => (fst ak, Qmake (Z.of_nat (snd ak)) (Pos.of_nat (length samples))))
        (get_counts samples).
End Counts.
Arguments bump_count {A}. Arguments get_counts {A}. Arguments frequencies {A}.
