(* C18 -- Program construction is faithful: round trips, nesting, preparation algebra.
   Only statements closed by [exact]; proofs live in C18/. *)
From Coq Require Import ZArith QArith List Bool Ring Permutation.
From Coq Require String.
From PV Require Import C18.RegisterModel C18.RegisterProofs C18.PrepModel C18.PrepProofs
  C18.BlackbirdModel C18.BlackbirdGen C18.BlackbirdProofs C18.CodeModel C18.CodeProofs
  C18.TokenModel C18.TokenProofs.
Import ListNotations.

(* ---- nesting: for every depth, every chain of registers (empty ones included) and every
   program, the instructions of the outermost program are the inner ones with their modes sent
   through the registers innermost first, same class and parameters *)
Theorem C18_nest_maps_once : forall regs h src h' out,
  (forall id, In id src -> (id < length h)%nat) ->
  nest h src regs = Ok (h', out) ->
  Forall2 (entry_mapped regs) (view h src) (view h' out).
Proof. exact nest_maps_once. Qed.
Print Assumptions C18_nest_maps_once.

(* ---- "exactly once": two registers in turn act as the single composed register *)
Theorem C18_map_modes_composes : forall r1 r2 m x y r12,
  map_modes r2 m = Ok x -> map_modes r1 x = Ok y -> map_modes r1 r2 = Ok r12 ->
  map_modes r12 m = Ok y.
Proof. exact map_modes_assoc. Qed.
Print Assumptions C18_map_modes_composes.

(* ---- the inner program (every object that existed before) is left as it was *)
Theorem C18_inner_program_unchanged : forall regs h src h' out,
  (forall id, In id src -> (id < length h)%nat) ->
  nest h src regs = Ok (h', out) ->
  (forall id, (id < length h)%nat -> nth_error h' id = nth_error h id) /\
  (forall p, (forall id, In id p -> (id < length h)%nat) -> view h' p = view h p).
Proof. exact inner_program_unchanged. Qed.
Print Assumptions C18_inner_program_unchanged.

(* ---- and the outer program holds fresh objects only *)
Theorem C18_nested_objects_fresh : forall rest reg h src h' out,
  (forall id, In id src -> (id < length h)%nat) ->
  nest h src (reg :: rest) = Ok (h', out) ->
  exists n, (length h <= n)%nat /\ out = seq n (length src).
Proof. exact nest_fresh. Qed.
Print Assumptions C18_nested_objects_fresh.

(* ---- preparation algebra over any commutative ring of coefficients (repaired code) *)
Section Algebra.
Variable A : Type.
Variables (zero one : A) (add mul sub : A -> A -> A) (opp : A -> A) (div : A -> A -> A).
Hypothesis Rth : ring_theory zero one add mul sub opp (@eq A).

Theorem C18_prep_denotation_add : forall (a b : pobj A) x,
  denote A zero add mul (add_obj A one add mul false a b) x
  = add (denote A zero add mul a x) (denote A zero add mul b x).
Proof. exact (prep_denotation_add A zero one add mul sub opp Rth). Qed.

Theorem C18_prep_scalar : forall (o : pobj A) k x,
  denote A zero add mul (scale_obj A mul o k) x = mul (denote A zero add mul o x) k.
Proof. exact (prep_scalar A zero one add mul sub opp Rth). Qed.

(* every expression tree of +, scalar *, / over preparation objects (leaf objects may repeat):
   the result denotes the linear combination written and no operand is modified *)
Theorem C18_prep_eval_sound : forall e h h' r,
  leaves_below A (length h) e = true ->
  eval A one add mul div false h e = Some (h', r) ->
  exists ext o, h' = h ++ ext /\ nth_error h' r = Some o /\
    forall x, denote A zero add mul o x = sem A zero one add mul div h e x.
Proof. exact (eval_sound A zero one add mul sub opp div Rth). Qed.

Theorem C18_prep_eval_total : forall e h,
  leaves_below A (length h) e = true ->
  exists h' r, eval A one add mul div false h e = Some (h', r).
Proof. exact (eval_total A zero one add mul sub opp div Rth). Qed.

(* whatever the order or grouping: expressions with the same weighted leaves prepare the same state *)
Theorem C18_prep_assoc_comm : forall e1 e2 h h1 r1 h2 r2 o1 o2,
  leaves_below A (length h) e1 = true -> leaves_below A (length h) e2 = true ->
  Permutation (terms A one mul div e1) (terms A one mul div e2) ->
  eval A one add mul div false h e1 = Some (h1, r1) ->
  eval A one add mul div false h e2 = Some (h2, r2) ->
  nth_error h1 r1 = Some o1 -> nth_error h2 r2 = Some o2 ->
  forall x, denote A zero add mul o1 x = denote A zero add mul o2 x.
Proof. exact (prep_assoc_comm A zero one add mul sub opp div Rth). Qed.

(* the code before the repair is linear except for NumberState + FockStateVector with a
   coefficient on the right operand *)
Theorem C18_prep_add_legacy_except_ns_fsv : forall (a b : pobj A) x,
  (is_ns A a = true -> is_ns A b = false -> coeff A b = one) ->
  denote A zero add mul (add_obj A one add mul true a b) x
  = add (denote A zero add mul a x) (denote A zero add mul b x).
Proof. exact (prep_denotation_add_legacy_except_ns_fsv A zero one add mul sub opp Rth). Qed.
End Algebra.
Print Assumptions C18_prep_denotation_add.
Print Assumptions C18_prep_scalar.
Print Assumptions C18_prep_eval_sound.
Print Assumptions C18_prep_eval_total.
Print Assumptions C18_prep_assoc_comm.
Print Assumptions C18_prep_add_legacy_except_ns_fsv.

(* ---- the model of the code BEFORE fixes/C18-preparation-algebra.diff refutes linearity *)
Theorem C18_ns_plus_fsv_drops_coefficient_refuted :
  exists a b x, denZ (addZ true a b) x <> (denZ a x + denZ b x)%Z.
Proof. exact ns_plus_fsv_drops_coefficient_refuted. Qed.
Print Assumptions C18_ns_plus_fsv_drops_coefficient_refuted.

Theorem C18_prep_alias_refuted :
  exists h e h' r o x,
    leaves_below Z (length h) e = true /\ evalZ true h e = Some (h', r) /\
    nth_error h' r = Some o /\ denZ o x <> semZ h e x /\ denZ o x = 12%Z /\ semZ h e x = 5%Z.
Proof. exact prep_alias_refuted. Qed.
Print Assumptions C18_prep_alias_refuted.

(* ---- Blackbird: for every row of the table generated from the working tree and every value
   list, import after export is the identity on the parameter dictionary and the modes *)
Theorem C18_blackbird_param_roundtrip : forall (V : Type) (dflt : String.string -> nat -> V),
  Forall (row_roundtrips V dflt bb_table) bb_table.
Proof. exact blackbird_param_roundtrip. Qed.
Print Assumptions C18_blackbird_param_roundtrip.

Theorem C18_blackbird_export_refused_iff : forall (V : Type) T cls (p : list (String.string * V)) modes,
  export V T cls p modes = None <-> ~ In cls (map pq_name T).
Proof. exact export_refused_iff. Qed.
Print Assumptions C18_blackbird_export_refused_iff.

Theorem C18_blackbird_names_distinct :
  NoDup (map bb_name bb_table) /\ NoDup (map pq_name bb_table).
Proof. exact bb_names_distinct. Qed.
Print Assumptions C18_blackbird_names_distinct.

(* ---- Config / Simulator code round trip, every combination of constructor arguments *)
Theorem C18_config_code_roundtrip : forall a : cfg_args,
  cfg_eqb (exec_code (as_code (construct a))) (construct a) = true.
Proof. exact config_code_roundtrip. Qed.
Print Assumptions C18_config_code_roundtrip.

Theorem C18_simulator_code_roundtrip : forall (d : option Z) (a : cfg_args),
  let r := sim_exec_code (sim_as_code d (construct a)) in
  fst r = d /\ cfg_eqb (snd r) (construct a) = true.
Proof. exact simulator_code_roundtrip. Qed.
Print Assumptions C18_simulator_code_roundtrip.

(* ---- the text layer: instruction / program code as token lists (what Python's tokenizer yields
   for the emitted text).  F is the type of floats; the hypothesis is float(repr(x)) = x, split at
   the sign because `-0.3` is two tokens. *)
Section Tokens.
Variable F : Type.
Variables (fneg fabs : F -> F) (fis_neg : F -> bool).
Hypothesis float_repr_roundtrip : forall f, fis_neg f = true -> fneg (fabs f) = f.

(* every value of the rendered-exactly domain (ints, bools, floats, nested tuples/lists, arrays
   with or without dtype) is read back from its rendering, whatever follows it *)
Theorem C18_code_value_roundtrip : forall (v : pval F) n rest,
  (depth F v <= n)%nat ->
  parse F fneg n (render F fabs fis_neg v ++ rest) = Some (v, rest).
Proof. exact (value_roundtrip F fneg fabs fis_neg float_repr_roundtrip). Qed.

(* every unconditioned instruction: class, modes, keyword names/order and values come back *)
Theorem C18_code_instr_roundtrip : forall (i : cinstr F) rest,
  ci_cond F i = false ->
  exists ts, instr_tokens F fabs fis_neg i = Some ts /\
             read_instr F fneg (ts ++ rest) = Some (i, rest).
Proof. exact (instr_roundtrip F fneg fabs fis_neg float_repr_roundtrip). Qed.

(* _as_code refuses exactly the instructions that carry a .when(...) condition *)
Theorem C18_code_conditioned_refused_iff : forall i : cinstr F,
  instr_tokens F fabs fis_neg i = None <-> ci_cond F i = true.
Proof. exact (instr_tokens_refused_iff F fabs fis_neg). Qed.

(* every program of unconditioned instructions (the empty one included: `pass`) *)
Theorem C18_code_program_roundtrip : forall p : list (cinstr F),
  Forall (fun i => ci_cond F i = false) p ->
  exists ts, program_tokens F fabs fis_neg p = Some ts /\ read_program F fneg ts = Some p.
Proof. exact (program_roundtrip F fneg fabs fis_neg float_repr_roundtrip). Qed.
End Tokens.
Print Assumptions C18_code_value_roundtrip.
Print Assumptions C18_code_instr_roundtrip.
Print Assumptions C18_code_conditioned_refused_iff.
Print Assumptions C18_code_program_roundtrip.

(* ---- non-vacuity *)
Example C18_example_nest :
  (* Squeezing on mode 1 and a gate on (2,0) inside Q(4,5,6), then inside Q(3,2,1,0,9,8,7) *)
  match nest [mkInstr 1 (Some 1%Z) (Some [1%Z]) 0; mkInstr 2 (Some 2%Z) (Some [2%Z;0%Z]) 0] [0%nat;1%nat]
             [[4;5;6]%Z; [3;2;1;0;9;8;7]%Z] with
  | Ok (h', out) => view h' out = [Some (1, [8], 0); Some (2, [7;9], 0)]%Z
  | _ => False
  end.
Proof. vm_compute. reflexivity. Qed.

Example C18_example_repaired_alias :
  exists h' r, evalZ false [NS [1%Z] 1%Z] (Add (Mul (Leaf 0%nat) 2%Z) (Mul (Leaf 0%nat) 3%Z)) = Some (h', r) /\
               nth_error h' r = Some (NS [1%Z] 5%Z) /\ nth_error h' 0%nat = Some (NS [1%Z] 1%Z).
Proof. exact repaired_alias_example. Qed.

Example C18_example_tokens : example_tokens_statement.
Proof. exact example_tokens. Qed.
