"""C11 — Seeded runs are reproducible and independent of parallel scheduling.

(a) provenance of random draws: histories of Config/simulator operations are run on the real
    code and in the Gallina model (C11/RngModel.v); the equality pattern of all results must
    agree; the property itself (same seed => same samples whatever happened in between) is
    searched directly on the implementation.
(b) the native permanent: /repo/src/permanent*.cpp are compiled fresh with an own driver
    that forces std::thread::hardware_concurrency() to 0..16(+), on Gaussian-integer
    matrices; results are compared with the exact value of the model of the job loop
    (C11/PermModel.v over Z[i]) and with each other; the Gray counter is compared digit by
    digit with the model (C11/GrayModel.v).
"""
import hashlib
import json
import os
import subprocess
from concurrent.futures import ThreadPoolExecutor
from fractions import Fraction

from common import (CASES_HEADER, REPO, RUN, VERIF, Check, clist, coq_eval, cz,
                    parse_coq_list, run_impl)

KINDS = ["passive_pnm", "gaussian_pnm", "gaussian_threshold_tor", "gaussian_homodyne",
         "purefock_pnm", "fock_pnm", "purefock_homodyne", "fermionic_fock_pnm",
         "gaussian_pnm1", "gaussian_threshold_haf1"]
SOURCE = {"passive_pnm": "PerShot", "gaussian_pnm": "PerShot",
          "gaussian_threshold_tor": "OwnedNp", "gaussian_homodyne": "OwnedNp",
          "purefock_pnm": "PyDraw", "fock_pnm": "PyDraw", "purefock_homodyne": "OwnedNp",
          "fermionic_fock_pnm": "PyDraw", "gaussian_pnm1": "PerShot",
          "gaussian_threshold_haf1": "PerShot"}
# the kinds with a dask branch (per-shot seeds), run with shot counts around chunk sizes
DASK_KINDS = ["passive_pnm", "gaussian_pnm1", "gaussian_threshold_haf1"]
CHUNK_SHOTS = [1, 2, 63, 64, 65, 130, 257]
# kinds whose generator does not depend on options of the Config (usable with Simulator(d))
DEFAULT_OK = [k for k in KINDS if "threshold" not in k]
KEY_SEED0 = "C11:Config.__init__:seed_sequence=0"
KEY_GLOBAL = "C11:sample_from_probability_map:global-random-state"
KEY_HC0 = "C11:permanent_cpp:hardware_concurrency=0"
KEY_CAST = "C11:n_aryGrayCodeCounter.initialize:offset>=2^31"

IMPORTS = CASES_HEADER + ("From PV Require C04.PermModel.\n"
                          "From PV Require Import Base.CasesLib C11.GrayModel C11.PermModel "
                          "C11.RngModel.\n")


# =========================================================================== part (a)
class Hist:
    """Builds one history and tracks, on the harness side, which executions are the first
    execution of a fresh simulator built from a fresh seeded Config nobody else touched."""

    def __init__(self):
        self.ops = []
        self.cfg = []    # per config: dict(seed, fresh(bool: untouched), default)
        self.sim = []    # per simulator: dict(cfg index or None, kind, executed, fresh_cfg)
        self.exec = []   # per result: dict(sim, kind, shots, fresh (bool), seed)

    def new_config(self, seed):
        self.ops.append(["NewConfig", seed])
        # "gen": the generator object shared by the copies; "np_kind": the one kind of
        # config.rng request this generator serves (requests of different kinds may consume
        # the same number of raw values, which the model cannot know)
        self.cfg.append({"seed": seed, "users": 0, "gen": {"np_kind": None}})

    def set_seed(self, c, z):
        """configs[c].seed_sequence = z after construction: new generators for this object"""
        self.ops.append(["SetSeed", c, z])
        self.cfg[c] = {"seed": z, "users": 0, "gen": {"np_kind": None}}

    def copy_config(self, c):
        self.ops.append(["CopyConfig", c])
        self.cfg[c]["users"] += 1
        self.cfg.append({"seed": self.cfg[c]["seed"], "users": 1, "gen": self.cfg[c]["gen"]})

    def new_sim(self, c, kind):
        if c is not None and SOURCE[kind] == "OwnedNp":
            g = self.cfg[c]["gen"]
            if g["np_kind"] is None:
                g["np_kind"] = kind
            kind = g["np_kind"]
        self.ops.append(["NewSimulator", c, kind])
        if c is None:
            self.sim.append({"cfg": None, "kind": kind, "n": 0, "fresh": False, "seed": None})
        else:
            fresh = self.cfg[c]["users"] == 0
            self.cfg[c]["users"] += 1
            self.sim.append({"cfg": c, "kind": kind, "n": 0, "fresh": fresh,
                             "seed": self.cfg[c]["seed"]})

    def execute(self, s, shots):
        sim = self.sim[s]
        self.ops.append(["Execute", s, sim["kind"], shots])
        still_fresh = sim["fresh"] and sim["n"] == 0 and sim["seed"] is not None and \
            self.cfg[sim["cfg"]]["users"] == 1
        sim["n"] += 1
        self.exec.append({"sim": s, "kind": sim["kind"], "shots": shots, "fresh": still_fresh,
                          "seed": sim["seed"], "default": sim["cfg"] is None})

    def global_draw(self):
        self.ops.append(["GlobalDraw"])

    def repr_config(self, which):
        self.ops.append(["ReprConfig", which])


def noise(h, rng, n):
    for _ in range(n):
        k = rng.random()
        if k < 0.22:
            h.global_draw()
        elif k < 0.40:
            h.repr_config(rng.choice(["simulator", "config"]))
        elif k < 0.58:
            h.new_config(rng.choice([None, 0, 1, 7]))
        elif k < 0.70:
            h.new_sim(None, rng.choice(DEFAULT_OK))
            h.execute(len(h.sim) - 1, 10)
        elif k < 0.80 and h.sim:
            # re-execute some simulator that is no longer "fresh" (advances its generator)
            cand = [i for i, s in enumerate(h.sim) if s["n"] > 0]
            if cand:
                h.execute(rng.choice(cand), 10)
        elif k < 0.88 and h.cfg:
            # copy / reuse a config that is not under test (already used)
            cand = [i for i, c in enumerate(h.cfg) if c["users"] > 0]
            if cand:
                c = rng.choice(cand)
                if rng.random() < 0.5:
                    h.copy_config(c)
                else:
                    h.new_sim(c, rng.choice(KINDS))
                    h.execute(len(h.sim) - 1, 10)
        elif k < 0.93 and h.cfg:
            cand = [i for i, c in enumerate(h.cfg) if c["users"] > 0]
            if cand:
                h.set_seed(rng.choice(cand), rng.choice([0, 1, 7]))
        else:
            h.global_draw()


def chunk_histories(thorough):
    """Per-shot-seed kinds with shot counts on both sides of plausible chunk sizes; for 65
    shots a second fresh simulator with the same seed after unrelated activity."""
    out = []
    for kind in DASK_KINDS:
        for shots in CHUNK_SHOTS:
            if shots > 130 and kind != "passive_pnm" and not thorough:
                continue
            h = Hist()
            h.new_config(3)
            h.new_sim(0, kind)
            h.execute(0, shots)
            if shots == 65:
                h.global_draw()
                h.new_config(None)
                h.new_config(3)
                h.repr_config("config")
                h.new_sim(2, kind)
                h.execute(1, shots)
            out.append(h)
    return out


def gen_history(rng, kinds, blocks):
    h = Hist()
    for _ in range(blocks):
        kind = rng.choice(kinds)
        z = rng.choice([0, 1, 1, 7, 7, None])
        noise(h, rng, rng.randint(0, 2))
        if z is not None and rng.random() < 0.35:
            # the seed arrives through the setter, after construction
            h.new_config(rng.choice([None, 1, 7, 9]))
            c = len(h.cfg) - 1
            noise(h, rng, rng.randint(0, 1))
            h.set_seed(c, z)
        else:
            h.new_config(z)
        c = len(h.cfg) - 1
        noise(h, rng, rng.randint(0, 3))
        h.new_sim(c, kind)
        s = len(h.sim) - 1
        noise(h, rng, rng.randint(0, 3))
        h.execute(s, 10)
        if rng.random() < 0.3:
            h.execute(s, 10)     # second execution of the same simulator
    return h


def corpus_histories():
    """Minimised failing histories (harness/corpus/c11.jsonl), run first."""
    out = []
    path = os.path.join(VERIF, "harness", "corpus", "c11.jsonl")
    for line in open(path):
        line = line.strip()
        if not line or line.startswith("#"):
            continue
        rec = json.loads(line)
        if rec.get("part") != "a":
            continue
        h = Hist()
        for op in rec["ops"]:
            if op[0] == "NewConfig":
                h.new_config(op[1])
            elif op[0] == "CopyConfig":
                h.copy_config(op[1])
            elif op[0] == "NewSimulator":
                h.new_sim(op[1], op[2])
            elif op[0] == "Execute":
                h.execute(op[1], op[3])
            elif op[0] == "GlobalDraw":
                h.global_draw()
            elif op[0] == "ReprConfig":
                h.repr_config(op[1])
            elif op[0] == "SetSeed":
                h.set_seed(op[1], op[2])
        h.name = rec.get("name")
        out.append(h)
    return out


def coq_op(op):
    n = op[0]
    if n == "NewConfig":
        return "NewConfig %s" % ("None" if op[1] is None else "(Some %s)" % cz(op[1]))
    if n == "CopyConfig":
        return "CopyConfig %d%%nat" % op[1]
    if n == "NewSimulator":
        return "NewSimulator %s" % ("None" if op[1] is None else "(Some %d%%nat)" % op[1])
    if n == "Execute":
        return None  # needs the prog id: see coq_hist
    if n == "GlobalDraw":
        return "GlobalDraw (0%nat, 1%nat)"
    if n == "ReprConfig":
        return "ReprConfig"
    if n == "SetSeed":
        return "SetSeed %d%%nat %s" % (op[1], cz(op[2]))
    raise ValueError(n)


def coq_hist(h):
    items = []
    ei = 0
    for op in h.ops:
        if op[0] == "Execute":
            e = h.exec[ei]
            ei += 1
            prog = KINDS.index(e["kind"]) + (100 if e["default"] else 0)
            items.append("Execute %d%%nat %s %d%%nat %d%%nat" % (op[1], SOURCE[e["kind"]], prog, op[3]))
        else:
            items.append(coq_op(op))
    return "[" + "; ".join(items) + "]"


def pattern_of(results, execs=None):
    """index of the first equal result, as in RngModel.pattern; results of different requests
    (kind, default config, shots) are never equal in the model, so they are not compared
    here either (short sample lists of different programs can coincide by chance)"""
    first = {}
    out = []
    for i, r in enumerate(results):
        tag = [execs[i]["kind"], execs[i]["default"], execs[i]["shots"]] if execs else None
        key = json.dumps([tag, r])
        first.setdefault(key, i)
        out.append(first[key])
    return out


def part_a(chk, corr_broken):
    T = chk.thorough
    # one world = one process (import of piquasso dominates the cost on a loaded machine)
    nworlds = 3 if T else 1
    nhist = 10 if T else 6
    blocks = 6 if T else 4
    worlds = []
    for w in range(nworlds):
        hs = (corpus_histories() + chunk_histories(T) if w == 0 else [])
        # every second history uses only the simulators that own their streams, so that a
        # defect of the global-state kind cannot mask everything else
        owned = [k for k in KINDS if SOURCE[k] != "PyDraw"]
        hs += [gen_history(chk.rng, KINDS if i % 2 == 0 else owned, blocks) for i in range(nhist)]
        worlds.append(hs)

    def run_world(args):
        w, dask, threads = args
        threads = threads or 2
        env = {"NUMBA_NUM_THREADS": str(threads), "OMP_NUM_THREADS": str(threads)}
        return run_impl("c11_impl.py", {"histories": [h.ops for h in worlds[w]], "dask": dask,
                                        "urandom_seed": 1000 + w + chk.seed, "global_seed": 99 + w},
                        timeout=3000, extra_env=env)

    # every world twice: sequential with two threads, dask with one thread
    # (thorough: a third run with 5 threads)
    jobs = [(w, False, None) for w in range(nworlds)] + [(w, True, 1) for w in range(nworlds)]
    if T:
        jobs += [(w, False, 5) for w in range(nworlds)]
    with ThreadPoolExecutor(max_workers=3) as ex:
        outs = list(ex.map(run_world, jobs))
    for o in outs:
        if os.path.realpath(o["loaded_from"]) != os.path.realpath(REPO):
            corr_broken.append("implementation loaded from %s, not from %s" % (o["loaded_from"], REPO))
    base = outs[:nworlds]

    # ---- model: equality pattern under each variant of the code
    variants = [("repaired", "mkVar false false"), ("seed0-defect", "mkVar true false"),
                ("global-defect", "mkVar false true"), ("current", "mkVar true true")]
    body = IMPORTS + """
Definition clear (w : world) : world := mkW (w_glob w) (w_cells w) [] [] (w_fresh w) [].
Fixpoint run_world (v : variant) (w : world) (hs : list (list op)) : list result :=
  match hs with
  | [] => []
  | h :: r => let w' := run v false (clear w) h in w_out w' ++ run_world v w' r
  end.
Definition worlds : list (list (list op)) := [%s].
%s
""" % (";\n".join("[" + ";\n ".join(coq_hist(h) for h in hs) + "]" for hs in worlds),
       "\n".join("Eval vm_compute in map (fun hs => pattern (run_world (%s) init_world hs)) worlds." % v
                 for _, v in variants))
    out = coq_eval("c11_rng", body)
    import re
    groups = re.findall(r"=\s*(\[.*?\])\s*:\s*list \(list Z\)", out, re.S)
    model_pats = {}
    for (name, _), g in zip(variants, groups):
        lists = re.findall(r"\[([^\[\]]*)\]", g)
        model_pats[name] = [[int(x) for x in re.findall(r"-?\d+", l)] for l in lists]
    if len(model_pats) != 4:
        corr_broken.append("could not parse the model's patterns")
        return
    nres = 0
    nontriv = 0
    matched = set(n for n, _ in variants)
    diffs = []
    for w in range(nworlds):
        flat = [r for hist in base[w]["results"] for r in hist]
        execs = [e for h in worlds[w] for e in h.exec]
        pat = pattern_of(flat, execs if len(execs) == len(flat) else None)
        nres += len(flat)
        nontriv += sum(1 for i, p in enumerate(pat) if p != i)
        execs = [e for h in worlds[w] for e in h.exec]
        for name, _ in variants:
            mp = model_pats[name][w]
            if mp != pat:
                matched.discard(name)
                i = next((k for k, (a, b) in enumerate(zip(mp, pat)) if a != b), None)
                if i is not None:
                    diffs.append("world %d, variant %s: result %d %s: model says first equal result is %d, implementation %d %s"
                                 % (w, name, i, execs[i], mp[i], pat[i], execs[min(mp[i], pat[i])]))
        if len(flat) != len(model_pats["repaired"][w]):
            corr_broken.append("world %d: %d results on the implementation, %d in the model"
                               % (w, len(flat), len(model_pats["repaired"][w])))
    chk.notes.append("equality pattern of the implementation agrees with the model variant(s): %s"
                     % (sorted(matched) or "none"))
    chk.stream("histories: equality pattern of all results, implementation vs provenance model",
               nres, nontriv,
               samples=[{"history": worlds[0][0].ops, "pattern": pattern_of([r for r in base[0]["results"][0]])}],
               note="%d worlds (processes) x %d histories; non-trivial = results equal to an earlier one" % (nworlds, len(worlds[0])))

    # ---- dask on/off and thread counts: the whole run must be identical
    neq = 0
    for j, (w, dask, threads) in enumerate(jobs):
        if j < nworlds:
            continue
        neq += 1
        if outs[j]["results"] != base[w]["results"]:
            a = [r for hist in base[w]["results"] for r in hist]
            b = [r for hist in outs[j]["results"] for r in hist]
            idx = next((i for i, (x, y) in enumerate(zip(a, b)) if x != y), None)
            execs = [e for h in worlds[w] for e in h.exec]
            kind = execs[idx]["kind"] if idx is not None and idx < len(execs) else "?"
            chk.violation("C11:%s:dask=%s,threads=%s" % (kind, dask, threads),
                          "samples differ between the sequential run and the run with use_dask=%s, %s thread(s)" % (dask, threads),
                          {"world": w, "result_index": idx, "execution": execs[idx] if idx is not None and idx < len(execs) else None,
                           "sequential": a[idx] if idx is not None else None,
                           "other": b[idx] if idx is not None else None,
                           "histories": [h.ops for h in worlds[w]]})
    chk.stream("same histories with use_dask=True and NUMBA_NUM_THREADS = OMP_NUM_THREADS = 1 (thorough: also 5) instead of 2: identical samples",
               neq * max(1, nres // nworlds), neq, kind="search")

    # ---- search: the property stated directly on the implementation
    nchecked = 0
    found = set()
    for w in range(nworlds):
        ref = {}
        for hi, h in enumerate(worlds[w]):
            for e, r in zip(h.exec, base[w]["results"][hi]):
                if not e["fresh"]:
                    continue
                k = (e["kind"], e["seed"], e["shots"])
                key = json.dumps(r)
                if k in ref:
                    nchecked += 1
                    if ref[k][0] != key:
                        if e["seed"] == 0:
                            vk = KEY_SEED0
                            what = "two fresh simulators with Config(seed_sequence=0) return different samples (0 is treated as 'no seed')"
                        elif SOURCE[e["kind"]] == "PyDraw":
                            vk = KEY_GLOBAL
                            what = ("two fresh simulators with the same seed return different samples: the Fock "
                                    "particle-number measurement draws from the process-global `random`, which "
                                    "every Config() reseeds and any random.random() advances")
                        else:
                            vk = "C11:%s:same-seed-different-samples" % e["kind"]
                            what = "two fresh simulators with the same seed return different samples"
                        if vk not in found:
                            found.add(vk)
                            chk.violation(vk, what, {"kind": e["kind"], "seed": e["seed"], "shots": e["shots"],
                                                     "first": {"history": ref[k][1], "samples": json.loads(ref[k][0])},
                                                     "second": {"history": h.ops, "samples": r}})
                else:
                    ref[k] = (key, h.ops)
        # different seeds (both honoured) -> different samples
        items = list(ref.items())
        for i in range(len(items)):
            for j in range(i + 1, len(items)):
                (k1, s1, n1), (r1, _) = items[i]
                (k2, s2, n2), (r2, _) = items[j]
                if k1 == k2 and n1 == n2 and s1 != s2:
                    nchecked += 1
                    if r1 == r2:
                        chk.violation("C11:%s:different-seeds-same-samples" % k1,
                                      "different seeds give the same sample sequence",
                                      {"kind": k1, "seeds": [s1, s2], "samples": json.loads(r1)})
    chk.stream("fresh simulators: same seed => same samples (any interleaving); different seeds => different samples (search)",
               nchecked, nchecked, kind="search")

    # consistency of the two: a defect variant of the model matches iff the search saw the defect
    if "repaired" not in matched:
        expect = set()
        if KEY_SEED0 in found:
            expect.add("seed0")
        if KEY_GLOBAL in found:
            expect.add("global")
        name = {frozenset(): "repaired", frozenset(["seed0"]): "seed0-defect",
                frozenset(["global"]): "global-defect", frozenset(["seed0", "global"]): "current"}[frozenset(expect)]
        if name not in matched:
            corr_broken.append("equality pattern of the implementation matches none of the model variants "
                               "consistent with the violations found (%s); first differences: %s"
                               % (sorted(found), [d for d in diffs if "variant " + name in d][:3]))
    return found


# =========================================================================== part (b)
def build_driver(corr_broken):
    src = os.path.join(REPO, "src")
    files = [os.path.join(VERIF, "native", "c11", "driver.cpp")] + \
        [os.path.join(src, f) for f in sorted(os.listdir(src)) if f.endswith((".cpp", ".hpp", ".h"))]
    hsh = hashlib.sha256()
    for f in files:
        hsh.update(f.encode())
        hsh.update(open(f, "rb").read())
    d = os.path.join(RUN, "c11")
    os.makedirs(d, exist_ok=True)
    exe = os.path.join(d, "driver-" + hsh.hexdigest()[:16])
    if not os.path.exists(exe):
        for old in os.listdir(d):
            if old.startswith("driver-"):
                os.remove(os.path.join(d, old))
        cmd = ["g++", "-std=c++17", "-O1", "-fopenmp", "-I", src, files[0],
               os.path.join(src, "permanent.cpp"), os.path.join(src, "permanent_laplace.cpp"),
               "-o", exe + ".tmp"]
        p = subprocess.run(cmd, capture_output=True, text=True, timeout=600)
        if p.returncode != 0:
            corr_broken.append("native driver does not compile against %s: %s" % (src, p.stderr[-1500:]))
            return None
        os.replace(exe + ".tmp", exe)
    return exe


def gen_perm_case(rng, big=False):
    n = rng.randint(2, 4)
    m = rng.randint(1, 4)
    while True:
        rows = [rng.randint(0, 3 if not big else 4) for _ in range(n)]
        tot = sum(rows)
        if tot == 0 or tot > (9 if big else 7):
            continue
        cols = [0] * m
        for _ in range(tot):
            cols[rng.randrange(m)] += 1
        break
    A = [[(rng.randint(-3, 3), rng.randint(-3, 3)) for _ in range(m)] for _ in range(n)]
    return {"A": A, "rows": rows, "cols": cols}


def idx_max_of(rows):
    """size of the Gray range after the row expansion of permanent_cpp"""
    nz = [r for r in rows if r != 0]
    if not nz:
        return 1
    mn = min(nz)
    i = rows.index(mn)
    rr = list(rows)
    rr[i] -= 1
    p = 1
    for r in rr:
        p *= r + 1
    return p


def part_b(chk, corr_broken):
    T = chk.thorough
    exe = build_driver(corr_broken)
    if exe is None:
        return
    ncases = 120 if T else 36
    cases = []
    path = os.path.join(VERIF, "harness", "corpus", "c11.jsonl")
    for line in open(path):
        line = line.strip()
        if line and not line.startswith("#"):
            rec = json.loads(line)
            if rec.get("part") == "b":
                cases.append({"A": [[tuple(x) for x in r] for r in rec["A"]], "rows": rec["rows"], "cols": rec["cols"]})
    while len(cases) < ncases:
        cases.append(gen_perm_case(chk.rng, big=T and chk.rng.random() < 0.3))
    hcs_base = list(range(0, 17))
    lines = []
    for c in cases:
        im = idx_max_of(c["rows"])
        c["idx_max"] = im
        hcs = list(hcs_base)
        if T:
            # every job count K <= min(idx_max, 128): K = 4*hc, or K = idx_max by clipping
            hcs += list(range(17, min(im, 128) // 4 + 2))
        else:
            hcs += [im // 4 + 1, 64]
        c["hcs"] = sorted(set(hcs))
        flat = " ".join("%d %d" % (re, imv) for r in c["A"] for (re, imv) in r)
        lines.append("P %d %d %s %s %s %d %s" % (len(c["A"]), len(c["A"][0]), flat,
                                                 " ".join(map(str, c["rows"])), " ".join(map(str, c["cols"])),
                                                 len(c["hcs"]), " ".join(map(str, c["hcs"]))))
    # Gray counter cases
    gcases = []
    ng = 200 if T else 60
    for _ in range(ng):
        nd = chk.rng.randint(1, 5)
        lim = [chk.rng.randint(1, 5) for _ in range(nd)]
        prod = 1
        for x in lim:
            prod *= x
        start = chk.rng.randrange(prod)
        steps = min(prod - 1 - start, chk.rng.randint(0, 40))
        gcases.append({"lims": lim, "start": start, "steps": steps})
    # beyond 2^31 (the static_cast<int> of the initial offset)
    big = [{"lims": [2] * 33, "start": 2 ** 31 + 5, "steps": 6},
           {"lims": [3, 5, 2] + [4] * 15, "start": 2 ** 31 + 123456789, "steps": 6},
           {"lims": [2] * 33, "start": 2 ** 31 - 3, "steps": 2}]
    gcases += big
    for g in gcases:
        lines.append("G %d %s %d %d" % (len(g["lims"]), " ".join(map(str, g["lims"])), g["start"], g["steps"]))
    p = subprocess.run([exe], input="\n".join(lines) + "\n", capture_output=True, text=True, timeout=1200)
    if p.returncode != 0:
        corr_broken.append("native driver failed (exit %d): %s" % (p.returncode, p.stderr[-1000:]))
        return
    pres = {}
    gres = {}
    for ln in p.stdout.splitlines():
        t = ln.split()
        if not t:
            continue
        if t[0] == "P":
            ci, hc = int(t[1]), int(t[2])
            perm = (float(t[3]), float(t[4]))
            rest = [float(x) for x in t[6:]]
            pres[(ci, hc)] = (perm, [(rest[2 * i], rest[2 * i + 1]) for i in range(len(rest) // 2)])
        elif t[0] == "G":
            ci = int(t[1]) - len(cases)
            body = " ".join(t[3:]).split(";")
            gres[ci] = ([int(x) for x in body[0].split()],
                        [x for x in body[1].split()],
                        [int(x) for x in body[2].split()])

    # ---- model values (exact, Gaussian integers), per case and per hc
    def cgi(z):
        return "(%s, %s)" % (cz(z[0]), cz(z[1]))

    chunks = []
    per = 6
    for i in range(0, len(cases), per):
        part = cases[i:i + per]
        items = []
        for c in part:
            items.append("(%s, %s, %s, %s)" % (clist(c["A"], lambda r: clist(r, cgi)), clist(c["rows"]),
                                               clist(c["cols"]), clist(c["hcs"])))
        chunks.append(IMPORTS + """
Definition pcases : list (list (list gi) * list Z * list Z * list Z) := [%s].
Definition flat (o : option gi) : list Z := match o with Some (a, b) => [1; a; b] | None => [0; 0; 0] end.
Definition flatl (o : option (list gi)) : list Z :=
  match o with Some l => 1 :: flat_map (fun '(a, b) => [a; b]) l | None => [0] end.
Eval vm_compute in flat_map (fun '(A, rows, cols, hcs) =>
  flat_map (fun hc => flat (perm_jobs_gi true hc A rows cols) ++ flatl (laplace_jobs_gi true hc A rows cols)) hcs) pcases.
(* the same cases in C04's transcription of the kernel (about which the thread-count theorems
   of Props/C11.v are stated): both models must return the same numerator *)
Definition c04_agrees (x : list (list gi) * list Z * list Z * list Z) : bool :=
  let '(A, rows, cols, hcs) := x in
  forallb (fun hc =>
    match C04.PermModel.permanent_cpp_zi 64 64 (Z.to_nat (Z.max hc 1)) A (map Z.to_nat rows) (map Z.to_nat cols),
          perm_jobs_gi true hc A rows cols with
    | C04.PermModel.Ok (n, _), Some m => gi_eqb n m
    | _, _ => false
    end) hcs.
Eval vm_compute in mismatches c04_agrees pcases.
""" % ";\n".join(items))
    from common import coq_eval_parallel
    outs = coq_eval_parallel("c11_perm", chunks, jobs=4)
    neval = 0
    hc0_bad = []
    other_bad = []
    for ci_chunk, o in enumerate(outs):
        groups_ = parse_coq_list(o)
        vals = groups_[0]
        for k in (groups_[1] if len(groups_) > 1 else [-1]):
            corr_broken.append("C11's and C04's models of permanent_cpp disagree on native case %s"
                               % (ci_chunk * per + k if k >= 0 else "(no answer)"))
        pos = 0
        for c_off, c in enumerate(cases[ci_chunk * per:(ci_chunk + 1) * per]):
            ci = ci_chunk * per + c_off
            ncol = len(c["cols"])
            denom = 2 ** (sum(c["rows"]) - 1)
            for hc in c["hcs"]:
                okp, re_, im_ = vals[pos:pos + 3]
                pos += 3
                okl = vals[pos]
                pos += 1
                lap = []
                if okl:
                    lap = [(vals[pos + 2 * k], vals[pos + 2 * k + 1]) for k in range(ncol)]
                    pos += 2 * ncol
                neval += 1
                if not okp or not okl:
                    corr_broken.append("model returns no value for case %d hc=%d" % (ci, hc))
                    continue
                got = pres.get((ci, hc))
                if got is None:
                    corr_broken.append("driver printed nothing for case %d hc=%d" % (ci, hc))
                    continue
                exact = [Fraction(re_, denom), Fraction(im_, denom)]
                for a, b in lap:
                    exact += [Fraction(a, denom), Fraction(b, denom)]
                impl = [got[0][0], got[0][1]] + [x for ab in got[1] for x in ab]
                if len(impl) != len(exact):
                    bad = True
                else:
                    bad = any(abs(x - float(e)) > 1e-9 * (1 + abs(float(e))) for x, e in zip(impl, exact))
                if bad:
                    rec = {"A": c["A"], "rows": c["rows"], "cols": c["cols"], "hardware_concurrency": hc,
                           "jobs": min(4 * hc, c["idx_max"]), "idx_max": c["idx_max"],
                           "exact": [str(e) for e in exact], "implementation": impl,
                           "call": "permanent_cpp<double> / permanent_laplace_cpp<double> compiled from src/"}
                    (hc0_bad if hc == 0 else other_bad).append(rec)
    if hc0_bad:
        chk.violation(KEY_HC0, "std::thread::hardware_concurrency() == 0 (allowed by the C++ standard) gives zero jobs: "
                               "permanent_cpp / permanent_laplace_cpp return 0", hc0_bad[0])
    for rec in other_bad[:5]:
        chk.violation("C11:permanent_cpp:job-partition:jobs=%d,idx_max=%d" % (rec["jobs"], rec["idx_max"]),
                      "native permanent differs from the exact value for this job count", rec)
    nontriv = sum(len(c["hcs"]) for c in cases if c["idx_max"] >= 4)
    chk.stream("native permanent + Laplace permanents, hardware_concurrency forced to %s: exact model value vs kernel"
               % ("0..16 and every K<=min(idx_max,128)" if T else "0..16, idx_max/4+1, 64"),
               neval, nontriv, samples=[{k: cases[-1][k] for k in ("A", "rows", "cols", "idx_max")}],
               note="%d matrices over Z[i], entries in [-3,3]^2, multiplicities <= %d" % (len(cases), 4 if T else 3))

    # search: the kernel value must not depend on the job count
    nind = 0
    for ci, c in enumerate(cases):
        vals = [(hc, pres.get((ci, hc))) for hc in c["hcs"] if hc != 0]
        vals = [(hc, v) for hc, v in vals if v is not None]
        if not vals:
            continue
        ref = vals[0][1]
        for hc, v in vals[1:]:
            nind += 1
            a = [ref[0][0], ref[0][1]] + [x for ab in ref[1] for x in ab]
            b = [v[0][0], v[0][1]] + [x for ab in v[1] for x in ab]
            scale = max(1.0, max(abs(x) for x in a))
            if len(a) != len(b) or any(abs(x - y) > 1e-12 * scale for x, y in zip(a, b)):
                chk.violation("C11:permanent_cpp:depends-on-job-count:jobs=%d,idx_max=%d" % (min(4 * hc, c["idx_max"]), c["idx_max"]),
                              "the native permanent depends on the number of jobs",
                              {"A": c["A"], "rows": c["rows"], "cols": c["cols"], "hc_ref": vals[0][0], "hc": hc, "ref": a, "got": b})
    chk.stream("native permanent: value independent of the job count (search, float vs float, 1e-12)", nind, nind, kind="search")

    # ---- Gray counter vs model, digit by digit
    items = []
    for g in gcases:
        items.append("(%s, %s, %d%%nat)" % (clist(g["lims"]), cz(g["start"]), g["steps"]))
    body = IMPORTS + """
(* construct 64: the model of the repaired code (64-bit offset); construct 32: as it was *)
Fixpoint trace (n : nat) (c : counter) : list Z :=
  match n with O => [] | S m => match next c with
    | Some (c', i, pv, v) => [Z.of_nat i; pv; v] ++ trace m c' | None => [-1] end end.
Fixpoint last_gray (n : nat) (c : counter) : list Z :=
  match n with O => c_gray c | S m => match next c with Some (c', _, _, _) => last_gray m c' | None => c_gray c end end.
Definition gcases : list (list Z * Z * nat) := [%s].
Eval vm_compute in flat_map (fun '(lims, o, n) => match construct 64 lims o with
  | Some c => (c_gray c ++ [-7] ++ trace n c ++ [-7] ++ last_gray n c ++ [-9]) | None => [-8; -9] end) gcases.
Eval vm_compute in map (fun '(lims, o, n) => match construct 32 lims o with Some _ => 1 | None => 0 end) gcases.
""" % ";\n".join(items)
    gl = parse_coq_list(coq_eval("c11_gray", body))
    flat, castok = gl[0], gl[1]
    recs = []
    cur = []
    for x in flat:
        if x == -9:
            recs.append(cur)
            cur = []
        else:
            cur.append(x)
    ngood = 0
    cast_reported = False
    for gi_, (g, rec) in enumerate(zip(gcases, recs)):
        got = gres.get(gi_)
        parts = []
        curp = []
        for x in rec:
            if x == -7:
                parts.append(curp)
                curp = []
            else:
                curp.append(x)
        parts.append(curp)
        ok = got is not None and len(parts) == 3 and got[0] == parts[0] and \
            [int(x) for x in got[1] if x != "end"] == [x for x in parts[1] if x != -1] and got[2] == parts[2]
        if ok:
            ngood += 1
        else:
            w = {"limits": g["lims"], "initial_offset": g["start"], "steps": g["steps"],
                 "model": parts, "implementation": got,
                 "call": "n_aryGrayCodeCounter(limits, n, initial_offset) / next"}
            if g["start"] > 2 ** 31 - 1:
                if cast_reported:
                    continue
                cast_reported = True
                chk.violation(KEY_CAST, "initialize() casts the 64-bit initial offset to int: for offsets >= 2^31 "
                              "(reached by the jobs of a permanent with >= 2^31 terms) the Gray code is wrong", w)
            else:
                corr_broken.append("Gray counter model != implementation at limits=%s offset=%d" % (g["lims"], g["start"]))
                chk.violation("C11:n_aryGrayCodeCounter:limits=%s" % g["lims"], "Gray counter differs from the model", w)
    if [c for g, c in zip(gcases, castok) if g["start"] > 2 ** 31 - 1 and c == 1]:
        corr_broken.append("model of the int cast accepts an offset >= 2^31")
    chk.stream("n_aryGrayCodeCounter: initial code, (index, previous, value) of every step and final code vs model",
               len(gcases), sum(1 for g in gcases if g["steps"] >= 2 and len(g["lims"]) >= 2),
               samples=[gcases[0]], note="%d agree; includes %d offsets beyond 2^31" % (ngood, len(big)))


# =========================================================================== thread sweep
SWEEP = [1, 2, 5, 16]


def start_sweep(chk):
    ex = ThreadPoolExecutor(max_workers=4)
    futs = {t: ex.submit(run_impl, "c11_threads_impl.py", {"seed": 40 + chk.seed}, 1500,
                         {"NUMBA_NUM_THREADS": str(t), "OMP_NUM_THREADS": str(t),
                          "OPENBLAS_NUM_THREADS": str(t)}) for t in SWEEP}
    return ex, futs


def finish_sweep(chk, sweep, corr_broken):
    ex, futs = sweep
    res = {}
    for t, f in futs.items():
        try:
            res[t] = f.result()
        except Exception as e:  # a crash under some thread count is a finding, not a skip
            chk.violation("C11:thread-sweep:threads=%d:crash" % t, "runner failed with %d threads" % t,
                          {"threads": t, "error": str(e)[-800:]})
    ex.shutdown()
    if 1 not in res:
        corr_broken.append("thread sweep: no result for 1 thread")
        return

    def leaves(x):
        if isinstance(x, list):
            for y in x:
                yield from leaves(y)
        else:
            yield float(x)

    ref = res[1]
    n = 0
    names = [k for k in ref if k not in ("loaded_from", "numba_threads")]
    for t, r in res.items():
        if os.path.realpath(r["loaded_from"]) != os.path.realpath(REPO):
            corr_broken.append("thread sweep loaded piquasso from %s" % r["loaded_from"])
        if r["numba_threads"] != t:
            corr_broken.append("thread sweep: asked for %d numba threads, got %d" % (t, r["numba_threads"]))
        if t == 1:
            continue
        for k in names:
            a, b = list(leaves(ref[k])), list(leaves(r.get(k, [])))
            n += len(a)
            scale = max([abs(x) for x in a] + [1e-300])
            bad = len(a) != len(b) or any(abs(x - y) > 1e-12 * scale and abs(x - y) > 1e-10 * abs(x)
                                          for x, y in zip(a, b))
            if bad:
                i = next((i for i, (x, y) in enumerate(zip(a, b)) if abs(x - y) > 1e-12 * scale), 0)
                chk.violation("C11:%s:threads=%d" % (k, t),
                              "%s differs between 1 and %d threads (NUMBA_NUM_THREADS = OMP_NUM_THREADS)" % (k, t),
                              {"quantity": k, "threads": t, "index": i, "one_thread": a[i] if a else None,
                               "other": b[i] if i < len(b) else None, "seed": 40 + chk.seed,
                               "call": "harness/impl/c11_threads_impl.py"})
    chk.stream("differential test (no theorem): hafnian / loop hafnian probabilities, torontonian, interferometer on Fock space, "
               "permanent with NUMBA_NUM_THREADS = OMP_NUM_THREADS in {1,2,5,16}: equal within 1e-12 of the largest entry",
               n, n, kind="differential test (no theorem)",
               samples=[{"quantity": "hafnian", "values_1_thread": ref["hafnian"][:3]}])


# =========================================================================== entry
def run(chk: Check):
    chk.proofs()
    corr_broken = []
    only = os.environ.get("C11_ONLY", "ab")
    sweep = start_sweep(chk)
    if "b" in only:
        part_b(chk, corr_broken)
    if "a" in only:
        part_a(chk, corr_broken)
    finish_sweep(chk, sweep, corr_broken)
    chk.assumptions += [
        "streams of different (library, seed) are independent and distinct seeds give distinct streams (property of PCG64 / MT19937; not modelled)",
        "the number of raw values a sampling call consumes is a function of the generator state and the request (so equal (stream, requests served) means equal generator state)",
        "os.urandom never returns the same 8 bytes twice and never a user's seed (the harness replaces it by a deterministic stream so that the check is a function of VERIF_SEED)",
        "binomial_coeff of the native permanent is modelled with unbounded integers (its 32-bit overflow is property C04)",
        "OpenMP executes each loop iteration exactly once with its own thread_results slot; data races inside OpenMP/numba are outside the model",
    ]
    chk.finish(
        rule="histories: one evaluation per execution result, non-trivial = equal to an earlier result (a reproduced sample list); native: one evaluation per (matrix, forced hardware_concurrency), non-trivial = Gray range of at least 4 offsets; Gray counter: cases with >= 2 digits and >= 2 steps",
        explanation="Theorems of coq/theories/Props/C11.v: (a) for every history, two fresh simulators with the same seed return the same symbolic result in the model of the repaired code (refuted, with witnesses, for the tree as it was); dask branch = sequential branch; (b) the Gray map is a bijection, consecutive codes differ in one digit by one, initialize(o)=next^o(initialize 0), the job ranges partition [0,idx_max) for every job count and the job sums add up to the same total in any monoid; for C04's model of the kernel (incremental state proved) permanent_cpp / permanent_laplace_cpp return the same outcome, 2^e * perm_def, for every thread count >= 1. Tie: equality patterns of real sample lists vs the model for generated histories (one process per world, os.urandom scripted); freshly compiled src/permanent*.cpp with hardware_concurrency forced vs the exact value of the model's job loop over Z[i]; the Gray counter digit by digit.",
        correspondence_broken=corr_broken,
    )
