(* C18 -- positional parameter mapping between piquasso instructions and Blackbird operations
   (definitions only).  Transcribes piquasso/core/_blackbird.py:
   _PQ_TO_BB_MAP, _piquasso_instruction_to_blackbird_operation, _get_instruction_params,
   _blackbird_operation_to_instruction.  The table itself (C18/BlackbirdGen.v) is regenerated
   from the working tree on every run. *)
From Coq Require Import String List ZArith Bool.
Import ListNotations.

Record bb_row := mkRow {
  bb_name : string;                 (* key of _BB_TO_PQ_MAP *)
  pq_name : string;                 (* value: instruction class name *)
  sig_params : list string;         (* inspect.signature(cls).parameters, in order *)
  sig_has_default : list bool;
  params_src : list (string * nat); (* keys of cls(...).params in dict order, each with the index
                                       of the constructor parameter whose value it holds *)
  n_modes : option Z                (* NUMBER_OF_MODES *)
}.

Section BB.
Variable V : Type.
(* default of parameter #j of a class (inspect's `empty` marker for a required one) *)
Variable dflt : string -> nat -> V.

Fixpoint mapM' {X Y} (f : X -> option Y) (l : list X) : option (list Y) :=
  match l with
  | [] => Some []
  | a :: r => match f a, mapM' f r with Some b, Some bs => Some (b :: bs) | _, _ => None end
  end.

(* cls( **kwargs).params, kwargs given in signature order *)
Definition construct (r : bb_row) (kw : list V) : option (list (string * V)) :=
  mapM' (fun kj => match nth_error kw (snd kj) with Some v => Some (fst kj, v) | None => None end)
        (params_src r).

Definition find_bb (T : list bb_row) (op : string) : option bb_row :=
  find (fun r => String.eqb (bb_name r) op) T.
(* _PQ_TO_BB_MAP = {v: k for k, v in _BB_TO_PQ_MAP.items()}: a later row wins *)
Definition find_pq (T : list bb_row) (cls : string) : option bb_row :=
  find (fun r => String.eqb (pq_name r) cls) (rev T).

(* _piquasso_instruction_to_blackbird_operation: op, args = list(params.values()), modes;
   None = PiquassoException "cannot be exported" *)
Definition export (T : list bb_row) (cls : string) (params : list (string * V)) (modes : list Z)
  : option (string * list V * list Z) :=
  match find_pq T cls with
  | Some r => Some (bb_name r, map snd params, modes)
  | None => None
  end.

(* _get_instruction_params: defaults overlaid by zip(names, args) *)
Definition overlay (r : bb_row) (args : list V) : list V :=
  map (fun j => match nth_error args j with Some a => a | None => dflt (pq_name r) j end)
      (seq 0 (length (sig_params r))).

(* _blackbird_operation_to_instruction; None = "not implemented in piquasso" *)
Definition import (T : list bb_row) (op : string) (args : list V) (modes : list Z)
  : option (string * list (string * V) * list Z) :=
  match find_bb T op with
  | Some r => match construct r (overlay r args) with
              | Some p => Some (pq_name r, p, modes)
              | None => None
              end
  | None => None
  end.

(* the round trip of one row, for every value list of the right length *)
Definition row_roundtrips (T : list bb_row) (r : bb_row) : Prop :=
  forall (vs : list V) (modes : list Z), length vs = length (sig_params r) ->
  exists p, construct r vs = Some p /\
            map fst p = sig_params r /\ map snd p = vs /\
            export T (pq_name r) p modes = Some (bb_name r, vs, modes) /\
            import T (bb_name r) vs modes = Some (pq_name r, p, modes).
End BB.
