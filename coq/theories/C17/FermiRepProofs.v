(* C17 - the sector representations computed by calculate_interferometer_on_fermionic_fock_space
   are the compound (minor) matrices, for every d and every sector; the generic and the numba
   variant are the same function. *)
From Coq Require Import ZArith List Bool Lia ZifyBool.
From PV Require Import Comb.FockModel Comb.Binom Comb.FermiModel Comb.FermiProofs
  C17.FermiRepModel C17.FermiWalkProofs.
Import ListNotations.
Open Scope Z_scope.

Lemma map_seq_nth {T S} (g : T -> S) (W : list T) dflt :
  map g W = map (fun i => g (nth i W dflt)) (seq 0 (length W)).
Proof.
  induction W as [|a W IH]; [reflexivity|].
  cbn [length seq map nth]. f_equal. rewrite <- seq_shift, map_map. exact IH.
Qed.

Lemma zmget_map (f : list Z -> nat -> Z) (W : list (list Z)) n i k :
  (i < length W)%nat -> (k < n)%nat ->
  zmget (map (fun X => map (fun k => f X k) (seq 0 n)) W) i k = f (nth i W []) k.
Proof.
  intros Hi Hk. unfold zmget.
  rewrite (nth_map' (fun X => map (fun k => f X k) (seq 0 n)) W [] []) by assumption.
  rewrite (nth_map' (fun k => f (nth i W []) k) (seq 0 n) 0 0%nat) by (rewrite seq_length; assumption).
  rewrite seq_nth by assumption. reflexivity.
Qed.

Lemma del_nth_0 {T} (X : list T) : del_nth 0 X = tl X.
Proof. destruct X; reflexivity. Qed.

Section RepProofs.
Variable A : Type.
Variables (zero one : A) (add mul : A -> A -> A) (opp : A -> A).

Local Notation mget := (mget A zero).
Local Notation sgn := (sgn A one opp).
Local Notation lap_sum := (lap_sum A zero add).
Local Notation lminor := (lminor A zero one add mul opp).
Local Notation laplace_entry := (laplace_entry A zero one add mul opp).
Local Notation rep_sector_generic := (rep_sector_generic A zero one add mul opp).
Local Notation rep_sector_numba := (rep_sector_numba A zero one add mul opp).
Local Notation reps_generic := (reps_generic A zero one add mul opp).
Local Notation reps_numba := (reps_numba A zero one add mul opp).

Lemma fold_add_ext (f g : nat -> A) : forall l acc,
  (forall k, In k l -> f k = g k) ->
  fold_left (fun s k => add s (f k)) l acc = fold_left (fun s k => add s (g k)) l acc.
Proof.
  induction l as [|a l IH]; intros acc H; [reflexivity|].
  cbn [fold_left]. rewrite (H a) by (left; reflexivity). apply IH.
  intros k Hk. apply H. right. exact Hk.
Qed.

Lemma lap_sum_ext n (f g : nat -> A) :
  (forall k, (k < n)%nat -> f k = g k) -> lap_sum n f = lap_sum n g.
Proof.
  intros H. unfold FermiRepModel.lap_sum. apply fold_add_ext. intros k Hk.
  apply in_seq in Hk. apply H. lia.
Qed.

(* ---------------- the two code variants are the same function (no ring law needed) *)
Theorem rep_sector_variants_agree U d n prev :
  rep_sector_numba U d n prev = rep_sector_generic U d n prev.
Proof.
  unfold FermiRepModel.rep_sector_numba, FermiRepModel.rep_sector_generic, precalc.
  cbv beta iota zeta. rewrite map_length.
  set (W := fq_walk d n).
  rewrite (map_seq_nth (fun R => map (fun C => laplace_entry U prev d n R C) W) W []).
  apply map_ext_in. intros row Hrow. apply in_seq in Hrow.
  rewrite (map_seq_nth (fun C => laplace_entry U prev d n (nth row W []) C) W []).
  apply map_ext_in. intros col Hcol. apply in_seq in Hcol.
  unfold FermiRepModel.laplace_entry. apply lap_sum_ext. intros k Hk.
  rewrite (zmget_map (fun X k => nth k X 0) W n row 0) by lia.
  rewrite (zmget_map (fun X k => nth k X 0) W n col k) by lia.
  rewrite (zmget_map (fun X k => f_subspace_index_fq (del_nth k X) d) W n row 0) by lia.
  rewrite (zmget_map (fun X k => f_subspace_index_fq (del_nth k X) d) W n col k) by lia.
  rewrite del_nth_0.
  replace (nth 0 (nth row W []) 0) with (hd 0 (nth row W [])) by (destruct (nth row W []); reflexivity).
  reflexivity.
Qed.

Lemma reps_from_ext (s1 s2 : nat -> list (list A) -> list (list A)) :
  (forall n p, s1 n p = s2 n p) ->
  forall c m p, reps_from A s1 c m p = reps_from A s2 c m p.
Proof.
  intros H. induction c as [|c IH]; intros m p; [reflexivity|].
  cbn [reps_from]. rewrite H. f_equal. apply IH.
Qed.

Theorem variants_agree U cutoff : reps_numba U cutoff = reps_generic U cutoff.
Proof.
  unfold FermiRepModel.reps_numba, FermiRepModel.reps_generic, reps_with.
  destruct cutoff as [|[|[|c]]]; try reflexivity.
  do 2 f_equal. apply reps_from_ext. intros n p. apply rep_sector_variants_agree.
Qed.

(* ---------------- representation = minors *)
Hypothesis add_0_l : forall x, add zero x = x.
Hypothesis mul_1_l : forall x, mul one x = x.
Hypothesis mul_1_r : forall x, mul x one = x.

Definition valid (d n : nat) (X : list Z) : Prop := incr 0 X (Z.of_nat d) /\ length X = n.
Definition rank (d : nat) (X : list Z) : Z := f_subspace_index_fq X (Z.of_nat d).

Definition is_minor (U : list (list A)) (d n : nat) (M : list (list A)) : Prop :=
  forall R C, valid d n R -> valid d n C ->
    mget M (rank d R) (rank d C) = lminor (mget U) R C.

Lemma minor_sector_0 U d : is_minor U d 0 [[one]].
Proof.
  intros R C [_ LR] [_ LC]. destruct R; [|discriminate]. destruct C; [|discriminate].
  reflexivity.
Qed.

Lemma minor_sector_1 U d : is_minor U d 1 U.
Proof.
  intros R C [HR LR] [HC LC].
  destruct R as [|r [|]]; try discriminate. destruct C as [|c [|]]; try discriminate.
  destruct HR as [Hr _]. destruct HC as [Hc _].
  unfold rank. rewrite !rank_single by lia.
  cbn [FermiRepModel.lminor length]. unfold FermiRepModel.lap_sum. cbn [seq fold_left nth].
  change (del_nth 0 [c]) with (@nil Z). cbn [FermiRepModel.lminor].
  unfold FermiRepModel.sgn. cbn [Nat.even].
  rewrite add_0_l, mul_1_r, mul_1_l. reflexivity.
Qed.

Lemma minor_sector_step U d n prev :
  is_minor U d n prev ->
  is_minor U d (S n) (rep_sector_generic U (Z.of_nat d) (S n) prev).
Proof.
  intros IH R C [HR LR] [HC LC].
  unfold FermiRepModel.rep_sector_generic. rewrite fq_walk_sector.
  destruct (valid_pos d (S n) R HR LR) as [Hi Ei].
  destruct (valid_pos d (S n) C HC LC) as [Hj Ej].
  unfold FermiRepModel.mget at 1. unfold rank.
  rewrite (nth_map' (fun R0 => map (fun C0 => laplace_entry U prev (Z.of_nat d) (S n) R0 C0)
                                   (fq_sector d (S n))) (fq_sector d (S n)) [] []) by assumption.
  rewrite Ei.
  rewrite (nth_map' (fun C0 => laplace_entry U prev (Z.of_nat d) (S n) R C0)
                    (fq_sector d (S n)) zero []) by assumption.
  rewrite Ej.
  destruct R as [|r0 R']; [discriminate|].
  unfold FermiRepModel.laplace_entry. cbn [hd tl FermiRepModel.lminor]. rewrite LC.
  apply lap_sum_ext. intros k Hk. f_equal.
  destruct HR as [Hr0 HR'].
  apply IH.
  - split; [apply (incr_weaken R' (r0 + 1)); [assumption|lia]|]. cbn [length] in LR. lia.
  - split; [apply incr_del; assumption|]. rewrite del_nth_length by lia. lia.
Qed.

Lemma reps_from_minor U d (sector : nat -> list (list A) -> list (list A)) :
  (forall n prev, is_minor U d n prev -> is_minor U d (S n) (sector (S n) prev)) ->
  forall c m prev, is_minor U d m prev ->
  forall j, (j < c)%nat -> is_minor U d (S m + j) (nth j (reps_from A sector c (S m) prev) []).
Proof.
  intros Hs. induction c as [|c IH]; intros m prev Hp j Hj; [lia|].
  cbn [reps_from]. destruct j as [|j].
  - cbn [nth]. rewrite Nat.add_0_r. apply Hs, Hp.
  - cbn [nth]. replace (S m + S j)%nat with (S (S m) + j)%nat by lia.
    apply IH; [apply Hs, Hp|lia].
Qed.

(* for every d = len U, every cutoff and every sector n < cutoff: entry (rank R, rank C) of the
   n-th representation is the first-row Laplace minor of U on rows R and columns C *)
Theorem reps_generic_minor U cutoff n : (n < cutoff)%nat ->
  is_minor U (length U) n (nth n (reps_generic U cutoff) []).
Proof.
  intros Hn. unfold FermiRepModel.reps_generic, reps_with.
  destruct cutoff as [|[|[|c]]].
  - lia.
  - assert (n = 0%nat) by lia. subst. apply minor_sector_0.
  - destruct n as [|[|]]; [apply minor_sector_0|apply minor_sector_1|lia].
  - destruct n as [|[|j]]; [apply minor_sector_0|apply minor_sector_1|].
    cbn [nth]. change (S (S j)) with (2 + j)%nat.
    apply (reps_from_minor U (length U)); [|apply minor_sector_1|lia].
    intros m prev Hp. apply minor_sector_step. exact Hp.
Qed.

Corollary reps_numba_minor U cutoff n : (n < cutoff)%nat ->
  is_minor U (length U) n (nth n (reps_numba U cutoff) []).
Proof. rewrite variants_agree. apply reps_generic_minor. Qed.

End RepProofs.

(* closed instance over Z: the hypotheses are satisfiable *)
Theorem reps_generic_minor_Z (U : list (list Z)) cutoff n R C : (n < cutoff)%nat ->
  valid (length U) n R -> valid (length U) n C ->
  FermiRepModel.mget Z 0 (nth n (FermiRepModel.reps_generic Z 0 1 Z.add Z.mul Z.opp U cutoff) [])
                     (rank (length U) R) (rank (length U) C)
  = FermiRepModel.lminor Z 0 1 Z.add Z.mul Z.opp (FermiRepModel.mget Z 0 U) R C.
Proof.
  intros Hn HR HC.
  apply (reps_generic_minor Z 0 1 Z.add Z.mul Z.opp Z.add_0_l Z.mul_1_l Z.mul_1_r U cutoff n Hn R C HR HC).
Qed.
