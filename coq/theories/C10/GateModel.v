(* C10 — model of applying a gate to the state vector through index matrices
   (gather - matmul - scatter) and of the two hand-written gradient functions.

   piquasso/_simulators/fock/pure/simulation_steps/__init__.py:
       _calculate_state_vector_after_apply_active_gate     -> apply_blocks (active_blocks M Is)
       _create_linear_active_gate_gradient_function        -> grad_state, active_grad_matrix
   piquasso/_simulators/fock/pure/simulation_steps/passive_linear.py:
       _calculate_state_vector_after_interferometer        -> apply_blocks (combine Ms Is)
       _create_linear_passive_gate_gradient_function       -> grad_state, passive_grad_matrices

   A state vector is a function  index -> batch -> T  (shape (N, bs)); the unbatched code path
   (einsum strings without the batch letter) is the case bs = 1.  An index matrix is an integer
   array of shape (ilim, isz).  Definitions only. *)
From Coq Require Import List Arith Bool.
From PV Require Import C10.Alg.
Import ListNotations.

Record imat : Type := mkImat { ilim : nat; isz : nat; ix : nat -> nat -> nat }.

(* an ndarray given as list of rows *)
Definition imat_of_lists (I : list (list nat)) : imat :=
  mkImat (length I) (length (hd [] I)) (fun a k => nth k (nth a I []) 0).

(* indices.reshape(-1): row-major *)
Definition order_of (I : imat) : list nat :=
  flat_map (fun a => map (fun k => ix I a k) (seq 0 (isz I))) (seq 0 (ilim I)).

Section Gate.
  Context {T : Type} (O : Ops T).
  Definition vec := nat -> nat -> T.
  Definition mat := nat -> nat -> T.

  (* connector.assign(new_state_vector, index, value) for one target row *)
  Definition upd (f : vec) (i : nat) (row : nat -> T) : vec :=
    fun k l => if k =? i then row l else f k l.

  Definition scatter (pairs : list (nat * (nat -> T))) (init : vec) : vec :=
    fold_left (fun acc p => upd acc (fst p) (snd p)) pairs init.

  (* einsum("ij,jkl->ikl", matrix[:limit,:limit], state_vector[indices]) paired with its targets *)
  Definition fwd_products (M : mat) (I : imat) (v : vec) : list (nat * (nat -> T)) :=
    flat_map (fun a => map (fun k =>
        (ix I a k, fun l => sum_map O (fun b => omul O (M a b) (v (ix I b k) l)) (seq 0 (ilim I))))
      (seq 0 (isz I))) (seq 0 (ilim I)).

  (* the loop over the index matrices; [init] is np.empty_like (arbitrary content) *)
  Definition apply_blocks (blocks : list (mat * imat)) (v init : vec) : vec :=
    fold_left (fun acc MI => scatter (fwd_products (fst MI) (snd MI) v) acc) blocks init.

  Definition active_blocks (M : mat) (Is : list imat) : list (mat * imat) :=
    map (fun I => (M, I)) Is.

  (* einsum("ji,jkl->ikl", conj(matrix)[:limit,:limit], upstream[indices]) with order_by *)
  Definition bwd_products (M : mat) (I : imat) (g : vec) : list (nat * (nat -> T)) :=
    flat_map (fun i => map (fun k =>
        (ix I i k, fun l => sum_map O (fun j => omul O (oconj O (M j i)) (g (ix I j k) l)) (seq 0 (ilim I))))
      (seq 0 (isz I))) (seq 0 (ilim I)).

  Definition all_bwd_products (blocks : list (mat * imat)) (g : vec) : list (nat * (nat -> T)) :=
    flat_map (fun MI => bwd_products (fst MI) (snd MI) g) blocks.

  (* np.concatenate(unordered)[np.concatenate(order_by).argsort()] : entry k is the product
     whose target is k (the position of k in the concatenated order) *)
  Definition grad_state (blocks : list (mat * imat)) (g : vec) : vec :=
    fun k l => match find (fun p => fst p =? k) (all_bwd_products blocks g) with
               | Some p => snd p l
               | None => o0 O
               end.

  (* einsum("ijl,kjl->ki", conj(state_vector)[indices], upstream[indices]) *)
  Definition partial_grad (I : imat) (bs : nat) (v g : vec) : mat :=
    fun k i => sum_map O (fun j => sum_map O (fun l =>
                 omul O (oconj O (v (ix I i j) l)) (g (ix I k j) l)) (seq 0 bs)) (seq 0 (isz I)).

  (* gradient_by_matrix[:limit,:limit] += partial  /  += np.pad(partial, ...) *)
  Definition active_grad_matrix (Is : list imat) (bs : nat) (v g : vec) : mat :=
    fun k i => sum_map O (fun I =>
      if (k <? ilim I) && (i <? ilim I) then partial_grad I bs v g k i else o0 O) Is.

  Definition passive_grad_matrices (Is : list imat) (bs : nat) (v g : vec) : list mat :=
    map (fun I => partial_grad I bs v g) Is.

  (* pairings:  <x, y> = sum x * conj y  *)
  Definition pair_vec (N bs : nat) (x y : vec) : T :=
    sum_map O (fun k => sum_map O (fun l => omul O (x k l) (oconj O (y k l))) (seq 0 bs)) (seq 0 N).
  Definition pair_sq (n : nat) (X Y : mat) : T :=
    sum_map O (fun a => sum_map O (fun b => omul O (X a b) (oconj O (Y a b))) (seq 0 n)) (seq 0 n).
End Gate.

(* ---- the derivative of the application: dual numbers in both arguments *)
Definition dvec {T} (v dv : nat -> nat -> T) : nat -> nat -> T * T := fun k l => (v k l, dv k l).
Definition D_apply {T} (O : Ops T) (blocks dblocks : list (mat (T:=T) * imat)) (v dv init : vec (T:=T)) : vec (T:=T) :=
  fun k l => epsp (apply_blocks (dualOps O)
      (map (fun p => (dvec (fst (fst p)) (fst (snd p)), snd (fst p))) (combine blocks dblocks))
      (dvec v dv) (dvec init init) k l).

(* ---- helpers for the cases files: arrays as lists *)
Definition vec_of_lists {T} (O : Ops T) (v : list (list T)) : nat -> nat -> T :=
  fun k l => nth l (nth k v []) (o0 O).
Definition vec_to_lists {T} (N bs : nat) (v : nat -> nat -> T) : list (list T) :=
  map (fun k => map (fun l => v k l) (seq 0 bs)) (seq 0 N).
Definition mat_to_lists {T} (n m : nat) (M : nat -> nat -> T) : list (list T) :=
  map (fun a => map (fun b => M a b) (seq 0 m)) (seq 0 n).
