(* C17 - a sector block of a unitary preserves sum x * conj x.
   (A) matrix form: M M^dagger = 1 implies norm2 (M x) = norm2 x, over any commutative ring
       with a conjugation morphism;
   (B) on the model's Laplace minors: for U unitary, the n-th compound block
       y_f = sum_h lminor U f h * x_h  preserves  sum_f y_f * conj y_f, for all d and n. *)
From mathcomp Require Import all_ssreflect all_algebra.
From CoqEAL Require Import minor binetcauchy.
From PV Require C17.FermiRepDetMC.
From PV Require Import C17.FermiCompoundMC C17.FermiCompoundModelMC.

Set Implicit Arguments.
Unset Strict Implicit.
Unset Printing Implicit Defensive.

Import GRing.Theory.
Local Open Scope ring_scope.

Section BlockNorm.
Variable R : comRingType.
Variable c : {rmorphism R -> R}.

Definition norm2 m (x : 'cV[R]_m) : R := \sum_i x i 0 * c (x i 0).

Lemma norm2E m (x : 'cV[R]_m) : norm2 x = ((map_mx c x)^T *m x) 0 0.
Proof. by rewrite /norm2 mxE; apply: eq_bigr => i _; rewrite !mxE mulrC. Qed.

Theorem block_preserves_norm m (M : 'M[R]_m) (x : 'cV[R]_m) :
  M *m (map_mx c M)^T = 1%:M -> norm2 (M *m x) = norm2 x.
Proof.
move=> e; have e' : (map_mx c M)^T *m M = 1%:M by apply: mulmx1C.
by rewrite !norm2E map_mxM trmx_mul -mulmxA (mulmxA _ M) e' mul1mx.
Qed.

Variables (d n : nat).
Local Notation SF := {ffun 'I_n -> 'I_d}.

Theorem compound_cols_orthonormal (U : 'M[R]_d) (f g : SF) :
  U *m (map_mx c U)^T = 1%:M -> strictf f -> strictf g ->
  \sum_(h : SF | strictf h) c (minor h f U) * minor h g U = (f == g)%:R.
Proof.
move=> e hf hg; have e' := mulmx1C e.
rewrite -(compound_of_inverse e' hf hg); apply: eq_bigr => h _.
by rewrite minor_adjoint.
Qed.

Theorem compound_block_preserves_norm (U : 'M[R]_d) (x : SF -> R) :
  U *m (map_mx c U)^T = 1%:M ->
  \sum_(f : SF | strictf f)
     (\sum_(h : SF | strictf h) minor f h U * x h) *
     c (\sum_(h : SF | strictf h) minor f h U * x h)
  = \sum_(h : SF | strictf h) x h * c (x h).
Proof.
move=> e.
transitivity (\sum_(f : SF | strictf f) \sum_(h : SF | strictf h) \sum_(k : SF | strictf k)
                (x h * c (x k)) * (c (minor f k U) * minor f h U)).
  apply: eq_bigr => f _; rewrite rmorph_sum big_distrlr /=.
  apply: eq_bigr => h _; apply: eq_bigr => k _.
  by rewrite rmorphM mulrACA mulrC [minor _ _ _ * _]mulrC.
rewrite exchange_big /=; apply: eq_bigr => h hh.
rewrite exchange_big /=.
transitivity (\sum_(k : SF | strictf k) (x h * c (x k)) * (k == h)%:R).
  apply: eq_bigr => k hk; rewrite -big_distrr /=; congr (_ * _).
  exact: (compound_cols_orthonormal e hk hh).
rewrite (bigD1 h) //= eqxx mulr1 big1 ?addr0 // => k /andP [_ /negbTE ->].
by rewrite mulr0.
Qed.

End BlockNorm.

(* the same on the model's Laplace minors, packaged without MathComp notations *)
Definition block_norm_preserved (R : comRingType) (d n : nat) (c : conj_type R)
  (Uf : BinNums.Z -> BinNums.Z -> R) : Prop :=
  forall x : {ffun 'I_n -> 'I_d} -> R,
  \sum_(f : {ffun 'I_n -> 'I_d} | strictf f)
     (\sum_(h : {ffun 'I_n -> 'I_d} | strictf h)
         FermiRepDetMC.mc_lminor Uf (ilist f) (ilist h) * x h) *
     c (\sum_(h : {ffun 'I_n -> 'I_d} | strictf h)
         FermiRepDetMC.mc_lminor Uf (ilist f) (ilist h) * x h)
  = \sum_(h : {ffun 'I_n -> 'I_d} | strictf h) x h * c (x h).

Theorem unitary_block_norm_preserved (R : comRingType) (d n : nat) (c : conj_type R)
  (Uf : BinNums.Z -> BinNums.Z -> R) :
  is_unitary_fn d c Uf -> block_norm_preserved d n c Uf.
Proof.
move=> e x; rewrite -(compound_block_preserves_norm x e).
apply: eq_bigr => f _.
have E : forall h, FermiRepDetMC.mc_lminor Uf (ilist f) (ilist h) = minor f h (mx_of d Uf).
  by move=> h; rewrite (@FermiRepDetMC.mc_lminor_det _ n) ?size_ilist // det_restricted_minor.
by congr (_ * c _); apply: eq_bigr => h _; rewrite E.
Qed.

Definition block_norm_mx_preserved (R : comRingType) (c : conj_type R) (m : nat) : Prop :=
  forall (M : 'M[R]_m) (x : 'cV[R]_m),
  M *m (map_mx c M)^T = 1%:M -> norm2 c (M *m x) = norm2 c x.

Theorem block_norm_mx (R : comRingType) (c : conj_type R) (m : nat) :
  block_norm_mx_preserved c m.
Proof. by move=> M x e; apply: block_preserves_norm. Qed.
