(* C15 — model of piquasso/decompositions/clements.py over a ring with involution.
   Definitions only (no proofs), so the model runs even when a proof breaks.

   A beamsplitter carries (c, s, e) = (cos theta, sin theta, exp(i phi)) instead of the
   angles; a phaseshifter carries e = exp(i phi).  Everything the code does with these
   numbers is ring arithmetic plus conjugation, except _get_angles / np.angle, which are
   parameters of the model ([angles], [phase]); the exact instance at the Gaussian
   rationals is at the end of the file. *)
From Coq Require Import List Arith Bool ZArith QArith Qabs Lia.
Import ListNotations.

Class ROps (A : Type) := {
  r0 : A; r1 : A;
  radd : A -> A -> A; rmul : A -> A -> A; rsub : A -> A -> A;
  ropp : A -> A; rconj : A -> A }.

Declare Scope rng_scope.
Delimit Scope rng_scope with r.
Infix "+" := radd : rng_scope.
Infix "*" := rmul : rng_scope.
Infix "-" := rsub : rng_scope.
Notation "- x" := (ropp x) : rng_scope.
Notation "x ^*" := (rconj x) (at level 5, format "x ^*") : rng_scope.

Section Model.
Context {A : Type} {O : ROps A}.
Local Open Scope rng_scope.

(* ---------------------------------------------------------------- matrices *)
Definition mat := list (list A).

(* every matrix the model builds is a d x d table *)
Definition mk (d : nat) (f : nat -> nat -> A) : mat :=
  map (fun i => map (fun j => f i j) (seq 0 d)) (seq 0 d).

Definition get (M : mat) (i j : nat) : A := nth j (nth i M []) r0.

Fixpoint sumn (n : nat) (f : nat -> A) : A :=
  match n with 0%nat => r0 | S k => sumn k f + f k end.

(* X @ Y *)
Definition mmul (d : nat) (X Y : mat) : mat :=
  mk d (fun i j => sumn d (fun k => get X i k * get Y k j)).
(* np.identity(d) *)
Definition mid (d : nat) : mat := mk d (fun i j => if (i =? j)%nat then r1 else r0).
(* np.conj(M).T *)
Definition madj (d : nat) (M : mat) : mat := mk d (fun i j => (get M j i)^* ).
(* M.T, np.conj(M) *)
Definition mtr (d : nat) (M : mat) : mat := mk d (fun i j => get M j i).
Definition mconj (d : nat) (M : mat) : mat := mk d (fun i j => (get M i j)^* ).
(* np.diag(v) *)
Definition mdiag (d : nat) (v : list A) : mat :=
  mk d (fun i j => if (i =? j)%nat then nth i v r0 else r0).
(* np.diag(M) *)
Definition diag_of (d : nat) (M : mat) : list A := map (fun i => get M i i) (seq 0 d).

(* connector.embed_in_identity(block, get_operator_index((i, j)), d) for a 2x2 block
   [[a, b], [c, e]] : identity with rows/columns i, j overwritten *)
Definition emb2 (d i j : nat) (a b c e : A) : mat :=
  mk d (fun r k =>
    if (r =? i)%nat && (k =? i)%nat then a
    else if (r =? i)%nat && (k =? j)%nat then b
    else if (r =? j)%nat && (k =? i)%nat then c
    else if (r =? j)%nat && (k =? j)%nat then e
    else if (r =? k)%nat then r1 else r0).
(* 1x1 block on mode m *)
Definition emb1 (d m : nat) (a : A) : mat :=
  mk d (fun r k => if (r =? m)%nat && (k =? m)%nat then a
                   else if (r =? k)%nat then r1 else r0).

(* list update: connector.assign(array, index, value) on a vector *)
Fixpoint upd (l : list A) (i : nat) (x : A) : list A :=
  match l, i with
  | [], _ => []
  | _ :: t, 0%nat => x :: t
  | h :: t, S k => h :: upd t k x
  end.

(* ---------------------------------------------------------------- data classes *)
(* clements.py:BS — modes (i, j), params (theta, phi) carried as c, s, e *)
Record BS := mkBS { bs_i : nat; bs_j : nat; bs_c : A; bs_s : A; bs_e : A }.
(* clements.py:PS *)
Record PS := mkPS { ps_mode : nat; ps_e : A }.
(* clements.py:Decomposition *)
Definition Decomposition := (list BS * list PS)%type.

(* clements.py:_get_embedded_beamsplitter_matrix
     [[exp(1j*phi)*c, -s], [exp(1j*phi)*s, c]] embedded at (i, j) *)
Definition embed (d : nat) (T : BS) : mat :=
  emb2 d (bs_i T) (bs_j T) (bs_e T * bs_c T) (- bs_s T) (bs_e T * bs_s T) (bs_c T).

(* ---------------------------------------------------------------- the nulling passes *)
(* _get_angles(matrix_element_to_eliminate, other_matrix_element) as (c, s, e);
   np.angle(z) as exp(1j*np.angle(z)) *)
Variable angles : A -> A -> A * A * A.
Variable phase : A -> A.

(* clements.py:_apply_direct_beamsplitters — one iteration of the loop over j *)
Definition direct_step (d column : nat) (st : list BS * mat) (j : nat) : list BS * mat :=
  let '(ops, U) := st in
  let m0 := (column + j)%nat in
  let m1 := (column + j + 1)%nat in
  let '(c, s, e) := angles (get U m0 j) (- get U m1 j) in
  let T := mkBS m0 m1 c s e in
  (ops ++ [T], mmul d (embed d T) U).

Definition apply_direct (d column : nat) (U : mat) : list BS * mat :=
  fold_left (direct_step d column) (seq 0 (d - 1 - column)) ([], U).

(* clements.py:_apply_inverse_beamsplitters — one iteration (j runs downwards) *)
Definition inverse_step (d column : nat) (st : list BS * mat) (j : nat) : list BS * mat :=
  let '(ops, U) := st in
  let i := (column + j + 1)%nat in
  let '(c, s, e) := angles (get U i (j + 1)) (get U i j) in
  let T := mkBS j (j + 1) c s e in
  (ops ++ [T], mmul d U (madj d (embed d T))).

Definition apply_inverse (d column : nat) (U : mat) : list BS * mat :=
  fold_left (inverse_step d column) (rev (seq 0 (d - 1 - column))) ([], U).

(* clements.py:clements — the loop over columns; state (first, last, U) *)
Definition column_step (d : nat) (st : list BS * list BS * mat) (column : nat)
  : list BS * list BS * mat :=
  let '(first, last, U) := st in
  if Nat.even column then
    let '(ops, U') := apply_direct d column U in (first, last ++ ops, U')
  else
    let '(ops, U') := apply_inverse d column U in (first ++ ops, last, U').

Definition eliminate (d : nat) (U : mat) : list BS * list BS * mat :=
  fold_left (column_step d) (rev (seq 0 (d - 1))) ([], [], U).

(* clements.py:_get_commute_angles / _commute — one beamsplitter:
     phi' = phi1 - phi2 + pi,  phi1' = phi2 - bs_phi + pi,  phi2' = phi2, theta' = theta *)
Definition commute_step (st : list BS * list A) (T : BS) : list BS * list A :=
  let '(out, phis) := st in
  let e1 := nth (bs_i T) phis r0 in
  let e2 := nth (bs_j T) phis r0 in
  let e' := - (e1 * e2^* ) in
  let e1' := - (e2 * (bs_e T)^* ) in
  (out ++ [mkBS (bs_i T) (bs_j T) (bs_c T) (bs_s T) e'],
   upd (upd phis (bs_i T) e1') (bs_j T) e2).

Definition commute (phis : list A) (last : list BS) : list BS * list A :=
  fold_left commute_step last ([], phis).

Definition clements (d : nat) (U : mat) : Decomposition :=
  let '(first, last, R) := eliminate d U in
  let middle := map phase (diag_of d R) in
  let '(commuted, phis) := commute middle (rev last) in
  (first ++ commuted, map (fun m => mkPS m (nth m phis r0)) (seq 0 d)).

(* clements.py:inverse_clements *)
Definition prodl (d : nat) (ops : list BS) : mat :=
  fold_left (fun M T => mmul d (embed d T) M) ops (mid d).

Definition phis_of (d : nat) (ps : list PS) : list A :=
  fold_left (fun v p => upd v (ps_mode p) (ps_e p)) ps (repeat r0 d).

Definition inverse_clements (d : nat) (dec : Decomposition) : mat :=
  mmul d (mdiag d (phis_of d (snd dec))) (prodl d (fst dec)).

(* ---------------------------------------------------------------- instructions *)
(* gates.py: Phaseshifter(phi) block [[e]];  Beamsplitter(theta, phi) block
   [[t, -conj(r)], [r, t]], t = c, r = e*s *)
Inductive Instr :=
| IPS (mode : nat) (e : A)
| IBS (i j : nat) (c s e : A).

(* clements.py:instructions_from_decomposition *)
Definition instructions_from_decomposition (dec : Decomposition) : list Instr :=
  flat_map (fun T => [IPS (bs_i T) (bs_e T); IBS (bs_i T) (bs_j T) (bs_c T) (bs_s T) r1])
           (fst dec)
  ++ map (fun p => IPS (ps_mode p) (ps_e p)) (snd dec).

Definition instr_matrix (d : nat) (ins : Instr) : mat :=
  match ins with
  | IPS m e => emb1 d m e
  | IBS i j c s e => emb2 d i j c (- (e * s)^* ) (e * s) c
  end.

(* the single-particle unitary of a list of passive gates applied in order *)
Definition instrs_matrix (d : nat) (l : list Instr) : mat :=
  fold_left (fun M ins => mmul d (instr_matrix d ins) M) l (mid d).

End Model.

Arguments BS A : clear implicits.
Arguments PS A : clear implicits.
Arguments Instr A : clear implicits.
Arguments Decomposition A : clear implicits.
Arguments mat A : clear implicits.

(* ---------------------------------------------------------------- schedule and weights *)
(* the sequence of mode pairs of a decomposition: no matrix, no ring *)
Definition direct_modes (d column : nat) : list (nat * nat) :=
  map (fun j => (column + j, column + j + 1)%nat) (seq 0 (d - 1 - column)).
Definition inverse_modes (d column : nat) : list (nat * nat) :=
  map (fun j => (j, j + 1)%nat) (rev (seq 0 (d - 1 - column))).
Definition sched_step (d : nat) (st : list (nat * nat) * list (nat * nat)) (column : nat) :=
  let '(first, last) := st in
  if Nat.even column then (first, last ++ direct_modes d column)
  else (first ++ inverse_modes d column, last).
Definition schedule (d : nat) : list (nat * nat) :=
  let '(first, last) := fold_left (sched_step d) (rev (seq 0 (d - 1))) ([], []) in
  first ++ rev last.

(* weights: any parameter type P (angles in the code) *)
Section Weights.
Variable P : Type.
Variable p0 : P.
Record WBS := mkWBS { w_modes : nat * nat; w_theta : P; w_phi : P }.
Record WPS := mkWPS { w_mode : nat; w_ps_phi : P }.
Definition WDec := (list WBS * list WPS)%type.

(* clements.py:get_weights_from_decomposition *)
Definition to_weights (dec : WDec) : list P :=
  flat_map (fun b => [w_theta b; w_phi b]) (fst dec) ++ map w_ps_phi (snd dec).

(* clements.py:get_decomposition_from_weights; [structure] = the modes of
   clements(identity(d)) *)
Fixpoint fill_bs (structure : list (nat * nat)) (w : list P) : list WBS * list P :=
  match structure with
  | [] => ([], w)
  | m :: rest =>
      let '(bs, w') := fill_bs rest (skipn 2 w) in
      (mkWBS m (nth 0 w p0) (nth 1 w p0) :: bs, w')
  end.
Definition from_weights (structure : list (nat * nat)) (d : nat) (w : list P) : WDec :=
  let '(bs, w') := fill_bs structure w in
  (bs, map (fun m => mkWPS m (nth m w' p0)) (seq 0 d)).
End Weights.

(* ================================================================ Gaussian rationals *)
(* executable instance: pairs of rationals kept reduced *)
Definition Qi := (Q * Q)%type.
Definition qr (x : Q) : Q := Qred x.
Definition qi_add (a b : Qi) : Qi := (qr (fst a + fst b), qr (snd a + snd b)).
Definition qi_sub (a b : Qi) : Qi := (qr (fst a - fst b), qr (snd a - snd b)).
Definition qi_opp (a : Qi) : Qi := (qr (- fst a), qr (- snd a)).
Definition qi_mul (a b : Qi) : Qi :=
  (qr (fst a * fst b - snd a * snd b), qr (fst a * snd b + snd a * fst b)).
Definition qi_conj (a : Qi) : Qi := (fst a, qr (- snd a)).
Definition qi_norm2 (a : Qi) : Q := qr (fst a * fst a + snd a * snd a).
Definition qi_scale (q : Q) (a : Qi) : Qi := (qr (q * fst a), qr (q * snd a)).
Definition qi_div (a b : Qi) : Qi := qi_scale (/ qi_norm2 b) (qi_mul a (qi_conj b)).
Definition qi_is0 (a : Qi) : bool := Qeq_bool (fst a) 0 && Qeq_bool (snd a) 0.
Definition qi_eqb (a b : Qi) : bool := Qeq_bool (fst a) (fst b) && Qeq_bool (snd a) (snd b).

#[global] Instance QiOps : ROps Qi := {|
  r0 := (0, 0); r1 := (1, 0);
  radd := qi_add; rmul := qi_mul; rsub := qi_sub; ropp := qi_opp; rconj := qi_conj |}.

(* fixed-point arithmetic (integers scaled by 2^80, products truncated): used only to
   evaluate the model on the implementation's own float coefficients, where exact products
   of dyadic rationals would grow without bound; error per operation < 1e-24 *)
Definition Fx := (Z * Z)%type.
Definition fx_one : Z := (2 ^ 80)%Z.
Definition fx_sh (z : Z) : Z := Z.shiftr z 80.
#[global] Instance FxOps : ROps Fx := {|
  r0 := (0, 0)%Z; r1 := (fx_one, 0%Z);
  radd := fun a b => (fst a + fst b, snd a + snd b)%Z;
  rmul := fun a b => (fx_sh (fst a * fst b - snd a * snd b), fx_sh (fst a * snd b + snd a * fst b))%Z;
  rsub := fun a b => (fst a - fst b, snd a - snd b)%Z;
  ropp := fun a => (- fst a, - snd a)%Z;
  rconj := fun a => (fst a, - snd a)%Z |}.
Definition qi_of_fx (z : Fx) : Qi := (Qmake (fst z) (2 ^ 80)%positive, Qmake (snd z) (2 ^ 80)%positive).
Definition qimat_of_fx (M : list (list Fx)) : list (list Qi) := map (map qi_of_fx) M.

(* square root of a non-negative rational; exact iff numerator and denominator of the
   reduced fraction are perfect squares ([q_sqrt_exact]) *)
Definition q_sqrt (q : Q) : Q :=
  let r := Qred q in
  Qmake (Z.sqrt (Qnum r)) (Z.to_pos (Z.sqrt (Zpos (Qden r)))).
Definition q_sqrt_exact (q : Q) : bool := Qeq_bool (q_sqrt q * q_sqrt q) q.

(* clements.py:_get_angles.  isclose(x, 0) is modelled as x = 0 (the generators keep
   non-zero entries away from 0); theta = arctan |r|, phi = angle r, r = other / elim *)
Definition qi_angles (elim other : Qi) : Qi * Qi * Qi :=
  if qi_is0 elim then ((0, 0), (1, 0), (1, 0))
  else
    let r := qi_div other elim in
    let n := qi_norm2 r in
    (* irrational square root: give up with coefficients (0,0,0), which keep all later
       numbers small and make [qi_dec_ok] fail *)
    if negb (q_sqrt_exact n && q_sqrt_exact (/ (1 + n))) then ((0, 0), (0, 0), (0, 0)) else
    let absr := q_sqrt n in
    let c := q_sqrt (/ (1 + n)) in
    let s := qr (absr * c) in
    let e := if Qeq_bool absr 0 then (1, 0) else qi_scale (/ absr) r in
    ((c, 0), (s, 0), e).

(* exp(1j * np.angle(z)) = z / |z|, and 1 for z = 0 *)
Definition qi_phase (z : Qi) : Qi :=
  let a := q_sqrt (qi_norm2 z) in
  if negb (q_sqrt_exact (qi_norm2 z)) then (0, 0) else
  if Qeq_bool a 0 then (1, 0) else qi_scale (/ a) z.

Definition qi_clements := clements qi_angles qi_phase.

(* all coefficients of a decomposition are exact: c^2 + s^2 = 1, c, s real, |e| = 1 *)
Definition qi_bs_ok (T : BS Qi) : bool :=
  qi_eqb (qi_add (qi_mul (bs_c T) (bs_c T)) (qi_mul (bs_s T) (bs_s T))) (1, 0)
  && Qeq_bool (snd (bs_c T)) 0 && Qeq_bool (snd (bs_s T)) 0
  && Qeq_bool (qi_norm2 (bs_e T)) 1.
Definition qi_dec_ok (dec : Decomposition Qi) : bool :=
  forallb qi_bs_ok (fst dec) && forallb (fun p => Qeq_bool (qi_norm2 (ps_e p)) 1) (snd dec).

(* closeness of an exact value and a float given as a rational:
   |impl - model| <= tol * (1 + |model|) componentwise *)
Definition q_close (tol impl model : Q) : bool :=
  Qle_bool (Qabs (impl - model)) (tol * (1 + Qabs model)).
Definition qi_close (tol : Q) (impl model : Qi) : bool :=
  q_close tol (fst impl) (fst model) && q_close tol (snd impl) (snd model).
Fixpoint all2 {X Y} (f : X -> Y -> bool) (l1 : list X) (l2 : list Y) : bool :=
  match l1, l2 with
  | [], [] => true
  | a :: t1, b :: t2 => f a b && all2 f t1 t2
  | _, _ => false
  end.
Definition qimat_close (tol : Q) (impl model : mat Qi) : bool :=
  all2 (all2 (qi_close tol)) impl model.
