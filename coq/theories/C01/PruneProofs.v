(* C01 — SLOS with post-selection pruning is the unpruned SLOS on every kept entry:
   a pruned basis entry can never contribute to a kept one. *)
From Coq Require Import ZArith List Bool Arith Lia Ring Permutation.
From PV Require Import Comb.FockModel Comb.FockProofs
  C01.PermModel C01.PermProofs C01.TableProofs C01.SymProofs C01.EmbedModel C01.EmbedProofs
  C01.OnModesProofs C01.PruneModel.
Import ListNotations.
Local Open Scope nat_scope.

(* ---------------------------------------------------------------- the pruning rule *)
Lemma within_dec cons i t : within cons t = true -> within cons (dec_at i t) = true.
Proof.
  unfold within. rewrite !forallb_forall. intros H mc Hin. specialize (H mc Hin).
  apply Nat.leb_le in H. apply Nat.leb_le. rewrite nth_dec_at.
  destruct (Nat.eqb (fst mc) i); lia.
Qed.

Lemma deficit_dec_notin cons i t : ~ In i (map fst cons) -> deficit cons (dec_at i t) = deficit cons t.
Proof.
  induction cons as [|mc cons IH]; intros H; [reflexivity|].
  cbn [deficit fold_right]. fold (deficit cons (dec_at i t)). fold (deficit cons t).
  rewrite IH by (intros Hc; apply H; now right). rewrite nth_dec_at.
  destruct (Nat.eqb_spec (fst mc) i) as [E|]; [|reflexivity]. exfalso. apply H. left. exact E.
Qed.

Lemma deficit_dec cons i t : NoDup (map fst cons) ->
  deficit cons (dec_at i t) <= S (deficit cons t).
Proof.
  induction cons as [|mc cons IH]; intros Hnd; [simpl; lia|].
  cbn [map] in Hnd. inversion Hnd as [|? ? Hnotin Hnd']; subst.
  cbn [deficit fold_right]. fold (deficit cons (dec_at i t)). fold (deficit cons t).
  rewrite nth_dec_at. destruct (Nat.eqb_spec (fst mc) i) as [E|].
  - rewrite (deficit_dec_notin cons i t) by (rewrite <- E; exact Hnotin). lia.
  - specialize (IH Hnd'). lia.
Qed.

(* soundness of the pruning: every predecessor of an entry kept at level k+1 is kept at
   level k (equivalently: a pruned entry never contributes to a kept one) *)
Theorem prune_step cons lim i t : NoDup (map fst cons) ->
  kept cons lim t = true -> kept cons (S lim) (dec_at i t) = true.
Proof.
  intros Hnd H. unfold kept in *. apply andb_true_iff in H. destruct H as [H1 H2].
  apply andb_true_iff. split; [now apply within_dec|].
  apply Nat.leb_le in H2. apply Nat.leb_le. pose proof (deficit_dec cons i t Hnd). lia.
Qed.

Section Prune.
Variable A : Type.
Variables (a0 a1 : A) (aadd amul asub : A -> A -> A) (aopp : A -> A).
Hypothesis Aring : ring_theory a0 a1 aadd amul asub aopp (@eq A).
Add Ring ARing6 : Aring.

Notation asum := (asum A a0 aadd).
Notation nscale := (nscale A a0 aadd).
Notation entry := (entry A a0).
Notation slosB := (slosB A a0 a1 aadd amul).
Notation slosP := (slosP A a0 a1 aadd amul).
Notation slos_amp := (slos_amp A a0 a1 aadd amul).

(* the pruned recurrence equals the unpruned one on every kept entry, at every level *)
Theorem slosP_correct U cons n : NoDup (map fst cons) -> forall sched t,
  length sched <= n -> kept cons (n - length sched) t = true ->
  slosP U cons n sched t = slosB U sched t.
Proof.
  intros Hnd. induction sched as [|p rest IH]; intros t Hlen Hk; [reflexivity|].
  cbn [PruneModel.slosP PermModel.slosB]. cbn [length] in Hlen, Hk.
  apply (asum_map_ext A a0 aadd). intros i _.
  destruct (Nat.eq_dec (nth i t 0) 0) as [Hz|Hnz]; [rewrite Hz; reflexivity|].
  assert (Hk' : kept cons (n - length rest) (dec_at i t) = true).
  { replace (n - length rest) with (S (n - S (length rest))) by lia. now apply prune_step. }
  rewrite Hk'. rewrite IH by (auto; lia). reflexivity.
Qed.

(* ---------------------------------------------------------------- index_map *)
Lemma list_nat_eqb_eq a : forall b, list_nat_eqb a b = true <-> a = b.
Proof.
  induction a as [|x a IH]; intros [|y b]; simpl; try (split; congruence).
  rewrite andb_true_iff, Nat.eqb_eq, IH. split; [intros [-> ->]; reflexivity | intros H; now inversion H].
Qed.

Lemma index_of_some t L : forall j, index_of t L = Some j -> nth j L [] = t /\ j < length L.
Proof.
  induction L as [|x L IH]; intros j H; [discriminate|].
  cbn [index_of] in H. destruct (list_nat_eqb t x) eqn:E.
  - injection H as <-. apply list_nat_eqb_eq in E. subst. simpl. split; [reflexivity | lia].
  - destruct (index_of t L) as [j'|]; [|discriminate]. injection H as <-.
    destruct (IH j' eq_refl). simpl. split; [assumption | lia].
Qed.

Lemma index_of_in t L : In t L -> exists j, index_of t L = Some j.
Proof.
  induction L as [|x L IH]; intros H; [destruct H|].
  cbn [index_of]. destruct (list_nat_eqb t x) eqn:E; [now exists 0|].
  destruct H as [->|H].
  - rewrite (proj2 (list_nat_eqb_eq t t) eq_refl) in E. discriminate.
  - destruct (IH H) as [j ->]. now exists (S j).
Qed.

(* ---------------------------------------------------------------- sectors on nat vectors *)
Lemma sectorN_in d k t : In t (sectorN (S d) k) <-> validN (S d) k t.
Proof.
  split.
  - intros H. unfold sectorN in H. apply in_map_iff in H. destruct H as [z [<- Hz]].
    destruct (sector_valid _ _ _ Hz) as [Hl [Hs Hp]]. split.
    + now rewrite map_length.
    + fold (toN z). rewrite (total_toN z Hp), Hs. apply Nat2Z.id.
  - intros H. destruct (sidx_lookup d k t H) as [H1 H2]. rewrite <- H2. now apply nth_In.
Qed.

Lemma validN_dec d k t i : validN (S d) (S k) t -> nth i t 0 <> 0 -> validN (S d) k (dec_at i t).
Proof.
  intros [Hl Ht] Hnz. split; [now rewrite length_dec_at|].
  pose proof (total_dec_pos t i Hnz). lia.
Qed.

Section Tables.
Variables (U : list (list A)) (d : nat) (cons : cons_t) (n : nat).
Hypothesis Hnd : NoDup (map fst cons).
Let bases := fun k => bases_spec (S d) cons n k.

Lemma bases_in k t : In t (bases k) <-> validN (S d) k t /\ kept cons (n - k) t = true.
Proof. unfold bases, bases_spec. rewrite filter_In, sectorN_in. tauto. Qed.

Lemma step_pruned_ok k p done :
  S k <= n ->
  slos_step_pruned A a0 aadd amul U (S d) (bases k) (bases (S k)) p
      (map (slosB U (rev done)) (bases k))
  = map (slosB U (rev (done ++ [p]))) (bases (S k)).
Proof.
  intros Hk. unfold slos_step_pruned. apply map_ext_in. intros t Ht.
  apply bases_in in Ht. destruct Ht as [Hv Hkept].
  rewrite rev_app_distr. cbn [rev app PermModel.slosB].
  destruct Hv as [Hl Htot]. rewrite Hl.
  apply (asum_map_ext A a0 aadd). intros i _.
  destruct (Nat.eq_dec (nth i t 0) 0) as [Hz|Hnz]; [rewrite Hz; reflexivity|].
  assert (Hin : In (dec_at i t) (bases k)).
  { apply bases_in. split; [apply validN_dec; [split|]; assumption|].
    replace (n - k) with (S (n - S k)) by lia. now apply prune_step. }
  destruct (index_of_in _ _ Hin) as [j Hj]. rewrite Hj.
  destruct (index_of_some _ _ _ Hj) as [Hnth Hlt].
  rewrite (nth_map_lt _ (bases k) j [] a0) by exact Hlt. rewrite Hnth. reflexivity.
Qed.

Lemma run_pruned_ok : forall sched k done,
  k + length sched <= n ->
  slos_run_pruned A a0 aadd amul U (S d) bases k sched (map (slosB U (rev done)) (bases k))
  = map (slosB U (rev (done ++ sched))) (bases (k + length sched)).
Proof.
  induction sched as [|p rest IH]; intros k done Hk.
  - cbn [slos_run_pruned length]. now rewrite app_nil_r, Nat.add_0_r.
  - cbn [slos_run_pruned length] in *. rewrite step_pruned_ok by lia.
    rewrite IH by lia. replace (done ++ p :: rest) with ((done ++ [p]) ++ rest)
      by (rewrite <- app_assoc; reflexivity).
    now replace (S k + length rest) with (k + S (length rest)) by lia.
Qed.

(* Tier A.2 with pruning: the vector calculate_state_vector computes on the pruned basis
   (post-selected modes at their counts) is, entry by entry, the unpruned SLOS amplitude,
   hence the permanent with multiplicities *)
Theorem slos_vector_pruned_correct s :
  total s = n -> deficit cons (repeat 0 (S d)) <= n ->
  slos_vector_pruned A a0 a1 aadd amul U (S d) cons s
  = map (slos_amp U s) (bases_spec (S d) cons n n).
Proof.
  intros Hs Hdef. unfold slos_vector_pruned. rewrite Hs. fold bases.
  assert (Hb0 : [a1] = map (slosB U (rev [])) (bases 0)).
  { pose proof (sectorN_0_length d) as H0.
    unfold bases, bases_spec. destruct (sectorN (S d) 0) as [|x [|y r]] eqn:E; try discriminate.
    assert (Hx : validN (S d) 0 x) by (apply sectorN_in; rewrite E; now left).
    assert (Hk : kept cons (n - 0) x = true).
    { destruct Hx as [Hl Ht]. unfold kept. apply andb_true_iff. split.
      - unfold within. apply forallb_forall. intros mc _. apply Nat.leb_le.
        rewrite (total0_nth x Ht). lia.
      - apply Nat.leb_le. rewrite Nat.sub_0_r.
        assert (Hd : deficit cons x = deficit cons (repeat 0 (S d))).
        { unfold deficit. clear -Ht. induction cons as [|mc c IH]; [reflexivity|].
          cbn [fold_right]. rewrite IH. rewrite (total0_nth x Ht).
          replace (nth (fst mc) (repeat 0 (S d)) 0) with 0; [reflexivity|].
          symmetry. apply total0_nth. clear. induction (S d); simpl; auto. }
        rewrite Hd. exact Hdef. }
    cbn [filter]. rewrite Hk. reflexivity. }
  rewrite Hb0.
  rewrite (run_pruned_ok (photons s) 0 []).
  - cbn [Nat.add app]. unfold photons at 2. rewrite photons_from_length, Hs. reflexivity.
  - unfold photons. rewrite photons_from_length. lia.
Qed.

End Tables.
End Prune.
