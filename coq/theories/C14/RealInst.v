(* The abstract theorems instantiated at the real numbers: for every hbar > 0 the constants
   of the code (sqrt 2, sqrt hbar, 1/sqrt(2 hbar), 1/hbar, 1/4) satisfy the hypotheses of
   ReprProofs.v, so the round trips hold for every real hbar > 0, every d, every matrix. *)
From Coq Require Import Reals Lra List Arith.
From PV Require Import C14.ReprModel C14.IndexProofs C14.ReprProofs.
Open Scope R_scope.

Definition KR : ops R := mkops R 0 1 Rplus Rmult Rminus Ropp.

Lemma KR_ring : ring_theory (o0 KR) (o1 KR) (oadd KR) (omul KR) (osub KR) (oopp KR) (@eq R).
Proof. exact RTheory. Qed.

Lemma real_ihbar : forall hbar, 0 < hbar -> omul KR (/ hbar) hbar = o1 KR.
Proof. intros. simpl. field. lra. Qed.
Lemma real_i4 : omul KR (r4 KR) (/ 4) = o1 KR.
Proof. unfold r4, r2. simpl. field. Qed.
Lemma real_isq : forall hbar, 0 < hbar -> omul KR (/ sqrt (2 * hbar)) (omul KR (sqrt 2) (sqrt hbar)) = o1 KR.
Proof.
  intros hbar H. simpl. rewrite <- sqrt_mult by lra. field.
  apply Rgt_not_eq. apply sqrt_lt_R0. lra.
Qed.
Lemma real_ish : forall hbar, 0 < hbar -> omul KR (/ sqrt hbar) (sqrt hbar) = o1 KR.
Proof. intros hbar H. simpl. field. apply Rgt_not_eq. apply sqrt_lt_R0. lra. Qed.
Lemma real_sh : forall hbar, 0 < hbar -> omul KR (sqrt hbar) (sqrt hbar) = hbar.
Proof. intros hbar H. simpl. apply sqrt_sqrt. lra. Qed.
Lemma real_rt2 : omul KR (sqrt 2) (sqrt 2) = r2 KR.
Proof. unfold r2. simpl. rewrite sqrt_sqrt by lra. lra. Qed.

(* get (set sigma mu) = (sigma, mu) for all real hbar > 0, all d, all real sigma, mu *)
Theorem set_get_real : forall hbar, 0 < hbar -> forall d (mean : vec R) (cov : mat R),
  (forall i j, (i < 2 * d)%nat -> (j < 2 * d)%nat ->
     xpxp_cov KR hbar d (set_xpxp KR (/ hbar) (/ 4) (/ sqrt (2 * hbar)) d mean cov) i j = cov i j) /\
  (forall k, (k < 2 * d)%nat ->
     xpxp_mean KR (sqrt 2) (sqrt hbar) d (set_xpxp KR (/ hbar) (/ 4) (/ sqrt (2 * hbar)) d mean cov) k = mean k).
Proof.
  intros hbar H d mean cov. split.
  - intros i j Hi Hj. apply (set_get_cov R KR KR_ring hbar (/ hbar) (/ sqrt (2 * hbar)) (/ 4)
                               (real_ihbar hbar H) real_i4 d mean cov i j Hi Hj).
  - intros k Hk. apply (set_get_mean R KR KR_ring (/ hbar) (sqrt 2) (sqrt hbar) (/ sqrt (2 * hbar)) (/ 4)
                          (real_isq hbar H) d mean cov k Hk).
Qed.

(* set (get (m, C, G)) = (m, C, G) for all real hbar > 0 *)
Theorem get_set_real : forall hbar, 0 < hbar -> forall d (s : gstate R),
  let s' := set_xpxp KR (/ hbar) (/ 4) (/ sqrt (2 * hbar)) d
              (xpxp_mean KR (sqrt 2) (sqrt hbar) d s) (xpxp_cov KR hbar d s) in
  (forall k, (k < d)%nat -> gm s' k = gm s k) /\
  (forall a b, (a < d)%nat -> (b < d)%nat -> gC s' a b = gC s a b /\ gG s' a b = gG s a b).
Proof.
  intros hbar H d s s'. split.
  - intros k Hk.
    destruct (get_set_m R KR KR_ring (sqrt 2) (sqrt hbar) (/ sqrt (2 * hbar)) (real_isq hbar H) d s k Hk) as [E1 E2].
    unfold s', set_xpxp. simpl gm. rewrite (surjective_pairing (gm s k)).
    rewrite (surjective_pairing (set_xpxp_mean KR _ _ k)). f_equal; assumption.
  - intros a b Ha Hb.
    destruct (get_set_C R KR KR_ring hbar (/ hbar) (/ 4) (real_ihbar hbar H) real_i4 d s a b Ha Hb) as [C1 C2].
    destruct (get_set_G R KR KR_ring hbar (/ hbar) (/ 4) (real_ihbar hbar H) real_i4 d s a b Ha Hb) as [G1 G2].
    unfold s', set_xpxp. simpl gC. simpl gG. split.
    + rewrite (surjective_pairing (gC s a b)), (surjective_pairing (set_xpxp_cov_C KR _ _ d _ a b)). f_equal; assumption.
    + rewrite (surjective_pairing (gG s a b)), (surjective_pairing (set_xpxp_cov_G KR _ _ d _ a b)). f_equal; assumption.
Qed.

(* means scale with sqrt(hbar), covariances with hbar; the normalised moments are hbar-free *)
Theorem hbar_scaling_real : forall hbar, 0 < hbar -> forall d (s : gstate R),
  (forall k, xpxp_mean KR (sqrt 2) (sqrt hbar) d s k = sqrt hbar * xpxp_mean KR (sqrt 2) 1 d s k) /\
  (forall i j, xpxp_cov KR hbar d s i j = hbar * xpxp_cov KR 1 d s i j) /\
  (forall k, xpxp_mean KR (sqrt 2) (sqrt hbar) d s k * / sqrt hbar = xpxp_mean KR (sqrt 2) 1 d s k) /\
  (forall i j, xpxp_cov KR hbar d s i j * / hbar = xpxp_cov KR 1 d s i j).
Proof.
  intros hbar H d s. repeat split; intros.
  - apply (xpxp_mean_scales R KR KR_ring).
  - apply (xpxp_cov_scales R KR KR_ring).
  - apply (normalised_mean_hbar_free R KR KR_ring (sqrt 2) (sqrt hbar) (/ sqrt hbar) (real_ish hbar H)).
  - apply (normalised_cov_hbar_free R KR KR_ring hbar (/ hbar) (real_ihbar hbar H)).
Qed.
