(* C20 — an executable instance of the primitive operations of ExprModel.v: Python objects
   of the outcome domain (int, bool, float as IEEE binary64 via PrimFloat, tuple, list, None,
   slice) and the functions of the [operator] module on them.  Definitions only.

   This file is NOT what the theorems are about (they hold for every primitive semantics);
   it exists so that [pq_eval] and [py_eval] can be *run* against piquasso and CPython.
   Whatever it does not model exactly (float ** and %, NaN results, integers beyond 2^53
   meeting floats, huge powers and repetitions, comparisons of slice objects) returns the
   pseudo-exception [OutOfDomain]; such cases are counted and skipped by the harness. *)
From Coq Require Import ZArith List String Bool PrimFloat SpecFloat FloatOps Uint63.
From PV Require Import C20.Ast C20.WhitelistGen C20.ExprModel.
Import ListNotations.
Open Scope Z_scope.

Inductive value :=
| VInt (z : Z) | VBool (b : bool) | VFloat (f : float)
| VTuple (l : list value) | VList (l : list value)
| VNone | VSlice (a b c : value).

Inductive pyexn :=
| TypeError | ZeroDivisionError | IndexError | ValueError | OverflowError | NameError
| OtherExn          (* any other class observed on the Python side; never produced here *)
| OutOfDomain.      (* not a Python exception: outside the modelled primitive semantics *)

Notation pres := (pres value pyexn).
Notation res := (res value pyexn).

(* ---------------- numbers *)
Definition as_int (v : value) : option Z :=
  match v with VInt z => Some z | VBool b => Some (if b then 1 else 0) | _ => None end.

Definition z_to_float (z : Z) : option float :=
  if Z.abs z <? 2 ^ 53
  then Some (if z <? 0 then PrimFloat.opp (PrimFloat.of_uint63 (Uint63.of_Z (- z)))
             else PrimFloat.of_uint63 (Uint63.of_Z z))
  else None.

Definition is_nan (f : float) : bool := negb (PrimFloat.eqb f f).
Definition fl (f : float) : pres := if is_nan f then PErr OutOfDomain else POk (VFloat f).

Inductive num := NI (z : Z) | NF (f : float).
Definition as_num (v : value) : option num :=
  match v with
  | VInt z => Some (NI z) | VBool b => Some (NI (if b then 1 else 0)) | VFloat f => Some (NF f)
  | _ => None
  end.
Definition num_float (n : num) : option float :=
  match n with NI z => z_to_float z | NF f => Some f end.

(* a op b on numbers: exact on ints, IEEE on floats after exact conversion of the int side *)
Definition arith (zi : Z -> Z -> pres) (ff : float -> float -> pres) (a b : num) : pres :=
  match a, b with
  | NI x, NI y => zi x y
  | _, _ =>
      match num_float a, num_float b with
      | Some x, Some y => ff x y
      | _, _ => PErr OutOfDomain
      end
  end.

Definition fzero (f : float) : bool := PrimFloat.eqb f 0%float.

Fixpoint repeat_list {A} (n : nat) (l : list A) : list A :=
  match n with O => [] | S k => l ++ repeat_list k l end.

Definition seq_repeat (mk : list value -> value) (l : list value) (n : Z) : pres :=
  if n <=? 0 then POk (mk [])
  else if 4096 <? n * Z.of_nat (List.length l) then PErr OutOfDomain
  else POk (mk (repeat_list (Z.to_nat n) l)).

(* operator.add / sub / mul / truediv / mod / pow / xor *)
Definition py_add (a b : value) : pres :=
  match a, b with
  | VTuple x, VTuple y => POk (VTuple (x ++ y))
  | VList x, VList y => POk (VList (x ++ y))
  | _, _ =>
      match as_num a, as_num b with
      | Some x, Some y => arith (fun p q => POk (VInt (p + q))) (fun p q => fl (p + q)%float) x y
      | _, _ => PErr TypeError
      end
  end.
Definition py_sub (a b : value) : pres :=
  match as_num a, as_num b with
  | Some x, Some y => arith (fun p q => POk (VInt (p - q))) (fun p q => fl (p - q)%float) x y
  | _, _ => PErr TypeError
  end.
Definition py_mul (a b : value) : pres :=
  match a, b with
  | VTuple x, _ => match as_int b with Some n => seq_repeat VTuple x n | None => PErr TypeError end
  | VList x, _ => match as_int b with Some n => seq_repeat VList x n | None => PErr TypeError end
  | _, VTuple y => match as_int a with Some n => seq_repeat VTuple y n | None => PErr TypeError end
  | _, VList y => match as_int a with Some n => seq_repeat VList y n | None => PErr TypeError end
  | _, _ =>
      match as_num a, as_num b with
      | Some x, Some y => arith (fun p q => POk (VInt (p * q))) (fun p q => fl (p * q)%float) x y
      | _, _ => PErr TypeError
      end
  end.
Definition py_truediv (a b : value) : pres :=
  match as_num a, as_num b with
  | Some x, Some y =>
      match y with
      | NI 0 => PErr ZeroDivisionError
      | _ =>
          match num_float x, num_float y with
          | Some p, Some q => if fzero q then PErr ZeroDivisionError else fl (p / q)%float
          | _, _ => PErr OutOfDomain
          end
      end
  | _, _ => PErr TypeError
  end.
Definition py_mod (a b : value) : pres :=
  match as_num a, as_num b with
  | Some (NI p), Some (NI q) => if q =? 0 then PErr ZeroDivisionError else POk (VInt (p mod q))
  | Some _, Some (NI q) => if q =? 0 then PErr ZeroDivisionError else PErr OutOfDomain
  | Some _, Some (NF q) => if fzero q then PErr ZeroDivisionError else PErr OutOfDomain
  | _, _ => PErr TypeError
  end.
Definition py_pow (a b : value) : pres :=
  match as_num a, as_num b with
  | Some (NI p), Some (NI q) =>
      if q <? 0 then (if p =? 0 then PErr ZeroDivisionError else PErr OutOfDomain)
      else if (4096 <? q) && (1 <? Z.abs p) then PErr OutOfDomain
      else POk (VInt (p ^ q))
  | Some _, Some _ => PErr OutOfDomain
  | _, _ => PErr TypeError
  end.
Definition py_xor (a b : value) : pres :=
  match a, b with
  | VBool p, VBool q => POk (VBool (xorb p q))
  | _, _ =>
      match as_int a, as_int b with
      | Some p, Some q => POk (VInt (Z.lxor p q))
      | _, _ => PErr TypeError
      end
  end.

(* operator.pos / neg / not_ / invert, bool() *)
Definition py_truth (v : value) : bool :=
  match v with
  | VInt z => negb (z =? 0)
  | VBool b => b
  | VFloat f => negb (fzero f)
  | VTuple l | VList l => match l with [] => false | _ => true end
  | VNone => false
  | VSlice _ _ _ => true
  end.
Definition py_pos (a : value) : pres :=
  match as_num a with
  | Some (NI z) => POk (VInt z) | Some (NF f) => POk (VFloat f) | None => PErr TypeError
  end.
Definition py_neg (a : value) : pres :=
  match as_num a with
  | Some (NI z) => POk (VInt (- z)) | Some (NF f) => POk (VFloat (- f)%float)
  | None => PErr TypeError
  end.
Definition py_invert (a : value) : pres :=
  match as_int a with Some z => POk (VInt (- z - 1)) | None => PErr TypeError end.

(* ---------------- comparisons *)
Inductive cres := CB (b : bool) | CTypeError | COOD.

Definition num_cmp (zc : Z -> Z -> bool) (fc : float -> float -> bool) (a b : num) : cres :=
  match a, b with
  | NI x, NI y => CB (zc x y)
  | _, _ =>
      match num_float a, num_float b with
      | Some x, Some y => CB (fc x y)
      | _, _ => COOD
      end
  end.

(* == : never raises on this domain; different kinds are unequal *)
Fixpoint py_eq (a b : value) {struct a} : cres :=
  let seq_eq :=
    (fix go (l1 l2 : list value) {struct l1} : cres :=
       match l1, l2 with
       | [], [] => CB true
       | p :: r1, q :: r2 =>
           match py_eq p q with
           | CB true => go r1 r2
           | CB false => (* lengths still decide nothing more: unequal *) CB false
           | other => other
           end
       | _, _ => CB false
       end) in
  match a, b with
  | VTuple l1, VTuple l2 => seq_eq l1 l2
  | VList l1, VList l2 => seq_eq l1 l2
  | VNone, VNone => CB true
  | VSlice _ _ _, _ | _, VSlice _ _ _ => COOD
  | _, _ =>
      match as_num a, as_num b with
      | Some x, Some y => num_cmp Z.eqb PrimFloat.eqb x y
      | _, _ => CB false
      end
  end.

Inductive ordop := OLt | OLe | OGt | OGe.
Definition ord_z (o : ordop) (x y : Z) : bool :=
  match o with OLt => x <? y | OLe => x <=? y | OGt => y <? x | OGe => y <=? x end.
Definition ord_f (o : ordop) (x y : float) : bool :=
  match o with
  | OLt => PrimFloat.ltb x y | OLe => PrimFloat.leb x y
  | OGt => PrimFloat.ltb y x | OGe => PrimFloat.leb y x
  end.

(* < <= > >= : tuple/list richcompare — first differing pair (by ==) decides, else lengths *)
Fixpoint py_ord (o : ordop) (a b : value) {struct a} : cres :=
  let seq_ord :=
    (fix go (l1 l2 : list value) {struct l1} : cres :=
       match l1, l2 with
       | [], [] => CB (ord_z o 0 0)
       | [], _ :: _ => CB (ord_z o 0 1)
       | _ :: _, [] => CB (ord_z o 1 0)
       | p :: r1, q :: r2 =>
           match py_eq p q with
           | CB true => go r1 r2
           | CB false => py_ord o p q
           | other => other
           end
       end) in
  match a, b with
  | VTuple l1, VTuple l2 => seq_ord l1 l2
  | VList l1, VList l2 => seq_ord l1 l2
  | VSlice _ _ _, _ | _, VSlice _ _ _ => COOD
  | _, _ =>
      match as_num a, as_num b with
      | Some x, Some y => num_cmp (ord_z o) (ord_f o) x y
      | _, _ => CTypeError
      end
  end.

Definition of_cres (c : cres) : pres :=
  match c with CB b => POk (VBool b) | CTypeError => PErr TypeError | COOD => PErr OutOfDomain end.
Definition neg_cres (c : cres) : cres := match c with CB b => CB (negb b) | o => o end.

(* ---------------- subscription *)
Definition clamp_index (n step i : Z) : Z :=
  (* PySlice_AdjustIndices on one bound *)
  if i <? 0 then (let j := i + n in if j <? 0 then (if step <? 0 then -1 else 0) else j)
  else if n <=? i then (if step <? 0 then n - 1 else n)
  else i.

Definition slice_part (v : value) : option (option Z) :=   (* None: TypeError *)
  match v with
  | VNone => Some None
  | _ => match as_int v with Some z => Some (Some z) | None => None end
  end.

Definition slice_items (l : list value) (a b c : value) : pyexn + list value :=
  let n := Z.of_nat (List.length l) in
  (* PySlice_Unpack converts step first, then start, then stop *)
  match slice_part c with
  | None => inl TypeError
  | Some so =>
      let step := match so with None => 1 | Some s => s end in
      if step =? 0 then inl ValueError else
      match slice_part a, slice_part b with
      | Some sa, Some sb =>
          let start := match sa with
                       | None => if step <? 0 then n - 1 else 0
                       | Some i => clamp_index n step i end in
          let stop := match sb with
                      | None => if step <? 0 then -1 else n
                      | Some i => clamp_index n step i end in
          let count := if step <? 0
                       then (if stop <? start then (start - stop - 1) / (- step) + 1 else 0)
                       else (if start <? stop then (stop - start - 1) / step + 1 else 0) in
          inr (map (fun k => nth (Z.to_nat (start + Z.of_nat k * step)) l VNone)
                   (seq 0 (Z.to_nat count)))
      | _, _ => inl TypeError
      end
  end.

Definition seq_getitem (mk : list value -> value) (l : list value) (key : value) : pres :=
  match key with
  | VSlice a b c =>
      match slice_items l a b c with inl e => PErr e | inr items => POk (mk items) end
  | _ =>
      match as_int key with
      | Some i =>
          let n := Z.of_nat (List.length l) in
          let j := if i <? 0 then i + n else i in
          if (0 <=? j) && (j <? n) then POk (nth (Z.to_nat j) l VNone) else PErr IndexError
      | None => PErr TypeError
      end
  end.

(* seq[key] *)
Definition py_getitem (s key : value) : pres :=
  match s with
  | VTuple l => seq_getitem VTuple l key
  | VList l => seq_getitem VList l key
  | _ => PErr TypeError
  end.

(* ---------------- the instance *)
Definition py_of_const (c : const) : value :=
  match c with
  | CInt z => VInt z
  | CBool b => VBool b
  | CFloat f => VFloat (SF2Prim f)
  | _ => VNone
  end.

(* operator.f applied to its arguments *)
Definition py_call (f : opfun) (args : list value) : pres :=
  match args with
  | [a] =>
      match f with
      | op_pos => py_pos a | op_neg => py_neg a | op_invert => py_invert a
      | op_not => POk (VBool (negb (py_truth a)))
      | _ => PErr TypeError
      end
  | [a; b] =>
      match f with
      | op_add => py_add a b | op_sub => py_sub a b | op_mul => py_mul a b
      | op_truediv => py_truediv a b | op_mod => py_mod a b | op_pow => py_pow a b
      | op_xor => py_xor a b
      | op_eq => of_cres (py_eq a b) | op_ne => of_cres (neg_cres (py_eq a b))
      | op_lt => of_cres (py_ord OLt a b) | op_le => of_cres (py_ord OLe a b)
      | op_gt => of_cres (py_ord OGt a b) | op_ge => of_cres (py_ord OGe a b)
      | _ => PErr OutOfDomain      (* operators outside the whitelist: not modelled *)
      end
  | _ => PErr TypeError
  end.

(* Expression(src)(x) on a parsed body, and Python's eval of the same body *)
Definition run_pq (body : expr) (arg : option value) : res :=
  pq_call value pyexn py_of_const VTuple VList VSlice VNone (VBool true) (VBool false)
          py_call py_truth py_getitem body arg.
Definition run_py (body : expr) (x : value) : res :=
  py_eval value pyexn py_of_const VTuple VList VSlice VNone py_call py_truth py_getitem
          NameError x PExpr body.

(* ---------------- comparison of results with what the Python side observed *)
Definition sf_eqb (a b : spec_float) : bool :=
  match a, b with
  | S754_zero s, S754_zero t => Bool.eqb s t
  | S754_infinity s, S754_infinity t => Bool.eqb s t
  | S754_finite s m e, S754_finite t n f => Bool.eqb s t && Pos.eqb m n && Z.eqb e f
  | _, _ => false
  end.

Fixpoint value_eqb (a b : value) {struct a} : bool :=
  let l_eqb :=
    (fix go (l1 l2 : list value) {struct l1} : bool :=
       match l1, l2 with
       | [], [] => true
       | p :: r1, q :: r2 => value_eqb p q && go r1 r2
       | _, _ => false
       end) in
  match a, b with
  | VInt x, VInt y => x =? y
  | VBool x, VBool y => Bool.eqb x y
  | VFloat x, VFloat y => sf_eqb (Prim2SF x) (Prim2SF y)
  | VTuple x, VTuple y => l_eqb x y
  | VList x, VList y => l_eqb x y
  | VNone, VNone => true
  | VSlice a1 b1 c1, VSlice a2 b2 c2 => value_eqb a1 a2 && value_eqb b1 b2 && value_eqb c1 c2
  | _, _ => false
  end.

Definition exn_eqb (a b : pyexn) : bool :=
  match a, b with
  | TypeError, TypeError | ZeroDivisionError, ZeroDivisionError | IndexError, IndexError
  | ValueError, ValueError | OverflowError, OverflowError | NameError, NameError => true
  | _, _ => false
  end.

(* observed: a value, a Python exception class, or InvalidExpression raised by _eval *)
Definition res_eqb (model observed : res) : bool :=
  match model, observed with
  | Ok a, Ok b => value_eqb a b
  | Raise a, Raise b => exn_eqb a b
  | Unsupported _, Unsupported _ => true
  | _, _ => false
  end.
Definition is_ood (r : res) : bool := match r with Raise OutOfDomain => true | _ => false end.

(* one tree with the outcome tuples it was run on: (x, implementation result, CPython result) *)
Definition tcase := (expr * list (option value * res * res))%type.

(* per tree: does the implementation accept it, what the model says about it *)
Definition model_accepts (t : expr) : bool := validate_tree t.

(* verdict codes per evaluation: 0 agree; 1 pq_eval differs from the implementation;
   2 py_eval differs from CPython; 3 both; 4 outside the executable domain (skipped) *)
Definition verdict (t : expr) (c : option value * res * res) : Z :=
  let '(arg, impl, cpy) := c in
  let m := run_pq t arg in
  let s := run_py t (match arg with Some v => v | None => VTuple [] end) in
  if is_ood m || is_ood s then 4
  else (if res_eqb m impl then 0 else 1) + (if res_eqb s cpy then 0 else 2).
Definition verdicts (c : tcase) : list Z := map (verdict (fst c)) (snd c).
