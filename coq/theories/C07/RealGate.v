(* C07 — the property as stated, for the built-in gates: for all real parameters and every
   duplicate-free tuple of modes, the Gaussian simulator's step multiplies the xxpp mean by a real
   matrix Sr and maps the xxpp covariance to Sr cov Sr^T, for every hbar. *)
From Coq Require Import List Arith Reals Ring Lia.
From PV Require Import C07.CxBase C07.RealOps C07.GatesGen C07.MomentsModel C07.GatesModel
  C07.SumLemmas C07.MomentsProofs C07.MatF C07.StepK C07.SeqProofs C07.QuadProofs C07.GatesProofs
  C07.CxReal C07.RealSeq C07.RealQuad C07.EmbedSympl.
Import ListNotations.

Lemma step_is_lstep : forall {B : Type} (o : Ops B) d i s,
  step o d i s = lstep (cops o) d (lop_of o i) s.
Proof.
  intros B o d i s. destruct i; simpl; try reflexivity.
  destruct (active_block o g e); reflexivity.
Qed.

Definition active_or_nil (g : gname) (e : Env R) : list (list (Cx R)) :=
  match active_block ROps g e with Some a => a | None => [] end.

Theorem builtin_gate_acts_as_documented :
  forall d g theta phi int_ ext r s modes (st : gstate (A := Cx R)) (hbar s2h : R),
  modes_ok d modes -> length modes = n_modes g ->
  herm RC d (st_C st) -> symm RC d (st_G st) -> length (st_m st) = d ->
  let e := env_R theta phi int_ ext r s in
  let st' := step ROps d (OGate g e modes) st in
  let S := SrR d modes (passive_block ROps g e) (active_or_nil g e) in
  (forall i j, (i < d + d)%nat -> (j < d + d)%nat -> snd (S i j) = 0%R) /\
  (forall i, (i < d + d)%nat ->
     creal ROps (meanR s2h (st_m st') i)
     = mvf RC (d + d)%nat S (fun a => creal ROps (meanR s2h (st_m st) a)) i) /\
  (forall i j, (i < d + d)%nat -> (j < d + d)%nat ->
     creal ROps (covR d hbar (st_C st') (st_G st') i j)
     = mmf RC (d + d)%nat (mmf RC (d + d)%nat S (fun a b => creal ROps (covR d hbar (st_C st) (st_G st) a b)))
         (trf S) i j).
Proof.
  intros d g theta phi int_ ext r s modes st hbar s2h Hm Hlen HC HG Hl e st' S.
  assert (Hok : op_ok d (OGate g e modes)).
  { simpl. split; [|split; assumption]. exists theta, phi, int_, ext, r, s. reflexivity. }
  pose proof (op_ok_valid d _ Hok) as Hv.
  assert (Hb : gate_blocks (lop_of ROps (OGate g e modes))
               = Some (modes, passive_block ROps g e, active_or_nil g e)).
  { unfold active_or_nil. simpl. destruct (active_block ROps g e); reflexivity. }
  unfold st'. rewrite step_is_lstep. fold RC. change (cops ROps) with RC.
  split; [|split].
  - intros i j Hi Hj. apply SrR_real; assumption.
  - intros i Hi. apply (step_mean_real d _ st s2h modes _ _ Hv Hb HC HG Hl i Hi).
  - intros i j Hi Hj. apply (step_cov_real d _ st hbar modes _ _ Hv Hb HC HG i j Hi Hj).
Qed.

(* ---- every built-in gate's embedded ladder-operator transformation is symplectic, for all real
   parameters, every d and every duplicate-free tuple of modes: in the complex form
   S diag(I,-I) S^dagger = diag(I,-I) and in the real xxpp form Sr Omega Sr^T = Omega *)
Theorem builtin_gate_symplectic_real :
  forall d g theta phi int_ ext r s modes,
  modes_ok d modes -> length modes = n_modes g ->
  let e := env_R theta phi int_ ext r s in
  let P := passive_block ROps g e in
  let Am := active_or_nil g e in
  eqm (d + d) (cong RC (d + d) (Sgate RC d modes P Am) (Omc RC d)) (Omc RC d) /\
  eqm (d + d) (mmf RC (d + d) (mmf RC (d + d) (SrR d modes P Am) (Om RC d)) (trf (SrR d modes P Am)))
      (Om RC d).
Proof.
  intros d g theta phi int_ ext r s modes Hm Hlen e P Am.
  assert (Hok : op_ok d (OGate g e modes)).
  { simpl. split; [|split; assumption]. exists theta, phi, int_, ext, r, s. reflexivity. }
  pose proof (op_ok_valid d _ Hok) as Hv.
  assert (Hb : step_blocks (lop_of ROps (OGate g e modes)) = Some (modes, P, Am)).
  { unfold P, Am, active_or_nil. simpl. destruct (active_block ROps g e); reflexivity. }
  destruct (valid_blocks RC RC_ring d _ modes P Am Hv Hb) as (_ & H1 & H2).
  split.
  - exact (embed_symplectic RC RC_ring RC_conj_0 RC_conj_1 RC_conj_add RC_conj_mul RC_conj_conj
             d modes P Am Hm H1 H2).
  - exact (embed_real_symplectic RC RC_ring RC_conj_0 RC_conj_1 RC_conj_add RC_conj_mul RC_conj_conj
             d iiR halfR iiR_sq iiR_conj halfR_two modes P Am Hm H1 H2).
Qed.

(* ---- the modelled xxpp covariance matrix is symmetric whenever C is Hermitian and G symmetric,
   hence after every program of valid instructions (sequence theorem) *)
Lemma covR_symmetric : forall d hbar C G, herm RC d C -> symm RC d G ->
  forall i j, (i < d + d)%nat -> (j < d + d)%nat -> covR d hbar C G i j = covR d hbar C G j i.
Proof.
  intros d hbar C G HC HG i j Hi Hj. unfold covR, xxpp_cov.
  rewrite !(nth_map_seq _ _ (2 * d)) by lia. unfold cops. fold RC.
  rewrite (Nat.eqb_sym j i).
  assert (F : forall a b, (a < d)%nat -> (b < d)%nat ->
            fst (MomentsModel.get RC C b a) = fst (MomentsModel.get RC C a b) /\
            snd (MomentsModel.get RC C b a) = Ropp (snd (MomentsModel.get RC C a b)) /\
            MomentsModel.get RC G b a = MomentsModel.get RC G a b).
  { intros a b Ha Hb. pose proof (HC a b Ha Hb) as E. pose proof (HG a b Ha Hb) as E2.
    destruct (MomentsModel.get RC C b a) as [x y]. destruct (MomentsModel.get RC C a b) as [x' y'].
    unfold RC, CxOps, zconj, cconj in E. cbn in E. inversion E. subst. cbn.
    repeat split; try ring. exact E2. }
  destruct (Nat.ltb_spec i d); destruct (Nat.ltb_spec j d).
  - destruct (F i j) as (F1 & F2 & F3); try assumption. rewrite F3.
    destruct (MomentsModel.get RC G i j) as [gr gi].
    destruct (MomentsModel.get RC C j i) as [x y]. destruct (MomentsModel.get RC C i j) as [x' y'].
    cbn in *. subst. try reflexivity; try ring.
  - destruct (F i (j - d)%nat) as (F1 & F2 & F3); try lia. rewrite F3.
    destruct (MomentsModel.get RC G i (j - d)) as [gr gi].
    destruct (MomentsModel.get RC C (j - d) i) as [x y]. destruct (MomentsModel.get RC C i (j - d)) as [x' y'].
    cbn in *. subst. try reflexivity; try ring.
  - destruct (F (i - d)%nat j) as (F1 & F2 & F3); try lia. rewrite F3.
    destruct (MomentsModel.get RC G (i - d) j) as [gr gi].
    destruct (MomentsModel.get RC C j (i - d)) as [x y]. destruct (MomentsModel.get RC C (i - d) j) as [x' y'].
    cbn in *. subst. try reflexivity; try ring.
  - destruct (F (i - d)%nat (j - d)%nat) as (F1 & F2 & F3); try lia. rewrite F3.
    destruct (MomentsModel.get RC G (i - d) (j - d)) as [gr gi].
    destruct (MomentsModel.get RC C (j - d) (i - d)) as [x y].
    destruct (MomentsModel.get RC C (i - d) (j - d)) as [x' y'].
    cbn in *. subst. try reflexivity; try ring.
Qed.

Theorem covariance_symmetric_after_program : forall d (prog : list (@op R)) s hbar,
  Forall (op_ok d) prog -> herm RC d (st_C s) -> symm RC d (st_G s) ->
  let s' := run ROps d prog s in
  forall i j, (i < d + d)%nat -> (j < d + d)%nat ->
  covR d hbar (st_C s') (st_G s') i j = covR d hbar (st_C s') (st_G s') j i.
Proof.
  intros d prog s hbar Hok HC HG s' i j Hi Hj.
  destruct (gates_sequence_real d prog s Hok HC HG) as (_ & _ & HC' & HG').
  apply covR_symmetric; assumption.
Qed.
