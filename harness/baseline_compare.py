"""Compare a junit xml of the repo's test-suite with the stable_pass list of BASELINE.json.
usage: baseline_compare.py run.xml"""
import json
import sys
import xml.etree.ElementTree as ET

base = json.load(open("/root/.vp/BASELINE.json"))
stable = set(base["stable_pass"])
tree = ET.parse(sys.argv[1])
passed = set()
bad = {}
for tc in tree.iter("testcase"):
    tid = "%s::%s" % (tc.get("classname"), tc.get("name"))
    status = "pass"
    for ch in tc:
        if ch.tag in ("failure", "error"):
            status = ch.tag
        elif ch.tag == "skipped":
            status = "skipped"
    if status == "pass":
        passed.add(tid)
    else:
        bad[tid] = status
missing = sorted(stable - passed)
print("stable_pass: %d, passed in this run: %d, stable tests not passing: %d" % (len(stable), len(passed), len(missing)))
for m in missing[:40]:
    print("  NOT PASSING:", m, bad.get(m, "absent"))
sys.exit(1 if missing else 0)
