(* C01 — All bosonic simulators agree on photon-number statistics (algebraic core).
   Only statements closed by [exact]; proofs live in C01/. *)
From Coq Require Import ZArith QArith List Ring.
From PV Require Import Comb.FockModel C01.PermModel C01.PermProofs C01.TableProofs C01.SymProofs C01.GaussZ.
Import ListNotations.
Local Open Scope nat_scope.

(* the Laplace recurrence that builds the Fock-space representation of an interferometer
   (unnormalised: B(t,s) = sqrt(t! s!) <t|U|s>) is the permanent of U with row i repeated
   t_i times and column j repeated s_j times: every number of modes, every particle
   number n, every matrix U over every commutative ring *)
Theorem C01_fock_rep_is_permanent :
  forall (A : Type) (a0 a1 : A) (aadd amul asub : A -> A -> A) (aopp : A -> A),
  ring_theory a0 a1 aadd amul asub aopp (@eq A) ->
  forall (U : list (list A)) (n : nat) (t s : list nat),
  total t = n ->
  repB A a0 a1 aadd amul U n t s = perm_mult A a0 a1 aadd amul U t s.
Proof. exact fock_rep_is_permanent. Qed.
Print Assumptions C01_fock_rep_is_permanent.

(* the same at the level of the code's tables (calculate_interferometer_helper_indices +
   calculate_interferometer_on_fock_space, unnormalised): for every d >= 1, every cutoff
   (1 and 2 included: the repaired code) and every sector n the code produces, the entry
   of the n-th matrix at the sub-space indices of t and s is that permanent *)
Theorem C01_rep_tables_hold_the_permanent :
  forall (A : Type) (a0 a1 : A) (aadd amul asub : A -> A -> A) (aopp : A -> A),
  ring_theory a0 a1 aadd amul asub aopp (@eq A) ->
  forall (U : list (list A)) (d cutoff n : nat) (t s : list nat),
  n < Nat.max cutoff 2 -> validN (S d) n t -> validN (S d) n s ->
  lookup A a0 (nth n (rep_tables A a0 a1 aadd amul U (S d) cutoff) []) (sidx t) (sidx s) =
  perm_mult A a0 a1 aadd amul U t s.
Proof. exact rep_tables_permanent. Qed.
Print Assumptions C01_rep_tables_hold_the_permanent.

(* the sub-space index used by those tables addresses the enumeration of the sector *)
Theorem C01_subspace_index_addresses_sector :
  forall d n v, validN (S d) n v ->
  sidx v < length (sectorN (S d) n) /\ nth (sidx v) (sectorN (S d) n) [] = v.
Proof. exact sidx_lookup. Qed.
Print Assumptions C01_subspace_index_addresses_sector.

(* SLOS (photon-by-photon state-vector construction of the passive simulator, without
   post-selection pruning) computes the same permanent with multiplicities: every number of
   modes, every input s, every output t with as many photons, every U *)
Theorem C01_slos_is_permanent :
  forall (A : Type) (a0 a1 : A) (aadd amul asub : A -> A -> A) (aopp : A -> A),
  ring_theory a0 a1 aadd amul asub aopp (@eq A) ->
  forall (U : list (list A)) (s t : list nat),
  total t = total s ->
  slos_amp A a0 a1 aadd amul U s t = perm_mult A a0 a1 aadd amul U t s.
Proof. exact slos_is_permanent. Qed.
Print Assumptions C01_slos_is_permanent.

(* and the vector the code computes (table over the sector, gather form), read at the
   sub-space index of t, is that function *)
Theorem C01_slos_vector_is_slos_amp :
  forall (A : Type) (a0 a1 : A) (aadd amul : A -> A -> A)
         (U : list (list A)) (d : nat) (s t : list nat),
  validN (S d) (total s) t ->
  nth (sidx t) (slos_vector A a0 a1 aadd amul U (S d) s) a0 = slos_amp A a0 a1 aadd amul U s t.
Proof. exact slos_vector_correct. Qed.
Print Assumptions C01_slos_vector_is_slos_amp.

(* the permanent in list form is invariant under transposition and under any permutation
   of the columns (the two facts behind the SLOS theorem) *)
Theorem C01_permanent_transpose :
  forall (A : Type) (a0 a1 : A) (aadd amul asub : A -> A -> A) (aopp : A -> A),
  ring_theory a0 a1 aadd amul asub aopp (@eq A) ->
  forall (e : nat -> nat -> A) (qs ps : list nat), length ps = length qs ->
  permL A a0 a1 aadd amul e ps qs = permL A a0 a1 aadd amul (fun q p => e p q) qs ps.
Proof. exact permL_transpose. Qed.
Print Assumptions C01_permanent_transpose.

(* passive_stats_agree, core: the pure/mixed-Fock recurrence and the passive simulator's
   recurrence give the same unnormalised amplitude for every U, s, t *)
Theorem C01_rep_equals_slos :
  forall (A : Type) (a0 a1 : A) (aadd amul asub : A -> A -> A) (aopp : A -> A),
  ring_theory a0 a1 aadd amul asub aopp (@eq A) ->
  forall (U : list (list A)) (s t : list nat),
  total t = total s ->
  repB A a0 a1 aadd amul U (total t) t s = slos_amp A a0 a1 aadd amul U s t.
Proof. exact rep_equals_slos. Qed.
Print Assumptions C01_rep_equals_slos.

(* non-vacuity: the hypotheses are satisfiable (Z is such a ring) and the objects are the
   expected ones on concrete inputs *)
Example C01_ring_exists : ring_theory 0%Z 1%Z Z.add Z.mul Z.sub Z.opp (@eq Z).
Proof. exact InitialRing.Zth. Qed.
Example C01_perm_2x2 :
  perm_mult Z 0%Z 1%Z Z.add Z.mul [[1;2];[3;4]]%Z [1;1] [1;1] = 10%Z.
Proof. vm_compute. reflexivity. Qed.
Example C01_perm_repeated_row :
  perm_mult Z 0%Z 1%Z Z.add Z.mul [[1;2];[3;4]]%Z [2;0] [1;1] = 4%Z.
Proof. vm_compute. reflexivity. Qed.
Example C01_table_entry :
  lookup Z 0%Z (nth 3 (rep_tables Z 0%Z 1%Z Z.add Z.mul [[1;2];[3;4]]%Z 2 4) [])
         (sidx [2;1]) (sidx [1;2]) = 56%Z
  /\ slos_amp Z 0%Z 1%Z Z.add Z.mul [[1;2];[3;4]]%Z [1;2] [2;1] = 56%Z
  /\ validN 2 3 [2;1].
Proof. vm_compute. repeat split. Qed.
