(* C09 -- proofs about the connector specification (ConnModel.v):
   assign laws, accumulator, generic = numba representation, parametricity of the steps. *)
From Coq Require Import List Arith Lia Ring.
From PV Require Import C09.ConnModel C09.ListLemmas.
Import ListNotations.

(* ------------------------------------------------------------------ assign laws (any carrier) *)
Section Assign.
Variable A : Type.
Variable zero : A.

Lemma assign_list_length : forall (v : list A) idx vals,
  length (assign_list A v idx vals) = length v.
Proof. intros. apply upd_many_length. Qed.

(* frame *)
Lemma assign_list_frame : forall (v : list A) idx vals k,
  ~ In k idx -> nth k (assign_list A v idx vals) zero = nth k v zero.
Proof.
  intros. unfold assign_list. apply upd_many_frame.
  intro H0. apply H. clear H. revert vals H0.
  induction idx; destruct vals; simpl in *; intros; try tauto.
  destruct H0; [left; auto | right; eauto].
Qed.

Lemma combine_nth_split : forall X Y (l1 : list X) (l2 : list Y) n dx dy,
  n < length l1 -> n < length l2 ->
  combine l1 l2 = firstn n (combine l1 l2) ++ (nth n l1 dx, nth n l2 dy) :: skipn (S n) (combine l1 l2).
Proof.
  induction l1; destruct l2; destruct n; simpl; intros; try lia; auto.
  f_equal. apply IHl1; lia.
Qed.

Lemma skipn_combine_fst : forall X Y n (l1 : list X) (l2 : list Y) k,
  In k (map fst (skipn n (combine l1 l2))) -> In k (skipn n l1).
Proof.
  induction n; simpl; intros.
  - revert l2 H. induction l1; destruct l2; simpl in *; intros; try tauto.
    destruct H; [left; auto | right; eauto].
  - destruct l1; destruct l2; simpl in *; try tauto; eauto.
Qed.

(* get after set: position idx[a] holds vals[a] unless a later entry of idx repeats it *)
Lemma assign_list_get : forall (v : list A) idx vals a,
  a < length idx -> a < length vals -> nth a idx 0 < length v ->
  ~ In (nth a idx 0) (skipn (S a) idx) ->
  nth (nth a idx 0) (assign_list A v idx vals) zero = nth a vals zero.
Proof.
  intros. unfold assign_list.
  rewrite (combine_nth_split _ _ idx vals a 0 zero) by auto.
  apply upd_many_last; auto.
  intro Hin. apply H2. eapply skipn_combine_fst; eauto.
Qed.

Lemma NoDup_skipn_nth : forall (l : list nat) n, NoDup l -> n < length l -> ~ In (nth n l 0) (skipn (S n) l).
Proof.
  induction l; destruct n; simpl; intros; try lia.
  - inversion H; auto.
  - inversion H; subst. apply IHl; auto. lia.
Qed.

Corollary assign_list_get_nodup : forall (v : list A) idx vals a,
  NoDup idx -> length vals = length idx -> Forall (fun k => k < length v) idx -> a < length idx ->
  nth (nth a idx 0) (assign_list A v idx vals) zero = nth a vals zero.
Proof.
  intros. apply assign_list_get; auto; try lia.
  - eapply Forall_nth_len in H1; eauto.
  - apply NoDup_skipn_nth; auto.
Qed.

(* 2-D *)
Lemma upd2_length : forall (M : list (list A)) i j x, length (upd2 A M i j x) = length M.
Proof. intros. apply upd_length. Qed.

Lemma get2_upd2_eq : forall (M : list (list A)) i j x,
  i < length M -> j < length (nth i M []) -> get2 A zero (upd2 A M i j x) i j = x.
Proof.
  intros. unfold get2, upd2. rewrite nth_upd_eq by auto. apply nth_upd_eq; auto.
Qed.

Lemma get2_upd2_neq : forall (M : list (list A)) i j i' j' x,
  (i, j) <> (i', j') -> get2 A zero (upd2 A M i j x) i' j' = get2 A zero M i' j'.
Proof.
  intros. unfold get2, upd2.
  destruct (Nat.eq_dec i i').
  - subst i'. destruct (Nat.lt_ge_cases i (length M)).
    + rewrite nth_upd_eq by auto. apply nth_upd_neq. congruence.
    + rewrite upd_out_of_range by auto. auto.
  - rewrite nth_upd_neq by auto. auto.
Qed.

Lemma row_length_upd2 : forall (M : list (list A)) i j x i',
  length (nth i' (upd2 A M i j x) []) = length (nth i' M []).
Proof.
  intros. unfold upd2. destruct (Nat.eq_dec i i').
  - subst. destruct (Nat.lt_ge_cases i' (length M)).
    + rewrite nth_upd_eq by auto. apply upd_length.
    + rewrite upd_out_of_range by auto. auto.
  - rewrite nth_upd_neq by auto. auto.
Qed.

Lemma upd2_many_shape : forall kx (M : list (list A)),
  length (upd2_many A M kx) = length M /\
  forall i, length (nth i (upd2_many A M kx) []) = length (nth i M []).
Proof.
  unfold upd2_many. induction kx as [|[[i j] x] kx IH]; simpl; intros; auto.
  destruct (IH (upd2 A M i j x)) as [H1 H2]. split.
  - rewrite H1. apply upd2_length.
  - intro. rewrite H2. apply row_length_upd2.
Qed.

(* frame for the matrix assignment with a pair of index arrays *)
Lemma upd2_many_frame : forall kx (M : list (list A)) i j,
  ~ In (i, j) (map fst kx) -> get2 A zero (upd2_many A M kx) i j = get2 A zero M i j.
Proof.
  unfold upd2_many. induction kx as [|[[i0 j0] x] kx IH]; simpl; intros; auto.
  rewrite IH by tauto. apply get2_upd2_neq. intro. apply H. left. auto.
Qed.

Lemma upd2_many_last : forall pre post i j x (M : list (list A)),
  i < length M -> j < length (nth i M []) -> ~ In (i, j) (map fst post) ->
  get2 A zero (upd2_many A M (pre ++ (i, j, x) :: post)) i j = x.
Proof.
  intros. unfold upd2_many. rewrite fold_left_app. simpl.
  fold (upd2_many A M pre). fold (upd2_many A (upd2 A (upd2_many A M pre) i j x) post).
  rewrite upd2_many_frame by auto.
  destruct (upd2_many_shape pre M) as [H2 H3].
  apply get2_upd2_eq; [rewrite H2 | rewrite H3]; auto.
Qed.

Lemma assign_pairs_frame : forall (M : list (list A)) R C vals i j,
  ~ In (i, j) (combine (concat R) (concat C)) ->
  get2 A zero (assign_pairs A M R C vals) i j = get2 A zero M i j.
Proof.
  intros. unfold assign_pairs, zip_pairs. apply upd2_many_frame.
  intro H0. apply H. clear H.
  revert H0. generalize (concat vals) as vs. generalize (combine (concat R) (concat C)) as ps.
  induction ps; destruct vs; simpl in *; intros; try tauto.
  destruct H0; [left; auto | right; eauto].
Qed.

(* get after set, for index pairs without repetition *)
Lemma assign_pairs_get : forall (M : list (list A)) R C vals a,
  let P := combine (concat R) (concat C) in
  NoDup P -> a < length P -> a < length (concat vals) ->
  fst (nth a P (0, 0)) < length M -> snd (nth a P (0, 0)) < length (nth (fst (nth a P (0, 0))) M []) ->
  get2 A zero (assign_pairs A M R C vals) (fst (nth a P (0, 0))) (snd (nth a P (0, 0)))
  = nth a (concat vals) zero.
Proof.
  intros. unfold assign_pairs, zip_pairs. fold P.
  rewrite (combine_nth_split _ _ P (concat vals) a (0, 0) zero) by auto.
  destruct (nth a P (0, 0)) as [i j] eqn:E. cbn [fst snd] in *.
  apply upd2_many_last; auto.
  intro Hin. apply skipn_combine_fst in Hin.
  assert (Hnd : forall (l : list (nat * nat)) n, NoDup l -> n < length l ->
            ~ In (nth n l (0, 0)) (skipn (S n) l)).
  { clear. induction l; destruct n; simpl; intros; try lia.
    - inversion H; auto.
    - inversion H; subst. apply IHl; auto. lia. }
  apply (Hnd P a); auto. rewrite E. auto.
Qed.

(* assign through np.ix_ is the pair form after broadcasting: its written positions are
   exactly rows x cols *)
Lemma ix_positions : forall rows cols,
  combine (concat (bc_rows rows cols)) (concat (bc_cols rows cols)) = list_prod rows cols.
Proof.
  induction rows; simpl; intros; auto.
  rewrite <- IHrows. clear IHrows.
  assert (forall l1 l2 (m1 m2 : list nat), length l1 = length l2 ->
            combine (l1 ++ m1) (l2 ++ m2) = combine l1 l2 ++ combine m1 m2).
  { induction l1; destruct l2; simpl; intros; try discriminate; auto. f_equal. auto. }
  rewrite H by (rewrite map_length; auto). f_equal.
  clear. induction cols; simpl; auto. f_equal. auto.
Qed.

Lemma assign_ix_frame : forall (M : list (list A)) rows cols vals i j,
  ~ (In i rows /\ In j cols) ->
  get2 A zero (assign_ix A M rows cols vals) i j = get2 A zero M i j.
Proof.
  intros. unfold assign_ix. apply assign_pairs_frame. rewrite ix_positions.
  rewrite in_prod_iff. auto.
Qed.

(* accumulator: appending (BuiltinConnector) and slot writing (tf.TensorArray) stack to the
   same matrix when the rows are written in the order 0, 1, 2, ... *)
Lemma fill_list_id : forall rows : list (list A), fill_list A rows = rows.
Proof.
  intro rows. unfold fill_list, acc_list_stack, acc_list_write, acc_list_new.
  assert (forall (rows acc : list (list A)) s,
    fold_left (fun acc p => acc ++ [snd p]) (combine (seq s (length rows)) rows) acc = acc ++ rows).
  { induction rows0; simpl; intros. - rewrite app_nil_r. auto.
    - rewrite IHrows0. rewrite <- app_assoc. auto. }
  apply (H rows [] 0).
Qed.

Lemma fill_arr_id : forall rows : list (list A), fill_arr A rows = rows.
Proof.
  intro rows. unfold fill_arr, acc_arr_stack, acc_arr_write, acc_arr_new.
  assert (forall (rows : list (list A)) (done : list (option (list A))) ,
    fold_left (fun acc p => upd acc (fst p) (Some (snd p)))
              (combine (seq (length done) (length rows)) rows) (done ++ repeat None (length rows))
    = done ++ map Some rows).
  { induction rows0; simpl; intros; auto.
    replace (upd (done ++ None :: repeat None (length rows0)) (length done) (Some a))
      with ((done ++ [Some a]) ++ repeat None (length rows0)).
    - replace (S (length done)) with (length (done ++ [Some a])) by (rewrite app_length; simpl; lia).
      rewrite IHrows0. rewrite <- app_assoc. auto.
    - rewrite <- app_assoc. simpl. clear. induction done; simpl; auto. f_equal. auto. }
  specialize (H rows []). simpl in H. rewrite H.
  rewrite map_map. rewrite map_id. auto.
Qed.

Theorem accumulators_agree : forall rows : list (list A), fill_list A rows = fill_arr A rows.
Proof. intros. rewrite fill_list_id, fill_arr_id. auto. Qed.

End Assign.

(* ------------------------------------------------------------ algebra: a commutative ring *)
Section Ring.
Variable A : Type.
Variables (zero one : A) (add mul sub : A -> A -> A) (opp : A -> A) (inv : A -> A).
Hypothesis Rth : ring_theory zero one add mul sub opp (@eq A).
Add Ring Aring : Rth.

(* division as the code uses it: x / den = x * den^-1 (any function [inv]) *)
Definition div (a b : A) : A := mul a (inv b).

Notation sumA := (sum A zero add).
Notation get2A := (get2 A zero).

Lemma sum_div : forall (g : nat -> A) den js,
  div (sumA (map g js)) den = sumA (map (fun j => div (g j) den) js).
Proof.
  unfold div. induction js; simpl; intros. - ring. - rewrite <- IHjs. ring.
Qed.

Lemma fold_add_sum : forall (t : nat -> A) js a,
  fold_left (fun acc j => add acc (t j)) js a = add a (sumA (map t js)).
Proof.
  induction js; simpl; intros. - ring. - rewrite IHjs. ring.
Qed.

(* well-shaped helper level: what the einsum of the generic version needs to be defined *)
Definition wf_level (U : list (list A)) (h : level A) : Prop :=
  let J := length (hd [] (l_sq A h)) in
  length (l_fsi A h) = length (l_fnz A h) /\ length (l_sqf A h) = length (l_fnz A h) /\
  length (l_si A h) = length (l_sq A h) /\
  Forall (fun r => length r = J) (l_sq A h) /\ Forall (fun r => length r = J) (l_si A h) /\
  Forall (fun k => length (nth k U []) = J) (l_fnz A h).

Lemma numba_entry : forall U prev h k i,
  i < length (l_sq A h) ->
  nth i (numba_row A zero add mul div U prev h k) zero =
  add zero (sumA (map (fun j =>
      mul (mul (div (get2A U (nth k (l_fnz A h) 0) j) (nth k (l_sqf A h) zero)) (get2A (l_sq A h) i j))
          (nth (nth j (nth i (l_si A h) []) 0) (nth (nth k (l_fsi A h) 0) prev []) zero))
     (seq 0 (length (hd [] (l_sq A h)))))).
Proof.
  intros. unfold numba_row.
  set (nI := length (l_sq A h)) in *.
  set (t := fun j i => mul (mul (div (get2A U (nth k (l_fnz A h) 0) j) (nth k (l_sqf A h) zero))
                                (get2A (l_sq A h) i j))
          (nth (nth j (nth i (l_si A h) []) 0) (nth (nth k (l_fsi A h) 0) prev []) zero)).
  assert (G : forall js row, length row = nI ->
     length (fold_left (fun (row : list A) j => map2 (fun acc i => add acc (t j i)) row (seq 0 nI)) js row) = nI /\
     nth i (fold_left (fun (row : list A) j => map2 (fun acc i => add acc (t j i)) row (seq 0 nI)) js row) zero
     = fold_left (fun acc j => add acc (t j i)) js (nth i row zero)).
  { induction js; simpl; intros; auto.
    assert (L : length (map2 (fun acc i0 => add acc (t a i0)) row (seq 0 nI)) = nI).
    { rewrite map2_length, seq_length. lia. }
    destruct (IHjs _ L) as [H1 H2]. split; auto. rewrite H2. f_equal.
    rewrite (nth_map2 _ _ _ _ row (seq 0 nI) i zero 0 zero) by (rewrite ?seq_length; lia).
    rewrite seq_nth by auto. auto. }
  destruct (G (seq 0 (length (hd [] (l_sq A h)))) (zeros A zero nI)) as [_ G2].
  { unfold zeros. apply repeat_length. }
  unfold t in G2. rewrite G2. rewrite fold_add_sum. f_equal.
  unfold zeros. clear. revert i. induction nI; destruct i; simpl; auto.
Qed.

Lemma numba_row_length : forall U prev h k,
  length (numba_row A zero add mul div U prev h k) = length (l_sq A h).
Proof.
  intros. unfold numba_row.
  set (nI := length (l_sq A h)).
  assert (forall js (f : nat -> A -> nat -> A) row, length row = nI ->
     length (fold_left (fun (row : list A) j => map2 (f j) row (seq 0 nI)) js row) = nI).
  { induction js; simpl; intros; auto. apply IHjs. rewrite map2_length, seq_length. lia. }
  apply (H _ (fun j acc i => add acc _)). unfold zeros. apply repeat_length.
Qed.

(* one level: the einsum formulation and the triple loop compute the same matrix *)
Lemma generic_level_eq_numba : forall U prev h,
  wf_level U h ->
  generic_level A zero add mul div U prev h = numba_level A zero add mul div U prev h.
Proof.
  intros U prev h (H1 & H2 & H3 & H4 & H5 & H6).
  set (J := length (hd [] (l_sq A h))) in *.
  unfold generic_level, numba_level.
  set (K := length (l_fnz A h)) in *.
  apply nth_ext with (d := []) (d' := []).
  { rewrite !map2_length, !map_length, seq_length. unfold gather_axis1. rewrite !map_length. lia. }
  intros k Hk.
  assert (HkK : k < K).
  { rewrite !map2_length, !map_length in Hk. lia. }
  rewrite nth_map_seq by auto.
  rewrite (nth_map2 _ _ _ _ _ _ k [] zero []).
  2:{ rewrite map2_length, map_length. unfold gather_axis1. rewrite !map_length. lia. }
  2:{ lia. }
  rewrite (nth_map2 _ _ _ _ _ _ k [] [] []).
  2:{ rewrite map_length. lia. }
  2:{ unfold gather_axis1. rewrite !map_length. lia. }
  rewrite (nth_map_in _ _ _ (l_fnz A h) k 0) by lia.
  unfold gather_axis1.
  rewrite (nth_map_in _ _ _ (map _ (l_fsi A h)) k []) by (rewrite map_length; lia).
  rewrite (nth_map_in _ _ _ (l_fsi A h) k 0) by lia.
  apply nth_ext with (d := zero) (d' := zero).
  { rewrite map_length, map2_length, map_length, numba_row_length. lia. }
  intros i Hi.
  assert (HiI : i < length (l_sq A h)).
  { rewrite map_length, map2_length, map_length in Hi. lia. }
  rewrite numba_entry by auto.
  rewrite (nth_map_in _ _ _ _ i zero) by (rewrite map2_length, map_length; lia).
  rewrite (nth_map2 _ _ _ _ _ _ i [] [] zero) by (rewrite ?map_length; lia).
  rewrite (nth_map_in _ _ _ (l_si A h) i []) by lia.
  rewrite (map3_seq _ _ _ _ _ _ _ _ J zero zero zero).
  2:{ apply (Forall_nth_len _ _ _ i [] H4). auto. }
  2:{ apply (Forall_nth_len _ _ _ k 0 H6). auto. }
  2:{ rewrite map_length. apply (Forall_nth_len _ _ _ i [] H5). lia. }
  rewrite sum_div.
  assert (E : forall l1 l2 : list A, l1 = l2 -> sumA l1 = add zero (sumA l2)).
  { intros; subst. ring. }
  apply E. apply map_ext_in. intros j Hj. apply in_seq in Hj.
  rewrite (nth_map_in _ _ _ (nth i (l_si A h) []) j 0).
  2:{ rewrite (Forall_nth_len _ _ _ i [] H5) by lia. lia. }
  unfold div, get2. ring.
Qed.

Theorem generic_reps_eq_numba_reps : forall U hs,
  Forall (wf_level U) hs ->
  generic_reps A zero one add mul div U hs = numba_reps A zero one add mul div U hs.
Proof.
  intros U hs H. unfold generic_reps, numba_reps. do 2 f_equal.
  generalize U at 2 4 as prev. induction H; simpl; intros; auto.
  rewrite generic_level_eq_numba by auto. f_equal. apply IHForall.
Qed.

(* both equal the entry-wise specification *)
Lemma numba_level_spec : forall U prev h k i,
  k < length (l_fnz A h) -> i < length (l_sq A h) ->
  nth i (nth k (numba_level A zero add mul div U prev h) []) zero
  = spec_entry A zero add mul div U prev h k i.
Proof.
  intros. unfold numba_level. rewrite nth_map_seq by auto. rewrite numba_entry by auto.
  unfold spec_entry.
  assert (E : forall l1 l2 : list A, l1 = l2 -> add zero (sumA l1) = sumA l2).
  { intros; subst. ring. }
  apply E. apply map_ext. intros. unfold div, get2. ring.
Qed.

(* -------------------------------------------------------------- parametricity of the steps *)
(* a connector is acceptable when its deterministic operations meet the specification on the
   inputs for which the specification is unambiguous: indices in range and not repeated *)
Definition valid_idx (n : nat) (idx : list nat) : Prop :=
  NoDup idx /\ Forall (fun k => k < n) idx.

Definition conn_ok (c : connector A) : Prop :=
  (forall v idx vals, valid_idx (length v) (concat idx) ->
      c_assign_mat A c v idx vals = assign_mat A v idx vals) /\
  (forall v idx vals, valid_idx (length v) idx ->
      c_assign_list A c v idx vals = assign_list A v idx vals) /\
  (forall U hs, Forall (wf_level U) hs ->
      c_reps A c U hs = numba_reps A zero one add mul div U hs).

Lemma numpy_connector_ok : conn_ok (numpy_connector A zero one add mul div).
Proof. repeat split; auto. Qed.

Lemma generic_connector_ok : conn_ok (generic_connector A zero one add mul div).
Proof.
  repeat split; auto. intros. simpl. apply generic_reps_eq_numba_reps. auto.
Qed.

Lemma apply_reps_param : forall c1 c2 sv Ts index_list,
  conn_ok c1 -> conn_ok c2 ->
  Forall (fun idx => valid_idx (length sv) (concat idx)) index_list ->
  apply_reps A zero add mul c1 sv Ts index_list = apply_reps A zero add mul c2 sv Ts index_list.
Proof.
  intros c1 c2 sv Ts il [H1 _] [H2 _] Hv. unfold apply_reps.
  assert (L : length (zeros A zero (length sv)) = length sv) by (apply repeat_length).
  revert L. generalize (zeros A zero (length sv)) as new.
  revert Ts. induction Hv; intros Ts new L.
  - destruct Ts; simpl; auto.
  - destruct Ts; simpl; auto.
    rewrite H1, H2 by (rewrite L; auto).
    apply IHHv. unfold assign_mat. rewrite assign_list_length. auto.
Qed.

(* the pure-Fock passive step gives the same state vector with any two acceptable connectors *)
Theorem passive_step_connector_independent : forall c1 c2 sv U hs index_list,
  conn_ok c1 -> conn_ok c2 -> Forall (wf_level U) hs ->
  Forall (fun idx => valid_idx (length sv) (concat idx)) index_list ->
  passive_step A zero add mul c1 sv U hs index_list = passive_step A zero add mul c2 sv U hs index_list.
Proof.
  intros. unfold passive_step.
  destruct H as (Ha & Hb & Hc). destruct H0 as (Ha' & Hb' & Hc').
  rewrite Hc, Hc' by auto.
  apply apply_reps_param; repeat split; auto.
Qed.

(* ... and the Gaussian mean-vector update *)
Theorem gaussian_mean_step_connector_independent : forall c1 c2 m T modes,
  conn_ok c1 -> conn_ok c2 -> valid_idx (length m) modes ->
  gaussian_mean_step A zero add mul c1 m T modes = gaussian_mean_step A zero add mul c2 m T modes.
Proof.
  intros c1 c2 m T modes (_ & H1 & _) (_ & H2 & _) Hv. unfold gaussian_mean_step.
  rewrite H1, H2; auto.
Qed.

End Ring.
