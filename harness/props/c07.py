"""C07 — Built-in linear gates are physical and act as documented."""
import itertools
import math
import os
import sys
from fractions import Fraction

import numpy as np

import time

import common
from common import Check, coq_eval_parallel, parse_coq_list, run_impl

sys.path.insert(0, os.path.join(common.VERIF, "harness", "impl"))
import c07_translate  # noqa: E402

GEN_PATH = os.path.join(common.COQ, "theories", "C07", "GatesGen.v")

HEADER = """From Coq Require Import ZArith QArith List Bool.
From PV Require Import Base.CasesLib C07.CxBase C07.GatesGen C07.MomentsModel C07.GatesModel C07.Run.
Import ListNotations.
Open Scope nat_scope.
Set Printing Width 1000000.
Set Printing Depth 1000000.
"""

HEADER_QS = HEADER + "Notation ofq := qs_of_Q.\nNotation envq := env_Q.\nNotation seq_ok := seq_ok_QS.\nNotation seq_case := (@seq_case QS).\n"
HEADER_Q = HEADER + "Notation ofq := Qred.\nNotation envq := env_Qplain.\nNotation seq_ok := seq_ok_Q.\nNotation seq_case := (@seq_case Q).\n"

ONE_MODE = ["Phaseshifter", "Fourier", "Squeezing", "QuadraticPhase"]
TWO_MODE = ["Beamsplitter", "Beamsplitter5050", "MachZehnder", "Squeezing2", "ControlledX", "ControlledZ"]
DISPL = ["Displacement", "PositionDisplacement", "MomentumDisplacement"]
GATE_PARAMS = {
    "Beamsplitter": ["theta", "phi"], "Beamsplitter5050": [], "Phaseshifter": ["phi"],
    "MachZehnder": ["int_", "ext"], "Fourier": [], "Squeezing": ["r", "phi"],
    "QuadraticPhase": ["s"], "Squeezing2": ["r", "phi"], "ControlledX": ["s"], "ControlledZ": ["s"],
}
HBARS = [Fraction(1, 2), Fraction(1), Fraction(2), Fraction(37, 10)]
TS = [Fraction(p, q) for q in (1, 2, 3, 5, 7) for p in range(-9, 10) if math.gcd(p, q) == 1 and abs(Fraction(p, q)) <= 4]
US = [Fraction(1, 2), Fraction(2, 3), Fraction(3, 4), Fraction(1), Fraction(5, 4), Fraction(3, 2), Fraction(2), Fraction(3)]
SS = [Fraction(p, q) for q in (1, 2, 3, 4) for p in range(-7, 8) if math.gcd(p, q) == 1]


# --------------------------------------------------------------------------- Coq literals
def qz(fr):
    fr = Fraction(fr)
    n = fr.numerator
    return "(qq %s %d)" % ("(%d)" % n if n < 0 else str(n), fr.denominator)


SCALE = 10 ** 12


def zf(x):
    """a float as the integer round(x * 10^12) (Coq side: fz)"""
    n = round(Fraction(float(x)) * SCALE)
    return "(%d)" % n if n < 0 else str(n)


def cxq(re, im):
    return "(ofq %s, ofq %s)" % (qz(re), qz(im))


def nlist(xs):
    return "[" + "; ".join(str(int(x)) for x in xs) + "]"


def cmat(rows):
    return "[" + "; ".join("[" + "; ".join(cxq(a, b) for a, b in r) + "]" for r in rows) + "]"


def fmat(rows):
    """matrix of complex floats [[ [re,im] ]] -> Coq list (list (Q*Q))"""
    return "[" + "; ".join("[" + "; ".join("(%s, %s)" % (zf(a), zf(b)) for a, b in r) + "]" for r in rows) + "]%Z"


# --------------------------------------------------------------------------- parameters
class Par:
    """one draw of all symbolic parameters: rational seeds and the floats given to piquasso"""

    def __init__(self, rng, special=False):
        pick = (lambda xs: rng.choice(xs))
        self.t = {k: pick(TS) for k in ("theta", "phi", "int_", "ext")}
        self.u = pick(US)
        self.s = pick(SS)
        # whole turns added to the float angle given to piquasso: the model's cos/sin symbols do
        # not change, the implementation must not either
        self.turns = {k: rng.choice((0, 0, 0, 1, -1, 2, -2)) for k in self.t}
        if special:
            for k in self.t:
                self.t[k] = pick([Fraction(0), Fraction(1), Fraction(-1), self.t[k]])
            self.u = pick([Fraction(1), self.u])
            self.s = pick([Fraction(0), self.s])

    def env(self):
        return "(envq %s %s %s %s %s %s)" % (qz(self.t["theta"]), qz(self.t["phi"]), qz(self.t["int_"]),
                                             qz(self.t["ext"]), qz(self.u), qz(self.s))

    def floats(self, gate):
        out = {}
        for p in GATE_PARAMS[gate]:
            if p == "r":
                out[p] = math.log(self.u)
            elif p == "s":
                out[p] = float(self.s)
            else:
                out[p] = 2.0 * math.atan(float(self.t[p])) + 2.0 * math.pi * self.turns[p]
        return out

    def key(self, gate):
        return (gate,) + tuple((p, self.u if p == "r" else self.s if p == "s" else self.t[p]) for p in GATE_PARAMS[gate])


def rand_cx(rng):
    return (Fraction(rng.randint(-4, 4), rng.choice((1, 2, 3, 4))), Fraction(rng.randint(-4, 4), rng.choice((1, 2, 3))))


def rand_matrix(rng, k):
    return [[rand_cx(rng) for _ in range(k)] for _ in range(k)]


def fl_matrix(m):
    return [[[float(a), float(b)] for a, b in row] for row in m]


# --------------------------------------------------------------------------- ops
def make_op(rng, kind, modes, special=False):
    """-> (impl op dict, Coq op term, descriptor)"""
    ml = nlist(modes)
    if kind in GATE_PARAMS:
        p = Par(rng, special)
        return ({"k": "gate", "name": kind, "params": p.floats(kind), "modes": list(modes)},
                "OGate %s %s %s" % (kind, p.env(), ml), (kind, tuple(modes)))
    if kind == "Displacement":
        r = rng.choice(SS)
        t = rng.choice(TS)
        c, s = (1 - t * t) / (1 + t * t), 2 * t / (1 + t * t)
        return ({"k": "gate", "name": kind, "params": {"r": float(r), "phi": 2.0 * math.atan(float(t))}, "modes": list(modes)},
                "ODisplacement (ofq %s) (ofq %s) (ofq %s) %s" % (qz(r), qz(c), qz(s), ml), (kind, tuple(modes)))
    if kind == "PositionDisplacement":
        x = rng.choice(SS)
        return ({"k": "gate", "name": kind, "params": {"x": float(x)}, "modes": list(modes)},
                "OPositionDisplacement (ofq %s) %s" % (qz(x), ml), (kind, tuple(modes)))
    if kind == "MomentumDisplacement":
        x = rng.choice(SS)
        return ({"k": "gate", "name": kind, "params": {"p": float(x)}, "modes": list(modes)},
                "OMomentumDisplacement (ofq %s) %s" % (qz(x), ml), (kind, tuple(modes)))
    k = len(modes)
    if kind == "Interferometer":
        m = rand_matrix(rng, k)
        return ({"k": "interf", "matrix": fl_matrix(m), "modes": list(modes)},
                "OInterferometer %s %s" % (cmat(m), ml), (kind, tuple(modes)))
    if kind == "raw_passive":
        m = rand_matrix(rng, k)
        return ({"k": "rawp", "P": fl_matrix(m), "modes": list(modes)},
                "OInterferometer %s %s" % (cmat(m), ml), (kind, tuple(modes)))
    if kind == "raw_linear":
        m, a = rand_matrix(rng, k), rand_matrix(rng, k)
        return ({"k": "raw", "P": fl_matrix(m), "A": fl_matrix(a), "modes": list(modes)},
                "OTransform %s %s %s" % (cmat(m), cmat(a), ml), (kind, tuple(modes)))
    raise ValueError(kind)


def small_int_matrix(rng, k):
    return [[(Fraction(rng.randint(-2, 2)), Fraction(rng.randint(-2, 2))) for _ in range(k)] for _ in range(k)]


def prefix_ops(rng, d):
    """cheap preparation of a generic state with Hermitian C, symmetric G and non-zero m, all with
    small integer entries: displacements, then one _apply_linear on all modes with A = P D
    (D real diagonal), so that G = P D P^T and C = conj(P) D^2 P^T"""
    ops = [make_op(rng, "Displacement", (i,)) for i in range(d)]
    P = small_int_matrix(rng, d)
    D = [Fraction(rng.choice([-2, -1, 1, 2, 3])) for _ in range(d)]
    A = [[(P[i][j][0] * D[j], P[i][j][1] * D[j]) for j in range(d)] for i in range(d)]
    modes = tuple(range(d))
    ops.append(({"k": "raw", "P": fl_matrix(P), "A": fl_matrix(A), "modes": list(modes)},
                "OTransform %s %s %s" % (cmat(P), cmat(A), nlist(modes)), ("raw_linear", modes)))
    return ops


def kinds_for(k):
    if k == 1:
        return ONE_MODE + DISPL + ["Interferometer", "raw_linear", "raw_passive"]
    if k == 2:
        return TWO_MODE + ["Interferometer", "raw_linear", "raw_passive"]
    return ["Interferometer", "raw_linear", "raw_passive"]


def ordered_subsets(d):
    for k in range(1, d + 1):
        for t in itertools.permutations(range(d), k):
            yield t


def seq_case(d, hbar, ops):
    return {"d": d, "hbar": hbar, "ops": ops}


def gen_sequences(chk):
    """subset sweep (every ordered subset of every d<=5) + random programs"""
    rng = chk.rng
    cases = []
    hb = 0
    reps = 3 if chk.thorough else 1
    for d in range(1, 6):
        subs = list(ordered_subsets(d))
        if d == 5 and not chk.thorough:
            subs = rng.sample(subs, 60)
        for modes in subs:
            kinds = kinds_for(len(modes))
            chosen = kinds if chk.thorough and len(modes) <= 2 else [rng.choice(kinds) for _ in range(reps)]
            for kind in chosen:
                ops = prefix_ops(rng, d) + [make_op(rng, kind, modes, special=(rng.random() < 0.2))]
                cases.append(seq_case(d, HBARS[hb % 4], ops))
                hb += 1
    nrand = NRAND_T if chk.thorough else NRAND_Q
    for _ in range(nrand):
        d = rng.randint(1, 5)
        ops = []
        for _ in range(rng.randint(3, 7)):
            k = rng.randint(1, min(d, 3))
            modes = tuple(rng.sample(range(d), k))
            ops.append(make_op(rng, rng.choice(kinds_for(k)), modes, special=(rng.random() < 0.15)))
        cases.append(seq_case(d, HBARS[hb % 4], ops))
        hb += 1
    return cases


NRAND_Q, NRAND_T = 24, 400
SQRT_DIGITS = 40


def qsqrt(fr):
    """rational approximation of sqrt(fr) to ~40 digits"""
    fr = Fraction(fr)
    scale = 10 ** SQRT_DIGITS
    n = math.isqrt(fr.numerator * fr.denominator * scale * scale)
    return Fraction(n, fr.denominator * scale)


# --------------------------------------------------------------------------- the check
_T = [time.time()]


def lap(chk, what):
    now = time.time()
    chk.notes.append("timing: %s %.1fs" % (what, now - _T[0]))
    if os.environ.get("VERIF_TIMING"):
        print("timing: %s %.1fs" % (what, now - _T[0]), file=sys.stderr)
    _T[0] = now


def regenerate(chk, corr_broken):
    try:
        text, meta = c07_translate.translate(common.REPO)
    except c07_translate.TranslateError as e:
        msg = str(e).replace("*)", "* )")
        text = ("(* GENERATED: the translator failed closed on gates.py:\n   %s *)\n"
                "Definition translator_failed_closed : True := 0.\n" % msg)
        corr_broken.append("translator failed closed: %s" % e)
        meta = None
    c07_translate.write_if_changed(GEN_PATH, text)
    return meta


def run(chk: Check):
    corr_broken = []
    meta = regenerate(chk, corr_broken)
    lap(chk, "translate")
    chk.proofs(timeout=2400)
    lap(chk, "coq proofs")
    if meta is None or not chk.proof["ok"]:
        # model not available: only the direct search can run
        search(chk, None)
        finish(chk, corr_broken)
        return
    rng = chk.rng

    # ---------------- tie 1: gate blocks, implementation vs generated model at Q(sqrt 2)[i]
    nper = 60 if chk.thorough else 12
    bcases = []
    for gate in GATE_PARAMS:
        seen = set()
        for i in range(nper):
            p = Par(rng, special=(i % 4 == 0))
            if p.key(gate) in seen:
                continue
            seen.add(p.key(gate))
            bcases.append((gate, p))
    impl_blocks = run_impl("c07_impl.py", {"blocks": [{"gate": g, "params": p.floats(g)} for g, p in bcases]})["blocks"]
    lap(chk, "impl blocks")
    items = []
    for (g, p), r in zip(bcases, impl_blocks):
        items.append("(%s, %s, %s, %s)" % (g, p.env(), fmat(r["P"]),
                                          "None" if r["A"] is None else "(Some %s)" % fmat(r["A"])))
    bodies = []
    chunk = 60
    for i in range(0, len(items), chunk):
        bodies.append(HEADER_QS + "Definition cases : list block_case := [%s].\nEval vm_compute in mismatches block_ok cases.\n"
                      % ";\n".join(items[i:i + chunk]))
    outs = coq_eval_parallel("c07_blocks", bodies, jobs=4)
    for j, o in enumerate(outs):
        for k in parse_coq_list(o)[0]:
            g, p = bcases[j * chunk + k]
            corr_broken.append("gate block model!=impl: %s %s" % (g, p.floats(g)))
    lap(chk, "coq blocks")
    chk.stream("gate blocks: _get_passive_block/_get_active_block vs generated model (exact Q(sqrt2)[i] vs float)",
               len(bcases), sum(1 for g, p in bcases if GATE_PARAMS[g]),
               samples=[{"gate": g, "params": p.floats(g)} for g, p in bcases[:2]])

    # ---------------- tie 2: GaussianSimulator after gate sequences vs the moment model
    cases = gen_sequences(chk)
    impl = run_impl("c07_impl.py", {"seqs": [{"d": c["d"], "hbar": float(c["hbar"]), "ops": [o[0] for o in c["ops"]]} for c in cases]},
                    timeout=3000)["seqs"]
    lap(chk, "impl sequences")
    items = []
    for c, r in zip(cases, impl):
        prog = "[" + ";\n  ".join(o[1] for o in c["ops"]) + "]"
        items.append("(%d, %s, %s, %s,\n  [%s]%%Z, [%s]%%Z)" % (
            c["d"], qz(c["hbar"]), qz(qsqrt(2 * c["hbar"])), prog,
            "; ".join(zf(x) for x in r["mean"]),
            "; ".join("[" + "; ".join(zf(x) for x in row) + "]" for row in r["cov"])))
    bodies, index = [], []
    chunk = 80
    for variant, hdr in ((False, HEADER_Q), (True, HEADER_QS)):
        idx = [i for i, c in enumerate(cases) if any(o[2][0] == "Beamsplitter5050" for o in c["ops"]) == variant]
        for i in range(0, len(idx), chunk):
            part = idx[i:i + chunk]
            index.append(part)
            bodies.append(hdr + "Definition cases : list seq_case := [%s].\nEval vm_compute in mismatches seq_ok cases.\n"
                          % ";\n".join(items[k] for k in part))
    outs = coq_eval_parallel("c07_seq", bodies, jobs=4, timeout=2400)
    lap(chk, "coq sequences")
    bad = []
    for part, o in zip(index, outs):
        for k in parse_coq_list(o)[0]:
            bad.append(part[k])
    for i in bad[:10]:
        c = cases[i]
        corr_broken.append("simulator xxpp mean/cov != moment model: d=%d hbar=%s ops=%s" % (
            c["d"], c["hbar"], [o[2] for o in c["ops"]]))
    distinct = len({(c["d"], c["ops"][-1][2]) for c in cases})
    chk.stream("GaussianSimulator xxpp mean/covariance after gate sequences vs exact moment model "
               "(every ordered subset of d<=%s modes%s, hbar in {1/2,1,2,37/10})" % (("5", "") if chk.thorough else ("4", " and 60 sampled ones of d=5")),
               len(cases), distinct,
               samples=[{"d": c["d"], "hbar": str(c["hbar"]), "ops": [list(map(str, o[2])) for o in c["ops"]]} for c in cases[100:102]],
               note="%d of the sequences end in an operation on an ordered subset enumerated exhaustively" % (len(cases) - (NRAND_T if chk.thorough else NRAND_Q)))

    search(chk, list(zip(cases, impl)))
    finish(chk, corr_broken)


def _c(m):
    a = np.array(m, dtype=float)
    return a[..., 0] + 1j * a[..., 1]


def _embed_PA(d, modes, P, A):
    Pf = np.identity(d, dtype=complex)
    Af = np.zeros((d, d), dtype=complex)
    for a, ma in enumerate(modes):
        for b, mb in enumerate(modes):
            Pf[ma, mb] = P[a][b]
            Af[ma, mb] = 0 if A is None else A[a][b]
    return Pf, Af


def _embed(d, modes, P, A):
    """2d x 2d complex-form matrix [[Pf, Af], [conj Af, conj Pf]] of (P, A) on `modes`"""
    Pf, Af = _embed_PA(d, modes, P, A)
    return np.block([[Pf, Af], [Af.conj(), Pf.conj()]])


# ---- the documented matrices, written from the docstrings of piquasso/instructions/gates.py
def doc_blocks(name, p):
    e = lambda x: complex(math.cos(x), math.sin(x))
    if name == "Beamsplitter":
        t, r = math.cos(p["theta"]), e(p["phi"]) * math.sin(p["theta"])
        return np.array([[t, -r.conjugate()], [r, t]]), None
    if name == "Beamsplitter5050":
        return np.array([[1, -1], [1, 1]], dtype=complex) / math.sqrt(2), None
    if name == "Phaseshifter":
        return np.array([[e(p["phi"])]]), None
    if name == "MachZehnder":
        ei, ee = e(p["int_"]), e(p["ext"])
        return 0.5 * np.array([[ee * (ei - 1), 1j * (ei + 1)], [1j * ee * (ei + 1), 1 - ei]]), None
    if name == "Fourier":
        return np.array([[1j]]), None
    if name == "Squeezing":
        return np.array([[math.cosh(p["r"]) + 0j]]), np.array([[-e(p.get("phi", 0.0)) * math.sinh(p["r"])]])
    if name == "QuadraticPhase":
        return np.array([[1 + 0.5j * p["s"]]]), np.array([[0.5j * p["s"]]])
    if name == "Squeezing2":
        c, z = math.cosh(p["r"]), e(p.get("phi", 0.0)) * math.sinh(p["r"])
        return np.array([[c, 0], [0, c]], dtype=complex), np.array([[0, z], [z, 0]])
    if name == "ControlledX":
        h = p["s"] / 2
        return np.array([[1, -h], [h, 1]], dtype=complex), np.array([[0, h], [h, 0]], dtype=complex)
    if name == "ControlledZ":
        h = 0.5j * p["s"]
        return np.array([[1, h], [h, 1]]), np.array([[0, h], [h, 0]])
    raise ValueError(name)


def doc_alpha(name, p):
    if name == "Displacement":
        return p["r"] * complex(math.cos(p.get("phi", 0.0)), math.sin(p.get("phi", 0.0)))
    if name == "PositionDisplacement":
        return complex(p["x"], 0.0)
    if name == "MomentumDisplacement":
        return complex(0.0, p["p"])
    return None


def ref_run(d, hbar, ops, upto=None):
    """Reference evolution of (m, C, G) by the documented ladder-operator maps
    a -> Pf a + Af a^dagger (+ alpha): independent of the Coq model and of piquasso's blocks."""
    m = np.zeros(d, dtype=complex)
    C = np.zeros((d, d), dtype=complex)
    G = np.zeros((d, d), dtype=complex)
    I = np.identity(d)
    for op in ops[:upto]:
        k = op["k"]
        if k == "snap":
            continue
        modes = list(op["modes"])
        if k == "gate":
            alpha = doc_alpha(op["name"], op["params"])
            if alpha is not None:
                m = m.copy()
                m[modes] += alpha
                continue
            P, A = doc_blocks(op["name"], op["params"])
        elif k in ("interf", "rawp"):
            P, A = _c(op["matrix"] if k == "interf" else op["P"]), None
        elif k in ("raw", "gt"):
            P, A = _c(op["P"]), _c(op["A"])
        else:
            raise ValueError(k)
        Pf, Af = _embed_PA(d, modes, P, A)
        m = Pf @ m + Af @ m.conj()
        G, C = (Pf @ G @ Pf.T + Af @ G.conj().T @ Af.T + Pf @ (C.T + I) @ Af.T + Af @ C @ Pf.T,
                Pf.conj() @ C @ Pf.T + Af.conj() @ (C.T + I) @ Af.T + Pf.conj() @ G.conj().T @ Af.T + Af.conj() @ G @ Pf.T)
    mean = np.concatenate([m.real, m.imag]) * math.sqrt(2 * hbar)
    cov = hbar * (2 * np.block([[(G + C).real, (G + C).imag], [(G - C).imag, (C - G).real]]) + np.identity(2 * d))
    return mean, cov


def seq_error(d, hbar, ops, r):
    """max deviation of the implementation's xxpp mean/covariance from the reference, relative
    to 1e-9 (1 + magnitude); > 1 is a failure"""
    mean, cov = ref_run(d, hbar, ops)
    em = np.abs(np.array(r["mean"]) - mean).max() / (1e-9 * (1 + np.abs(mean).max()))
    ec = np.abs(np.array(r["cov"]) - cov).max() / (1e-9 * (1 + np.abs(cov).max()))
    return float(em), float(ec)


TWO_PI = 2 * math.pi
# every angle parameter is also tried outside (-pi, pi] and beyond 2 pi, 3 pi, 4 pi, in both signs
GRID_ANGLE = [0.0, math.pi / 2, math.pi, -math.pi / 3, 1e-8, 2.5, 4.0, -3.5, TWO_PI + 1.0, -TWO_PI - 1.0,
              3 * math.pi + 0.5, -3 * math.pi - 0.5, 4 * math.pi + 0.3, -4 * math.pi - 0.3, 17.0, -23.0, 1e3]
GRID_R = [0.0, 1e-8, 0.5, -1.3, 3.0]
GRID_S = [0.0, 1e-8, -2.5, 1e3]


def _grid(p):
    return GRID_R if p == "r" else GRID_S if p == "s" else GRID_ANGLE


def wide_angle(rng):
    return rng.choice(GRID_ANGLE[5:-1]) if rng.random() < 0.5 else rng.uniform(-14.0, 14.0)


def rand_params(rng, name):
    return {p: (rng.uniform(-0.8, 0.8) if p == "r" else rng.uniform(-2, 2) if p == "s" else wide_angle(rng))
            for p in GATE_PARAMS[name]}


def fgate(name, modes, **params):
    return {"k": "gate", "name": name, "params": params, "modes": list(modes)}


def rand_unitary(rng, k):
    z = np.array([[complex(rng.gauss(0, 1), rng.gauss(0, 1)) for _ in range(k)] for _ in range(k)])
    q, _ = np.linalg.qr(z)
    return q


def cl(mat):
    return [[[float(x.real), float(x.imag)] for x in row] for row in np.asarray(mat)]


def rand_gaussian_transform(rng, modes):
    """squeezers after a random unitary: P = ch U, A = -sh e^{i phi} conj(U); neither block is symmetric"""
    k = len(modes)
    U = rand_unitary(rng, k)
    r = np.array([rng.uniform(0.2, 0.7) * rng.choice((-1, 1)) for _ in range(k)])
    ph = np.array([rng.uniform(-3, 3) for _ in range(k)])
    P = np.diag(np.cosh(r)) @ U
    A = np.diag(-np.sinh(r) * np.exp(1j * ph)) @ U.conj()
    return {"k": "gt", "P": cl(P), "A": cl(A), "modes": list(modes)}


def entangled_prefix(rng, d):
    """displaced, squeezed and entangled state: displacement and squeezing on every mode, then a
    chain of beamsplitters through all modes in random order"""
    ops = []
    for i in range(d):
        ops.append(fgate("Displacement", (i,), r=rng.uniform(0.3, 1.2) * rng.choice((-1, 1)), phi=rng.uniform(-3, 3)))
        ops.append(fgate("Squeezing", (i,), r=rng.uniform(0.2, 0.7) * rng.choice((-1, 1)), phi=rng.uniform(-3, 3)))
    order = list(range(d))
    rng.shuffle(order)
    for a, b in zip(order, order[1:]):
        ops.append(fgate("Beamsplitter", (a, b), theta=rng.uniform(0.3, 1.2), phi=rng.uniform(-3, 3)))
    return ops


def op_label(op):
    return op.get("name") or {"interf": "Interferometer", "gt": "GaussianTransform", "raw": "_apply_linear",
                              "rawp": "_apply_passive_linear"}[op["k"]]


def fail_key(case, em, ec):
    last = case["ops"][-1]
    return "C07:GaussianSimulator:%s:not-the-documented-congruence:k=%d:%s" % (
        op_label(last), len(last["modes"]), "mean" if ec <= 1 else "covariance")


def shrink_many(cases, rounds=14):
    """Batched delta-debugging of failing programs: first the shortest failing prefix, then greedy
    removal of any single operation while the implementation still deviates from the documented
    evolution.  One implementation run per round for all programs together."""
    cur = [dict(c) for c in cases]
    # round 0: prefixes
    cands = [[{"d": c["d"], "hbar": c["hbar"], "ops": c["ops"][:n]} for n in range(1, len(c["ops"]))] for c in cur]
    flat = [x for cs in cands for x in cs]
    if flat:
        res = run_impl("c07_impl.py", {"seqs": flat}, timeout=900)["seqs"]
        pos = 0
        for i, cs in enumerate(cands):
            for x in cs:
                if max(seq_error(x["d"], x["hbar"], x["ops"], res[pos + cs.index(x)])) > 1:
                    cur[i] = x
                    break
            pos += len(cs)
    active = set(range(len(cur)))
    for _ in range(rounds):
        cands = {i: [{"d": cur[i]["d"], "hbar": cur[i]["hbar"], "ops": cur[i]["ops"][:n] + cur[i]["ops"][n + 1:]}
                     for n in range(len(cur[i]["ops"]) - 1)] for i in active}
        flat = [x for i in sorted(cands) for x in cands[i]]
        if not flat:
            break
        res = run_impl("c07_impl.py", {"seqs": flat}, timeout=900)["seqs"]
        pos = 0
        for i in sorted(cands):
            hit = None
            for n, x in enumerate(cands[i]):
                if hit is None and max(seq_error(x["d"], x["hbar"], x["ops"], res[pos + n])) > 1:
                    hit = x
            pos += len(cands[i])
            if hit is None:
                active.discard(i)
            else:
                cur[i] = hit
        if not active:
            break
    # errors of the shrunk programs
    res = run_impl("c07_impl.py", {"seqs": cur}, timeout=900)["seqs"] if cur else []
    return [(c,) + seq_error(c["d"], c["hbar"], c["ops"], r) for c, r in zip(cur, res)]


def search(chk, tie):
    """the property stated directly on the implementation (numerically, no Coq model):
    blocks = documented matrices and symplectic; every program = documented congruence"""
    rng = chk.rng
    T = chk.thorough
    # ---- (a) blocks on the parameter grid
    greq = []
    for g, ps in GATE_PARAMS.items():
        for vals in itertools.product(*[_grid(p) for p in ps]):
            greq.append({"gate": g, "params": dict(zip(ps, vals))})
    # ---- (b) programs: entangle -> gate on an ordered subset, compared with the documented congruence
    progs = []   # (what, case)
    corpus = os.path.join(common.VERIF, "harness", "corpus", "c07.jsonl")
    if os.path.exists(corpus):   # minimised past disagreements, run first
        import json
        for line in open(corpus):
            if line.strip():
                c = json.loads(line)
                progs.append(("corpus", {"d": c["d"], "hbar": c["hbar"], "ops": c["ops"]}))
    subsets = [(d, m) for d in range(1, 6) for m in ordered_subsets(d)]
    if not T:
        subsets = [x for x in subsets if x[0] <= 3] + rng.sample([x for x in subsets if x[0] > 3], 50)
    for n, (d, modes) in enumerate(subsets):
        k = len(modes)
        finals = []
        if k == 1:
            name = rng.choice(ONE_MODE)
            finals.append(fgate(name, modes, **rand_params(rng, name)))
        elif k == 2:
            # always the gates with non-symmetric blocks, plus one other two-mode gate
            finals.append(fgate("ControlledX", modes, s=rng.uniform(0.3, 2.0) * rng.choice((-1, 1))))
            finals.append(rand_gaussian_transform(rng, modes))
            name = rng.choice([g for g in TWO_MODE if g != "ControlledX"])
            finals.append(fgate(name, modes, **rand_params(rng, name)))
        else:
            finals.append({"k": "interf", "matrix": cl(rand_unitary(rng, k)), "modes": list(modes)})
            finals.append(rand_gaussian_transform(rng, modes))
        for f in finals:
            progs.append(("congruence", {"d": d, "hbar": float(HBARS[(n + len(progs)) % 4]),
                                         "ops": entangled_prefix(rng, d) + [f]}))
    # ---- (c) every angle parameter of every gate over the wide grid, on displaced entangled states
    for name, ps in GATE_PARAMS.items():
        for p in ps:
            if p in ("r", "s"):
                continue
            for n, val in enumerate(GRID_ANGLE):
                par = rand_params(rng, name)
                par[p] = val
                d = rng.randint(2, 3)
                modes = rng.sample(range(d), 1 if name in ONE_MODE else 2)
                progs.append(("angle-grid", {"d": d, "hbar": float(HBARS[n % 4]),
                                             "ops": entangled_prefix(rng, d) + [fgate(name, modes, **par)]}))
    # ---- (d) documented identities: pairs of programs that must give the same state
    idents = []  # (what, case_lhs, case_rhs)
    for n, ang in enumerate(GRID_ANGLE + ([wide_angle(rng) for _ in range(40)] if T else [])):
        d = rng.randint(2, 4)
        i, j = rng.sample(range(d), 2)
        hbar = float(HBARS[n % 4])
        pre = entangled_prefix(rng, d)
        other = wide_angle(rng)
        r = rng.uniform(0.2, 0.8) * rng.choice((-1, 1))
        hp, qp = math.pi / 2, math.pi / 4
        for a1, a2 in ((ang, other), (other, ang)):
            idents.append(("MachZehnder decomposition", [fgate("MachZehnder", (i, j), int_=a1, ext=a2)],
                           [fgate("Phaseshifter", (i,), phi=a2), fgate("Beamsplitter", (i, j), theta=qp, phi=hp),
                            fgate("Phaseshifter", (i,), phi=a1), fgate("Beamsplitter", (i, j), theta=qp, phi=hp)], d, hbar, pre))
        idents.append(("Squeezing2 decomposition", [fgate("Squeezing2", (i, j), r=r, phi=ang)],
                       [fgate("Beamsplitter", (i, j), theta=-qp, phi=0.0), fgate("Squeezing", (i,), r=-r, phi=ang),
                        fgate("Squeezing", (j,), r=r, phi=ang), fgate("Beamsplitter", (i, j), theta=qp, phi=0.0)], d, hbar, pre))
        if n < 4 or T:
            idents.append(("Fourier = Phaseshifter(pi/2)", [fgate("Fourier", (i,))], [fgate("Phaseshifter", (i,), phi=hp)], d, hbar, pre))
            idents.append(("Beamsplitter5050 = Beamsplitter(pi/4, 0)", [fgate("Beamsplitter5050", (i, j))],
                           [fgate("Beamsplitter", (i, j), theta=qp, phi=0.0)], d, hbar, pre))
        kind = DISPL[n % 3]
        rr = rng.uniform(0.3, 2.0) * rng.choice((-1, 1))
        par = {"Displacement": {"r": rr, "phi": ang}, "PositionDisplacement": {"x": rr}, "MomentumDisplacement": {"p": rr}}[kind]
        progs.append(("displacement", {"d": d, "hbar": hbar, "ops": pre + [fgate(kind, (i,), **par)]}))
    sreq = [c for _, c in progs]
    for what, lhs, rhs, d, hbar, pre in idents:
        sreq.append({"d": d, "hbar": hbar, "ops": pre + lhs})
        sreq.append({"d": d, "hbar": hbar, "ops": pre + rhs})
    res = run_impl("c07_impl.py", {"blocks": greq, "seqs": sreq}, timeout=3000)
    lap(chk, "impl search")
    neval = 0
    K2 = lambda n: np.diag([1.0] * n + [-1.0] * n)
    # (a)
    seen_block = set()

    def block_violation(key, what, witness):
        if key not in seen_block:
            seen_block.add(key)
            chk.violation(key, what, witness)

    for q, r in zip(greq, res["blocks"]):
        neval += 1
        P = _c(r["P"])
        A = None if r["A"] is None else _c(r["A"])
        n = len(P)
        S = _embed(n, list(range(n)), P, A)
        scale = 1 + np.abs(S).max() ** 2
        err = np.abs(S @ K2(n) @ S.conj().T - K2(n)).max()
        if not err <= 1e-9 * scale:
            block_violation("C07:%s:block-not-%s" % (q["gate"], "unitary" if A is None else "symplectic"),
                          "S K S^dagger != K for the gate's ladder-operator matrix", {"gate": q["gate"], "params": q["params"], "error": float(err)})
        dP, dA = doc_blocks(q["gate"], q["params"])
        errd = np.abs(P - dP).max() + (0 if A is None else np.abs(A - dA).max())
        if not errd <= 1e-9 * (1 + np.abs(dP).max() + max(1.0, max(abs(v) for v in q["params"].values()) if q["params"] else 1.0) * 1e-6):
            block_violation("C07:%s:block-not-as-documented" % q["gate"],
                          "the gate's ladder-operator blocks differ from the documented matrix",
                          {"gate": q["gate"], "params": q["params"], "error": float(errd),
                           "got_P": cl(P), "documented_P": cl(dP)})
    # (b), (c), displacement
    failing = {}
    for (what, case), r in zip(progs, res["seqs"]):
        neval += 1
        em, ec = seq_error(case["d"], case["hbar"], case["ops"], r)
        if max(em, ec) > 1:
            failing.setdefault(fail_key(case, em, ec), []).append((case, em, ec))
    # the programs of the tie, against the same reference (concrete inputs for a broken correspondence)
    if tie:
        for c, r in tie:
            ops = [o[0] for o in c["ops"]]
            # a direct _apply_linear call with arbitrary blocks is a congruence only if P A^T is
            # symmetric (second symplectic condition; C07_update_is_congruence) and it leaves G
            # non-symmetric otherwise: such raw calls are inputs outside the property and are only compared with the model, above
            if any(o["k"] == "raw"
                   and not np.allclose(_c(o["P"]) @ _c(o["A"]).T, (_c(o["P"]) @ _c(o["A"]).T).T) for o in ops):
                continue
            neval += 1
            em, ec = seq_error(c["d"], float(c["hbar"]), ops, r)
            if max(em, ec) > 1:
                cc = {"d": c["d"], "hbar": float(c["hbar"]), "ops": ops}
                failing.setdefault(fail_key(cc, em, ec), []).append((cc, em, ec))
    reps = []
    for key, lst in sorted(failing.items()):
        reps.append(min(lst, key=lambda t: (len(t[0]["ops"]), t[0]["d"]))[0])
    reps = reps[:10]
    reported = set()
    for case, em, ec in (shrink_many(reps) if reps else []):
        if max(em, ec) <= 1:
            continue
        key = fail_key(case, em, ec)
        if key in reported:
            continue
        reported.add(key)
        chk.violation(key, "xxpp mean/covariance after the program differ from the congruence by the documented "
                      "symplectic matrices (%d failing programs in %d classes before shrinking)"
                      % (sum(len(l) for l in failing.values()), len(failing)),
                      {"d": case["d"], "hbar": case["hbar"], "program": case["ops"],
                       "mean_error_in_units_of_tolerance": em, "cov_error_in_units_of_tolerance": ec,
                       "call": "GaussianSimulator(d, Config(hbar)).execute(program) from vacuum; see harness/impl/c07_impl.py"})
    if failing and not reported:
        key, lst = sorted(failing.items())[0]
        case, em, ec = lst[0]
        chk.violation(key, "xxpp mean/covariance differ from the documented congruence (not reproduced while shrinking)",
                      {"d": case["d"], "hbar": case["hbar"], "program": case["ops"]})
    # (d)
    base = len(progs)
    for n, (what, lhs, rhs, d, hbar, pre) in enumerate(idents):
        neval += 1
        r1, r2_ = res["seqs"][base + 2 * n], res["seqs"][base + 2 * n + 1]
        scale = 1e-9 * (1 + np.abs(np.array(r1["cov"])).max())
        e1 = np.abs(np.array(r1["mean"]) - np.array(r2_["mean"])).max()
        e2 = np.abs(np.array(r1["cov"]) - np.array(r2_["cov"])).max()
        if not (e1 <= scale and e2 <= scale):
            chk.violation("C07:identity:%s" % what, "documented identity fails on GaussianSimulator",
                          {"d": d, "hbar": hbar, "prefix": pre, "lhs": lhs, "rhs": rhs,
                           "mean_error": float(e1), "cov_error": float(e2)})
    chk.stream("direct search on the implementation: blocks symplectic and equal to the documented matrices on a grid "
               "(0, pi/2, pi, negative, 1e-8, 1e3, and angles beyond pi, 2pi, 3pi, 4pi in both signs for every angle parameter); "
               "entangle -> gate (incl. ControlledX and generic GaussianTransform on every 2-mode subset) = documented congruence; "
               "documented identities and displacement shift on displaced entangled states",
               neval, neval // 2, kind="search",
               samples=[{"program": progs[5][1]["ops"][-1], "d": progs[5][1]["d"]}])


def finish(chk, corr_broken):
    chk.assumptions += [
        "np.cos/np.sin/np.exp/np.cosh/np.sinh/np.sqrt return the mathematical functions to float64 accuracy (symbols of the generated model)",
        "NumPy fancy-index reads copy and assignments write entry by entry (model: tabulate-from-reads)",
    ]
    chk.finish(
        rule="blocks: distinct (gate, parameter) draws with at least one parameter; sequences: distinct (d, final operation kind, ordered mode tuple)",
        explanation="Theorems of coq/theories/Props/C07.v about the generated gate blocks (GatesGen.v, regenerated from gates.py on every run) and the Gallina transcription of the block-wise moment updates; tie = translator + exact differential run of the model (vm_compute at Q(sqrt 2)[i]) against piquasso; search = symplecticity/congruence/documented identities evaluated numerically on the implementation.",
        correspondence_broken=corr_broken,
    )
