(* C08 — proofs about the Fock-side and fermionic definitions of PhysModel.v, at A := R. *)
From Coq Require Import Reals Lra Lia List Arith Bool Psatz.
From PV Require Import C08.PhysModel C08.PhysProofs.
Import ListNotations.
Open Scope R_scope.

Notation rcabs2 := (cabs2 ROps).
Notation rcmul := (cmul ROps).
Notation rnorm2 := (norm2 ROps).
Notation rprobs := (probs ROps).
Notation rlsum := (lsum ROps).

(* ------------------------------------------------------------------ diagonal phase gates *)
Lemma cabs2_cmul a b : rcabs2 (rcmul a b) = rcabs2 a * rcabs2 b.
Proof. destruct a, b. unfold cabs2, cmul. cbn. ring. Qed.
Lemma cabs2_nonneg a : 0 <= rcabs2 a.
Proof. destruct a as [x y]. unfold cabs2. cbn. nra. Qed.
Lemma cpow_unit z k : rcabs2 z = 1 -> rcabs2 (cpow ROps z k) = 1.
Proof.
  intros H. induction k; cbn [cpow].
  - unfold cabs2. cbn. ring.
  - rewrite cabs2_cmul, H, IHk. ring.
Qed.

(* a diagonal gate whose coefficients have modulus one leaves every probability unchanged *)
Theorem diag_phase_probs coef psi :
  Forall (fun c => rcabs2 c = 1) coef -> length coef = length psi ->
  rprobs (apply_diag ROps coef psi) = rprobs psi.
Proof.
  revert psi. induction coef as [|c r IH]; intros [|a psi] Hu Hl; cbn [length] in Hl; try discriminate; try reflexivity.
  inversion Hu; subst. unfold probs, apply_diag in *. cbn [map2 map]. f_equal.
  - rewrite cabs2_cmul. rewrite H1. ring.
  - apply IH; [assumption|lia].
Qed.
Theorem diag_phase_norm coef psi :
  Forall (fun c => rcabs2 c = 1) coef -> length coef = length psi ->
  rnorm2 (apply_diag ROps coef psi) = rnorm2 psi.
Proof. intros. unfold norm2. rewrite diag_phase_probs by assumption. reflexivity. Qed.

Theorem kerr_norm z mode space psi :
  rcabs2 z = 1 -> length space = length psi ->
  rprobs (apply_diag ROps (kerr_coef ROps z mode space) psi) = rprobs psi.
Proof.
  intros Hz Hl. apply diag_phase_probs.
  - unfold kerr_coef. apply Forall_forall. intros c Hc. apply in_map_iff in Hc.
    destruct Hc as [b [<- _]]. apply cpow_unit. assumption.
  - unfold kerr_coef. rewrite map_length. assumption.
Qed.
Theorem crosskerr_norm z ma mb space psi :
  rcabs2 z = 1 -> length space = length psi ->
  rprobs (apply_diag ROps (crosskerr_coef ROps z ma mb space) psi) = rprobs psi.
Proof.
  intros Hz Hl. apply diag_phase_probs.
  - unfold crosskerr_coef. apply Forall_forall. intros c Hc. apply in_map_iff in Hc.
    destruct Hc as [b [<- _]]. apply cpow_unit. assumption.
  - unfold crosskerr_coef. rewrite map_length. assumption.
Qed.
Theorem snap_norm zs mode space psi :
  Forall (fun c => rcabs2 c = 1) zs -> length space = length psi ->
  rprobs (apply_diag ROps (snap_coef ROps zs mode space) psi) = rprobs psi.
Proof.
  intros Hz Hl. apply diag_phase_probs.
  - unfold snap_coef. apply Forall_forall. intros c Hc. apply in_map_iff in Hc.
    destruct Hc as [b [<- _]].
    destruct (Nat.lt_ge_cases (nth mode b 0%nat) (length zs)) as [Hlt|Hge].
    + rewrite Forall_forall in Hz. apply Hz. apply nth_In. assumption.
    + rewrite nth_overflow by assumption. unfold cabs2. cbn. ring.
  - unfold snap_coef. rewrite map_length. assumption.
Qed.

(* ------------------------------------------------------------------ probabilities, projection *)
Lemma lsum_nonneg l : Forall (fun q => 0 <= q) l -> 0 <= rlsum l.
Proof. induction 1; simpl; [lra|]. cbn. lra. Qed.
Lemma probs_nonneg psi : Forall (fun q => 0 <= q) (rprobs psi).
Proof. unfold probs. apply Forall_forall. intros q Hq. apply in_map_iff in Hq. destruct Hq as [a [<- _]]. apply cabs2_nonneg. Qed.
Lemma lsum_ge_elem l q : Forall (fun q => 0 <= q) l -> In q l -> q <= rlsum l.
Proof.
  induction 1 as [|a l Ha Hl IH]; intros Hin; [contradiction|]. simpl. cbn.
  pose proof (lsum_nonneg l Hl). destruct Hin as [->|Hin]; [lra|]. specialize (IH Hin). lra.
Qed.
(* every probability of a state with norm at most one lies in [0,1] *)
Theorem probabilities_in_unit_interval psi :
  rnorm2 psi <= 1 -> Forall (fun q => 0 <= q <= 1) (rprobs psi).
Proof.
  intros Hn. apply Forall_forall. intros q Hq. pose proof (probs_nonneg psi) as Hp. split.
  - rewrite Forall_forall in Hp. apply Hp. assumption.
  - pose proof (lsum_ge_elem _ q Hp Hq). unfold norm2 in Hn. lra.
Qed.

Lemma lsum_app l1 l2 : rlsum (l1 ++ l2) = rlsum l1 + rlsum l2.
Proof. induction l1; simpl; cbn; [lra|]. rewrite IHl1. cbn. lra. Qed.
Lemma lsum_sumn (f : nat -> R) n : rlsum (map f (seq 0 n)) = rsum n f.
Proof.
  induction n; [reflexivity|]. rewrite seq_S, map_app, lsum_app, IHn. simpl. cbn. lra.
Qed.
(* distinct indices below n pick a sub-family of a non-negative family *)
Lemma subfamily_le (f : nat -> R) n : (forall i, 0 <= f i) -> forall l,
  NoDup l -> Forall (fun i => (i < n)%nat) l -> rlsum (map f l) <= rsum n f.
Proof.
  intros Hf. induction n; intros l Hnd Hl.
  - destruct l as [|a l]; [simpl; lra|]. inversion Hl; subst. lia.
  - simpl. cbn. destruct (in_dec Nat.eq_dec n l) as [Hin|Hnin].
    + apply in_split in Hin. destruct Hin as [l1 [l2 ->]].
      rewrite map_app, lsum_app. simpl. cbn.
      assert (rlsum (map f (l1 ++ l2)) <= rsum n f).
      { apply IHn.
        - apply NoDup_remove_1 in Hnd. assumption.
        - apply NoDup_remove_2 in Hnd. rewrite Forall_forall in *. intros i Hi.
          assert (i <> n) by (intros ->; contradiction).
          assert (i < S n)%nat by (apply Hl; apply in_app_iff; apply in_app_iff in Hi; simpl; tauto).
          lia. }
      rewrite map_app, lsum_app in H. lra.
    + assert (rlsum (map f l) <= rsum n f).
      { apply IHn; [assumption|]. rewrite Forall_forall in *. intros i Hi.
        assert (i <> n) by (intros ->; contradiction). specialize (Hl i Hi). lia. }
      specialize (Hf n). lra.
Qed.
Lemma norm2_sumn psi : rnorm2 psi = rsum (length psi) (fun i => rcabs2 (nth i psi (0, 0))).
Proof.
  unfold norm2, probs. rewrite <- lsum_sumn. f_equal.
  induction psi as [|a psi IH]; [reflexivity|]. simpl. f_equal. rewrite <- seq_shift, map_map. assumption.
Qed.
(* projection onto a set of basis states (distinct indices) cannot increase the norm *)
Theorem projection_norm_le index psi :
  NoDup index -> Forall (fun i => (i < length psi)%nat) index ->
  rnorm2 (project ROps index psi) <= rnorm2 psi.
Proof.
  intros Hnd Hl. rewrite (norm2_sumn psi). unfold norm2, probs, project. rewrite map_map.
  apply (subfamily_le (fun i => rcabs2 (nth i psi (0, 0)))); try assumption.
  intros i. apply cabs2_nonneg.
Qed.

Lemma norm2_cscale c psi : rnorm2 (cscale ROps c psi) = c * c * rnorm2 psi.
Proof.
  unfold norm2, probs, cscale. induction psi as [|a psi IH]; simpl; cbn; [ring|].
  cbn in IH. rewrite IH. destruct a. unfold cabs2. cbn. ring.
Qed.
(* the post-measurement branch (projected state times sqrt(1/p)) has norm one when p > 0 *)
Theorem branch_norm proj :
  0 < rnorm2 proj -> rnorm2 (cscale ROps (sqrt (1 / rnorm2 proj)) proj) = 1.
Proof.
  intros Hp. rewrite norm2_cscale. rewrite sqrt_sqrt.
  - field. lra.
  - apply Rlt_le. apply Rdiv_lt_0_compat; lra.
Qed.

(* ------------------------------------------------------------------ attenuator *)
Notation rapow := (apow ROps).
Notation rofnat := (ofnat ROps).
Lemma ofnat_add a b : rofnat (a + b) = rofnat a + rofnat b.
Proof. induction a; simpl; cbn; [lra|]. rewrite IHa. cbn. lra. Qed.
Lemma binom_gt n : forall k, (n < k)%nat -> binom n k = 0%nat.
Proof.
  induction n; intros [|k] H; simpl; try lia; try reflexivity.
  rewrite !IHn by lia. reflexivity.
Qed.
(* binomial theorem for the Pascal-rule binomial of the model *)
Lemma binomial_one_plus t n :
  rapow (1 + t) n = rsum (S n) (fun k => rofnat (binom n k) * rapow t k).
Proof.
  induction n.
  - simpl. cbn. ring.
  - change (rapow (1 + t) (S n)) with ((1 + t) * rapow (1 + t) n). rewrite IHn.
    (* right-hand side: split with Pascal's rule *)
    assert (E: rsum (S (S n)) (fun k => rofnat (binom (S n) k) * rapow t k)
               = rsum (S n) (fun k => rofnat (binom n k) * rapow t k)
                 + t * rsum (S n) (fun k => rofnat (binom n k) * rapow t k)).
    { rewrite sumn_scale_l.
      change (rsum (S (S n)) (fun k => rofnat (binom (S n) k) * rapow t k))
        with (rsum (S n) (fun k => rofnat (binom (S n) k) * rapow t k)
              + rofnat (binom (S n) (S n)) * rapow t (S n)).
      (* shift the first sum: term 0 and terms k+1 *)
      assert (Sh: forall (g : nat -> R) m, rsum (S m) g = g 0%nat + rsum m (fun k => g (S k))).
      { intros g m. induction m; simpl; cbn; [lra|]. simpl in IHm. cbn in IHm. rewrite IHm. lra. }
      rewrite (Sh (fun k => rofnat (binom (S n) k) * rapow t k) n).
      rewrite (Sh (fun k => rofnat (binom n k) * rapow t k) n) at 1.
      change (rsum (S n) (fun i => t * (rofnat (binom n i) * rapow t i)))
        with (rsum n (fun i => t * (rofnat (binom n i) * rapow t i))
              + t * (rofnat (binom n n) * rapow t n)).
      rewrite (sumn_ext n (fun k => rofnat (binom (S n) (S k)) * rapow t (S k))
                 (fun k => t * (rofnat (binom n k) * rapow t k) + rofnat (binom n (S k)) * rapow t (S k))).
      2:{ intros k _. simpl binom. rewrite ofnat_add. simpl apow. cbn. ring. }
      rewrite sumn_add.
      simpl (binom (S n) (S n)). rewrite (binom_gt n (S n)) by lia. rewrite Nat.add_0_r.
      assert (B0: forall m, binom m 0 = 1%nat) by (destruct m; reflexivity).
      rewrite !B0. simpl (apow ROps t (S n)). cbn. ring. }
    rewrite E. ring.
Qed.
(* the attenuator's weights for the level n sum to one when cos^2 (1 + tan^2) = 1:
   sum_k C(n,k) cos^{2n} tan^{2k} = 1 — the diagonal of the density matrix keeps its mass *)
Theorem attenuator_weights_sum c2 t2 n :
  c2 * (1 + t2) = 1 -> rsum (S n) (fun k => att_weight ROps c2 t2 n k) = 1.
Proof.
  intros H. unfold att_weight.
  rewrite (sumn_ext _ _ (fun k => rapow c2 n * (rofnat (binom n k) * rapow t2 k))).
  2:{ intros k _. cbn. ring. }
  rewrite <- sumn_scale_l, <- binomial_one_plus.
  assert (P: forall x y m, rapow x m * rapow y m = rapow (x * y) m).
  { intros x y m. induction m; simpl; cbn; [ring|]. cbn in IHm. rewrite <- IHm. ring. }
  rewrite P, H. clear. induction n; simpl; cbn; [reflexivity|]. cbn in IHn. rewrite IHn. ring.
Qed.

(* ------------------------------------------------------------------ orthogonal maps, fermionic bounds *)
Definition orthF n (W : nat -> nat -> R) := forall u, dot n (rtmv n W u) (rtmv n W u) = dot n u u.
(* 0 <= G <= 1 as quadratic forms *)
Definition occF n (G : nat -> nat -> R) := forall z, 0 <= rbil n G z z <= dot n z z.

Lemma bil_fid n u v : rbil n (fid ROps) u v = dot n u v.
Proof.
  rewrite (bil_ext n _ (fun i j => if Nat.eqb i j then 1 else 0)) by reflexivity.
  rewrite (bil_diag n (fun _ => 1)). apply sumn_ext; intros i _. ring.
Qed.
(* the matrix identity W W^T = 1 (what the check evaluates) gives the form identity *)
Lemma orthF_of_matrix n W :
  (forall i j, (i < n)%nat -> (j < n)%nat -> fcong ROps n W (fid ROps) i j = fid ROps i j) -> orthF n W.
Proof.
  intros H u. rewrite <- !bil_fid. rewrite <- bil_cong. apply bil_ext. exact H.
Qed.
(* passive gates keep 0 <= Gamma <= 1 (real form of Gamma -> W Gamma W^dagger, W unitary) *)
Theorem fermionic_occupation_bounds n W G :
  orthF n W -> occF n G -> occF n (fcong ROps n W G).
Proof.
  intros HW HG z. rewrite bil_cong. rewrite <- (HW z). apply HG.
Qed.
(* a norm-preserving map preserves the norm of every real vector: ||W^T x||^2 = ||x||^2
   is the form in which unitarity of a sector representation enters (passive_rep_norm) *)
Theorem passive_rep_norm n W x : orthF n W -> dot n (rtmv n W x) (rtmv n W x) = dot n x x.
Proof. intros H. apply H. Qed.
(* basis states: a diagonal matrix with entries in [0,1] *)
Theorem diag_occ n (c : nat -> R) : (forall i, (i < n)%nat -> 0 <= c i <= 1) ->
  occF n (fun i j => if Nat.eqb i j then c i else 0).
Proof.
  intros Hc z. rewrite bil_diag. unfold dot. split.
  - apply sumn_nonneg. intros i Hi. specialize (Hc i Hi). nra.
  - assert (0 <= rsum n (fun i => z i * z i - z i * c i * z i)).
    { apply sumn_nonneg. intros i Hi. specialize (Hc i Hi). nra. }
    rewrite sumn_sub in H. lra.
Qed.

(* ------------------------------------------------------------------ programs of diagonal gates *)
From PV Require Import C08.FockRunModel.

Definition diag_valid (i : finstr (A:=R)) : Prop :=
  match i with
  | FPrep _ _ => False
  | FKerr _ z => rcabs2 z = 1
  | FCrossKerr _ _ z => rcabs2 z = 1
  | FPhase _ z => rcabs2 z = 1
  | FSnap _ zs => Forall (fun c => rcabs2 c = 1) zs
  end.

Lemma apply_diag_length coef psi : length coef = length psi ->
  length (apply_diag ROps coef psi) = length psi.
Proof.
  revert psi. induction coef as [|c r IH]; intros [|a psi] H; cbn [length] in H; try discriminate; try reflexivity.
  unfold apply_diag in *. cbn [map2 length]. rewrite IH by lia. reflexivity.
Qed.
Lemma pshift_norm z mode sp psi :
  rcabs2 z = 1 -> length sp = length psi ->
  rprobs (apply_diag ROps (pshift_coef ROps z mode sp) psi) = rprobs psi.
Proof.
  intros Hz Hl. apply diag_phase_probs.
  - unfold pshift_coef. apply Forall_forall. intros c Hc. apply in_map_iff in Hc.
    destruct Hc as [b [<- _]]. apply cpow_unit. assumption.
  - unfold pshift_coef. rewrite map_length. assumption.
Qed.
Lemma fstep_diag d c psi i : length psi = length (space d c) -> diag_valid i ->
  rprobs (fstep ROps d c psi i) = rprobs psi /\ length (fstep ROps d c psi i) = length psi.
Proof.
  intros Hl Hv. destruct i; cbn [fstep diag_valid] in *; try contradiction.
  - split; [apply kerr_norm; auto|apply apply_diag_length; unfold kerr_coef; rewrite map_length; auto].
  - split; [apply crosskerr_norm; auto|apply apply_diag_length; unfold crosskerr_coef; rewrite map_length; auto].
  - split; [apply pshift_norm; auto|apply apply_diag_length; unfold pshift_coef; rewrite map_length; auto].
  - split; [apply snap_norm; auto|apply apply_diag_length; unfold snap_coef; rewrite map_length; auto].
Qed.
(* after EVERY instruction of any program of Kerr / cross-Kerr / SNAP / phase-shift gates every
   Fock probability (hence the norm) is exactly what it was, for every d, cutoff and state *)
Theorem fock_diag_program_probs d c p : forall psi,
  length psi = length (space d c) -> Forall diag_valid p ->
  Forall (fun s => rprobs s = rprobs psi) (ftrace ROps d c psi p).
Proof.
  induction p as [|i r IH]; intros psi Hl Hv; cbn [ftrace]; [constructor|].
  inversion Hv; subst. destruct (fstep_diag d c psi i Hl H1) as [Hp Hlen]. constructor; [assumption|].
  specialize (IH (fstep ROps d c psi i)). rewrite Hp in IH. apply IH; [congruence|assumption].
Qed.
