(* C04 -- the Laplace expansion of the permanent with multiplicities along a row that occurs
   once:  perm(row :: M; 1 :: r; c) = sum_j c_j * row_j * perm(M; r; c - e_j)
   (the identity the samplers rely on when they combine the entries of permanent_laplace). *)
From Coq Require Import ZArith List Bool Lia ZifyBool Ring InitialRing Setoid.
From PV Require Import C04.PermModel C04.LoopProofs C04.SumProofs C04.FinalProofs.
Import ListNotations.
Local Close Scope Z_scope.
Local Open Scope nat_scope.

Lemma remove_nth_app_l {X} : forall (a b : list X) k, k < length a ->
  remove_nth k (a ++ b) = remove_nth k a ++ b.
Proof. induction a as [|x a IH]; intros b [|k] H; cbn in *; try lia; auto. f_equal. apply IH. lia. Qed.

Lemma remove_nth_app_r {X} : forall (a b : list X) k,
  remove_nth (length a + k) (a ++ b) = a ++ remove_nth k b.
Proof. induction a as [|x a IH]; intros b k; cbn; auto. f_equal. apply IH. Qed.

Lemma remove_nth_repeat {X} (x : X) : forall m k, k < m -> remove_nth k (repeat x m) = repeat x (m - 1).
Proof.
  induction m as [|m IH]; intros [|k] H; cbn; try lia.
  - now rewrite Nat.sub_0_r.
  - rewrite IH by lia. destruct m; [lia|]. cbn. now rewrite Nat.sub_0_r.
Qed.

Lemma nth_repeat_lt {X} (x d : X) : forall m k, k < m -> nth k (repeat x m) d = x.
Proof. induction m as [|m IH]; intros [|k] H; cbn; try lia; auto. apply IH. lia. Qed.

Section Expansion.
Variable A : Type.
Variables (rO rI : A) (radd rmul rsub : A -> A -> A) (ropp : A -> A).
Hypothesis Rth : ring_theory rO rI radd rmul rsub ropp (@eq A).
Add Ring Aring5 : Rth.

Notation sumA' := (sumA A rO radd).
Notation ofZ' := (ofZ A rO rI radd rmul ropp).
Notation perm_def' := (perm_def A rO rI radd rmul).
Notation perm_aux' := (perm_aux A rO rI radd rmul).

Lemma sumA_app : forall a b, sumA' (a ++ b) = radd (sumA' a) (sumA' b).
Proof.
  induction a as [|x a IH]; intros b.
  - change (sumA' b = radd rO (sumA' b)). ring.
  - change (radd x (sumA' (a ++ b)) = radd (radd x (sumA' a)) (sumA' b)). rewrite IH. ring.
Qed.

Lemma sumA_cons x l : sumA' (x :: l) = radd x (sumA' l).
Proof. reflexivity. Qed.

Lemma sumA_const {X} (x : A) : forall (l : list X),
  sumA' (map (fun _ => x) l) = rmul (ofZ' (Z.of_nat (length l))) x.
Proof.
  induction l as [|y l IH]; [change (rO = rmul rO x); ring|].
  cbn [map length]. change (sumA' (x :: map (fun _ => x) l)) with (radd x (sumA' (map (fun _ => x) l))).
  rewrite IH, Nat2Z.inj_succ, <- Z.add_1_r.
  rewrite (ofZ_add A rO rI radd rmul rsub ropp Rth).
  change (ofZ' 1) with rI. ring.
Qed.

Lemma expansion_aux (h : nat -> list nat -> A) : forall c s pre,
  sumA' (map (fun k => h (nth k (expand (seq s (length c)) c) 0)
                         (pre ++ remove_nth k (expand (seq s (length c)) c)))
             (seq 0 (length (expand (seq s (length c)) c))))
  = sumA' (map (fun j => rmul (ofZ' (Z.of_nat (nth j c 0)))
                              (h (s + j) (pre ++ expand (seq s (length c)) (dec_nth j c))))
               (seq 0 (length c))).
Proof.
  induction c as [|c0 c IH]; intros s pre; [reflexivity|].
  cbn [length seq expand].
  set (B := repeat s c0). set (av := expand (seq (S s) (length c)) c).
  assert (LB : length B = c0) by apply repeat_length.
  rewrite app_length, LB, seq_app, map_app, sumA_app. cbn [Nat.add].
  (* right-hand side: j = 0 and j = S j' *)
  rewrite <- (seq_shift (length c) 0). cbn [map]. rewrite map_map.
  rewrite sumA_cons.
  f_equal.
  - (* the block of c0 copies of column s *)
    rewrite (map_ext_in _ (fun _ => h s (pre ++ repeat s (c0 - 1) ++ av))).
    + rewrite sumA_const, seq_length. cbn [nth dec_nth expand seq length]. fold av.
      now rewrite Nat.add_0_r.
    + intros k Hk. apply in_seq in Hk.
      rewrite app_nth1 by lia. rewrite remove_nth_app_l by lia.
      unfold B. rewrite nth_repeat_lt by lia. now rewrite remove_nth_repeat by lia.
  - (* the other columns *)
    rewrite (seq_add_map (length av) c0), map_map.
    rewrite (map_ext _ (fun k => h (nth k av 0) ((pre ++ B) ++ remove_nth k av))).
    + unfold av. rewrite IH. apply f_equal. apply map_ext. intros j.
      cbn [nth dec_nth expand seq length]. fold B. rewrite app_assoc.
      replace (s + S j) with (S s + j) by lia. reflexivity.
    + intros k. replace (c0 + k) with (length B + k) by lia.
      rewrite app_nth2 by lia. rewrite remove_nth_app_r.
      replace (length B + k - length B) with k by lia. now rewrite app_assoc.
Qed.

(* Laplace expansion along a row of multiplicity one *)
Theorem laplace_expansion row M r c :
  perm_def' (row :: M) (1 :: r) c
  = sumA' (map (fun j => rmul (ofZ' (Z.of_nat (nth j c 0)))
                              (rmul (nth j row rO) (perm_def' M r (dec_nth j c))))
               (seq 0 (length c))).
Proof.
  unfold perm_def.
  etransitivity;
    [exact (expansion_aux (fun idx rem => rmul (nth idx row rO) (perm_aux' (expand M r) rem)) c 0 [])|].
  apply f_equal. apply map_ext. intros j. cbn [app Nat.add]. now rewrite dec_nth_length.
Qed.

End Expansion.
