(* C04 -- the mixed-radix reflected Gray counter of src/n_aryGrayCodeCounter.hpp (model in
   C04/PermModel.v): the code of offset k+1 differs from the code of offset k in exactly one
   digit, by exactly one, and stays inside the limits; the carry loop computes the digits of
   k+1; next() reports that digit. *)
From Coq Require Import Arith List Bool Lia ZifyBool.
From PV Require Import C04.PermModel C04.LoopProofs.
Import ListNotations.
Local Close Scope Z_scope.
Local Open Scope nat_scope.

Definition wf_limits (limits : list nat) : Prop := Forall (fun n => 1 <= n) limits.
Definition idx_max (limits : list nat) : nat := fold_right Nat.mul 1 limits.

Lemma sum_nat_app a b : sum_nat (a ++ b) = sum_nat a + sum_nat b.
Proof. unfold sum_nat. induction a as [|x a IH]; cbn; [reflexivity|]. rewrite IH. lia. Qed.

Lemma sum_nat_rev l : sum_nat (rev l) = sum_nat l.
Proof.
  induction l as [|x l IH]; [reflexivity|].
  cbn [rev]. rewrite sum_nat_app, IH. unfold sum_nat. cbn. lia.
Qed.

Lemma sum_nat_cons x l : sum_nat (x :: l) = x + sum_nat l.
Proof. reflexivity. Qed.

Lemma gray_top_app : forall L M p,
  gray_top (L ++ M) p = gray_top L p ++ gray_top M (xorb p (Nat.odd (sum_nat (gray_top L p)))).
Proof.
  induction L as [|[n a] L IH]; intros M p.
  - cbn. now rewrite xorb_false_r.
  - cbn [app gray_top]. rewrite IH. f_equal. f_equal. f_equal.
    rewrite sum_nat_cons, Nat.odd_add, xorb_assoc. reflexivity.
Qed.

(* head-first characterisation: digit 0 is reflected iff the digits above it have odd sum *)
Lemma gray_of_cons n t k :
  gray_of (n :: t) k =
  (if Nat.odd (sum_nat (gray_of t (k / n))) then n - 1 - k mod n else k mod n) :: gray_of t (k / n).
Proof.
  unfold gray_of, gray_of_chain. cbn [chain_of combine rev].
  rewrite gray_top_app, rev_app_distr. cbn [gray_top rev app].
  rewrite sum_nat_rev, xorb_false_l. reflexivity.
Qed.

Lemma gray_of_length : forall limits k, length (gray_of limits k) = length limits.
Proof.
  induction limits as [|n t IH]; intros k; [reflexivity|].
  rewrite gray_of_cons. cbn [length]. now rewrite IH.
Qed.

Lemma chain_of_length : forall limits k, length (chain_of limits k) = length limits.
Proof.
  induction limits as [|n t IH]; intros k; [reflexivity|]. cbn [chain_of length]. now rewrite IH.
Qed.

Lemma gray_of_range : forall limits k, wf_limits limits ->
  forall i, i < length limits -> nth i (gray_of limits k) 0 < nth i limits 0.
Proof.
  induction limits as [|n t IH]; intros k Hwf i Hi; [cbn in Hi; lia|].
  inversion Hwf as [|? ? Hn Hwf']; subst.
  rewrite gray_of_cons. destruct i as [|i]; cbn [nth].
  - pose proof (Nat.mod_upper_bound k n ltac:(lia)).
    destruct (Nat.odd _); lia.
  - apply IH; auto. cbn in Hi. lia.
Qed.

Lemma mod_succ_small n k : 1 <= n -> k mod n < n - 1 ->
  S k mod n = S (k mod n) /\ S k / n = k / n.
Proof.
  intros Hn Hk. pose proof (Nat.div_mod k n ltac:(lia)) as E.
  split; symmetry.
  - apply (Nat.mod_unique (S k) n (k / n)); lia.
  - apply (Nat.div_unique (S k) n (k / n) (S (k mod n))); lia.
Qed.

Lemma mod_succ_wrap n k : 1 <= n -> k mod n = n - 1 ->
  S k mod n = 0 /\ S k / n = S (k / n).
Proof.
  intros Hn Hk. pose proof (Nat.div_mod k n ltac:(lia)) as E.
  split; symmetry.
  - apply (Nat.mod_unique (S k) n (S (k / n))); lia.
  - apply (Nat.div_unique (S k) n (S (k / n)) 0); lia.
Qed.

Lemma idx_max_cons n t : idx_max (n :: t) = n * idx_max t.
Proof. reflexivity. Qed.

Lemma succ_div_bound n t k : 1 <= n -> k mod n = n - 1 -> S k < idx_max (n :: t) -> S (k / n) < idx_max t.
Proof.
  intros Hn Hk Hlt. rewrite idx_max_cons in Hlt.
  pose proof (Nat.div_mod k n ltac:(lia)) as E. nia.
Qed.

(* the carry loop of next() computes the mixed-radix digits of k+1 *)
Lemma incr_chain : forall limits k, wf_limits limits -> S k < idx_max limits ->
  incr limits (chain_of limits k) = chain_of limits (S k).
Proof.
  induction limits as [|n t IH]; intros k Hwf Hk; [reflexivity|].
  inversion Hwf as [|? ? Hn Hwf']; subst.
  cbn [chain_of incr].
  pose proof (Nat.mod_upper_bound k n ltac:(lia)) as Hub.
  destruct (k mod n <? n - 1) eqn:E.
  - destruct (mod_succ_small n k Hn ltac:(lia)) as [-> ->]. f_equal. lia.
  - assert (Ha : k mod n = n - 1) by lia.
    replace (k mod n =? n - 1) with true by lia.
    destruct (mod_succ_wrap n k Hn Ha) as [-> ->]. f_equal.
    apply IH; auto. eapply succ_div_bound; eauto.
Qed.

Lemma set_nth_length {X} : forall (l : list X) i v, length (set_nth i v l) = length l.
Proof. induction l as [|x l IH]; intros [|i] v; cbn; auto. Qed.

(* consecutive Gray codes differ in exactly one digit, by exactly one *)
Theorem gray_succ_one_digit : forall limits k, wf_limits limits -> S k < idx_max limits ->
  exists i nv,
    i < length limits /\
    gray_of limits (S k) = set_nth i nv (gray_of limits k) /\
    (nv = S (nth i (gray_of limits k) 0) \/ nth i (gray_of limits k) 0 = S nv) /\
    nv < nth i limits 0.
Proof.
  induction limits as [|n t IH]; intros k Hwf Hk; [cbn in Hk; lia|].
  inversion Hwf as [|? ? Hn Hwf']; subst.
  rewrite !gray_of_cons.
  pose proof (Nat.mod_upper_bound k n ltac:(lia)) as Hub.
  destruct (k mod n <? n - 1) eqn:E.
  - destruct (mod_succ_small n k Hn ltac:(lia)) as [E1 E2]. rewrite E1, E2.
    exists 0. destruct (Nat.odd (sum_nat (gray_of t (k / n)))).
    + exists (n - 1 - S (k mod n)). cbn [set_nth nth length]. repeat split; lia.
    + exists (S (k mod n)). cbn [set_nth nth length]. repeat split; lia.
  - assert (Ha : k mod n = n - 1) by lia.
    destruct (mod_succ_wrap n k Hn Ha) as [E1 E2]. rewrite E1, E2, Ha.
    destruct (IH (k / n) Hwf' (succ_div_bound n t k Hn Ha Hk)) as (i & nv & Hi & HG & Hmove & Hlim).
    exists (S i), nv. cbn [set_nth nth length].
    rewrite HG.
    assert (Hflip : Nat.odd (sum_nat (set_nth i nv (gray_of t (k / n)))) = negb (Nat.odd (sum_nat (gray_of t (k / n))))).
    { apply (odd_flip (gray_of t (k / n)) i (nth i (gray_of t (k / n)) 0) nv).
      - rewrite gray_of_length. exact Hi.
      - reflexivity.
      - destruct Hmove; auto. }
    rewrite Hflip.
    split; [lia|]. split; [|split; [exact Hmove | exact Hlim]].
    destruct (Nat.odd (sum_nat (gray_of t (k / n)))); cbn [negb]; f_equal; lia.
Qed.

(* ------------------------------------------------------------------ next() *)
Fixpoint first_diff (news olds : list nat) (i : nat) : option (nat * nat * nat) :=
  match news, olds with
  | nv :: ns, g :: gs => if nv =? g then first_diff ns gs (i - 1) else Some (i, g, nv)
  | _, _ => None
  end.

(* the scan of next() compares, from the top digit, the Gray code of the new chain with the
   stored code and reports the first difference *)
Lemma scan_top_first_diff : forall Lt i p,
  scan_top Lt i p = first_diff (gray_top (map fst Lt) p) (map snd Lt) i.
Proof.
  induction Lt as [|[[n a] g] Lt IH]; intros i p; [reflexivity|].
  cbn [scan_top map fst snd gray_top first_diff].
  destruct ((if p then n - 1 - a else a) =? g); [apply IH | reflexivity].
Qed.

Lemma first_diff_single : forall olds j v i, j < length olds -> v <> nth j olds 0 -> j <= i ->
  first_diff (set_nth j v olds) olds i = Some (i - j, nth j olds 0, v).
Proof.
  induction olds as [|x olds IH]; intros [|j] v i Hj Hv Hi; cbn in Hj; try lia.
  - cbn [set_nth first_diff nth] in *.
    replace (v =? x) with false by lia. now rewrite Nat.sub_0_r.
  - cbn [set_nth first_diff nth] in *. rewrite Nat.eqb_refl.
    rewrite IH by lia. f_equal. f_equal. f_equal. lia.
Qed.

Lemma map_fst_combine {X Y} : forall (a : list X) (b : list Y), length a = length b -> map fst (combine a b) = a.
Proof. induction a as [|x a IH]; intros [|y b] H; cbn in *; try lia; auto. f_equal. apply IH. lia. Qed.

Lemma map_snd_combine {X Y} : forall (a : list X) (b : list Y), length a = length b -> map snd (combine a b) = b.
Proof. induction a as [|x a IH]; intros [|y b] H; cbn in *; try lia; auto. f_equal. apply IH. lia. Qed.

Lemma set_nth_app_l {X} : forall (a b : list X) j v, j < length a -> set_nth j v (a ++ b) = set_nth j v a ++ b.
Proof.
  induction a as [|x a IH]; intros b [|j] v H; cbn in *; try lia; auto. f_equal. apply IH. lia.
Qed.

Lemma set_nth_app_r {X} : forall (a b : list X) j v, set_nth (length a + j) v (a ++ b) = a ++ set_nth j v b.
Proof. induction a as [|x a IH]; intros b j v; cbn; auto. f_equal. apply IH. Qed.

Lemma rev_set_nth {X} : forall (l : list X) i v, i < length l ->
  rev (set_nth i v l) = set_nth (length l - 1 - i) v (rev l).
Proof.
  induction l as [|x l IH]; intros [|i] v H; cbn [length] in H; try lia.
  - cbn [set_nth rev length].
    replace (S (length l) - 1 - 0) with (length (rev l) + 0) by (rewrite rev_length; lia).
    rewrite set_nth_app_r. reflexivity.
  - cbn [set_nth rev length]. rewrite IH by lia.
    replace (S (length l) - 1 - S i) with (length l - 1 - i) by lia.
    rewrite set_nth_app_l by (rewrite rev_length; lia). reflexivity.
Qed.

Theorem gray_next_spec : forall limits k omax,
  wf_limits limits -> k < omax -> omax < idx_max limits ->
  exists i pv nv,
    gray_next limits {| g_chain := chain_of limits k; g_code := gray_of limits k;
                        g_offset := k; g_offset_max := omax |}
    = Some ({| g_chain := chain_of limits (S k); g_code := gray_of limits (S k);
               g_offset := S k; g_offset_max := omax |}, (i, pv, nv))
    /\ i < length limits
    /\ nth i (gray_of limits k) 0 = pv
    /\ (nv = S pv \/ pv = S nv)
    /\ nv < nth i limits 0
    /\ gray_of limits (S k) = set_nth i nv (gray_of limits k).
Proof.
  intros limits k omax Hwf Hk Homax.
  destruct (gray_succ_one_digit limits k Hwf ltac:(lia)) as (i & nv & Hi & HG & Hmove & Hlim).
  exists i, (nth i (gray_of limits k) 0), nv.
  split; [|repeat split; auto].
  unfold gray_next. cbn [g_offset g_offset_max g_chain g_code].
  replace (omax <=? k) with false by lia.
  rewrite incr_chain by (auto; lia).
  set (old := gray_of limits k) in *.
  set (ch' := chain_of limits (S k)).
  assert (Lold : length old = length limits) by apply gray_of_length.
  assert (Lch : length ch' = length limits) by apply chain_of_length.
  assert (Lcomb : length (combine limits ch') = length limits) by (rewrite combine_length; lia).
  rewrite scan_top_first_diff.
  rewrite !map_rev.
  rewrite map_fst_combine by lia. rewrite map_snd_combine by lia.
  rewrite rev_length, combine_length, Lcomb, Lold, Nat.min_id.
  assert (Hnew : gray_top (rev (combine limits ch')) false = rev (set_nth i nv old)).
  { rewrite <- HG. unfold gray_of, gray_of_chain. fold ch'. now rewrite rev_involutive. }
  rewrite Hnew, rev_set_nth by lia. rewrite Lold.
  assert (Hnth : nth (length limits - 1 - i) (rev old) 0 = nth i old 0).
  { rewrite rev_nth by lia. f_equal. lia. }
  rewrite first_diff_single.
  - rewrite Hnth. replace (length limits - 1 - (length limits - 1 - i)) with i by lia.
    rewrite HG. reflexivity.
  - rewrite rev_length. lia.
  - rewrite Hnth. lia.
  - lia.
Qed.
