(* C15 — glue lemma for decompositions.py:euler.  polar / logm / takagi are not modelled: their
   contracts on the actual outputs are premises, evaluated numerically by the check on every
   run.  The matrix exponential enters through the even and odd parts of its power series,
     exp [[0,-Z],[-conj Z,0]] = [[fc(Z conj Z), -fs(Z conj Z) Z], [conj .., conj ..]],
   fc(X) = cosh(sqrt X), fs(X) = sinh(sqrt X)/sqrt X, of which only invariance under unitary
   similarity is used. *)
From Coq Require Import List Arith Bool Lia Ring.
From PV Require Import C15.ClementsModel C15.MatProofs C15.EulerModel.
Import ListNotations.

Section EulerGlue.
Context {A : Type} {O : ROps A} {L : RLaws O}.
Local Open Scope rng_scope.
Add Ring Aring6 : (rth (RLaws := L)).

Lemma get_mopp : forall d M i j, (i < d)%nat -> (j < d)%nat -> get (mopp d M) i j = - get M i j.
Proof. intros. unfold mopp. now rewrite get_mk. Qed.

Lemma sumn_opp : forall n (f : nat -> A), sumn n (fun k => - f k) = - sumn n f.
Proof. induction n; intros; simpl; [ring|]. rewrite IHn. ring. Qed.

Lemma mmul_opp_l : forall d X Y, mmul d (mopp d X) Y = mopp d (mmul d X Y).
Proof.
  intros. unfold mmul at 1, mopp at 2. apply mk_ext. intros i j Hi Hj.
  rewrite get_mmul by assumption. rewrite <- sumn_opp. apply sumn_ext. intros k Hk.
  rewrite get_mopp by assumption. ring.
Qed.

Lemma mmul_opp_r : forall d X Y, mmul d X (mopp d Y) = mopp d (mmul d X Y).
Proof.
  intros. unfold mmul at 1, mopp at 2. apply mk_ext. intros i j Hi Hj.
  rewrite get_mmul by assumption. rewrite <- sumn_opp. apply sumn_ext. intros k Hk.
  rewrite get_mopp by assumption. ring.
Qed.

Variable fc fs : mat A -> mat A.

(* S = [[P, Aa], [conj Aa, conj P]] the complex-form symplectic input;
   polar:   S = R Pass(u), R = [[Rp, Ra], [conj Ra, conj Rp]], u = U_orig[:d,:d] unitary, the
            off-diagonal blocks of U_orig vanish                 -> P = Rp u, Aa = Ra conj(u)
   logm:    R = exp(L), L = [[0, -Z], [-conj Z, 0]]              -> Rp = fc(Z conj Z), Ra = -fs(Z conj Z) Z
   takagi:  Z = U D U^T, U unitary, D real
   fc, fs are invariant under the unitary similarity by U; Ch = fc(D D) = cosh D,
   Sh = fs(D D) D = sinh D.
   Then with V = conj(U).T @ u (the third value returned by euler):
     P = U Ch V,  Aa = -U Sh conj(V),  V unitary. *)
Theorem euler_glue : forall d (P Aa Rp Ra Z U D u Ch Sh : mat A),
  wf d U -> wf d D -> wf d u -> wf d Ch -> wf d Sh ->
  (* polar *)
  P = mmul d Rp u -> Aa = mmul d Ra (mconj d u) ->
  mmul d (madj d u) u = mid d ->
  (* logm / exp *)
  Rp = fc (mmul d Z (mconj d Z)) ->
  Ra = mopp d (mmul d (fs (mmul d Z (mconj d Z))) Z) ->
  (* takagi *)
  Z = mmul d (mmul d U D) (mtr d U) ->
  mmul d (madj d U) U = mid d -> mmul d U (madj d U) = mid d ->
  mconj d D = D ->
  (* analytic functions of a matrix commute with unitary similarity *)
  (forall X, fc (mmul d (mmul d U X) (madj d U)) = mmul d (mmul d U (fc X)) (madj d U)) ->
  (forall X, fs (mmul d (mmul d U X) (madj d U)) = mmul d (mmul d U (fs X)) (madj d U)) ->
  Ch = fc (mmul d D D) -> Sh = mmul d (fs (mmul d D D)) D ->
  let V := euler_first d U u in
  P = euler_passive_block d U Ch V /\ Aa = euler_active_block d U Sh V /\
  mmul d (madj d V) V = mid d.
Proof.
  intros d P Aa Rp Ra Z U D u Ch Sh HwU HwD Hwu HwCh HwSh HP HA Hu HRp HRa HZ HU1 HU2 HD
         Hfc Hfs HCh HSh V.
  (* U^T conj(U) = 1 *)
  assert (HUt : mmul d (mtr d U) (mconj d U) = mid d).
  { rewrite <- (mconj_mconj d (mtr d U)) by apply wf_mk. rewrite <- madj_conj_tr.
    rewrite <- mconj_mmul, HU1. apply mconj_mid. }
  (* Z conj(Z) = U (D D) U^dagger *)
  assert (HZZ : mmul d Z (mconj d Z) = mmul d (mmul d U (mmul d D D)) (madj d U)).
  { rewrite HZ. rewrite !mconj_mmul, HD. rewrite <- madj_conj_tr.
    transitivity (mmul d (mmul d U D) (mmul d (mmul d (mtr d U) (mconj d U)) (mmul d D (madj d U)))).
    { now rewrite ?mmul_assoc. }
    rewrite HUt, mmul_id_l by apply wf_mmul. now rewrite ?mmul_assoc. }
  assert (HRp' : Rp = mmul d (mmul d U Ch) (madj d U)) by (rewrite HRp, HZZ, Hfc, <- HCh; reflexivity).
  assert (HRa' : Ra = mopp d (mmul d (mmul d U Sh) (mtr d U))).
  { rewrite HRa, HZZ, Hfs. f_equal. rewrite HZ, HSh.
    transitivity (mmul d (mmul d U (fs (mmul d D D)))
                    (mmul d (mmul d (madj d U) U) (mmul d D (mtr d U)))).
    { now rewrite ?mmul_assoc. }
    rewrite HU1, mmul_id_l by apply wf_mmul. now rewrite ?mmul_assoc. }
  unfold euler_passive_block, euler_active_block, V, euler_first. repeat split.
  - rewrite HP, HRp'. now rewrite ?mmul_assoc.
  - rewrite HA, HRa', mmul_opp_l. f_equal.
    rewrite mconj_mmul, madj_conj_tr, mconj_mconj by apply wf_mk. now rewrite ?mmul_assoc.
  - rewrite madj_mmul, madj_madj by assumption.
    transitivity (mmul d (madj d u) (mmul d (mmul d U (madj d U)) u)).
    { now rewrite ?mmul_assoc. }
    rewrite HU2, mmul_id_l by assumption. exact Hu.
Qed.

End EulerGlue.
