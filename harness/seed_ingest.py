"""Ingest the output of a seed sub-agent: /tmp/seed-Cxx/out/{1,2,3} -> /verif/seeded/Cxx-k/
after confirming each with seed_confirm.sh.  usage: seed_ingest.py Cxx"""
import json, os, re, shutil, subprocess, sys

pid = sys.argv[1]
src = "/tmp/seed-%s/out" % pid
for k in sorted(os.listdir(src)):
    d = os.path.join(src, k)
    if not (os.path.isdir(d) and os.path.exists(os.path.join(d, "patch.diff")) and os.path.exists(os.path.join(d, "demo.py"))):
        continue
    r = subprocess.run(["/verif/harness/seed_confirm.sh", d], capture_output=True, text=True)
    line = [l for l in r.stdout.splitlines() if l.startswith("{")]
    if not line:
        print(pid, k, "confirm failed:", r.stdout[-300:], r.stderr[-300:]); continue
    c = json.loads(line[0])
    ok = c["applies"] == 0 and c["imports"] == 0 and c["demo_exit_clean"] == 0 and c["demo_exit_mutated"] != 0
    print(pid, k, "confirmed" if ok else "NOT CONFIRMED", c)
    if not ok:
        continue
    dst = "/verif/seeded/%s-%s" % (pid, k)
    os.makedirs(dst, exist_ok=True)
    for f in ("patch.diff", "demo.py", "notes.txt"):
        if os.path.exists(os.path.join(d, f)):
            shutil.copy(os.path.join(d, f), dst)
    notes = open(os.path.join(d, "notes.txt")).read() if os.path.exists(os.path.join(d, "notes.txt")) else ""
    head = next((l.strip() for l in notes.splitlines() if l.strip() and not set(l.strip()) <= set("=-")), "")
    files = sorted(set(re.findall(r"^\+\+\+ b/(\S+)", open(os.path.join(d, "patch.diff")).read(), re.M)))
    meta = {
        "property": pid,
        "summary": head[:300],
        "site": files,
        "needs": "see notes.txt (section on what the change needs in order to manifest)",
        "origin": "independent sub-agent given only the property text and a scratch worktree (seed-%s)" % pid,
        "confirmed": "harness/seed_confirm.sh: patch applies, package imports, demo exits 0 on the clean tree and %d with the patch; the sub-agent's test runs are listed in notes.txt" % c["demo_exit_mutated"],
    }
    json.dump(meta, open(os.path.join(dst, "meta.json"), "w"), indent=1)
