(* C13 — record types shared by the generated per-simulator tables (SimTablesGen.v) and the
   validator model (ValidateModel.v).  Definitions only. *)
From Coq Require Import ZArith List Bool String.
Import ListNotations.
Open Scope Z_scope.

(* api/instruction.py: the three base classes an instruction can be an instance of *)
Inductive kind := KPrep | KGate | KMeas | KOther.

Definition kind_eqb (a b : kind) : bool :=
  match a, b with
  | KPrep, KPrep | KGate, KGate | KMeas, KMeas | KOther, KOther => true
  | _, _ => false
  end.

(* What the validator can see of a class: identity ([type(x) is C]), the instruction classes
   in its MRO, itself included ([isinstance]), [NUMBER_OF_MODES], and which of
   Preparation / Gate / Measurement it derives from. *)
Record cls := mkcls {
  c_id : Z;
  c_kind : kind;
  c_nmodes : option Z;
  c_anc : list Z;
  c_name : string
}.

(* One simulator class: keys of [_instruction_map], the two tuples of measurement classes,
   and the identity of [_state_class]. *)
Record simtab := mksim {
  s_id : Z;
  s_name : string;
  s_imap : list Z;
  s_mid : list Z;
  s_none : list Z;
  s_state : Z
}.

Definition memz (x : Z) (l : list Z) : bool := existsb (Z.eqb x) l.
