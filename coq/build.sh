#!/bin/bash
# Full .vo build of the Coq development, or of the given targets (with their dependencies).
# Serialised with a lock: several checks may run concurrently.
set -e
cd "$(dirname "$0")"
exec 9>.build.lock
flock 9
{ cat _CoqProject.head; find theories -name '*.v' | sort; } > _CoqProject.new
if ! cmp -s _CoqProject.new _CoqProject 2>/dev/null || [ ! -f Makefile.coq ]; then
  mv _CoqProject.new _CoqProject
  coq_makefile -f _CoqProject -o Makefile.coq >/dev/null
else
  rm -f _CoqProject.new
fi
if [ $# -eq 0 ]; then
  timeout 3000 make -f Makefile.coq -j16 2>&1
else
  timeout 3000 make -f Makefile.coq -j16 "$@" 2>&1
fi
