(* C10 — the two hand-written gradient functions of the gather-matmul-scatter application are
   the adjoint of its derivative, for every index structure that is a permutation of the basis. *)
From Coq Require Import List Arith Bool Ring Lia Permutation.
From PV Require Import C10.Alg C10.AlgProofs C10.GateModel.
Import ListNotations.

(* ---- scatter / find, generic in the carrier *)
Section Scatter.
  Variable T : Type.
  Notation vecT := (nat -> nat -> T).

  Lemma scatter_notin : forall (ps : list (nat * (nat -> T))) (f : vecT) k l,
    ~ In k (map fst ps) -> scatter ps f k l = f k l.
  Proof.
    induction ps as [|p ps IH]; intros f k l H; [reflexivity|].
    cbn [scatter fold_left]. change (fold_left _ ps ?x) with (scatter ps x).
    rewrite IH; [|intros Hc; apply H; right; exact Hc].
    unfold upd. destruct (Nat.eqb_spec k (fst p)) as [->|_]; [|reflexivity].
    exfalso; apply H; left; reflexivity.
  Qed.

  Lemma scatter_in : forall (ps : list (nat * (nat -> T))) (f : vecT) p l,
    NoDup (map fst ps) -> In p ps -> scatter ps f (fst p) l = snd p l.
  Proof.
    induction ps as [|p0 ps IH]; intros f p l Hnd Hin; [destruct Hin|].
    cbn [map] in Hnd. inversion Hnd as [|? ? Hx Hnd']; subst.
    cbn [scatter fold_left]. change (fold_left _ ps ?x) with (scatter ps x).
    destruct Hin as [->|Hin].
    - rewrite scatter_notin by exact Hx. unfold upd. rewrite Nat.eqb_refl. reflexivity.
    - apply IH; assumption.
  Qed.

  Lemma scatter_app : forall (l1 l2 : list (nat * (nat -> T))) (f : vecT),
    scatter (l1 ++ l2) f = scatter l2 (scatter l1 f).
  Proof. intros. unfold scatter. apply fold_left_app. Qed.

  Lemma find_in : forall (ps : list (nat * (nat -> T))) p,
    NoDup (map fst ps) -> In p ps -> find (fun q => fst q =? fst p) ps = Some p.
  Proof.
    induction ps as [|p0 ps IH]; intros p Hnd Hin; [destruct Hin|].
    cbn [map] in Hnd. inversion Hnd as [|? ? Hx Hnd']; subst. cbn [find].
    destruct Hin as [->|Hin].
    - rewrite Nat.eqb_refl. reflexivity.
    - destruct (Nat.eqb_spec (fst p0) (fst p)) as [E|_]; [|apply IH; assumption].
      exfalso. apply Hx. rewrite E. apply in_map. exact Hin.
  Qed.
End Scatter.

Lemma apply_blocks_scatter : forall T (O : Ops T) blocks (v init : nat -> nat -> T),
  apply_blocks O blocks v init =
  scatter (flat_map (fun MI => fwd_products O (fst MI) (snd MI) v) blocks) init.
Proof.
  intros T O blocks v. induction blocks as [|b bs IH]; intros init; [reflexivity|].
  cbn [flat_map]. rewrite scatter_app, <- IH. reflexivity.
Qed.

Lemma map_fst_flat : forall X (f : nat -> nat -> nat * X) la lk,
  map fst (flat_map (fun a => map (fun k => f a k) lk) la) =
  flat_map (fun a => map (fun k => fst (f a k)) lk) la.
Proof.
  intros X f la lk. induction la as [|a la IH]; [reflexivity|].
  cbn [flat_map]. rewrite map_app, map_map, IH. reflexivity.
Qed.

Lemma fwd_products_targets : forall T (O : Ops T) M I v,
  map fst (fwd_products O M I v) = order_of I.
Proof. intros. unfold fwd_products, order_of. rewrite map_fst_flat. reflexivity. Qed.

Lemma bwd_products_targets : forall T (O : Ops T) M I g,
  map fst (bwd_products O M I g) = order_of I.
Proof. intros. unfold bwd_products, order_of. rewrite map_fst_flat. reflexivity. Qed.

Definition all_order {T} (blocks : list ((nat -> nat -> T) * imat)) : list nat :=
  flat_map (fun MI => order_of (snd MI)) blocks.

Lemma all_fwd_targets : forall T (O : Ops T) (blocks : list ((nat -> nat -> T) * imat)) v,
  map fst (flat_map (fun MI => fwd_products O (fst MI) (snd MI) v) blocks) = all_order blocks.
Proof.
  intros. induction blocks as [|b bs IH]; [reflexivity|].
  cbn [flat_map all_order]. rewrite map_app, fwd_products_targets, IH. reflexivity.
Qed.

Lemma all_bwd_targets : forall T (O : Ops T) (blocks : list ((nat -> nat -> T) * imat)) g,
  map fst (all_bwd_products O blocks g) = all_order blocks.
Proof.
  intros. unfold all_bwd_products. induction blocks as [|b bs IH]; [reflexivity|].
  cbn [flat_map all_order]. rewrite map_app, bwd_products_targets, IH. reflexivity.
Qed.

Section Proofs.
  Variable A : Type.
  Variable O : Ops A.
  Hypothesis Ath : ring_theory (o0 O) (o1 O) (oadd O) (omul O) (osub O) (oopp O) (@eq A).
  Add Ring Aring4 : Ath.
  Notation "0" := (o0 O) : a_scope.
  Notation "1" := (o1 O) : a_scope.
  Infix "+" := (oadd O) : a_scope.
  Infix "*" := (omul O) : a_scope.
  Local Open Scope a_scope.
  Notation cj := (oconj O).
  (* conjugation is a ring homomorphism *)
  Hypothesis cj_add : forall a b, cj (a + b) = cj a + cj b.
  Hypothesis cj_mul : forall a b, cj (a * b) = cj a * cj b.
  Hypothesis cj_0 : cj 0 = 0.

  Notation SM := (sum_map O).
  Let ext := sum_map_ext' A O.

  Lemma cj_sum : forall X (f : X -> A) l, cj (SM f l) = SM (fun x => cj (f x)) l.
  Proof.
    induction l as [|x l IH]; [exact cj_0|].
    rewrite !(sum_map_cons A O), cj_add, IH. reflexivity.
  Qed.

  Lemma sum_flat_map : forall X Y (g : X -> list Y) (f : Y -> A) l,
    SM f (flat_map g l) = SM (fun x => SM f (g x)) l.
  Proof.
    induction l as [|x l IH]; [reflexivity|].
    cbn [flat_map]. rewrite (sum_map_app A O Ath), (sum_map_cons A O), IH. reflexivity.
  Qed.

  (* a sum over the basis is a sum over the scattered pairs *)
  Lemma sum_over_targets : forall T (pairs : list (nat * (nat -> T))) N (H : nat -> A),
    Permutation (map fst pairs) (seq 0 N) ->
    SM H (seq 0 N) = SM (fun p => H (fst p)) pairs.
  Proof.
    intros T pairs N H Hp.
    rewrite <- (sum_map_perm A O Ath _ H _ _ Hp), (sum_map_map A O). reflexivity.
  Qed.

  Lemma perm_nodup : forall (l : list nat) N, Permutation l (seq 0 N) -> NoDup l.
  Proof.
    intros l N Hp. apply (Permutation_NoDup (Permutation_sym Hp)). apply seq_NoDup.
  Qed.

  Lemma pairing_scatter : forall T (pr : T -> A) (pairs : list (nat * (nat -> T))) init N bs
      (g : nat -> nat -> A),
    Permutation (map fst pairs) (seq 0 N) ->
    SM (fun k => SM (fun l => g k l * cj (pr (scatter pairs init k l))) (seq 0 bs)) (seq 0 N) =
    SM (fun p => SM (fun l => g (fst p) l * cj (pr (snd p l))) (seq 0 bs)) pairs.
  Proof.
    intros T pr pairs init N bs g Hp.
    rewrite (sum_over_targets T pairs N _ Hp).
    apply (sum_map_ext A O). intros p Hin. apply ext. intros l.
    rewrite (scatter_in T pairs init p l (perm_nodup _ _ Hp) Hin). reflexivity.
  Qed.

  Lemma sum_products : forall T (f : nat -> nat -> nat * (nat -> T)) (H : nat * (nat -> T) -> A) la lk,
    SM H (flat_map (fun a => map (fun k => f a k) lk) la) = SM (fun a => SM (fun k => H (f a k)) lk) la.
  Proof.
    intros. rewrite sum_flat_map. apply ext. intros a. rewrite (sum_map_map A O). reflexivity.
  Qed.

  (* ---- per block: the block sum S(M, I, g, v) and its two adjoint forms *)
  Definition Sblock (M : nat -> nat -> A) (I : imat) (bs : nat) (g v : nat -> nat -> A) : A :=
    SM (fun a => SM (fun k => SM (fun l =>
       g (ix I a k) l * cj (SM (fun b => M a b * v (ix I b k) l) (seq 0 (ilim I))))
       (seq 0 bs)) (seq 0 (isz I))) (seq 0 (ilim I)).

  Lemma swap3 : forall X Y Z (f : X -> Y -> Z -> A) lx ly lz,
    SM (fun x => SM (fun y => SM (fun z => f x y z) lz) ly) lx =
    SM (fun z => SM (fun x => SM (fun y => f x y z) ly) lx) lz.
  Proof.
    intros. transitivity (SM (fun x => SM (fun z => SM (fun y => f x y z) ly) lz) lx).
    - apply ext. intros x. apply (sum_map_swap A O Ath).
    - apply (sum_map_swap A O Ath).
  Qed.

  (* adjoint w.r.t. the state *)
  Lemma Sblock_state : forall M I bs g v,
    Sblock M I bs g v =
    SM (fun i => SM (fun k => SM (fun l =>
        SM (fun j => cj (M j i) * g (ix I j k) l) (seq 0 (ilim I)) * cj (v (ix I i k) l))
        (seq 0 bs)) (seq 0 (isz I))) (seq 0 (ilim I)).
  Proof.
    intros M I bs g v. unfold Sblock.
    transitivity (SM (fun a => SM (fun k => SM (fun l => SM (fun b =>
        cj (M a b) * g (ix I a k) l * cj (v (ix I b k) l)) (seq 0 (ilim I)))
        (seq 0 bs)) (seq 0 (isz I))) (seq 0 (ilim I))).
    { apply ext; intros a. apply ext; intros k. apply ext; intros l.
      rewrite cj_sum, (sum_map_mul_l A O Ath). apply ext; intros b. rewrite cj_mul. ring. }
    (* bring b outside *)
    transitivity (SM (fun b => SM (fun a => SM (fun k => SM (fun l =>
        cj (M a b) * g (ix I a k) l * cj (v (ix I b k) l)) (seq 0 bs)) (seq 0 (isz I)))
        (seq 0 (ilim I))) (seq 0 (ilim I))).
    { transitivity (SM (fun a => SM (fun b => SM (fun k => SM (fun l =>
          cj (M a b) * g (ix I a k) l * cj (v (ix I b k) l)) (seq 0 bs)) (seq 0 (isz I)))
          (seq 0 (ilim I))) (seq 0 (ilim I))).
      - apply ext; intros a.
        apply (swap3 _ _ _ (fun k l b => cj (M a b) * g (ix I a k) l * cj (v (ix I b k) l))).
      - apply (sum_map_swap A O Ath). }
    apply ext; intros b.
    transitivity (SM (fun k => SM (fun l => SM (fun a =>
        cj (M a b) * g (ix I a k) l * cj (v (ix I b k) l)) (seq 0 (ilim I))) (seq 0 bs)) (seq 0 (isz I))).
    { symmetry. apply (swap3 _ _ _ (fun k l a => cj (M a b) * g (ix I a k) l * cj (v (ix I b k) l))). }
    apply ext; intros k. apply ext; intros l.
    rewrite (sum_map_mul_r A O Ath). reflexivity.
  Qed.

  (* adjoint w.r.t. the matrix *)
  Lemma Sblock_matrix : forall M I bs g v,
    Sblock M I bs g v =
    SM (fun a => SM (fun b => partial_grad O I bs v g a b * cj (M a b)) (seq 0 (ilim I))) (seq 0 (ilim I)).
  Proof.
    intros M I bs g v. unfold Sblock, partial_grad.
    apply ext; intros a.
    transitivity (SM (fun k => SM (fun l => SM (fun b =>
        cj (v (ix I b k) l) * g (ix I a k) l * cj (M a b)) (seq 0 (ilim I))) (seq 0 bs)) (seq 0 (isz I))).
    { apply ext; intros k. apply ext; intros l.
      rewrite cj_sum, (sum_map_mul_l A O Ath). apply ext; intros b. rewrite cj_mul. ring. }
    rewrite (swap3 _ _ _ (fun k l b => cj (v (ix I b k) l) * g (ix I a k) l * cj (M a b))).
    apply ext; intros b.
    rewrite (sum_map_mul_r A O Ath). apply ext; intros k.
    rewrite (sum_map_mul_r A O Ath). reflexivity.
  Qed.

  (* ---- whole application *)
  Definition Sall (blocks : list ((nat -> nat -> A) * imat)) bs g v : A :=
    SM (fun MI => Sblock (fst MI) (snd MI) bs g v) blocks.

  Lemma pair_forward : forall blocks N bs g v init,
    Permutation (all_order blocks) (seq 0 N) ->
    pair_vec O N bs g (apply_blocks O blocks v init) = Sall blocks bs g v.
  Proof.
    intros blocks N bs g v init Hp. unfold pair_vec. rewrite apply_blocks_scatter.
    rewrite (pairing_scatter A (fun x => x)); [|rewrite all_fwd_targets; exact Hp].
    unfold Sall. rewrite sum_flat_map. apply ext; intros MI.
    unfold fwd_products. rewrite sum_products. reflexivity.
  Qed.

  (* 2a. gradient with respect to the state: <g, J v> = <grad_state g, v> *)
  Theorem vjp_state_correct : forall blocks N bs g v init,
    Permutation (all_order blocks) (seq 0 N) ->
    pair_vec O N bs g (apply_blocks O blocks v init) = pair_vec O N bs (grad_state O blocks g) v.
  Proof.
    intros blocks N bs g v init Hp. rewrite (pair_forward blocks N bs g v init Hp).
    unfold pair_vec.
    assert (Hb : Permutation (map fst (all_bwd_products O blocks g)) (seq 0 N))
      by (rewrite all_bwd_targets; exact Hp).
    rewrite (sum_over_targets A (all_bwd_products O blocks g) N _ Hb).
    transitivity (SM (fun p => SM (fun l => snd p l * cj (v (fst p) l)) (seq 0 bs))
                     (all_bwd_products O blocks g)).
    2:{ apply (sum_map_ext A O). intros p Hin. apply ext; intros l. unfold grad_state.
        rewrite (find_in A _ p (perm_nodup _ _ Hb) Hin). reflexivity. }
    unfold Sall, all_bwd_products. rewrite sum_flat_map. apply ext; intros MI.
    rewrite Sblock_state. unfold bwd_products. rewrite sum_products. reflexivity.
  Qed.

  (* 2b. gradient with respect to the matrices (one per block: the passive gate) *)
  Theorem vjp_passive_matrix_correct : forall (Ms : list (nat -> nat -> A)) Is N bs g v init,
    length Ms = length Is ->
    Permutation (all_order (combine Ms Is)) (seq 0 N) ->
    pair_vec O N bs g (apply_blocks O (combine Ms Is) v init) =
    SM (fun GMI => SM (fun a => SM (fun b => fst GMI a b * cj (fst (snd GMI) a b))
                      (seq 0 (ilim (snd (snd GMI))))) (seq 0 (ilim (snd (snd GMI)))))
       (combine (passive_grad_matrices O Is bs v g) (combine Ms Is)).
  Proof.
    intros Ms Is N bs g v init Hlen Hp. rewrite (pair_forward _ N bs g v init Hp). unfold Sall.
    clear Hp. revert Ms Hlen. induction Is as [|I Is IH]; intros [|M Ms] Hlen; try discriminate;
      [reflexivity|].
    cbn [combine passive_grad_matrices map]. rewrite !(sum_map_cons A O). f_equal.
    - cbn [fst snd]. apply Sblock_matrix.
    - apply IH. injection Hlen; auto.
  Qed.

  Lemma sum_restrict : forall (f : nat -> A) lim c, (lim <= c)%nat ->
    SM (fun a => if a <? lim then f a else 0) (seq 0 c) = SM f (seq 0 lim).
  Proof.
    intros f lim c H. replace c with (lim + (c - lim))%nat by lia.
    rewrite seq_app, (sum_map_app A O Ath). cbn [plus].
    rewrite (sum_map_ext A O _ _ f (seq 0 lim)).
    2:{ intros a Ha. apply in_seq in Ha. destruct (Nat.ltb_spec a lim); [reflexivity|lia]. }
    rewrite (sum_map_ext A O _ _ (fun _ => 0) (seq lim (c - lim))).
    2:{ intros a Ha. apply in_seq in Ha. destruct (Nat.ltb_spec a lim); [lia|reflexivity]. }
    rewrite (sum_map_zero A O Ath). ring.
  Qed.

  (* 2c. gradient with respect to the single matrix of an active gate (zero-padded sum) *)
  Theorem vjp_active_matrix_correct : forall (M : nat -> nat -> A) Is cutoff N bs g v init,
    Forall (fun I => ilim I <= cutoff)%nat Is ->
    Permutation (all_order (active_blocks M Is)) (seq 0 N) ->
    pair_vec O N bs g (apply_blocks O (active_blocks M Is) v init) =
    pair_sq O cutoff (active_grad_matrix O Is bs v g) M.
  Proof.
    intros M Is cutoff N bs g v init Hlim Hp. rewrite (pair_forward _ N bs g v init Hp).
    unfold Sall, active_blocks, pair_sq, active_grad_matrix. rewrite (sum_map_map A O). cbn [fst snd].
    transitivity (SM (fun I => SM (fun a => SM (fun b =>
        (if (a <? ilim I) && (b <? ilim I) then partial_grad O I bs v g a b else 0) * cj (M a b))
        (seq 0 cutoff)) (seq 0 cutoff)) Is).
    - apply (sum_map_ext A O). intros I HI.
      assert (HL : (ilim I <= cutoff)%nat) by (rewrite Forall_forall in Hlim; apply Hlim; exact HI).
      rewrite Sblock_matrix.
      rewrite <- (sum_restrict _ (ilim I) cutoff HL). apply ext; intros a.
      destruct (a <? ilim I).
      + rewrite <- (sum_restrict _ (ilim I) cutoff HL). apply ext; intros b.
        cbn [andb]. destruct (b <? ilim I); ring.
      + symmetry. transitivity (SM (fun _ : nat => 0) (seq 0 cutoff)).
        { apply ext; intros b. cbn [andb]. ring. }
        apply (sum_map_zero A O Ath).
    - symmetry.
      transitivity (SM (fun a => SM (fun b => SM (fun I =>
          (if (a <? ilim I) && (b <? ilim I) then partial_grad O I bs v g a b else 0) * cj (M a b))
          Is) (seq 0 cutoff)) (seq 0 cutoff)).
      + apply ext; intros a. apply ext; intros b. apply (sum_map_mul_r A O Ath).
      + apply (swap3 _ _ _ (fun a b I =>
          (if (a <? ilim I) && (b <? ilim I) then partial_grad O I bs v g a b else 0) * cj (M a b))).
  Qed.
End Proofs.
