// C12 native driver: calls the kernels of <repo>/src on caller-owned buffers and reports
// whether the buffers were modified.  Built by harness/props/c12.py from the working tree.
//
// stdin, one test per line:   <kernel> <n> <values...>
//   pfaffian n  a[n*n]                      (double)
//   pfaffian32 n a[n*n]                     (float)
//   torontonian n a[n*n]
//   loop_torontonian n a[n*n] v[n]
//   permanent n re,im [n*n pairs] rows[n] cols[n]
//   permanent_laplace n  (same)
// stdout, one line per test:  <kernel> <changed:0|1> <value> | <buffer after...>
#include <complex>
#include <cstdio>
#include <cstring>
#include <iostream>
#include <sstream>
#include <string>
#include <vector>

#include "matrix.hpp"
#include "pfaffian.hpp"
#include "torontonian.hpp"
#include "loop_torontonian.hpp"
#include "permanent.hpp"
#include "permanent_laplace.hpp"

template <typename T>
static void print_buf(const std::vector<T> &b) {
    for (auto x : b) printf(" %.17g", (double)x);
}

int main() {
    std::string line;
    while (std::getline(std::cin, line)) {
        std::istringstream in(line);
        std::string k;
        size_t n;
        if (!(in >> k >> n)) continue;
        if (k == "pfaffian" || k == "torontonian" || k == "loop_torontonian") {
            std::vector<double> a(n * n), v(n);
            for (auto &x : a) in >> x;
            if (k == "loop_torontonian") for (auto &x : v) in >> x;
            std::vector<double> a0 = a, v0 = v;
            Matrix<double> m(n, n, a.data());
            Vector<double> vec(n, v.data());
            double r = 0;
            if (k == "pfaffian") r = pfaffian_cpp<double>(m);
            else if (k == "torontonian") r = torontonian_cpp<double>(m);
            else r = loop_torontonian_cpp<double>(m, vec);
            int changed = (memcmp(a.data(), a0.data(), sizeof(double) * a.size()) != 0) ||
                          (memcmp(v.data(), v0.data(), sizeof(double) * v.size()) != 0);
            printf("%s %d %.17g |", k.c_str(), changed, r);
            print_buf(a);
            printf("\n");
        } else if (k == "pfaffian32") {
            std::vector<float> a(n * n);
            for (auto &x : a) in >> x;
            std::vector<float> a0 = a;
            Matrix<float> m(n, n, a.data());
            float r = pfaffian_cpp<float>(m);
            int changed = memcmp(a.data(), a0.data(), sizeof(float) * a.size()) != 0;
            printf("%s %d %.9g |", k.c_str(), changed, (double)r);
            print_buf(a);
            printf("\n");
        } else if (k == "permanent" || k == "permanent_laplace") {
            std::vector<std::complex<double>> a(n * n);
            for (auto &x : a) { double re, im; in >> re >> im; x = {re, im}; }
            std::vector<int> rows(n), cols(n);
            for (auto &x : rows) in >> x;
            for (auto &x : cols) in >> x;
            auto a0 = a; auto r0 = rows; auto c0 = cols;
            Matrix<std::complex<double>> m(n, n, a.data());
            Vector<int> rv(n, rows.data()), cv(n, cols.data());
            std::complex<double> r = 0;
            if (k == "permanent") r = permanent_cpp<double>(m, rv, cv);
            else { auto out = permanent_laplace_cpp<double>(m, rv, cv); if (out.size()) r = out[0]; }
            int changed = (memcmp(a.data(), a0.data(), sizeof(a[0]) * a.size()) != 0) || rows != r0 || cols != c0;
            printf("%s %d %.17g %.17g |\n", k.c_str(), changed, r.real(), r.imag());
        }
        fflush(stdout);
    }
    return 0;
}
