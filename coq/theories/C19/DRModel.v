(* C19 — model of piquasso/dual_rail_encoding.py and of the qubit circuits it translates.
   Definitions only (proofs: DRProofs.v, KLMProofs.v, RealInst.v).

   Generic over the scalars [A] with operations [O : ops A] (DRBase.v).  Instantiated
   - at the reals (RealInst.v) to state the theorems for all angles,
   - at Q(sqrt 2) (RunInst.v) to run the same definitions on the circuits of the tie. *)
From Coq Require Import ZArith QArith List Bool Arith.
Open Scope nat_scope.
From PV Require Import C19.DRBase C19.EncodeGen.
Import ListNotations.

Section Model.
  Context {A : Type} (O : ops A).
  Notation C := (@cplx A).
  Notation M2 := (@mat2 A).
  Let z0 : A := o0 O.
  Let e1 : A := o1 O.
  Let ng (x : A) : A := oopp O x.

  (* ------------------------------------------------------------------ qubit gates
     Qiskit's matrices (qiskit.circuit.library.standard_gates); a parametrised gate carries
     (cos, sin) of the angles that occur in its matrix:
       rx, ry, rz: of theta/2;  u: of theta/2, phi, lambda;  p: of theta. *)
  Inductive gate :=
  | GH | GX | GY | GZ
  | GRx (c s : A) | GRy (c s : A) | GRz (c s : A)
  | GU (c s cp sp cl sl : A)
  | GP (c s : A).

  Definition gate_matrix (g : gate) : M2 :=
    let h := cre O (ohh O) in
    let i := cimag O in
    match g with
    | GH => ((h, h), (h, copp O h))
    | GX => ((czero O, cone O), (cone O, czero O))
    | GY => ((czero O, copp O i), (i, czero O))
    | GZ => ((cone O, czero O), (czero O, copp O (cone O)))
    | GRx c s => ((cre O c, copp O (cmul O i (cre O s))), (copp O (cmul O i (cre O s)), cre O c))
    | GRy c s => ((cre O c, copp O (cre O s)), (cre O s, cre O c))
    | GRz c s => ((cis c (ng s), czero O), (czero O, cis c s))
    | GU c s cp sp cl sl =>
        ((cre O c, copp O (cmul O (cis cl sl) (cre O s))),
         (cmul O (cis cp sp) (cre O s), cmul O (cmul O (cis cp sp) (cis cl sl)) (cre O c)))
    | GP c s => ((cone O, czero O), (czero O, cis c s))
    end.

  (* the list _map_qiskit_instr_to_pq emits for the gate's name (generated file) *)
  Definition emitted_of (g : gate) : list einstr :=
    match g with
    | GH => emitted_h | GX => emitted_x | GY => emitted_y | GZ => emitted_z
    | GRx _ _ => emitted_rx | GRy _ _ => emitted_ry | GRz _ _ => emitted_rz
    | GU _ _ _ _ _ _ => emitted_u | GP _ _ => emitted_p
    end.

  (* what is known about the gate's parameters: parameter k is given as (u, cos(u*theta_k), sin(u*theta_k)) *)
  Definition gate_env (g : gate) : list (Q * A * A) :=
    match g with
    | GRx c s | GRy c s | GRz c s => [((1 # 2)%Q, c, s)]
    | GU c s cp sp cl sl => [((1 # 2)%Q, c, s); (1%Q, cp, sp); (1%Q, cl, sl)]
    | GP c s => [(1%Q, c, s)]
    | _ => []
    end.

  (* ------------------------------------------------------------------ angles -> (cos, sin) *)
  Record syms := mksyms { s_env : list (Q * A * A); s_k1 : A * A; s_k2 : A * A }.

  Definition resolve (S : syms) (a : ang) : option (A * A) :=
    match a with
    | ATurn q =>
        if Qeq_bool q 0 then Some (e1, z0)
        else if Qeq_bool q 1 then Some (ng e1, z0)
        else if Qeq_bool q (-1) then Some (ng e1, z0)
        else if Qeq_bool q (1 # 2) then Some (z0, e1)
        else if Qeq_bool q (-1 # 2) then Some (z0, ng e1)
        else if Qeq_bool q (1 # 4) then Some (ohh O, ohh O)
        else if Qeq_bool q (-1 # 4) then Some (ohh O, ng (ohh O))
        else None
    | APar k a =>
        match nth_error (s_env S) k with
        | Some (u, c, s) =>
            if Qeq_bool a u then Some (c, s)
            else if Qeq_bool a (- u) then Some (c, ng s)
            else None
        | None => None
        end
    | AK1 neg => Some (fst (s_k1 S), if neg then ng (snd (s_k1 S)) else snd (s_k1 S))
    | AK2 neg => Some (fst (s_k2 S), if neg then ng (snd (s_k2 S)) else snd (s_k2 S))
    end.

  (* ------------------------------------------------------------------ photonic instructions *)
  Inductive pop :=
  | PPS (m : nat) (phi : A * A)                   (* Phaseshifter, (cos phi, sin phi) *)
  | PBS (m1 m2 : nat) (theta phi : A * A)         (* Beamsplitter *)
  | PPostSel (m1 m2 n1 n2 : nat)
  | PMeasure (m1 m2 : nat).

  Definition opt_bind {X Y} (o : option X) (f : X -> option Y) : option Y :=
    match o with Some x => f x | None => None end.

  (* _map_qiskit_instr_to_pq's result for concrete modes: slot k is (modes + aux_modes)[k] *)
  Definition inst1 (modes : list nat) (S : syms) (e : einstr) : option pop :=
    match e with
    | EPS k a => opt_bind (nth_error modes k) (fun m => opt_bind (resolve S a) (fun cs => Some (PPS m cs)))
    | EBS k1 k2 t p =>
        opt_bind (nth_error modes k1) (fun m1 => opt_bind (nth_error modes k2) (fun m2 =>
        opt_bind (resolve S t) (fun th => opt_bind (resolve S p) (fun ph => Some (PBS m1 m2 th ph)))))
    | EPost k1 k2 n1 n2 =>
        opt_bind (nth_error modes k1) (fun m1 => opt_bind (nth_error modes k2) (fun m2 => Some (PPostSel m1 m2 n1 n2)))
    | EMeas k1 k2 =>
        opt_bind (nth_error modes k1) (fun m1 => opt_bind (nth_error modes k2) (fun m2 => Some (PMeasure m1 m2)))
    end.

  Fixpoint instantiate (modes : list nat) (S : syms) (l : list einstr) : option (list pop) :=
    match l with
    | [] => Some []
    | e :: r => opt_bind (inst1 modes S e) (fun p => opt_bind (instantiate modes S r) (fun ps => Some (p :: ps)))
    end.

  (* gates.py blocks (generated bs_block / ps_block) *)
  Definition ps_phase (phi : A * A) : C :=
    ps_block (cis (fst phi) (snd phi)) (cis (fst phi) (ng (snd phi))).
  Definition bs_mat (theta phi : A * A) : M2 :=
    bs_block O (fst theta) (snd theta) (cis (fst phi) (snd phi)) (cis (fst phi) (ng (snd phi))).
  Definition rail_mat (rail1 : bool) (e : C) : M2 :=
    if rail1 then ((cone O, czero O), (czero O, e)) else ((e, czero O), (czero O, cone O)).

  (* the 2x2 matrix a list of passive instructions applies to the rail pair (2q, 2q+1);
     later instructions multiply from the left; None if an instruction touches another mode *)
  Definition pop_local (q : nat) (p : pop) : option M2 :=
    match p with
    | PPS m phi =>
        if m =? 2 * q then Some (rail_mat false (ps_phase phi))
        else if m =? 2 * q + 1 then Some (rail_mat true (ps_phase phi))
        else None
    | PBS m1 m2 th ph => if (m1 =? 2 * q) && (m2 =? 2 * q + 1) then Some (bs_mat th ph) else None
    | _ => None
    end.

  Fixpoint local_matrix_from (q : nat) (acc : M2) (l : list pop) : option M2 :=
    match l with
    | [] => Some acc
    | p :: r => opt_bind (pop_local q p) (fun m => local_matrix_from q (mmul2 O m acc) r)
    end.
  Definition local_matrix (q : nat) (l : list pop) : option M2 := local_matrix_from q (mid2 O) l.

  Definition gsyms (g : gate) : syms := mksyms (gate_env g) (z0, z0) (z0, z0).
  (* the matrix the encoding of gate g applies to the rail pair of qubit q *)
  Definition encoded_gate_matrix (q : nat) (g : gate) : option M2 :=
    opt_bind (instantiate [2 * q; 2 * q + 1] (gsyms g) (emitted_of g)) (local_matrix q).

  (* ------------------------------------------------------------------ states
     n-qubit (un-normalised) states as amplitude functions of the bit string; the SAME type
     is the first-quantised description of the dual-rail code space: bit q says in which rail
     of the pair (2q, 2q+1) the single photon of that pair is (|0> = |1,0>, |1> = |0,1>). *)
  Definition bits := list bool.
  Definition st := bits -> C.
  Definition getb (x : bits) (q : nat) : bool := nth q x false.
  Fixpoint setb (x : bits) (q : nat) (b : bool) : bits :=
    match q, x with
    | 0, [] => [b]
    | 0, _ :: r => b :: r
    | S q', [] => false :: setb [] q' b
    | S q', a :: r => a :: setb r q' b
    end.

  Definition apply1 (q : nat) (m : M2) (psi : st) : st :=
    fun x =>
      let '((a, b), (c, d)) := m in
      let p0 := psi (setb x q false) in
      let p1 := psi (setb x q true) in
      if getb x q then cadd O (cmul O c p0) (cmul O d p1) else cadd O (cmul O a p0) (cmul O b p1).

  Definition proj (q : nat) (b : bool) (psi : st) : st :=
    fun x => if Bool.eqb (getb x q) b then psi x else czero O.

  Definition apply_cz (a b : nat) (psi : st) : st :=
    fun x => if getb x a && getb x b then copp O (psi x) else psi x.
  Definition apply_cx (c t : nat) (psi : st) : st :=
    fun x => if getb x c then psi (setb x t (negb (getb x t))) else psi x.

  Definition basis0 : st := fun x => if forallb negb x then cone O else czero O.

  (* ------------------------------------------------------------------ qubit programs *)
  Inductive qop :=
  | QG (g : gate) (q : nat)
  | QCZ (a b : nat)
  | QCX (c t : nat)
  | QM (q c : nat)                                   (* measure qubit q into clbit c *)
  | QIf (c : nat) (v : bool) (q : nat) (body : list gate).   (* if clbit c == v: gates on qubit q *)

  Definition upd (cr : nat -> bool) (c : nat) (v : bool) : nat -> bool :=
    fun k => if k =? c then v else cr k.

  Definition apply_gates (q : nat) (body : list gate) (psi : st) : st :=
    fold_left (fun p g => apply1 q (gate_matrix g) p) body psi.

  (* trajectory semantics: [os] are the answers of the successive measurements (the oracle);
     the result is the un-normalised state, so |run_q p os cr psi x|^2 is the joint probability
     of the answers [os] and of finding x at the end. *)
  Fixpoint run_q (p : list qop) (os : list bool) (cr : nat -> bool) (psi : st) : st :=
    match p with
    | [] => psi
    | QG g q :: r => run_q r os cr (apply1 q (gate_matrix g) psi)
    | QCZ a b :: r => run_q r os cr (apply_cz a b psi)
    | QCX c t :: r => run_q r os cr (apply_cx c t psi)
    | QM q c :: r =>
        match os with
        | o :: os' => run_q r os' (upd cr c o) (proj q o psi)
        | [] => psi
        end
    | QIf c v q body :: r =>
        run_q r os cr (if Bool.eqb (cr c) v then apply_gates q body psi else psi)
    end.

  (* ------------------------------------------------------------------ the encoder
     dual_rail_encoding.py:_encode_dual_rail_from_qiskit / _map_qiskit_instr_to_pq *)
  Record pinstr := mkpi { pi_op : pop; pi_cond : option (nat * bool) }.
  Record pprog := mkpp { pp_vacuum : list nat; pp_create : list nat; pp_body : list pinstr }.

  Definition is_ent (o : qop) : bool := match o with QCZ _ _ | QCX _ _ => true | _ => false end.
  Definition plain (l : list pop) : list pinstr := map (fun p => mkpi p None) l.
  Definition conditioned (cnd : nat * bool) (l : list pop) : list pinstr := map (fun p => mkpi p (Some cnd)) l.

  Definition ksyms (k1 k2 : A * A) : syms := mksyms [] k1 k2.

  Fixpoint encode_gates (q : nat) (body : list gate) : option (list pop) :=
    match body with
    | [] => Some []
    | g :: r =>
        opt_bind (instantiate [2 * q; 2 * q + 1] (gsyms g) (emitted_of g)) (fun l =>
        opt_bind (encode_gates q r) (fun l' => Some (l ++ l')))
    end.

  (* k1, k2: (cos, sin) of the two fixed angles of _cz_on_two_bosonic_qubits *)
  Fixpoint encode_body (k1 k2 : A * A) (n : nat) (cz_idx : nat) (p : list qop) : option (list pinstr) :=
    match p with
    | [] => Some []
    | o :: r =>
        let aux := [2 * n + 2 * cz_idx; 2 * n + 2 * cz_idx + 1] in
        let here :=
          match o with
          | QG g q => opt_bind (instantiate [2 * q; 2 * q + 1] (gsyms g) (emitted_of g)) (fun l => Some (plain l))
          | QCZ a b => opt_bind (instantiate ([2 * a + 1; 2 * b + 1] ++ aux) (ksyms k1 k2) emitted_cz) (fun l => Some (plain l))
          | QCX c t => opt_bind (instantiate ([2 * c; 2 * c + 1; 2 * t; 2 * t + 1] ++ aux) (ksyms k1 k2) emitted_cx) (fun l => Some (plain l))
          | QM q _ => opt_bind (instantiate [2 * q; 2 * q + 1] (ksyms k1 k2) emitted_measure) (fun l => Some (plain l))
          | QIf c v q body => opt_bind (encode_gates q body) (fun l => Some (conditioned (c, v) l))
          end in
        opt_bind here (fun l =>
        opt_bind (encode_body k1 k2 n (if is_ent o then S cz_idx else cz_idx) r) (fun l' => Some (l ++ l')))
    end.

  Definition encode (k1 k2 : A * A) (n : nat) (p : list qop) : option pprog :=
    let ncz := length (filter is_ent p) in
    let aux_all := seq (2 * n) (2 * ncz) in
    opt_bind (encode_body k1 k2 n 0 p) (fun body =>
    Some (mkpp (seq 0 (2 * n) ++ aux_all) (map (fun q => 2 * q) (seq 0 n) ++ aux_all) body)).

  (* ------------------------------------------------------------------ photonic semantics on the code space
     (first quantised: one photon per rail pair; a passive instruction inside a pair acts on that
     photon by its gates.py block).  [outs] is the branch outcome tuple of api/simulator.py:
     photon counts appended in the order the measurements are executed. *)
  Definition decode_pair (a b : nat) : option bool :=          (* get_bosonic_qubit_samples, one pair *)
    if (a =? 1) && (b =? 0) then Some false
    else if (a =? 0) && (b =? 1) then Some true
    else None.

  Definition cond_met (outs : list nat) (cnd : option (nat * bool)) : option bool :=   (* _get_condition_function *)
    match cnd with
    | None => Some true
    | Some (k, v) =>
        match nth_error outs (2 * k), nth_error outs (2 * k + 1) with
        | Some a, Some b => match decode_pair a b with Some o => Some (Bool.eqb o v) | None => None end
        | _, _ => None
        end
    end.

  Definition pop_apply (p : pop) (psi : st) : option st :=
    match p with
    | PPS m phi => Some (apply1 (m / 2) (rail_mat (Nat.odd m) (ps_phase phi)) psi)
    | PBS m1 m2 th ph =>
        if Nat.even m1 && (m2 =? m1 + 1) then Some (apply1 (m1 / 2) (bs_mat th ph) psi) else None
    | _ => None
    end.

  Fixpoint run_p (p : list pinstr) (os : list bool) (outs : list nat) (psi : st) : option st :=
    match p with
    | [] => Some psi
    | i :: r =>
        match cond_met outs (pi_cond i) with
        | None => None
        | Some false => run_p r os outs psi
        | Some true =>
            match pi_op i with
            | PMeasure m1 m2 =>
                if Nat.even m1 && (m2 =? m1 + 1) then
                  match os with
                  | o :: os' => run_p r os' (outs ++ (if o then [0; 1] else [1; 0])%nat) (proj (m1 / 2) o psi)
                  | [] => Some psi
                  end
                else None
            | PPostSel _ _ _ _ => None
            | op => opt_bind (pop_apply op psi) (run_p r os outs)
            end
        end
    end.

  (* ------------------------------------------------------------------ get_bosonic_qubit_samples *)
  Fixpoint decode_tuple (t : list nat) : option (list bool) :=
    match t with
    | [] => Some []
    | a :: b :: r => opt_bind (decode_pair a b) (fun o => opt_bind (decode_tuple r) (fun l => Some (o :: l)))
    | _ => None
    end.
  Fixpoint decode_all (l : list (list nat)) : option (list (list bool)) :=
    match l with
    | [] => Some []
    | t :: r => opt_bind (decode_tuple t) (fun x => opt_bind (decode_all r) (fun y => Some (x :: y)))
    end.
  Definition get_bosonic_qubit_samples (l : list (list nat)) : option (list (list bool)) :=
    if existsb (fun t => negb (length t / 2 =? 0)) l then decode_all l else None.

  (* ------------------------------------------------------------------ 4-mode networks (KLM CZ)
     d x d real-or-complex matrices as lists of rows; the network matrix of a list of passive
     instructions on modes 0..d-1 (later instructions multiply from the left), and the permanent
     of the sub-matrix selected by output/input occupations: <out|U|in> * sqrt(prod in! out!). *)
  Definition cmat := list (list C).
  Definition cmat_id (d : nat) : cmat :=
    map (fun i => map (fun j => if i =? j then cone O else czero O) (seq 0 d)) (seq 0 d).
  Definition cmat_get (m : cmat) (i j : nat) : C := nth j (nth i m []) (czero O).
  Definition csum (l : list C) : C := fold_right (cadd O) (czero O) l.
  (* acc := G * acc for a gate G acting on one or two modes: only the rows of those modes change *)
  Fixpoint row_comb (a b : C) (r1 r2 : list C) : list C :=
    match r1, r2 with
    | x :: t1, y :: t2 => cadd O (cmul O a x) (cmul O b y) :: row_comb a b t1 t2
    | _, _ => []
    end.
  Definition apply_ps_rows (d m : nat) (e : C) (acc : cmat) : cmat :=
    map (fun i => if i =? m then map (cmul O e) (nth i acc []) else nth i acc []) (seq 0 d).
  Definition apply_bs_rows (d m1 m2 : nat) (b : M2) (acc : cmat) : cmat :=
    let '((b00, b01), (b10, b11)) := b in
    map (fun i =>
      if i =? m1 then row_comb b00 b01 (nth m1 acc []) (nth m2 acc [])
      else if i =? m2 then row_comb b10 b11 (nth m1 acc []) (nth m2 acc [])
      else nth i acc []) (seq 0 d).

  Fixpoint network (d : nat) (acc : cmat) (l : list pop) : option cmat :=
    match l with
    | [] => Some acc
    | PPS m phi :: r => network d (apply_ps_rows d m (ps_phase phi) acc) r
    | PBS m1 m2 th ph :: r =>
        if (m1 =? m2) then None else network d (apply_bs_rows d m1 m2 (bs_mat th ph) acc) r
    | PPostSel _ _ _ _ :: r => network d acc r      (* the post-selection is applied by [amp_num] *)
    | PMeasure _ _ :: _ => None
    end.

  Fixpoint remove_nth {X} (k : nat) (l : list X) : list X :=
    match k, l with
    | _, [] => []
    | 0, _ :: r => r
    | S k', a :: r => a :: remove_nth k' r
    end.
  (* permanent, by expansion along the first row; fuel = size *)
  Fixpoint perm (fuel : nat) (m : cmat) : C :=
    match fuel with
    | 0 => cone O
    | S f =>
        match m with
        | [] => cone O
        | row :: rest =>
            csum (map (fun j => cmul O (nth j row (czero O)) (perm f (map (remove_nth j) rest))) (seq 0 (length row)))
        end
    end.
  Fixpoint expand (occ : list nat) (i : nat) : list nat :=
    match occ with [] => [] | k :: r => repeat i k ++ expand r (S i) end.
  (* numerator of the transition amplitude: perm of U[rows by out, cols by in] *)
  Definition amp_num (u : cmat) (inp out : list nat) : C :=
    let rows := expand out 0 in
    let cols := expand inp 0 in
    perm (length rows) (map (fun r => map (fun c => cmat_get u r c) cols) rows).

  (* the CZ block on sentinel modes 0..3 (0,1: the |1> rails of the two qubits; 2,3: ancillas) *)
  Definition cz_network (k1 k2 : A * A) : option cmat :=
    opt_bind (instantiate [0; 1; 2; 3]%nat (ksyms k1 k2) emitted_cz) (network 4 (cmat_id 4)).
End Model.
