(* C19 — first-order error bound for a circuit with k entangling gates, with its constant.

   Abstract part (proved, for every pseudo-metric space of states, every list of steps): if every
   non-entangling step is the same map in the real and in the ideal run and is a contraction, and
   every entangling step's real map G differs from its ideal map Z by at most eps*N(u), with Z
   kappa-Lipschitz and N(G u) <= (kappa+eps) N(u), then after a run with k entangling steps the real
   and the ideal state differ by at most k*eps*(kappa+eps)^(k-1)*N(initial state).
   Numeric part (proved, Interval): with kappa = sqrt 6/9 and eps = sqrt 8/10000 (eight amplitudes of
   C19_klm_cz_rounded, each within 1e-4: Frobenius norm) this is at most k * 1.05e-3 * kappa^k for
   k <= 10, and an amplitude error eta gives a probability error at most 2 eta + eta^2.
   NOT proved here: that the Fock-space maps of the simulator satisfy the premises (passive gates
   and projections are l2-contractions: C07/C08; the operator-norm bound from the entrywise one). *)
From Coq Require Import Reals Lra Lia List Arith.
From Interval Require Import Tactic.
Import ListNotations.
Open Scope R_scope.

Section Telescoping.
  Variable V : Type.
  Variable dist : V -> V -> R.
  Variable N : V -> R.
  Hypothesis dist_tri : forall u v w, dist u w <= dist u v + dist v w.
  Hypothesis dist_nonneg : forall u v, 0 <= dist u v.
  Hypothesis dist_refl : forall u, dist u u = 0.
  Hypothesis N_nonneg : forall u, 0 <= N u.
  Variables kappa eps : R.
  Hypothesis kappa_nonneg : 0 <= kappa.
  Hypothesis eps_nonneg : 0 <= eps.

  Inductive step :=
  | Exact (F : V -> V)          (* the same map in both runs *)
  | Ent (G Z : V -> V).         (* real map G, ideal map Z *)

  Definition step_ok (s : step) : Prop :=
    match s with
    | Exact F => (forall u v, dist (F u) (F v) <= dist u v) /\ (forall u, N (F u) <= N u)
    | Ent G Z => (forall u, dist (G u) (Z u) <= eps * N u) /\
                 (forall u v, dist (Z u) (Z v) <= kappa * dist u v) /\
                 (forall u, N (G u) <= (kappa + eps) * N u)
    end.

  Fixpoint run_real (l : list step) (u : V) : V :=
    match l with [] => u | Exact F :: r => run_real r (F u) | Ent G _ :: r => run_real r (G u) end.
  Fixpoint run_ideal (l : list step) (u : V) : V :=
    match l with [] => u | Exact F :: r => run_ideal r (F u) | Ent _ Z :: r => run_ideal r (Z u) end.
  Fixpoint n_ent (l : list step) : nat :=
    match l with [] => O | Exact _ :: r => n_ent r | Ent _ _ :: r => S (n_ent r) end.

  Definition first_order (k : nat) : R := INR k * eps * (kappa + eps) ^ (pred k).

  Lemma first_order_nonneg k : 0 <= first_order k.
  Proof.
    unfold first_order. apply Rmult_le_pos; [apply Rmult_le_pos; [apply pos_INR | assumption] | ].
    apply pow_le; lra.
  Qed.

  Lemma telescoping_gen : forall l, Forall step_ok l -> forall u v,
    dist (run_real l u) (run_ideal l v) <= kappa ^ n_ent l * dist u v + first_order (n_ent l) * N u.
  Proof.
    induction l as [ | s r IH]; intros Hok u v.
    - simpl. unfold first_order. simpl. lra.
    - inversion Hok as [ | s' r' Hs Hr]; subst. destruct s as [F | G Z]; simpl in *.
      + destruct Hs as [HL HN]. specialize (IH Hr (F u) (F v)).
        pose proof (pow_le kappa (n_ent r) kappa_nonneg) as Hp.
        pose proof (first_order_nonneg (n_ent r)) as Hf.
        pose proof (HL u v). pose proof (HN u). pose proof (N_nonneg (F u)). pose proof (dist_nonneg (F u) (F v)).
        apply Rle_trans with (1 := IH).
        apply Rplus_le_compat; apply Rmult_le_compat_l; assumption.
      + destruct Hs as [HE [HZ HN]]. specialize (IH Hr (G u) (Z v)).
        set (k := n_ent r) in *.
        pose proof (pow_le kappa k kappa_nonneg) as Hp.
        pose proof (first_order_nonneg k) as Hf.
        assert (Hd : dist (G u) (Z v) <= eps * N u + kappa * dist u v).
        { apply Rle_trans with (1 := dist_tri (G u) (Z u) (Z v)).
          apply Rplus_le_compat; [apply HE | apply HZ]. }
        assert (Hpow : kappa ^ k <= (kappa + eps) ^ k) by (apply pow_incr; lra).
        assert (Hke : 0 <= (kappa + eps) ^ k) by (apply pow_le; lra).
        assert (Hfo : first_order k * (kappa + eps) = INR k * eps * (kappa + eps) ^ k).
        { unfold first_order. destruct k as [ | j]; simpl; ring. }
        pose proof (N_nonneg u) as HNu. pose proof (dist_nonneg u v) as Hduv.
        apply Rle_trans with (1 := IH).
        apply Rle_trans with (kappa ^ k * (eps * N u + kappa * dist u v) + first_order k * ((kappa + eps) * N u)).
        { apply Rplus_le_compat; apply Rmult_le_compat_l; auto. }
        unfold first_order at 2. rewrite S_INR. simpl pred.
        replace (first_order k * ((kappa + eps) * N u)) with (first_order k * (kappa + eps) * N u) by ring.
        rewrite Hfo.
        assert (kappa ^ k * (eps * N u) <= (kappa + eps) ^ k * (eps * N u)).
        { apply Rmult_le_compat_r; [apply Rmult_le_pos; assumption | assumption]. }
        simpl pow. lra.
  Qed.

  (* the bound, both runs started in the same state *)
  Theorem circuit_error_bound : forall l u, Forall step_ok l ->
    dist (run_real l u) (run_ideal l u) <= first_order (n_ent l) * N u.
  Proof.
    intros l u H. pose proof (telescoping_gen l H u u) as T. rewrite dist_refl in T. lra.
  Qed.
End Telescoping.

(* the constants: kappa = sqrt 6 / 9 (C19_klm_cz_exact), eps = sqrt 8 / 10000 (Frobenius norm of the
   eight amplitude errors of C19_klm_cz_rounded, each at most 1e-4) *)
Definition klm_kappa : R := sqrt 6 / 9.
Definition klm_eps : R := sqrt 8 / 10000.

Theorem klm_first_order_constant : forall k, (1 <= k <= 10)%nat ->
  INR k * klm_eps * (klm_kappa + klm_eps) ^ (pred k) <= INR k * (105 / 100000) * klm_kappa ^ k.
Proof.
  intros k Hk. unfold klm_kappa, klm_eps.
  assert (C : (k = 1 \/ k = 2 \/ k = 3 \/ k = 4 \/ k = 5 \/ k = 6 \/ k = 7 \/ k = 8 \/ k = 9 \/ k = 10)%nat) by lia.
  repeat (destruct C as [C | C]; [subst k; simpl INR; simpl pred; interval with (i_prec 80) | ]).
  subst k; simpl INR; simpl pred; interval with (i_prec 80).
Qed.

(* from amplitudes to probabilities: two outcome amplitudes (norms of projected components) within
   eta*w of each other, the ideal one at most w: the probabilities differ by at most (2 eta + eta^2) w^2 *)
Theorem probability_from_amplitude : forall a b w eta : R,
  0 <= a -> 0 <= b -> b <= w -> 0 <= eta -> Rabs (a - b) <= eta * w ->
  Rabs (a * a - b * b) <= (2 * eta + eta * eta) * (w * w).
Proof.
  intros a b w eta Ha Hb Hbw He H.
  assert (H1 : a - b <= eta * w) by (pose proof (Rle_abs (a - b)); lra).
  assert (H2 : - (eta * w) <= a - b) by (pose proof (Rle_abs (- (a - b))) as Q; rewrite Rabs_Ropp in Q; lra).
  assert (Hw : 0 <= w) by lra.
  assert (Hab : a + b <= (2 + eta) * w) by nra.
  apply Rabs_le. replace (a * a - b * b) with ((a - b) * (a + b)) by ring.
  assert (0 <= a + b) by lra. assert (0 <= eta * w) by (apply Rmult_le_pos; lra).
  replace ((2 * eta + eta * eta) * (w * w)) with ((eta * w) * ((2 + eta) * w)) by ring.
  split; nra.
Qed.
