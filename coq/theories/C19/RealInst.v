(* C19 — the model at the real numbers: exact KLM angles (nsatz) and the rounded angles of the
   code (Interval). *)
From Coq Require Import ZArith QArith List Bool Arith Reals Lra Nsatz Qreals.
From Interval Require Import Tactic.
From PV Require Import C19.DRBase C19.EncodeGen C19.DRModel C19.KLMProofs.
Import ListNotations.
Open Scope R_scope.

Definition Rops : ops R := mkops R 0 1 Rplus Rmult Ropp (/ sqrt 2).

Lemma Rops_ring : ring_theory (o0 Rops) (o1 Rops) (oadd Rops) (omul Rops)
                    (fun x y => oadd Rops x (oopp Rops y)) (oopp Rops) (@eq R).
Proof. constructor; intros; simpl; ring. Qed.

Lemma Rops_hh : 2 * (ohh Rops * ohh Rops) = 1.
Proof.
  simpl. assert (H : sqrt 2 * sqrt 2 = 2) by (apply sqrt_sqrt; lra).
  rewrite <- Rinv_mult, H. field.
Qed.

(* the ideal action of the post-selected block on the |1>-rail occupations (x,y) of the two
   qubits: sqrt(2/27) * diag(1,1,1,-1), nothing anywhere else *)
Definition klm_target (x y a b : nat) : R :=
  if (Nat.eqb x a && Nat.eqb y b)%bool then (if (Nat.eqb x 1 && Nat.eqb y 1)%bool then -1 else 1) else 0.

(* Theorem 3: with cos^2 theta1 = 1/3, cos^2 theta2 = (3+sqrt 6)/6 (both angles in the first
   quadrant) every transition amplitude of the emitted network with ancillas (1,1) -> (1,1) is
   sqrt 6/9 = sqrt(2/27) times diag(1,1,1,-1); the leakage permanents vanish. *)
Theorem klm_cz_exact : forall c1 s1 c2 s2 r2 r3 r6 : R,
  r2 * r2 = 2 -> r3 * r3 = 3 -> r6 = r2 * r3 ->
  3 * (c1 * c1) = 1 -> 3 * (s1 * s1) = 2 -> 3 * (c1 * s1) = r2 ->
  6 * (c2 * c2) = 3 + r6 -> 6 * (s2 * s2) = 3 - r6 -> 6 * (c2 * s2) = r3 ->
  forall x y a b, In (x, y, a, b) klm_cases ->
  exists p, klm_amp Rops c1 s1 c2 s2 x y a b = Some (p, 0) /\ 9 * p = r6 * klm_target x y a b.
Proof.
  intros c1 s1 c2 s2 r2 r3 r6 H2 H3 H6 Hc1 Hs1 Hcs1 Hc2 Hs2 Hcs2 x y a b Hin.
  rewrite (klm_network_poly Rops Rops_ring c1 s1 c2 s2 x y a b Hin).
  eexists; split; [reflexivity | ].
  simpl in Hin.
  repeat (destruct Hin as [Hin | Hin]; [inversion Hin; subst; clear Hin | ]); try contradiction;
    unfold klm_poly, klm_target, klm_poly_00_00, klm_poly_01_01, klm_poly_01_10, klm_poly_10_01, klm_poly_10_10,
      klm_poly_11_02, klm_poly_11_11, klm_poly_11_20; simpl; nsatz.
Qed.

(* Theorem 4: the angles actually used by the code (the decimal literals 54.74 and 17.63 degrees,
   read from the source into EncodeGen.v): every amplitude of the emitted network, leakage
   included, is within 1e-4 of the ideal value sqrt 6/9 * diag(1,1,1,-1).  Interval arithmetic. *)
Definition klm_th1 : R := Q2R klm_theta1_turns * PI.
Definition klm_th2 : R := Q2R klm_theta2_turns * PI.

Theorem klm_cz_rounded : forall x y a b, In (x, y, a, b) klm_cases ->
  exists p, klm_amp Rops (cos klm_th1) (sin klm_th1) (cos klm_th2) (sin klm_th2) x y a b = Some (p, 0)
            /\ Rabs (p - sqrt 6 / 9 * klm_target x y a b) <= 1 / 10000.
Proof.
  intros x y a b Hin.
  rewrite (klm_network_poly Rops Rops_ring _ _ _ _ x y a b Hin).
  eexists; split; [reflexivity | ].
  simpl in Hin.
  repeat (destruct Hin as [Hin | Hin]; [inversion Hin; subst; clear Hin | ]); try contradiction;
    unfold klm_poly, klm_target, klm_poly_00_00, klm_poly_01_01, klm_poly_01_10, klm_poly_10_01, klm_poly_10_10,
      klm_poly_11_02, klm_poly_11_11, klm_poly_11_20, klm_th1, klm_th2, klm_theta1_turns, klm_theta2_turns, Q2R;
    cbn [oadd omul oopp o0 o1 Rops Qnum Qden Nat.eqb andb];
    interval with (i_prec 80).
Qed.

(* the two rounded angles themselves *)
Theorem klm_angle_error :
  Rabs (cos klm_th1 * cos klm_th1 - 1 / 3) <= 1 / 10000 /\
  Rabs (cos klm_th2 * cos klm_th2 - (3 + sqrt 6) / 6) <= 1 / 10000.
Proof.
  unfold klm_th1, klm_th2, klm_theta1_turns, klm_theta2_turns, Q2R; cbn [Qnum Qden].
  split; interval with (i_prec 80).
Qed.

(* non-vacuity of klm_cz_exact: real numbers with these relations exist (first-quadrant angles) *)
Lemma klm_exact_angles_exist : exists c1 s1 c2 s2 r2 r3 r6 : R,
  r2 * r2 = 2 /\ r3 * r3 = 3 /\ r6 = r2 * r3 /\
  3 * (c1 * c1) = 1 /\ 3 * (s1 * s1) = 2 /\ 3 * (c1 * s1) = r2 /\
  6 * (c2 * c2) = 3 + r6 /\ 6 * (s2 * s2) = 3 - r6 /\ 6 * (c2 * s2) = r3 /\
  0 < c1 /\ 0 < s1 /\ 0 < c2 /\ 0 < s2.
Proof.
  set (r2 := sqrt 2). set (r3 := sqrt 3). set (r6 := r2 * r3).
  assert (H2 : r2 * r2 = 2) by (apply sqrt_sqrt; lra).
  assert (H3 : r3 * r3 = 3) by (apply sqrt_sqrt; lra).
  assert (P2 : 0 < r2) by (apply sqrt_lt_R0; lra).
  assert (P3 : 0 < r3) by (apply sqrt_lt_R0; lra).
  assert (P6 : 0 < r6) by (apply Rmult_lt_0_compat; assumption).
  assert (H6 : r6 * r6 = 6) by (unfold r6; nra).
  set (c2 := sqrt ((3 + r6) / 6)).
  assert (Hc2 : c2 * c2 = (3 + r6) / 6) by (apply sqrt_sqrt; lra).
  assert (Pc2 : 0 < c2) by (apply sqrt_lt_R0; lra).
  exists (r3 / 3), (r6 / 3), c2, (r3 / (6 * c2)), r2, r3, r6.
  assert (Hs2 : 6 * (c2 * (r3 / (6 * c2))) = r3) by (field; lra).
  repeat split; try assumption; try reflexivity; try nra.
  transitivity (r2 * (r3 * r3) / 3); [unfold r6; field | rewrite H3; field].
Qed.
