(* C03 - comparison of the density-matrix model, run with Gaussian-rational entries, with the
   branches FockSimulator returns for shots=None.  Definitions only. *)
From Coq Require Import ZArith QArith Qabs List Bool Arith.
From PV Require Import Base.CasesLib C03.ExecModel C03.ProjectModel C03.ProjectReplay C03.DensityModel.
Import ListNotations.

Definition qdstate := dstate Qi.
Definition qtr (a : Qi) : Q := fst a.

Definition run_dens (d : nat) (rho : qdstate) (Ls : list (list nat)) : list (dbranch Qi) :=
  dmeasure_seq Qi qtr Ls (dinitial Qi d rho).

Fixpoint dlookup (k b : vec) (rho : qdstate) : option Qi :=
  match rho with
  | [] => None
  | ((k', b'), a) :: r => if vec_eqb k' k && vec_eqb b' b then Some a else dlookup k b r
  end.

(* the implementation's entry x must be c * a (no square roots: the matrix is scaled by 1/p) *)
Definition dentry_ok (c : Q) (rho : qdstate) (e : (vec * vec) * Qi) : bool :=
  let '((k, b), x) := e in
  match dlookup k b rho with
  | None => false
  | Some a => close (c * fst a) (fst x) && close (c * snd a) (snd x)
  end.

Definition odbranch := (vec * Q * option nat * list ((vec * vec) * Qi))%type.

Definition dbranch_ok (bs : list (dbranch Qi)) (o : odbranch) : bool :=
  let '(s, f, d, entries) := o in
  match find (fun b => vec_eqb (db_out Qi b) s) bs with
  | None => false
  | Some b =>
      close (db_freq Qi b) f &&
      match d with
      | None => Nat.eqb (length (db_reg Qi b)) 0
      | Some n => Nat.eqb (length (db_reg Qi b)) n &&
                  Nat.eqb (length entries) (length (db_rho Qi b)) &&
                  forallb (dentry_ok (db_scale Qi b) (db_rho Qi b)) entries
      end
  end.

Definition dens_case_ok (d : nat) (rho : qdstate) (Ls : list (list nat)) (obs : list odbranch) : bool :=
  let bs := run_dens d rho Ls in
  Nat.eqb (length bs) (length obs) && forallb (dbranch_ok bs) obs &&
  close (sumQ (map (db_freq Qi) bs)) (sumQ (map (fun o => snd (fst (fst o))) obs)) &&
  (* the weights sum to the trace of the prepared matrix (dmeasure_branch_weights_sum) *)
  match Ls with
  | [_] => close (dtrace Qi qtr rho) (sumQ (map (fun o => snd (fst (fst o))) obs))
  | _ => true
  end.

(* two-step = joint inside the model (the simulator itself has no mid-circuit measurement) *)
Definition dens_seq_joint_ok (d : nat) (rho : qdstate) (L1 L2 : list nat) : bool :=
  let a := run_dens d rho [L1; L2] in
  let b := run_dens d rho [L1 ++ L2] in
  Nat.eqb (length a) (length b) &&
  forallb (fun x => existsb (fun y => vec_eqb (db_out Qi x) (db_out Qi y) &&
                                      Qeq_bool (db_freq Qi x) (db_freq Qi y) &&
                                      Qeq_bool (db_scale Qi x) (db_scale Qi y) &&
                                      list_eqb Nat.eqb (db_reg Qi x) (db_reg Qi y) &&
                                      list_eqb (fun p q => vec_eqb (fst (fst p)) (fst (fst q)) && vec_eqb (snd (fst p)) (snd (fst q))
                                                           && Qeq_bool (fst (snd p)) (fst (snd q)) && Qeq_bool (snd (snd p)) (snd (snd q)))
                                               (db_rho Qi x) (db_rho Qi y)) b) a.
