(* C07 — the property as stated: a gate acts on the xxpp covariance matrix computed by
   state.py (model: GatesModel.xxpp_cov over R) as the congruence by a real 2d x 2d matrix Sr,
   for every hbar.  Instance of QuadProofs at the complex numbers over R. *)
From Coq Require Import List Arith Reals Ring Lia Psatz.
From PV Require Import C07.CxBase C07.RealOps C07.GatesGen C07.MomentsModel C07.GatesModel
  C07.SumLemmas C07.MomentsProofs C07.MatF C07.StepK C07.SeqProofs C07.QuadProofs C07.CxReal.
Import ListNotations.
Open Scope R_scope.

Add Ring RCring2 : RC_ring.

Definition iiR : Cx R := (0, 1).
Definition halfR : Cx R := (/ 2, 0).

Lemma iiR_sq : zmul RC iiR iiR = zopp RC (z1 RC).
Proof. unfold RC, CxOps, iiR, zmul, zopp, z1, cmul, copp, c1; cbn. apply f_equal2; ring. Qed.
Lemma iiR_conj : zconj RC iiR = zopp RC iiR.
Proof. unfold RC, CxOps, iiR, zconj, zopp, cconj, copp; cbn. apply f_equal2; ring. Qed.
Lemma halfR_two : zmul RC (zadd RC (z1 RC) (z1 RC)) halfR = z1 RC.
Proof. unfold RC, CxOps, halfR, zmul, zadd, z1, cmul, cadd, c1; cbn. apply f_equal2; field. Qed.

Ltac cx := unfold creal, iiR; cbn; unfold cmul, cadd, csub, copp, cconj, c0, c1; cbn.

(* entry (i, j) of GaussianState.xxpp_covariance_matrix as modelled *)
Definition covR (d : nat) (hbar : R) (C G : list (list (Cx R))) (i j : nat) : R :=
  List.nth j (List.nth i (xxpp_cov ROps d hbar C G) []) 0.

Lemma xxpp_cov_entry : forall d hbar C G i j, (i < d + d)%nat -> (j < d + d)%nat ->
  creal ROps (covR d hbar C G i j)
  = sclf RC (creal ROps hbar) (sig0 RC iiR d (getf RC C) (getf RC G)) i j.
Proof.
  intros d hbar C G i j Hi Hj. unfold covR, xxpp_cov.
  rewrite (nth_map_seq _ _ (2 * d)) by lia. rewrite (nth_map_seq _ _ (2 * d)) by lia.
  unfold sclf, sig0, addf, blk, re2f, im2f, sclf, oppf, cjf, addf, idf, zerof, getf, cops, RC.
  destruct (Nat.ltb_spec i d); destruct (Nat.ltb_spec j d).
  - destruct (MomentsModel.get (CxOps ROps) G i j) as [gr gi].
    destruct (MomentsModel.get (CxOps ROps) C i j) as [cr ci].
    destruct (Nat.eqb i j); cx; apply f_equal2; ring.
  - replace (Nat.eqb i j) with false by (symmetry; apply Nat.eqb_neq; lia).
    destruct (MomentsModel.get (CxOps ROps) G i (j - d)) as [gr gi].
    destruct (MomentsModel.get (CxOps ROps) C i (j - d)) as [cr ci].
    cx; apply f_equal2; ring.
  - replace (Nat.eqb i j) with false by (symmetry; apply Nat.eqb_neq; lia).
    destruct (MomentsModel.get (CxOps ROps) G (i - d) j) as [gr gi].
    destruct (MomentsModel.get (CxOps ROps) C (i - d) j) as [cr ci].
    cx; apply f_equal2; ring.
  - replace (Nat.eqb (i - d) (j - d)) with (Nat.eqb i j)
      by (destruct (Nat.eqb_spec i j); destruct (Nat.eqb_spec (i - d) (j - d)); try reflexivity; lia).
    destruct (MomentsModel.get (CxOps ROps) G (i - d) (j - d)) as [gr gi].
    destruct (MomentsModel.get (CxOps ROps) C (i - d) (j - d)) as [cr ci].
    destruct (Nat.eqb i j); cx; apply f_equal2; ring.
Qed.

(* the real symplectic matrix of a gate on `modes` in the xxpp basis (entries have zero imaginary part) *)
Definition SrR (d : nat) (modes : list nat) (P Am : list (list (Cx R))) : nat -> nat -> Cx R :=
  Sr RC iiR halfR d (embedP RC modes P) (embedA RC modes Am).

Lemma SrR_real : forall d modes P Am i j, (i < d + d)%nat -> (j < d + d)%nat ->
  snd (SrR d modes P Am i j) = 0.
Proof.
  intros d modes P Am i j Hi Hj.
  pose proof (SrD_real RC RC_ring RC_conj_0 RC_conj_add RC_conj_mul RC_conj_conj
                iiR iiR_conj d (embedP RC modes P) (embedA RC modes Am) i j Hi Hj) as H.
  unfold SrR, Sr, sclf. unfold cjf in H.
  destruct (SrD RC iiR d (embedP RC modes P) (embedA RC modes Am) i j) as [a b].
  unfold RC, CxOps, zconj, cconj in H. cbn in H. inversion H as [Hb].
  unfold RC, CxOps, zmul, cmul, halfR. cbn. lra.
Qed.

Definition gate_blocks (o : lop (A := Cx R)) : option (list nat * list (list (Cx R)) * list (list (Cx R))) :=
  match o with
  | LPassive T modes => Some (modes, T, [])
  | LLinear P Am modes => Some (modes, P, Am)
  | LDisp _ _ => None
  end.

(* sigma' = Sr sigma Sr^T for every unitary / symplectic gate on any duplicate-free mode tuple,
   every d, every hbar *)
Theorem step_cov_real : forall d o s hbar modes P Am,
  valid RC d o -> gate_blocks o = Some (modes, P, Am) ->
  herm RC d (st_C s) -> symm RC d (st_G s) ->
  let s' := lstep RC d o s in
  forall i j, (i < d + d)%nat -> (j < d + d)%nat ->
  creal ROps (covR d hbar (st_C s') (st_G s') i j)
  = mmf RC (d + d)
      (mmf RC (d + d) (SrR d modes P Am) (fun a b => creal ROps (covR d hbar (st_C s) (st_G s) a b)))
      (trf (SrR d modes P Am)) i j.
Proof.
  intros d o s hbar modes P Am Hv Hb HC HG s' i j Hi Hj.
  destruct (lstep_claim RC RC_ring RC_conj_0 RC_conj_1 RC_conj_add RC_conj_mul RC_conj_conj d o s Hv HC HG)
    as (HK & _ & HC' & HG').
  assert (ES : Sop RC d o = Sof RC d (embedP RC modes P) (embedA RC modes Am)).
  { destruct o; simpl in Hb; inversion Hb; subst; reflexivity. }
  rewrite ES in HK. unfold Kof in HK. fold s' in HK, HC', HG'.
  pose proof (quad_cov RC RC_ring RC_conj_0 RC_conj_1 RC_conj_add RC_conj_mul RC_conj_conj
                iiR halfR iiR_sq iiR_conj halfR_two d (creal ROps hbar)
                (embedP RC modes P) (embedA RC modes Am)
                (getf RC (st_C s)) (getf RC (st_G s)) (getf RC (st_C s')) (getf RC (st_G s'))) as Q.
  assert (Q' := Q (fun a b Ha Hb' => HC a b Ha Hb') (fun a b Ha Hb' => HG a b Ha Hb')
                  (fun a b Ha Hb' => HC' a b Ha Hb') (fun a b Ha Hb' => HG' a b Ha Hb') HK i j Hi Hj).
  rewrite xxpp_cov_entry by assumption. rewrite Q'. unfold SrR.
  apply (mmf_proper RC (d + d)); try assumption.
  - apply (mmf_proper RC (d + d)); [reflexivity|].
    intros a b Ha Hb'. symmetry. apply xxpp_cov_entry; assumption.
  - reflexivity.
Qed.

(* ---- the mean vector *)
Definition meanR (s2h : R) (m : list (Cx R)) (i : nat) : R := List.nth i (xxpp_mean ROps s2h m) 0.

Lemma nth_map_dflt : forall (X Y : Type) (f : X -> Y) (l : list X) i dx dy,
  (i < length l)%nat -> List.nth i (map f l) dy = f (List.nth i l dx).
Proof.
  intros. rewrite (nth_indep _ dy (f dx)) by (rewrite map_length; assumption). apply map_nth.
Qed.

(* xxpp_mean_vector = (sqrt(2 hbar) / 2) * V^dagger (m, conj m) *)
Lemma xxpp_mean_entry : forall d s2h (m : list (Cx R)) i, length m = d -> (i < d + d)%nat ->
  creal ROps (meanR s2h m i)
  = sclv RC (zmul RC (creal ROps s2h) halfR) (mvf RC (d + d) (Vd RC iiR d) (muc RC d m)) i.
Proof.
  intros d s2h m i Hl Hi. unfold sclv, muc.
  rewrite (Vd_blkv RC RC_ring iiR d _ _ i Hi).
  unfold meanR, xxpp_mean, blkv, addv, getv. unfold Cx in *.
  destruct (Nat.ltb_spec i d).
  - rewrite app_nth1 by (rewrite map_length, Hl; assumption).
    rewrite (nth_map_dflt _ _ _ m i (c0 ROps) 0) by (rewrite Hl; assumption).
    change (z0 RC) with (c0 ROps).
    destruct (List.nth i m (c0 ROps)) as [a b].
    unfold RC, CxOps, halfR; cx. apply f_equal2; field.
  - rewrite app_nth2 by (rewrite map_length, Hl; assumption). rewrite map_length, Hl.
    rewrite (nth_map_dflt _ _ _ m (i - d) (c0 ROps) 0) by (rewrite Hl; lia).
    change (z0 RC) with (c0 ROps).
    destruct (List.nth (i - d) m (c0 ROps)) as [a b].
    unfold RC, CxOps, halfR; cx. apply f_equal2; field.
Qed.

Lemma length_lstep_m : forall d o s modes P Am, gate_blocks o = Some (modes, P, Am) ->
  length (st_m (lstep RC d o s)) = d.
Proof.
  intros d o s modes P Am Hb. destruct o; simpl in Hb; try discriminate; simpl lstep.
  - destruct (st_passive RC d T modes0 s) as (_ & _ & ->). unfold assign_vec, mkv.
    rewrite map_length, seq_length. reflexivity.
  - destruct (st_linear RC d P0 Am0 modes0 s) as (_ & _ & ->). unfold assign_vec, mkv.
    rewrite map_length, seq_length. reflexivity.
Qed.

(* mean' = Sr mean, with the same real matrix Sr as for the covariance *)
Theorem step_mean_real : forall d o s s2h modes P Am,
  valid RC d o -> gate_blocks o = Some (modes, P, Am) ->
  herm RC d (st_C s) -> symm RC d (st_G s) -> length (st_m s) = d ->
  let s' := lstep RC d o s in
  forall i, (i < d + d)%nat ->
  creal ROps (meanR s2h (st_m s') i)
  = mvf RC (d + d) (SrR d modes P Am) (fun a => creal ROps (meanR s2h (st_m s) a)) i.
Proof.
  intros d o s s2h modes P Am Hv Hb HC HG Hl s' i Hi.
  destruct (lstep_claim RC RC_ring RC_conj_0 RC_conj_1 RC_conj_add RC_conj_mul RC_conj_conj d o s Hv HC HG)
    as (_ & HM & _ & _).
  assert (ES : Sop RC d o = Sof RC d (embedP RC modes P) (embedA RC modes Am)).
  { destruct o; simpl in Hb; inversion Hb; subst; reflexivity. }
  assert (ED : dop RC d o = zerov RC).
  { destruct o; simpl in Hb; try discriminate; reflexivity. }
  rewrite ES, ED in HM. fold s' in HM.
  pose proof (quad_mean RC RC_ring RC_conj_0 RC_conj_add iiR halfR iiR_sq halfR_two d
                (embedP RC modes P) (embedA RC modes Am) _ _ _ HM) as Q.
  rewrite (xxpp_mean_entry d s2h (st_m s') i (length_lstep_m d o s modes P Am Hb) Hi).
  unfold sclv. rewrite (Q i Hi). unfold addv.
  assert (Z0 : mvf RC (d + d) (Vd RC iiR d) (zerov RC) i = z0 RC).
  { unfold mvf, zerov. rewrite (sumn_ext RC (d + d) _ (fun _ => z0 RC)) by (intros; ring).
    apply (sumn_zero RC RC_ring). }
  rewrite Z0.
  set (c := zmul RC (creal ROps s2h) halfR).
  transitivity (sclv RC c (mvf RC (d + d) (SrR d modes P Am)
                             (mvf RC (d + d) (Vd RC iiR d) (muc RC d (st_m s)))) i).
  - unfold sclv, SrR. ring.
  - rewrite <- (mvf_sclv RC RC_ring (d + d) c _ _ i Hi).
    apply (mvf_proper RC (d + d)); try assumption; [reflexivity|].
    intros a Ha. symmetry. apply (xxpp_mean_entry d s2h (st_m s) a Hl Ha).
Qed.
