(* Proofs about the fermionic basis order and the rank (index) formula of
   piquasso/fermionic/_utils.py, for every number of modes. *)
From Coq Require Import ZArith List Bool Lia ZifyBool.
From Coq Require FinFun.
From PV Require Import Comb.FockModel Comb.Binom Comb.FockProofs Comb.FermiModel.
Import ListNotations.
Open Scope Z_scope.

(* ---------- the sum in the rank formula as a structural recursion ---------- *)
Fixpoint Tsum (q : list Z) (d n i : Z) : Z :=
  match q with
  | [] => 0
  | x :: r => comb (d - x - 1) (n - i) + Tsum r d n (i + 1)
  end.

Lemma rank_fold q d n : forall s i,
  fold_left (fun '(s, i) q => (s - comb (d - q - 1) (n - i), i + 1)) q (s, i)
  = (s - Tsum q d n i, i + Z.of_nat (length q)).
Proof.
  induction q as [|x r IH]; intros s i; cbn [fold_left Tsum length].
  - f_equal; lia.
  - rewrite IH. f_equal; lia.
Qed.

Lemma f_subspace_index_fq_eq q d :
  f_subspace_index_fq q d =
  if Z.of_nat (length q) =? 0 then 0
  else comb d (Z.of_nat (length q)) - 1 - Tsum q d (Z.of_nat (length q)) 0.
Proof.
  unfold f_subspace_index_fq. destruct (_ =? 0); [reflexivity|].
  now rewrite rank_fold.
Qed.

(* positions of ones, shifted *)
Lemma to_fq_from_shift occ : forall i,
  to_fq_from (i + 1) occ = map (fun x => x + 1) (to_fq_from i occ).
Proof.
  induction occ as [|x r IH]; intros i; cbn [to_fq_from map]; [reflexivity|].
  destruct (x =? 1); cbn [map]; now rewrite IH.
Qed.

Lemma Tsum_shift q d n : forall i,
  Tsum (map (fun x => x + 1) q) d n i = Tsum q (d - 1) n i.
Proof.
  induction q as [|x r IH]; intros i; cbn [map Tsum]; [reflexivity|].
  rewrite IH. f_equal. f_equal. lia.
Qed.

Lemma Tsum_index_shift q d n : forall i,
  Tsum q d n (i + 1) = Tsum q d (n - 1) i.
Proof.
  induction q as [|x r IH]; intros i; cbn [Tsum]; [reflexivity|].
  rewrite IH. f_equal. f_equal. lia.
Qed.

Definition ones (occ : list Z) : nat := length (to_fq occ).

Lemma ones_cons1 t : ones (1 :: t) = S (ones t).
Proof.
  unfold ones, to_fq. cbn [to_fq_from]. change (1 =? 1) with true. cbn [length].
  rewrite (to_fq_from_shift t 0). now rewrite map_length.
Qed.

Lemma ones_cons0 t : ones (0 :: t) = ones t.
Proof.
  unfold ones, to_fq. cbn [to_fq_from]. change (0 =? 1) with false.
  rewrite (to_fq_from_shift t 0). now rewrite map_length.
Qed.

(* Pascal for comb on positive arguments *)
Lemma comb_pascal_nat dd nn :
  comb (Z.of_nat (S dd)) (Z.of_nat (S nn)) =
  comb (Z.of_nat dd) (Z.of_nat nn) + comb (Z.of_nat dd) (Z.of_nat (S nn)).
Proof. rewrite !comb_nat. apply binom_S_S. Qed.

Lemma comb_pascal d n : 1 <= d -> 1 <= n ->
  comb d n = comb (d - 1) (n - 1) + comb (d - 1) n.
Proof.
  intros Hd Hn.
  pose proof (comb_pascal_nat (Z.to_nat (d - 1)) (Z.to_nat (n - 1))) as H.
  replace (Z.of_nat (S (Z.to_nat (d - 1)))) with d in H by lia.
  replace (Z.of_nat (S (Z.to_nat (n - 1)))) with n in H by lia.
  replace (Z.of_nat (Z.to_nat (d - 1))) with (d - 1) in H by lia.
  replace (Z.of_nat (Z.to_nat (n - 1))) with (n - 1) in H by lia.
  exact H.
Qed.

Lemma comb_n_0' d : 0 <= d -> comb d 0 = 1.
Proof.
  intros. replace d with (Z.of_nat (Z.to_nat d)) by lia.
  change 0 with (Z.of_nat 0). rewrite comb_nat. apply binom_n_0.
Qed.

Lemma binom_m_1 m : binom m 1 = Z.of_nat m.
Proof.
  induction m as [|m IHm]; [reflexivity|]. rewrite binom_S_S, binom_n_0, IHm. lia.
Qed.

Lemma comb_d_1 d : 0 <= d -> comb d 1 = d.
Proof.
  intros H. pose proof (comb_nat (Z.to_nat d) 1) as E.
  rewrite binom_m_1 in E. rewrite Z2Nat.id in E by lia. exact E.
Qed.

(* the two recursive equations of the rank *)
Lemma sub_index_cons1 t :
  f_subspace_index (1 :: t) = f_subspace_index t.
Proof.
  unfold f_subspace_index. rewrite !f_subspace_index_fq_eq.
  fold (ones (1 :: t)). fold (ones t). rewrite ones_cons1.
  destruct (Z.of_nat (S (ones t)) =? 0) eqn:E; [lia|]. clear E.
  unfold to_fq at 1. cbn [to_fq_from]. change (1 =? 1) with true.
  rewrite (to_fq_from_shift t 0). fold (to_fq t). cbn [Tsum length].
  rewrite Tsum_shift, Tsum_index_shift.
  set (d := Z.of_nat (length t)). set (n := Z.of_nat (ones t)).
  replace (Z.of_nat (S (length t))) with (d + 1) by lia.
  replace (Z.of_nat (S (ones t))) with (n + 1) by lia.
  replace (d + 1 - 0 - 1) with d by lia. replace (n + 1 - 0) with (n + 1) by lia.
  replace (d + 1 - 1) with d by lia. replace (n + 1 - 1) with n by lia.
  destruct (n =? 0) eqn:En.
  - assert (Hq : to_fq t = []) by (destruct (to_fq t) eqn:Eq; [reflexivity | unfold n, ones in En; rewrite Eq in En; simpl in En; lia]).
    rewrite Hq. cbn [Tsum]. replace n with 0 by lia. cbn [Z.add].
    rewrite !comb_d_1 by lia. lia.
  - rewrite (comb_pascal (d + 1) (n + 1)) by lia.
    replace (d + 1 - 1) with d by lia. replace (n + 1 - 1) with n by lia. lia.
Qed.

Lemma sub_index_cons0 t : (1 <= ones t)%nat ->
  f_subspace_index (0 :: t) =
  comb (Z.of_nat (length t)) (Z.of_nat (ones t) - 1) + f_subspace_index t.
Proof.
  intros Hn. unfold f_subspace_index. rewrite !f_subspace_index_fq_eq.
  fold (ones (0 :: t)). fold (ones t). rewrite ones_cons0.
  destruct (Z.of_nat (ones t) =? 0) eqn:E; [lia|]. clear E.
  unfold to_fq at 1. cbn [to_fq_from]. change (0 =? 1) with false.
  rewrite (to_fq_from_shift t 0). fold (to_fq t). cbn [length].
  rewrite Tsum_shift.
  set (d := Z.of_nat (length t)). set (n := Z.of_nat (ones t)).
  replace (Z.of_nat (S (length t))) with (d + 1) by lia.
  replace (d + 1 - 1) with d by lia.
  rewrite (comb_pascal (d + 1) n) by lia.
  replace (d + 1 - 1) with d by lia. lia.
Qed.

Lemma sub_index_cons0_zero t : ones t = 0%nat -> f_subspace_index (0 :: t) = 0.
Proof.
  intros Hn. unfold f_subspace_index. rewrite f_subspace_index_fq_eq.
  fold (ones (0 :: t)). rewrite ones_cons0, Hn. reflexivity.
Qed.

(* ---------- the recursive specification of the order ---------- *)
Definition fvalid (d n : nat) (v : list Z) : Prop :=
  length v = d /\ Forall (fun x => x = 0 \/ x = 1) v /\ ones v = n.

Lemma f_sector_valid d : forall n v, In v (f_sector d n) -> fvalid d n v.
Proof.
  induction d as [|d IH]; intros n v Hin.
  - destruct n; simpl in Hin; [|contradiction]. destruct Hin as [<-|[]].
    repeat split. constructor.
  - cbn [f_sector] in Hin. apply in_app_or in Hin. destruct Hin as [Hin|Hin].
    + destruct n as [|n]; [contradiction|].
      apply in_map_iff in Hin. destruct Hin as [t [<- Ht]].
      destruct (IH _ _ Ht) as [H1 [H2 H3]]. repeat split.
      * simpl. now rewrite H1.
      * constructor; [now right | exact H2].
      * rewrite ones_cons1. now rewrite H3.
    + apply in_map_iff in Hin. destruct Hin as [t [<- Ht]].
      destruct (IH _ _ Ht) as [H1 [H2 H3]]. repeat split.
      * simpl. now rewrite H1.
      * constructor; [now left | exact H2].
      * rewrite ones_cons0. exact H3.
Qed.

Lemma f_sector_complete d : forall n v, fvalid d n v -> In v (f_sector d n).
Proof.
  induction d as [|d IH]; intros n v [Hlen [Hbits Hn]].
  - destruct v; [|discriminate]. unfold ones in Hn. simpl in Hn. subst n. now left.
  - destruct v as [|x t]; [discriminate|].
    inversion Hbits as [|? ? Hx Ht]; subst. cbn [f_sector]. apply in_or_app.
    destruct Hx as [->| ->].
    + right. apply in_map. apply IH. repeat split; [simpl in Hlen; lia | exact Ht |].
      now rewrite ones_cons0.
    + left. rewrite ones_cons1. apply in_map. apply IH.
      repeat split; [simpl in Hlen; lia | exact Ht].
Qed.

Lemma f_sector_length d : forall n, Z.of_nat (length (f_sector d n)) = binom d n.
Proof.
  induction d as [|d IH]; intros n.
  - destruct n; reflexivity.
  - cbn [f_sector]. rewrite app_length, Nat2Z.inj_add, map_length, IH.
    destruct n as [|n].
    + simpl length. rewrite !binom_n_0. lia.
    + rewrite map_length, IH, binom_S_S. lia.
Qed.

(* the rank of the i-th vector of a sector is i *)
Theorem f_sub_index_enum d : forall n,
  map f_subspace_index (f_sector d n) = map Z.of_nat (seq 0 (length (f_sector d n))).
Proof.
  induction d as [|d IH]; intros n.
  - destruct n; reflexivity.
  - cbn [f_sector]. rewrite map_app, app_length, seq_app, map_app. f_equal.
    + destruct n as [|n]; [reflexivity|].
      rewrite map_length, map_map. rewrite <- IH. apply map_ext. intros t.
      apply sub_index_cons1.
    + cbn [Nat.add]. rewrite !map_length, map_map.
      rewrite <- map_seq_shift, <- IH, map_map. apply map_ext_in. intros t Ht.
      destruct (f_sector_valid _ _ _ Ht) as [Hlen [_ Hn]].
      destruct n as [|n].
      * simpl length. rewrite sub_index_cons0_zero by exact Hn.
        destruct (f_sector_valid _ _ _ Ht) as [_ [_ Hz]].
        assert (f_subspace_index t = 0).
        { unfold f_subspace_index. rewrite f_subspace_index_fq_eq. fold (ones t). now rewrite Hz. }
        lia.
      * rewrite sub_index_cons0 by lia. rewrite Hlen, Hn, map_length.
        replace (Z.of_nat (S n) - 1) with (Z.of_nat n) by lia.
        rewrite comb_nat, <- f_sector_length. lia.
Qed.

Theorem f_sector_nodup d n : NoDup (f_sector d n).
Proof.
  apply (NoDup_map_inv f_subspace_index). rewrite f_sub_index_enum.
  apply FinFun.Injective_map_NoDup; [|apply seq_NoDup]. intros x y. lia.
Qed.

(* dimension: f_cutoff_dim d c = sum_{k<c} C(d,k) = number of listed vectors *)
Lemma f_cutoff_dim_S d c :
  f_cutoff_dim d (Z.of_nat (S c)) = f_cutoff_dim d (Z.of_nat c) + comb d (Z.of_nat c).
Proof.
  unfold f_cutoff_dim. rewrite !Nat2Z.id, seq_S, fold_left_app. reflexivity.
Qed.

Lemma f_basis_spec_S d c : f_basis_spec d (S c) = f_basis_spec d c ++ f_sector d c.
Proof.
  unfold f_basis_spec. rewrite seq_S, map_app, concat_app. simpl. now rewrite app_nil_r.
Qed.

Theorem f_cutoff_dim_length d c :
  f_cutoff_dim (Z.of_nat d) (Z.of_nat c) = Z.of_nat (length (f_basis_spec d c)).
Proof.
  induction c as [|c IH]; [reflexivity|].
  rewrite f_cutoff_dim_S, IH, f_basis_spec_S, app_length, Nat2Z.inj_add.
  rewrite f_sector_length, comb_nat. reflexivity.
Qed.

(* full index: position in the concatenation of sectors *)
Theorem f_index_enum d : forall c,
  map f_index (f_basis_spec d c) = map Z.of_nat (seq 0 (length (f_basis_spec d c))).
Proof.
  induction c as [|c IH]; [reflexivity|].
  rewrite f_basis_spec_S, map_app, app_length, seq_app, map_app, IH. f_equal.
  cbn [Nat.add]. rewrite <- map_seq_shift, <- f_sub_index_enum, map_map.
  apply map_ext_in. intros v Hv.
  destruct (f_sector_valid _ _ _ Hv) as [Hlen [_ Hn]].
  unfold f_index, f_index_fq, f_subspace_index. fold (ones v).
  rewrite Hlen, Hn, f_cutoff_dim_length. lia.
Qed.

Theorem f_basis_spec_complete d c v :
  In v (f_basis_spec d c) <->
  (length v = d /\ Forall (fun x => x = 0 \/ x = 1) v /\ (ones v < c)%nat).
Proof.
  split.
  - intros Hin. unfold f_basis_spec in Hin. apply in_concat in Hin.
    destruct Hin as [l [Hl Hv]]. apply in_map_iff in Hl. destruct Hl as [n [<- Hn]].
    apply in_seq in Hn. destruct (f_sector_valid _ _ _ Hv) as [H1 [H2 H3]].
    repeat split; [exact H1 | exact H2 | lia].
  - intros [Hlen [Hbits Hn]]. unfold f_basis_spec. apply in_concat.
    exists (f_sector d (ones v)). split.
    + apply in_map. apply in_seq. lia.
    + apply f_sector_complete. repeat split; assumption.
Qed.

Theorem f_basis_spec_nodup d c : NoDup (f_basis_spec d c).
Proof.
  apply (NoDup_map_inv f_index). rewrite f_index_enum.
  apply FinFun.Injective_map_NoDup; [|apply seq_NoDup]. intros x y. lia.
Qed.

Example f_basis_3 :
  f_basis_spec 3 4 = [[0;0;0];[1;0;0];[0;1;0];[0;0;1];[1;1;0];[1;0;1];[0;1;1];[1;1;1]].
Proof. reflexivity. Qed.
Example f_basis_iter_3 : f_basis 3 4 = f_basis_spec 3 4.
Proof. reflexivity. Qed.
