"""C16 - Relabelling modes relabels the result; disjoint gates commute."""
import itertools
import json
import math
import os
from math import comb as mcomb

import numpy as np

from common import (CASES_HEADER, VERIF, Check, clist, coq_eval_parallel, cz, parse_coq_list,
                    run_impl)

IMPORTS = CASES_HEADER + "From PV Require Import Base.CasesLib Comb.FockModel Comb.FermiModel C16.IndexModel C16.ExecModel C16.GateSem.\n"


def cn(n):
    return "%d%%nat" % n


def nl(xs):
    return clist(xs, cn)


def zll(b):
    return clist(b, lambda r: clist(r))


def zlll(b):
    return clist(b, zll)


# ----------------------------------------------------------------- own combinatorics (search side)
def py_index(v):
    s = 0
    acc = 0
    for i in range(len(v)):
        s += v[-1 - i]
        acc += mcomb(s + i, i + 1)
    return acc


def py_sector(d, n):
    if d == 0:
        return [()] if n == 0 else []
    out = []
    for first in range(n, -1, -1):
        for t in py_sector(d - 1, n - first):
            out.append((first,) + t)
    return out


def py_basis(d, c):
    return [v for n in range(c) for v in py_sector(d, n)]


def ordered_subsets(d, kmax=None):
    for k in range(1, (kmax or d) + 1):
        for ms in itertools.permutations(range(d), k):
            yield list(ms)


def chunks(xs, n):
    for i in range(0, len(xs), n):
        yield i, xs[i:i + n]


# ----------------------------------------------------------------- program generators
def ang(rng):
    """theta = 2 atan t for a small rational t"""
    t = rng.randint(-7, 7) / rng.randint(2, 9)
    return 2 * math.atan(t)


def rand_unitary(rng, k):
    a = np.array([[complex(rng.gauss(0, 1), rng.gauss(0, 1)) for _ in range(k)] for _ in range(k)])
    q, r = np.linalg.qr(a)
    return q * (np.diag(r) / np.abs(np.diag(r)))


def cpl(a):
    a = np.asarray(a, dtype=complex)
    return np.stack([a.real, a.imag], axis=-1).tolist()


def rand_modes(rng, d, k):
    return rng.sample(range(d), k)


PASSIVE_GATES = [("BS", 2), ("PS", 1), ("MZ", 2), ("F", 1), ("IF", 2), ("IF", 3), ("BS50", 2)]
NUMBER_GATES = PASSIVE_GATES + [("K", 1), ("CK", 2)]
GAUSS_GATES = [("BS", 2), ("PS", 1), ("SQ", 1), ("D", 1), ("SQ2", 2), ("QP", 1), ("IF", 2), ("IF", 3), ("MZ", 2), ("F", 1)]
FGAUSS_GATES = [("BS", 2), ("PS", 1), ("IF", 2), ("IF", 3), ("SQ2", 2), ("IXX", 2)]
FFOCK_GATES = [("BS", 2), ("PS", 1), ("IF", 2), ("SQ2", 2), ("IXX", 2), ("CP", 2), ("MZ", 2)]


def gate_params(rng, g, k):
    if g in ("BS", "MZ", "SQ2"):
        if g == "SQ2":
            return [math.log(rng.choice([1.5, 2, 1.25])), ang(rng)]
        return [ang(rng), ang(rng)]
    if g in ("PS", "K", "CK", "IXX", "CP"):
        return [ang(rng) / (2 if g in ("K", "CK") else 1)]
    if g == "SQ":
        return [math.log(rng.choice([1.5, 2, 1.25])), ang(rng)]
    if g == "D":
        return [rng.randint(1, 6) / 4, ang(rng)]
    if g == "QP":
        return [rng.randint(-4, 4) / 5]
    if g == "IF":
        return [cpl(rand_unitary(rng, k))]
    return []


def gen_gates(rng, table, d, n, consecutive=False):
    out = []
    while len(out) < n:
        g, k = rng.choice(table)
        if k > d:
            continue
        if consecutive:
            a = rng.randint(0, d - k)
            ms = list(range(a, a + k))
        else:
            ms = rand_modes(rng, d, k)
        out.append([g, gate_params(rng, g, k), ms])
    return out


def rand_occ(rng, d, tot, fermi=False):
    if fermi:
        occ = [0] * d
        for i in rng.sample(range(d), min(tot, d)):
            occ[i] = 1
        return occ
    occ = [0] * d
    for _ in range(tot):
        occ[rng.randrange(d)] += 1
    return occ


def gen_program(rng, sim, d, cutoff, ngates, measure=False):
    """A program on ascending preparation modes (the relabelled twin permutes the occupation
    numbers); returns the instruction list [name, params, modes]."""
    allm = list(range(d))
    if sim == "purefock":
        o1 = rand_occ(rng, d, rng.randint(1, cutoff - 1))
        o2 = rand_occ(rng, d, rng.randint(0, cutoff - 1))
        prep = [["SV", [o1, [0.6, 0.0]], allm]]
        if o2 != o1:
            prep.append(["SV", [o2, [0.0, 0.8]], allm])
        else:
            prep = [["SV", [o1, [1.0, 0.0]], allm]]
        gates = gen_gates(rng, NUMBER_GATES, d, ngates)
    elif sim == "fock":
        o1 = rand_occ(rng, d, rng.randint(1, cutoff - 1))
        o2 = rand_occ(rng, d, sum(o1))
        prep = [["DM", [o1, o1, [0.5, 0.0]], allm], ["DM", [o2, o2, [0.5, 0.0]], allm]] if o1 != o2 else [["DM", [o1, o1, [1.0, 0.0]], allm]]
        if o1 != o2:
            prep += [["DM", [o1, o2, [0.0, 0.3]], allm], ["DM", [o2, o1, [0.0, -0.3]], allm]]
        gates = gen_gates(rng, NUMBER_GATES, d, ngates)
    elif sim == "gaussian":
        prep = [["VAC", [], []]]
        gates = gen_gates(rng, GAUSS_GATES, d, ngates)
    elif sim == "passive":
        prep = [["SV", [rand_occ(rng, d, rng.randint(1, 3)), [1.0, 0.0]], allm]]
        gates = gen_gates(rng, [g for g in PASSIVE_GATES if g[0] != "BS50"], d, ngates)
    elif sim == "fgaussian":
        prep = [["SV", [rand_occ(rng, d, rng.randint(1, d), True), [1.0, 0.0]], allm]]
        gates = gen_gates(rng, FGAUSS_GATES, d, ngates)
    elif sim == "ffock":
        prep = [["SV", [rand_occ(rng, d, rng.randint(1, d - 1), True), [1.0, 0.0]], allm]]
        gates = gen_gates(rng, FFOCK_GATES, d, ngates, consecutive=True)
    else:
        raise ValueError(sim)
    instrs = prep + gates
    if measure:
        k = rng.randint(1, d)
        ms = rand_modes(rng, d, k)
        if sim in ("purefock", "ffock") and k < d and rng.random() < 0.7:
            # mid-circuit measurement, then a gate and a final measurement on the remaining modes
            rest = [m for m in range(d) if m not in ms]
            rng.shuffle(rest)
            instrs.append(["PNM", [], ms])
            if len(rest) >= 2 and sim == "purefock":
                instrs.append(["BS", [ang(rng), ang(rng)], rest[:2]])
            elif sim == "purefock":
                instrs.append(["PS", [ang(rng)], rest[:1]])
            instrs.append(["PNM", [], rest])
        else:
            instrs.append(["PNM", [], ms])
    return instrs


def relabel_program(instrs, pi, prep_by_modes=False):
    """pi . P : every mode m becomes pi[m].  Preparations on all modes: either the
    occupation numbers are permuted (modes stay ascending) or the mode tuple is permuted."""
    d = len(pi)
    out = []
    for g, p, ms in instrs:
        if g in ("SV", "DM") and not prep_by_modes:
            def perm(o):
                r = [0] * d
                for i, x in enumerate(o):
                    r[pi[i]] = x
                return r
            if g == "SV":
                out.append([g, [perm(p[0])] + p[1:], ms])
            else:
                out.append([g, [perm(p[0]), perm(p[1]), p[2]], ms])
        else:
            out.append([g, p, [pi[m] for m in ms]])
    return out


def perm_vec(v, pi):
    r = [0] * len(v)
    for i, x in enumerate(v):
        r[pi[i]] = x
    return tuple(r)


def unrelabel_state(sim, d, cutoff, st, pi):
    """Bring the state of pi.P back to the labels of P (as numpy arrays keyed like `st`)."""
    out = {}
    if sim in ("purefock", "ffock", "fock"):
        if sim == "ffock":
            basis = [v for v in sorted(itertools.product((0, 1), repeat=d), key=lambda b: (sum(b), tuple(-x for x in b))) if sum(v) < cutoff]
            idx = {v: i for i, v in enumerate(basis)}
        else:
            basis = py_basis(d, cutoff)
            idx = {v: i for i, v in enumerate(basis)}
        src = [idx[perm_vec(v, pi)] for v in basis]
        if sim == "fock":
            a = np.array(st["dm"])
            a = a[..., 0] + 1j * a[..., 1]
            out["dm"] = a[np.ix_(src, src)]
        else:
            a = np.array(st["sv"])
            a = a[..., 0] + 1j * a[..., 1]
            out["sv"] = a[src]
    elif sim in ("gaussian", "fgaussian"):
        src = [2 * pi[m] + s for m in range(d) for s in (0, 1)]
        if "mean" in st:
            out["mean"] = np.array(st["mean"])[src]
        out["cov"] = np.array(st["cov"])[np.ix_(src, src)]
    elif sim == "passive":
        a = np.array(st["U"])
        a = a[..., 0] + 1j * a[..., 1]
        src = [pi[m] for m in range(d)]
        out["U"] = a[np.ix_(src, src)]
        out["occ"] = np.array([[o[pi[m]] for m in range(d)] for o in st["occ"]])
        c = np.array(st["coef"])
        out["coef"] = c[..., 0] + 1j * c[..., 1]
    return out


def as_arrays(sim, st):
    out = {}
    for k, v in st.items():
        a = np.array(v)
        if k in ("sv", "dm", "U", "coef"):
            a = a[..., 0] + 1j * a[..., 1]
        out[k] = a
    return out


def states_differ(sim, a, b, tol=1e-9, modulus_only=False):
    for k in a:
        x, y = np.asarray(a[k]), np.asarray(b[k])
        if x.shape != y.shape:
            return "%s: shapes %s vs %s" % (k, x.shape, y.shape)
        if modulus_only and k == "sv":
            x, y = np.abs(x), np.abs(y)
        if x.size and np.max(np.abs(x - y)) > tol * (1 + np.max(np.abs(x))):
            return "%s differs by %.3g" % (k, float(np.max(np.abs(x - y))))
    return None


def branches_differ(b1, b2, tol=1e-9):
    m1, m2 = {}, {}
    for o, f in b1:
        m1[tuple(o)] = m1.get(tuple(o), 0.0) + f
    for o, f in b2:
        m2[tuple(o)] = m2.get(tuple(o), 0.0) + f
    for k in set(m1) | set(m2):
        if abs(m1.get(k, 0.0) - m2.get(k, 0.0)) > tol:
            return "outcome %s: frequency %.12g vs %.12g" % (list(k), m1.get(k, 0.0), m2.get(k, 0.0))
    return None


# ----------------------------------------------------------------- the check
def run(chk: Check):
    chk.proofs()
    T = chk.thorough
    rng = chk.rng
    corr_broken = []

    # ============ 1. index lists, exact, every ordered subset
    dmax, cmax = 5, 5
    MINI = bool(os.environ.get("C16_MINI"))  # development aid (mutation runs on a loaded machine): small ranges
    if MINI:
        dmax, cmax = 3, 3
    il_cases = []
    for d in range(1, dmax + 1):
        for c in range(1, cmax + 1):
            subs = list(ordered_subsets(d))
            if not T and d == 5:
                # quick: every ordered subset of size <= 2 and a seeded sample of the larger ones
                small = [s for s in subs if len(s) <= 2]
                big = [s for s in subs if len(s) > 2]
                subs = small + rng.sample(big, 40)
            for ms in subs:
                il_cases.append([d, c, ms])
    f_cases = []
    for d in range(1, (3 if MINI else 5 if T else 4) + 1):
        for c in range(1, d + 2):
            for ms in ordered_subsets(d, 3):
                f_cases.append([d, c, ms])
    siml_cases = [[d, c, m] for d in range(1, dmax + 1) for c in range(1, cmax + 1) for m in range(d)]
    proj_cases = []
    for d in range(1, dmax + 1):
        for c in range(1, cmax + 1):
            for ms in ordered_subsets(d, 3 if not T else None):
                bvs = py_basis(len(ms), c)
                for bv in (bvs if (T or len(bvs) <= 4) else rng.sample(bvs, 4)):
                    proj_cases.append([d, c, ms, list(bv)])
    # thorough enumerates 51 269 (modes, outcome) pairs: a seeded sample of 8 000 keeps the tier near 30 min
    proj_cases = rng.sample(proj_cases, min(len(proj_cases), 8000 if T else 200 if MINI else 2500))
    aux_cases = [[d, ms] for d in range(1, 7) for ms in ordered_subsets(d, 3)]
    # gather/scatter application with small integer data (exact in float64)
    apply_cases = []
    for _ in range(400 if T else 20 if MINI else 120):
        d = rng.randint(1, 3 if MINI else 4)
        c = rng.randint(1, 4)
        k = rng.randint(1, d)
        ms = rng.sample(range(d), k)
        dim = mcomb(d + c - 1, d)
        state = [rng.randint(-3, 3) for _ in range(dim)]
        mats = []
        for n in range(c):
            sz = mcomb(k + n - 1, n)
            mats.append([[rng.randint(-2, 2) for _ in range(sz)] for _ in range(sz)])
        apply_cases.append([d, c, ms, state, mats])

    # executor bookkeeping: active labels (ascending subsequence of range(d)), modes = ordered subset
    remap_cases = []
    for _ in range(3000 if T else 600):
        d = rng.randint(1, 7)
        active = sorted(rng.sample(range(d), rng.randint(1, d)))
        ms = rng.sample(active, rng.randint(1, len(active)))
        remap_cases.append([active, ms])
    map_cases = []
    for _ in range(1500 if T else 300):
        d = rng.randint(1, 7)
        reg = rng.sample(range(d + 3), rng.randint(0, d))
        ms = [rng.randrange(len(reg)) for _ in range(rng.randint(0, len(reg)))] if reg else rng.sample(range(d), rng.randint(0, d))
        map_cases.append([reg, ms])

    # ============ 2. programs on every simulator (relabelling, adjacent disjoint swaps, mode order)
    prog_cases, prog_meta = build_program_runs(chk)

    req = {"index_lists": il_cases, "f_index_lists": f_cases, "siml": siml_cases, "proj": proj_cases,
           "aux": aux_cases, "apply": apply_cases, "programs": prog_cases,
           "remap": remap_cases, "map_modes": map_cases}
    impl = run_impl("c16_impl.py", req, timeout=3000)

    # ---------------- correspondence: model vs implementation (exact)
    bodies, owners = [], []

    def add(kind, cases, results, fmt, okdef, chunk):
        for i, part in chunks(list(zip(cases, results)), chunk):
            bodies.append(IMPORTS + "Definition cases := [%s].\n%s\nEval vm_compute in mismatches ok cases.\n"
                          % (";\n".join(fmt(c, r) for c, r in part), okdef))
            owners.append((kind, i, [c for c, _ in part]))

    add("index_list", il_cases, impl["index_lists"],
        lambda c, r: "(%s,%s,%s,%s)" % (cn(c[0]), cn(c[1]), nl(c[2]), zlll(r)),
        "Definition ok (x : nat*nat*list nat*list (list (list Z))) : bool := let '(d,c,ms,r) := x in "
        "zlll_eqb (index_list ms d c) r && zlll_eqb (index_list_spec ms d c) r.", 60)
    add("fermionic index_list", f_cases, impl["f_index_lists"],
        lambda c, r: "(%s,%s,%s,%s)" % (cn(c[0]), cn(c[1]), nl(c[2]), zlll(r)),
        "Definition ok (x : nat*nat*list nat*list (list (list Z))) : bool := let '(d,c,ms,r) := x in "
        "zlll_eqb (f_index_list ms d c) r.", 60)
    add("state_index_matrix_list", siml_cases, impl["siml"],
        lambda c, r: "(%s,%s,%s,%s)" % (cn(c[0]), cn(c[1]), cn(c[2]), zlll(r)),
        "Definition ok (x : nat*nat*nat*list (list (list Z))) : bool := let '(d,c,m,r) := x in "
        "zlll_eqb (state_index_matrix_list d c m) r && zlll_eqb (state_index_matrix_list_spec d c m) r.", 60)
    add("projection_indices", proj_cases, impl["proj"],
        lambda c, r: "(%s,%s,%s,%s,%s)" % (cn(c[0]), cn(c[1]), nl(c[2]), clist(c[3]), clist(r)),
        "Definition ok (x : nat*nat*list nat*list Z*list Z) : bool := let '(d,c,ms,bv,r) := x in "
        "list_eqb (opt_eqb Z.eqb) (projection_indices d c ms bv) (map Some r) && zl_eqb (projection_indices_spec d c ms bv) r.", 400)
    add("get_auxiliary_modes", aux_cases, impl["aux"],
        lambda c, r: "(%s,%s,%s)" % (cn(c[0]), nl(c[1]), clist(r)),
        "Definition ok (x : nat*list nat*list Z) : bool := let '(d,ms,r) := x in zl_eqb (map Z.of_nat (aux_modes d ms)) r.", 2000)
    add("apply through index list", apply_cases, [[int(round(v)) for v in r] for r in impl["apply"]],
        lambda c, r: "(%s,%s,%s,%s,%s,%s)" % (cn(c[0]), cn(c[1]), nl(c[2]), clist(c[3]), zlll(c[4]), clist(r)),
        "(* the same result from the vector-level semantics the theorems of GateSem.v are about *)\n"
        "Definition sem_state (st : list Z) : list Z -> Z := fun v => nth (Z.to_nat (fock_index v)) st 0.\n"
        "Definition sem_T (k : nat) (Ts : list (list (list Z))) (u u' : list Z) : Z :=\n"
        "  let n := Z.to_nat (sumZ u) in let off := cutoff_dim (Z.of_nat n) (Z.of_nat k) in\n"
        "  nth (Z.to_nat (fock_index u' - off)) (nth (Z.to_nat (fock_index u - off)) (nth n Ts []) []) 0.\n"
        "Definition ok (x : nat*nat*list nat*list Z*list (list (list Z))*list Z) : bool := let '(d,c,ms,st,ts,r) := x in "
        "zl_eqb (apply_index_list Z 0 Z.add Z.mul (index_list ms d c) ts st) r && "
        "zl_eqb (map (gate_apply Z 0 Z.add Z.mul ms (sem_T (List.length ms) ts) (sem_state st)) (basis d c)) r.", 60)
    add("executor _remap_modes/_remap_modes_inverse/_delete_modes_from_active", remap_cases, impl["remap"],
        lambda c, r: "(%s,%s,%s,%s,%s)" % (nl(c[0]), nl(c[1]), nl(r[0]), nl(r[1]), nl(r[2])),
        "Definition nl_eqb := list_eqb Nat.eqb.\n"
        "Definition ok (x : list nat*list nat*list nat*list nat*list nat) : bool := let '(act,ms,r1,r2,r3) := x in "
        "nl_eqb (remap_modes act ms) r1 && nl_eqb (remap_modes_inverse act r1) r2 && nl_eqb (delete_modes_from_active act r1) r3.", 700)
    add("Program._map_modes", map_cases, impl["map_modes"],
        lambda c, r: "(%s,%s,%s)" % (nl(c[0]), nl(c[1]), nl(r)),
        "Definition nl_eqb := list_eqb Nat.eqb.\n"
        "Definition ok (x : list nat*list nat*list nat) : bool := let '(reg,ms,r) := x in nl_eqb (map_modes reg ms) r.", 2000)
    for c, r in zip(apply_cases, impl["apply"]):
        if any(abs(v - round(v)) > 1e-9 for v in r):
            corr_broken.append("apply: non-integer result on integer data at %s" % c[:3])
    outs = coq_eval_parallel("c16_%d" % os.getpid(), bodies, jobs=8 if T else 4)  # pid: concurrent runs must not share case files
    counts = {}
    for (kind, i, cs), o in zip(owners, outs):
        g = parse_coq_list(o)
        counts[kind] = counts.get(kind, 0) + len(cs)
        for k in g[0]:
            corr_broken.append("%s: model != implementation at %s" % (kind, json.dumps(cs[k])[:200]))
    chk.stream("index lists (bosonic) vs model and vs entry formula: ordered mode subsets, d<=5, cutoff<=5",
               len(il_cases), sum(1 for d, c, ms in il_cases if c >= 2 and ms != sorted(ms)),
               samples=[{"d": 3, "cutoff": 3, "modes": [2, 0], "columns": impl["index_lists"][il_cases.index([3, 3, [2, 0]])]}],
               exhaustive=bool(T), note="non-trivial = cutoff>=2 and modes not ascending")
    chk.stream("fermionic index lists vs model", len(f_cases), sum(1 for d, c, ms in f_cases if c >= 2 and ms != sorted(ms)),
               exhaustive=True)
    chk.stream("state_index_matrix_list vs model, every (d<=5, cutoff<=5, mode)", len(siml_cases),
               sum(1 for d, c, m in siml_cases if d >= 2 and c >= 2), exhaustive=True)
    chk.stream("get_projection_operator_indices vs model", len(proj_cases),
               len({json.dumps(c) for c in proj_cases if c[2] != sorted(c[2])}), samples=[proj_cases[0]])
    chk.stream("get_auxiliary_modes vs model", len(aux_cases), len(aux_cases) // 2, exhaustive=True)
    chk.stream("executor mode bookkeeping (_remap_modes, inverse, _delete_modes_from_active) vs model", len(remap_cases),
               len({json.dumps(c) for c in remap_cases if c[1] != sorted(c[1]) and c[0] != list(range(len(c[0])))}),
               samples=[remap_cases[0]], note="non-trivial = modes not ascending and active labels different from positions")
    chk.stream("Program._map_modes vs model", len(map_cases), len({json.dumps(c) for c in map_cases if c[0] and c[1]}),
               samples=[map_cases[0]])
    chk.stream("gather/scatter application (_calculate_state_vector_after_interferometer) vs model, integer data",
               len(apply_cases), len({json.dumps(c[:3]) for c in apply_cases if c[1] >= 2}), samples=[apply_cases[0][:3]])

    # ---------------- search 1: the index-list property stated directly on the implementation
    neval = 0
    for (d, c, ms), mats in zip(il_cases, impl["index_lists"]):
        neval += 1
        k = len(ms)
        aux = [m for m in range(d) if m not in ms]
        flat = [x for m in mats for col in m for x in col]
        dim = mcomb(d + c - 1, d)
        if sorted(flat) != list(range(dim)):
            chk.violation("C16:index_list:not-a-partition", "flattened index list is not a permutation of range(dim)",
                          {"d": d, "cutoff": c, "modes": ms, "flattened_sorted": sorted(flat)[:40], "dim": dim,
                           "call": "nb_calculate_index_list_for_appling_interferometer(%s, %d, %d)" % (tuple(ms), d, c)})
            continue
        bad = None
        for n, m in enumerate(mats):
            us = py_sector(k, n)
            ws = py_basis(d - k, c - n)
            if len(m) != len(ws) or any(len(col) != len(us) for col in m):
                bad = "shape of matrix %d" % n
                break
            for col, w in zip(m, ws):
                for x, u in zip(col, us):
                    v = [0] * d
                    for a, val in zip(aux, w):
                        v[a] = val
                    for a, val in zip(ms, u):
                        v[a] = val
                    if x != py_index(v):
                        bad = "entry (n=%d) for u=%s w=%s is %d, expected index%s=%d" % (n, u, w, x, v, py_index(v))
                        break
                if bad:
                    break
            if bad:
                break
        if bad:
            chk.violation("C16:index_list:entry", "index list entry is not the index of the merged vector: " + bad,
                          {"d": d, "cutoff": c, "modes": ms})
    chk.stream("index lists: partition of range(dim) and entry formula, directly on the implementation",
               neval, sum(1 for d, c, ms in il_cases if c >= 2 and ms != sorted(ms)), kind="search")

    for sw in ("C16_SIMS", "C16_MINI"):
        if os.environ.get(sw):
            corr_broken.append("development switch %s is set: ranges are reduced, this run decides nothing" % sw)

    # ---------------- search 2: relabelling / commutation on every simulator
    judge_program_runs(chk, prog_cases, prog_meta, impl["programs"])

    chk.assumptions += [
        "numba compiles the Python source it is given (kernels re-JITted into a cache keyed by the hash of the sources)",
        "relabelling/commutation of whole programs is decided by differential runs of the implementation against itself (the theorems are about the model of the index machinery, the gather/scatter semantics, embeddings and the executor bookkeeping)",
        "sampled outcome tuples are compared through exact branch frequencies (shots=None) rather than through scripted random draws",
    ]
    chk.finish(
        rule="index lists: every ordered mode subset in range (non-trivial: modes not ascending, cutoff>=2); programs: distinct (simulator, program, permutation/swap) runs with a non-identity permutation or a swap of two non-commuting-looking gates on disjoint modes",
        explanation="Theorems of coq/theories/Props/C16.v (all d, cutoff, duplicate-free mode tuples in any order; any commutative ring) about the Gallina model in C16/*.v; tie = exact differential run of the model against nb_calculate_index_list_for_appling_interferometer, its fermionic twin, nb_calculate_state_index_matrix_list, get_projection_operator_indices, get_auxiliary_modes and the gather/scatter step; search = partition/entry property and P vs pi.P / swapped programs on all six simulators.",
        correspondence_broken=corr_broken,
    )


def build_program_runs(chk):
    """Returns (cases for the runner, metadata).  Each metadata item:
    (kind, sim, d, cutoff, base_index, variant_index, extra)."""
    rng = chk.rng
    T = chk.thorough
    cases, meta = [], []
    # corpus of minimised past failures runs first
    corpus = os.path.join(VERIF, "harness", "corpus", "c16.jsonl")
    if os.path.exists(corpus):
        for line in open(corpus):
            if line.strip():
                c = json.loads(line)
                base = len(cases)
                cases.append({"sim": c["sim"], "d": c["d"], "cutoff": c["cutoff"], "shots": c["shots"], "instrs": c["base"]})
                meta.append(("base", c["sim"], c["d"], c["cutoff"], base, base, None))
                cases.append({"sim": c["sim"], "d": c["d"], "cutoff": c["cutoff"], "shots": c["shots"], "instrs": c["variant"]})
                meta.append((c["kind"], c["sim"], c["d"], c["cutoff"], base, base + 1, c["perm"]))
    sims = ["purefock", "fock", "gaussian", "passive", "fgaussian", "ffock"]
    if os.environ.get("C16_SIMS"):  # development aid: restrict the program streams
        sims = [x for x in sims if x in os.environ["C16_SIMS"].split(",")]
    # the Fock simulators spend 0.1-0.7 s per passive gate (numba reflected lists), hence the budgets
    slow = ("purefock", "fock", "ffock")
    for sim in sims:
        nprog = (4 if sim in slow else 8) if T else (1 if sim in slow else 2)
        for d in ((2, 3) if os.environ.get("C16_MINI") else (2, 3, 4)):
            cutoff = 4 if sim != "fock" or d < 4 else 3
            if sim == "ffock":
                cutoff = d + 1
                if d == 2:
                    continue
            for pidx in range(nprog):
                for measure in (False, True):
                    if measure and sim in ("gaussian", "fgaussian"):
                        continue
                    if measure and pidx >= max(1, nprog // 2):
                        continue
                    if measure and sim == "fock" and not T and d == 4:
                        continue
                    ng = (3 if sim in slow else rng.randint(3, 5)) if not T else rng.randint(3, 5)
                    instrs = gen_program(rng, sim, d, cutoff, ng, measure)
                    shots = None if measure else 1
                    base = len(cases)
                    cases.append({"sim": sim, "d": d, "cutoff": cutoff, "instrs": instrs, "shots": shots})
                    meta.append(("base", sim, d, cutoff, base, base, None))
                    # relabelling by every permutation (fermionic Fock: gates need consecutive modes -> skipped)
                    if sim != "ffock":
                        perms = list(itertools.permutations(range(d)))[1:]
                        if not T and d == 4:
                            perms = rng.sample(perms, 3 if sim in slow else 8)
                        if not T and d == 3 and sim in slow and measure:
                            perms = rng.sample(perms, 3)
                        for pi in perms:
                            cases.append({"sim": sim, "d": d, "cutoff": cutoff, "shots": shots,
                                          "instrs": relabel_program(instrs, list(pi))})
                            meta.append(("relabel", sim, d, cutoff, base, len(cases) - 1, list(pi)))
                    # adjacent disjoint swaps
                    for i in range(len(instrs) - 1):
                        a, b = instrs[i], instrs[i + 1]
                        if a[0] in ("SV", "DM", "VAC", "PNM") or b[0] in ("SV", "DM", "VAC", "PNM"):
                            continue
                        if set(a[2]) & set(b[2]):
                            continue
                        sw = instrs[:i] + [b, a] + instrs[i + 2:]
                        cases.append({"sim": sim, "d": d, "cutoff": cutoff, "shots": shots, "instrs": sw})
                        meta.append(("swap", sim, d, cutoff, base, len(cases) - 1, i))
                    # the same gate with its mode tuple reordered (matrix conjugated accordingly)
                    for i, (g, p, ms) in enumerate(instrs):
                        if g == "IF" and len(ms) >= 2 and sim != "ffock":
                            k = len(ms)
                            s = list(range(k))
                            while s == list(range(k)):
                                rng.shuffle(s)
                            u = np.array(p[0])
                            u = u[..., 0] + 1j * u[..., 1]
                            u2 = u[np.ix_(s, s)]
                            ro = instrs[:i] + [[g, [cpl(u2)], [ms[j] for j in s]]] + instrs[i + 1:]
                            cases.append({"sim": sim, "d": d, "cutoff": cutoff, "shots": shots, "instrs": ro})
                            meta.append(("mode-order", sim, d, cutoff, base, len(cases) - 1, s))
            # mode tuple of a preparation / of a full measurement given in a non-ascending order
            # (fixed asymmetric occupation numbers, cyclic shift of the labels, no gates)
            if d >= 2:
                fermi = sim in ("fgaussian", "ffock")
                occ = ([1] + [0] * (d - 1)) if fermi else ([2] + [0] * (d - 2) + [1])
                pi = [(m + 1) % d for m in range(d)]
                allm = list(range(d))
                if sim == "gaussian":
                    prep = [["VAC", [], []], ["D", [1.5, 0.0], [0]]]
                    prep_pi = None
                elif sim == "fock":
                    prep = [["DM", [occ, occ, [1.0, 0.0]], allm]]
                    prep_pi = [["DM", [occ, occ, [1.0, 0.0]], pi]]
                else:
                    prep = [["SV", [occ, [1.0, 0.0]], allm]]
                    prep_pi = [["SV", [occ, [1.0, 0.0]], pi]]
                if prep_pi is not None:
                    base = len(cases)
                    cases.append({"sim": sim, "d": d, "cutoff": cutoff, "shots": 1, "instrs": prep})
                    meta.append(("base", sim, d, cutoff, base, base, None))
                    cases.append({"sim": sim, "d": d, "cutoff": cutoff, "shots": 1, "instrs": prep_pi})
                    meta.append(("relabel-prep-modes", sim, d, cutoff, base, base + 1, pi))
                if sim != "gaussian":
                    # measure every mode, mode tuple in ascending vs shifted order (exact frequencies)
                    base = len(cases)
                    cases.append({"sim": sim, "d": d, "cutoff": cutoff, "shots": None,
                                  "instrs": prep + [["PNM", [], allm]]})
                    meta.append(("base", sim, d, cutoff, base, base, None))
                    cases.append({"sim": sim, "d": d, "cutoff": cutoff, "shots": None,
                                  "instrs": relabel_program(prep, pi) + [["PNM", [], pi]]})
                    meta.append(("relabel-measure-all", sim, d, cutoff, base, base + 1, pi))
            # forced disjoint pairs (so that every simulator sees real commutation cases)
            if d >= 3:
                for _ in range(4 if T else (1 if sim in slow else 2)):
                    instrs = gen_program(rng, sim, d, cutoff, 1, False)
                    table = {"purefock": NUMBER_GATES, "fock": NUMBER_GATES, "gaussian": GAUSS_GATES,
                             "passive": [g for g in PASSIVE_GATES if g[0] != "BS50"], "fgaussian": FGAUSS_GATES,
                             "ffock": FFOCK_GATES}[sim]
                    g1, k1 = rng.choice([g for g in table if g[1] <= d - 1])
                    g2, k2 = rng.choice([g for g in table if g[1] <= d - k1])
                    if sim == "ffock":
                        m1 = list(range(0, k1))
                        m2 = list(range(k1, k1 + k2))
                    else:
                        allm = rng.sample(range(d), k1 + k2)
                        m1, m2 = allm[:k1], allm[k1:]
                    A = [g1, gate_params(rng, g1, k1), m1]
                    B = [g2, gate_params(rng, g2, k2), m2]
                    base = len(cases)
                    cases.append({"sim": sim, "d": d, "cutoff": cutoff, "shots": 1, "instrs": instrs + [A, B]})
                    meta.append(("base", sim, d, cutoff, base, base, None))
                    cases.append({"sim": sim, "d": d, "cutoff": cutoff, "shots": 1, "instrs": instrs + [B, A]})
                    meta.append(("swap", sim, d, cutoff, base, base + 1, len(instrs)))
    return cases, meta


FINDING_KEYS = {
    ("relabel-prep-modes", "passive"): "C16:passive.state_vector:preparation-mode-tuple-ignored",
    ("relabel-prep-modes", "fock"): "C16:fock.density_matrix:preparation-mode-tuple-ignored",
    ("relabel-prep-modes", "fgaussian"): "C16:fermionic.gaussian.state_vector:preparation-mode-tuple-ignored",
    ("relabel-prep-modes", "ffock"): "C16:fermionic.fock.state_vector:preparation-mode-tuple-ignored",
    ("relabel-measure-all", "passive"): "C16:passive.particle_number_measurement:outcome-ignores-mode-order",
}


def judge_program_runs(chk, cases, meta, results):
    per = {}
    nontriv = {}
    refused = 0
    samples = []
    for (kind, sim, d, cutoff, base, var, extra) in meta:
        if kind == "base":
            continue
        rb, rv = results[base], results[var]
        key = "%s on %s" % (kind, sim)
        per[key] = per.get(key, 0) + 1
        if "err" in rb or "err" in rv:
            if rb.get("err") == rv.get("err"):
                refused += 1
                continue
            chk.violation("C16:%s:%s:one-run-refused" % (sim, kind),
                          "program accepted in one labelling/order and refused in the other",
                          {"sim": sim, "d": d, "cutoff": cutoff, "kind": kind, "perm_or_position": extra,
                           "program": cases[base]["instrs"], "variant": cases[var]["instrs"],
                           "base_result": rb.get("err"), "variant_result": rv.get("err"), "msg": rv.get("msg", rb.get("msg"))})
            continue
        nontriv[key] = nontriv.get(key, 0) + 1
        problem = None
        # after a measurement the surviving state lives on fewer modes (and relabelling permutes
        # which ones): final states are compared only for programs without a measurement,
        # measured programs through their exact branch frequencies
        measured = any(g == "PNM" for g, _, _ in cases[base]["instrs"])
        if "state" in rb and "state" in rv and not measured:
            a = as_arrays(sim, rb["state"])
            if kind.startswith("relabel"):
                b = unrelabel_state(sim, d, cutoff, rv["state"], extra)
            else:
                b = as_arrays(sim, rv["state"])
            problem = states_differ(sim, a, b, modulus_only=(sim == "ffock"))
        if problem is None and (len(rb["branches"]) > 1 or len(rv["branches"]) > 1 or rb["branches"][0][0]):
            problem = branches_differ(rb["branches"], rv["branches"])
        if problem:
            k = FINDING_KEYS.get((kind, sim), "C16:%s:%s" % (sim, kind))
            def unsorted_full_pnm(c):
                last = c["instrs"][-1]
                return last[0] == "PNM" and sorted(last[2]) == list(range(d)) and last[2] != sorted(last[2])
            if sim == "passive" and kind in ("relabel", "relabel-measure-all") \
                    and (unsorted_full_pnm(cases[var]) or unsorted_full_pnm(cases[base])):
                k = FINDING_KEYS[("relabel-measure-all", "passive")]
            chk.violation(k, "%s: %s" % (kind, problem),
                          {"sim": sim, "d": d, "cutoff": cutoff, "kind": kind, "perm_or_position": extra,
                           "program": cases[base]["instrs"], "variant": cases[var]["instrs"], "difference": problem})
        elif len(samples) < 3 and kind == "relabel" and d == 3:
            samples.append({"sim": sim, "perm": extra, "program": [[g, ms] for g, p, ms in cases[base]["instrs"]]})
    for key in sorted(per):
        chk.stream("programs: %s (final state / exact branch frequencies compared)" % key, per[key], nontriv.get(key, 0),
                   kind="search", samples=[s for s in samples if s["sim"] in key][:1])
    if refused:
        chk.notes.append("%d program pairs refused identically in both labellings (unsupported instruction/shots combination)" % refused)
