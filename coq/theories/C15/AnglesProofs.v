(* C15 — the nulling equation and the unit constraints of _get_angles are DERIVED from
   characterisations of abs / angle / arctan / division, so that clements_correct rests on
   those characterisations only. *)
From Coq Require Import List Arith Bool Lia Ring.
From PV Require Import C15.ClementsModel C15.MatProofs C15.ClementsProofs C15.ClementsNulling C15.EulerModel.
Import ListNotations.

Section Angles.
Context {A : Type} {O : ROps A} {L : RLaws O}.
Local Open Scope rng_scope.
Add Ring Aring5 : (rth (RLaws := L)).

Variable rinv : A -> A.
Variable is0 : A -> bool.
Variable absf : A -> A.
Variable expangle : A -> A.
Variable cs_of_tan : A -> A * A.

(* isclose(x, 0) modelled exactly; division *)
Hypothesis is0_true : forall x, is0 x = true -> x = r0.
Hypothesis is0_false : forall x, is0 x = false -> x * rinv x = r1.
(* polar form  r = |r| exp(i angle r),  |exp(i angle r)| = 1,  |z| = 1 for unit z *)
Hypothesis abs_polar : forall r, r = absf r * expangle r.
Hypothesis exp_unit : forall r, expangle r * (expangle r)^* = r1.
Hypothesis abs_of_unit : forall z, z * z^* = r1 -> absf z = r1.
(* (c, s) = (cos, sin)(arctan a) for a = |r|: real, c^2 + s^2 = 1, s = c a *)
Hypothesis cs_spec : forall r, let '(c, s) := cs_of_tan (absf r) in
  c^* = c /\ s^* = s /\ c * c + s * s = r1 /\ s = c * absf r.

Local Notation angles := (get_angles rinv is0 absf expangle cs_of_tan).
Local Notation phase := (get_phase expangle).

Lemma get_angles_unit : forall x y, let '(c, s, e) := angles x y in coef_ok c s e.
Proof.
  intros x y. unfold get_angles. destruct (is0 x).
  - unfold coef_ok. rewrite conj_0, !conj_1. repeat split; ring.
  - pose proof (cs_spec (y * rinv x)) as H. destruct (cs_of_tan _) as [c s].
    destruct H as (Hc & Hs & Hcs & _). unfold coef_ok. repeat split; try assumption. apply exp_unit.
Qed.

(* the nulling equation, both branches *)
Lemma get_angles_null : forall x y, let '(c, s, e) := angles x y in e * s * x = c * y.
Proof.
  intros x y. unfold get_angles. destruct (is0 x) eqn:Hx.
  - rewrite (is0_true x Hx). ring.
  - pose proof (cs_spec (y * rinv x)) as H. destruct (cs_of_tan _) as [c s].
    destruct H as (_ & _ & _ & Hs). rewrite Hs.
    transitivity (c * ((absf (y * rinv x) * expangle (y * rinv x)) * x)); [ring|].
    rewrite <- abs_polar.
    transitivity (c * (y * (x * rinv x))); [ring|]. rewrite (is0_false x Hx). ring.
Qed.

Lemma get_phase_unit : forall z, z * z^* = r1 -> phase z = z.
Proof.
  intros z Hz. unfold get_phase. rewrite (abs_polar z) at 2. rewrite (abs_of_unit z Hz). ring.
Qed.

(* clements is correct as soon as abs / angle / arctan / division / the zero test satisfy their
   characterisations *)
Theorem clements_correct_trig : forall d U, unitary d U ->
  inverse_clements d (clements angles phase d U) = U.
Proof.
  intros d U HU.
  exact (clements_correct angles phase get_angles_unit get_angles_null get_phase_unit d U HU).
Qed.

End Angles.
