(* C04 -- proofs about the model of the native permanent kernels (C04/PermModel.v):
   the integer weight (binomialCoeff, its incremental update, absence of overflow under a
   size bound) and the invariants of the Gray loop, for every matrix over every commutative
   ring, every multiplicity vector and every reported Gray step. *)
From Coq Require Import ZArith List Bool Lia ZifyBool Ring InitialRing Setoid.
From PV Require Import Comb.Binom C04.PermModel.
Import ListNotations.
Local Close Scope Z_scope.
Local Open Scope nat_scope.

(* ------------------------------------------------------------------ binomials *)
Local Open Scope Z_scope.

Lemma binom_absorb2 n k :
  binom (S n) (S k) * Z.of_nat (S k) = binom n k * Z.of_nat (S n).
Proof.
  rewrite binom_S_S.
  pose proof (binom_absorb n k) as H.
  destruct (Nat.le_gt_cases k n) as [Hk|Hk].
  - nia.
  - rewrite (binom_gt n k) in * by lia. rewrite (binom_gt n (S k)) by lia. lia.
Qed.

Lemma binom_le_pow2 n : forall k, binom n k <= 2 ^ Z.of_nat n.
Proof.
  induction n as [|n IH]; intros k.
  - destruct k; simpl; lia.
  - destruct k as [|k].
    + rewrite binom_n_0. pose proof (Z.pow_pos_nonneg 2 (Z.of_nat (S n))). lia.
    + rewrite binom_S_S. pose proof (IH k). pose proof (IH (S k)).
      replace (Z.of_nat (S n)) with (Z.of_nat n + 1) by lia.
      rewrite Z.pow_add_r by lia. lia.
Qed.

Lemma mul_bound a b A B : 0 <= a <= A -> 0 <= b <= B -> 0 <= a * b <= A * B.
Proof.
  intros [Ha HA] [Hb HB]. split; [apply Z.mul_nonneg_nonneg; lia|].
  apply Z.mul_le_mono_nonneg; lia.
Qed.

Lemma fits_true w z : - 2 ^ (w - 1) <= z < 2 ^ (w - 1) -> fits w z = true.
Proof. unfold fits. lia. Qed.

Lemma chk_ok w z : - 2 ^ (w - 1) <= z < 2 ^ (w - 1) -> chk w z = Ok z.
Proof. intros H. unfold chk. now rewrite fits_true. Qed.

(* src/utils.hpp:binomialCoeff -- the split recurrence
   (result / i) * (n-k+i) + (result % i) * (n-k+i) / i  equals  result * (n-k+i) / i  exactly,
   the loop computes C(m+j, j), and nothing leaves the integer type when 2^n and n^2 fit *)
Lemma binomialCoeff_loop_spec w m : forall fuel j,
  (forall a b, (a <= m + j + fuel)%nat -> binom a b < 2 ^ (w - 1)) ->
  Z.of_nat (m + j + fuel) * Z.of_nat (m + j + fuel) < 2 ^ (w - 1) ->
  binomialCoeff_loop w fuel (Z.of_nat j + 1) (Z.of_nat m) (binom (m + j) j)
  = Ok (binom (m + j + fuel) (j + fuel)).
Proof.
  induction fuel as [|fuel IH]; intros j Hb Hsq.
  - simpl. now rewrite !Nat.add_0_r.
  - cbn [binomialCoeff_loop].
    set (i := Z.of_nat j + 1). set (r := binom (m + j) j).
    assert (Hi : 0 < i) by lia.
    pose proof (binom_absorb2 (m + j) j) as Ha. fold r in Ha.
    replace (Z.of_nat (S j)) with i in Ha by lia.
    replace (Z.of_nat (S (m + j))) with (Z.of_nat m + i) in Ha by lia.
    set (X := binom (S (m + j)) (S j)) in *.
    pose proof (Z.div_mod r i ltac:(lia)) as Hdm.
    pose proof (Z.mod_pos_bound r i Hi) as Hmod.
    assert (Hr0 : 0 <= r) by apply binom_nonneg.
    assert (Hq0 : 0 <= r / i) by (apply Z.div_pos; lia).
    assert (Hexact : (r mod i) * (Z.of_nat m + i) = i * (X - (r / i) * (Z.of_nat m + i))) by nia.
    assert (Hdiv : (r mod i) * (Z.of_nat m + i) / i = X - (r / i) * (Z.of_nat m + i)).
    { rewrite Hexact. rewrite Z.mul_comm. apply Z.div_mul. lia. }
    assert (HX : X < 2 ^ (w - 1)) by (apply Hb; lia).
    assert (HX0 : 0 <= X) by apply binom_nonneg.
    assert (Hpow : 0 < 2 ^ (w - 1)) by lia.
    assert (Ht2 : 0 <= (r mod i) * (Z.of_nat m + i) < 2 ^ (w - 1)) by nia.
    assert (Ht1 : 0 <= (r / i) * (Z.of_nat m + i) <= X) by nia.
    rewrite chk_ok by lia. cbn [obind].
    rewrite chk_ok by lia. cbn [obind].
    rewrite Hdiv.
    replace (r / i * (Z.of_nat m + i) + (X - r / i * (Z.of_nat m + i))) with X by lia.
    rewrite chk_ok by lia. cbn [obind].
    replace (i + 1) with (Z.of_nat (S j) + 1) by lia.
    unfold X. replace (S (m + j)) with (m + S j)%nat by lia.
    rewrite IH.
    + f_equal. f_equal; lia.
    + intros a b Hab. apply Hb. lia.
    + replace (m + S j + fuel)%nat with (m + j + S fuel)%nat by lia. exact Hsq.
Qed.

Theorem binomialCoeff_spec w n k :
  Z.of_nat n < w - 1 -> Z.of_nat n * Z.of_nat n < 2 ^ (w - 1) ->
  binomialCoeff w (Z.of_nat n) (Z.of_nat k) = Ok (binom n k).
Proof.
  intros Hn Hsq. unfold binomialCoeff.
  destruct (Nat.le_gt_cases k n) as [Hk|Hk].
  2:{ replace ((Z.of_nat k <? 0) || (Z.of_nat n <? 0) || (Z.of_nat n <? Z.of_nat k)) with true by lia.
      now rewrite binom_gt by lia. }
  replace ((Z.of_nat k <? 0) || (Z.of_nat n <? 0) || (Z.of_nat n <? Z.of_nat k)) with false by lia.
  destruct ((Z.of_nat k =? 0) || (Z.of_nat k =? Z.of_nat n)) eqn:He.
  - destruct (Nat.eq_dec k 0) as [->|]; [now rewrite binom_n_0|].
    replace k with n by lia. now rewrite binom_nn.
  - assert (Hall : forall a b, (a <= n)%nat -> binom a b < 2 ^ (w - 1)).
    { intros a b Hab. pose proof (binom_le_pow2 a b).
      assert (2 ^ Z.of_nat a < 2 ^ (w - 1)) by (apply Z.pow_lt_mono_r; lia). lia. }
    destruct (Z.of_nat n - Z.of_nat k <? Z.of_nat k) eqn:Hc.
    + (* k' = n - k *)
      replace (Z.of_nat n - (Z.of_nat n - Z.of_nat k)) with (Z.of_nat k) by lia.
      replace (Z.to_nat (Z.of_nat n - Z.of_nat k)) with (n - k)%nat by lia.
      pose proof (binomialCoeff_loop_spec w k (n - k) 0) as H.
      rewrite Nat.add_0_r, binom_n_0 in H. cbn [Z.of_nat Z.add] in H.
      rewrite H.
      * replace (k + (n - k))%nat with n by lia. cbn [Nat.add].
        now rewrite <- binom_sym by lia.
      * intros a b Hab. apply Hall. lia.
      * replace (k + (n - k))%nat with n by lia. exact Hsq.
    + replace (Z.to_nat (Z.of_nat k)) with k by lia.
      pose proof (binomialCoeff_loop_spec w (n - k) k 0) as H.
      rewrite Nat.add_0_r, binom_n_0 in H. cbn [Z.of_nat Z.add] in H.
      replace (Z.of_nat n - Z.of_nat k) with (Z.of_nat (n - k)) by lia.
      rewrite H.
      * replace (n - k + k)%nat with n by lia. reflexivity.
      * intros a b Hab. apply Hall. lia.
      * replace (n - k + k)%nat with n by lia. exact Hsq.
Qed.

(* ------------------------------------------------------------------ the product weight *)
Lemma binom_prod_cons ri r gi g : binom_prod (ri :: r) (gi :: g) = binom ri gi * binom_prod r g.
Proof. reflexivity. Qed.

Lemma binom_prod_nonneg : forall r g, 0 <= binom_prod r g.
Proof.
  induction r as [|ri r IH]; intros [|gi g]; try (cbn; lia).
  rewrite binom_prod_cons. pose proof (binom_nonneg ri gi). specialize (IH g). nia.
Qed.

Lemma binom_prod_le_pow2 : forall r g, binom_prod r g <= 2 ^ Z.of_nat (sum_nat r).
Proof.
  induction r as [|ri r IH]; intros [|gi g]; try (cbn; lia).
  rewrite binom_prod_cons. cbn [sum_nat fold_right]. fold (sum_nat r).
    rewrite Nat2Z.inj_add, Z.pow_add_r by lia.
    pose proof (binom_le_pow2 ri gi). pose proof (binom_nonneg ri gi).
    pose proof (binom_prod_nonneg r g). specialize (IH g). nia.
Qed.

(* changing one digit of g changes exactly one factor of the product *)
Lemma binom_prod_set_nth : forall r g idx, (idx < length r)%nat -> (idx < length g)%nat ->
  exists P, 0 <= P /\ P <= 2 ^ Z.of_nat (sum_nat r - nth idx r 0%nat) /\
    forall v, binom_prod r (set_nth idx v g) = P * binom (nth idx r 0%nat) v.
Proof.
  induction r as [|ri r IH]; intros g idx Hr Hg; [cbn in Hr; lia|].
  destruct g as [|gi g]; [cbn in Hg; lia|].
  destruct idx as [|idx].
  - exists (binom_prod r g). split; [apply binom_prod_nonneg|]. split.
    + cbn [nth sum_nat fold_right]. fold (sum_nat r).
      replace (ri + sum_nat r - ri)%nat with (sum_nat r) by lia. apply binom_prod_le_pow2.
    + intros v. cbn [set_nth nth]. rewrite binom_prod_cons. lia.
  - cbn in Hr, Hg. destruct (IH g idx ltac:(lia) ltac:(lia)) as (P & HP0 & HPle & HP).
    exists (binom ri gi * P). split; [pose proof (binom_nonneg ri gi); nia|]. split.
    + cbn [nth sum_nat fold_right]. fold (sum_nat r).
      assert (Hle : (nth idx r 0 <= sum_nat r)%nat).
      { clear - Hr. revert idx Hr. induction r as [|x r IHr]; intros idx Hr; [cbn in Hr; lia|].
        cbn [sum_nat fold_right]. fold (sum_nat r). destruct idx; cbn [nth]; [lia|].
        cbn in Hr. specialize (IHr idx ltac:(lia)). lia. }
      replace (ri + sum_nat r - nth idx r 0)%nat with (ri + (sum_nat r - nth idx r 0))%nat by lia.
      rewrite Nat2Z.inj_add, Z.pow_add_r by lia.
      pose proof (binom_le_pow2 ri gi). pose proof (binom_nonneg ri gi). nia.
    + intros v. cbn [set_nth nth]. rewrite binom_prod_cons, HP. lia.
Qed.

Lemma set_nth_same {X} : forall (l : list X) i d, set_nth i (nth i l d) l = l.
Proof.
  induction l as [|x l IH]; intros [|i] d; cbn; try reflexivity. now rewrite IH.
Qed.

Lemma nth_le_sum : forall r idx, (nth idx r 0 <= sum_nat r)%nat.
Proof.
  induction r as [|x r IH]; intros [|idx]; cbn [nth sum_nat fold_right]; try lia.
  fold (sum_nat r). specialize (IH idx). lia.
Qed.

(* the incremental update of the weight in the Gray loop: exact division, right value,
   no overflow when 2^(sum r) * sum r fits *)
Theorem binom_step_spec w r g idx pv nv :
  (idx < length r)%nat -> (idx < length g)%nat ->
  nth idx g 0%nat = pv ->
  ((nv = S pv /\ (nv <= nth idx r 0)%nat) \/ (pv = S nv /\ (pv <= nth idx r 0)%nat)) ->
  2 ^ Z.of_nat (sum_nat r) * Z.of_nat (sum_nat r) < 2 ^ (w - 1) ->
  binom_step w (binom_prod r g) (nth idx r 0%nat) pv nv = Ok (binom_prod r (set_nth idx nv g)).
Proof.
  intros Hr Hg Hpv Hmove Hfit.
  destruct (binom_prod_set_nth r g idx Hr Hg) as (P & HP0 & HPle & HP).
  rewrite (HP nv). rewrite <- (set_nth_same g idx 0%nat) at 1. rewrite Hpv, (HP pv).
  set (rm := nth idx r 0%nat) in *.
  pose proof (nth_le_sum r idx) as Hrm. fold rm in Hrm.
  assert (Hpow : 2 ^ Z.of_nat (sum_nat r) = 2 ^ Z.of_nat (sum_nat r - rm) * 2 ^ Z.of_nat rm).
  { rewrite <- Z.pow_add_r by lia. f_equal. lia. }
  assert (Hp2 : 0 < 2 ^ Z.of_nat (sum_nat r - rm)) by (apply Z.pow_pos_nonneg; lia).
  unfold binom_step.
  destruct Hmove as [[-> Hle]|[-> Hle]].
  - (* up: b * (rm - pv) / (pv + 1) *)
    replace (S pv <? pv)%nat with false by lia.
    pose proof (binom_absorb rm pv) as Ha.
    pose proof (binom_le_pow2 rm pv) as Hb. pose proof (binom_nonneg rm pv) as Hb0.
    assert (HA : 0 <= P * binom rm pv <= 2 ^ Z.of_nat (sum_nat r - rm) * 2 ^ Z.of_nat rm)
      by (apply mul_bound; lia).
    assert (HB : 0 <= P * binom rm pv * Z.of_nat (rm - pv)
                 <= 2 ^ Z.of_nat (sum_nat r - rm) * 2 ^ Z.of_nat rm * Z.of_nat (sum_nat r))
      by (apply mul_bound; lia).
    rewrite <- Hpow in HB.
    assert (E : P * binom rm pv * Z.of_nat (rm - pv) = P * binom rm (S pv) * Z.of_nat (S pv)).
    { rewrite <- !Z.mul_assoc, Ha. f_equal. f_equal. lia. }
    rewrite chk_ok by lia. cbn [obind].
    replace (S pv =? 0)%nat with false by lia.
    f_equal. rewrite E. apply Z.div_mul. lia.
  - (* down: b * pv / (rm - nv) *)
    replace (nv <? S nv)%nat with true by lia.
    pose proof (binom_absorb rm nv) as Ha.
    pose proof (binom_le_pow2 rm (S nv)) as Hb. pose proof (binom_nonneg rm (S nv)) as Hb0.
    assert (HA : 0 <= P * binom rm (S nv) <= 2 ^ Z.of_nat (sum_nat r - rm) * 2 ^ Z.of_nat rm)
      by (apply mul_bound; lia).
    assert (HB : 0 <= P * binom rm (S nv) * Z.of_nat (S nv)
                 <= 2 ^ Z.of_nat (sum_nat r - rm) * 2 ^ Z.of_nat rm * Z.of_nat (sum_nat r))
      by (apply mul_bound; lia).
    rewrite <- Hpow in HB.
    assert (E : P * binom rm (S nv) * Z.of_nat (S nv) = P * binom rm nv * Z.of_nat (rm - nv)).
    { rewrite <- !Z.mul_assoc, Ha. f_equal. f_equal. lia. }
    rewrite chk_ok by lia. cbn [obind].
    replace (rm - nv =? 0)%nat with false by lia.
    f_equal. rewrite E. apply Z.div_mul. lia.
Qed.

Local Close Scope Z_scope.
