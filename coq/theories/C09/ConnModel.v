(* C09 -- specification of the deterministic connector operations and executable models of the
   algorithms that the connectors re-implement.  Definitions only (no proofs).

   Arrays are lists, matrices are lists of rows.  Everything is written over an arbitrary
   carrier [A] with the operations of a commutative ring plus a division; the check *runs*
   these definitions at Q and at the Gaussian rationals (pairs of Q), the proofs in
   ConnProofs.v hold for every commutative ring.

   Transcribed code (file:function next to each definition):
     piquasso/_simulators/connectors/numpy_/connector.py      NumpyConnector.assign, scatter
     piquasso/_simulators/connectors/tensorflow_/connector.py TensorflowConnector.assign, block,
                                              embed_in_identity, accumulator, gather_along_axis_1
     piquasso/_simulators/connectors/jax_/connector.py        JaxConnector.assign, scatter
     piquasso/_simulators/connectors/connector.py             BuiltinConnector.*
     piquasso/_simulators/connectors/numpy_/interferometer.py calculate_interferometer_on_fock_space
     piquasso/_simulators/connectors/connections.py, numpy_/connections.py, jax_/connections.py,
     _utils.py                                 the three fermionic Laplace representations
     piquasso/_simulators/fock/pure/simulation_steps/passive_linear.py
                                               _calculate_state_vector_after_interferometer
     piquasso/_simulators/gaussian/simulation_steps.py  _apply_passive_linear (mean vector part) *)
From Coq Require Import ZArith List Bool.
From PV Require Import Comb.FockModel Comb.FermiModel.
Import ListNotations.
Local Open Scope nat_scope.

(* ------------------------------------------------------------------ index handling *)

(* Python/NumPy index normalisation: -n <= i < n, negative counts from the end;
   None stands for IndexError. *)
Definition norm_idx (n : nat) (i : Z) : option nat :=
  if (0 <=? i)%Z then (if (i <? Z.of_nat n)%Z then Some (Z.to_nat i) else None)
  else if (- Z.of_nat n <=? i)%Z then Some (Z.to_nat (i + Z.of_nat n)) else None.

Fixpoint norm_all (n : nat) (l : list Z) : option (list nat) :=
  match l with
  | [] => Some []
  | i :: r => match norm_idx n i, norm_all n r with
              | Some k, Some r' => Some (k :: r')
              | _, _ => None
              end
  end.

(* functional update of one position (no-op out of range; the range is checked by the
   callers through norm_idx) *)
Fixpoint upd {B} (l : list B) (k : nat) (x : B) : list B :=
  match l, k with
  | [], _ => []
  | _ :: r, O => x :: r
  | a :: r, S k' => a :: upd r k' x
  end.

(* array[index_array] = values: positions are written one after the other, so for a
   repeated index the last value stays (NumPy's documented behaviour) *)
Definition upd_many {B} (l : list B) (kx : list (nat * B)) : list B :=
  fold_left (fun acc p => upd acc (fst p) (snd p)) kx l.

Section Ops.
Variable A : Type.
Variables (zero one : A) (add mul : A -> A -> A) (opp : A -> A) (div : A -> A -> A).

Definition get2 (M : list (list A)) (i j : nat) : A := nth j (nth i M []) zero.
Definition upd2 (M : list (list A)) (i j : nat) (x : A) : list (list A) :=
  upd M i (upd (nth i M []) j x).
Definition upd2_many (M : list (list A)) (kx : list (nat * nat * A)) : list (list A) :=
  fold_left (fun acc p => upd2 acc (fst (fst p)) (snd (fst p)) (snd p)) kx M.

(* ---------------------------------------------------------------- assign (specification) *)
(* connector.assign(array, k, value), k an int *)
Definition assign_at (v : list A) (k : nat) (x : A) : list A := upd v k x.
(* connector.assign(array, (modes,), values) / a 1-D index array *)
Definition assign_list (v : list A) (idx : list nat) (vals : list A) : list A :=
  upd_many v (combine idx vals).
(* connector.assign(vector, index_matrix, value_matrix): 2-D index array into a 1-D array
   (TensorflowConnector.assign flattens both: index.reshape(-1,1), value.reshape(-1)) *)
Definition assign_mat (v : list A) (idx : list (list nat)) (vals : list (list A)) : list A :=
  assign_list v (concat idx) (concat vals).
(* connector.assign(matrix, (i, j), value) *)
Definition assign_cell (M : list (list A)) (i j : nat) (x : A) := upd2 M i j x.
(* connector.assign(matrix, (R, C), values) with R, C, values of one common 2-D shape
   (piquasso/_math/indices.py:get_operator_index) *)
Definition zip_pairs (R C : list (list nat)) (vals : list (list A)) : list (nat * nat * A) :=
  combine (combine (concat R) (concat C)) (concat vals).
Definition assign_pairs (M : list (list A)) (R C : list (list nat)) (vals : list (list A)) :=
  upd2_many M (zip_pairs R C vals).
(* broadcasting of np.ix_(rows, cols) = (rows[:,None], cols[None,:]) to the common shape *)
Definition bc_rows (rows cols : list nat) : list (list nat) :=
  map (fun r => map (fun _ => r) cols) rows.
Definition bc_cols (rows cols : list nat) : list (list nat) := map (fun _ => cols) rows.
Definition assign_ix (M : list (list A)) (rows cols : list nat) (vals : list (list A)) :=
  assign_pairs M (bc_rows rows cols) (bc_cols rows cols) vals.

(* the same with Python integers (negative allowed); None = IndexError *)
Definition assign_list_z (v : list A) (idx : list Z) (vals : list A) : option (list A) :=
  match norm_all (length v) idx with Some k => Some (assign_list v k vals) | None => None end.
Definition assign_ix_z (M : list (list A)) (rows cols : list Z) (vals : list (list A)) :=
  match norm_all (length M) rows, norm_all (length (hd [] M)) cols with
  | Some r, Some c => Some (assign_ix M r c vals)
  | _, _ => None
  end.

(* ---------------------------------------------------------------- other deterministic ops *)
Definition zeros (n : nat) : list A := repeat zero n.
Definition zeros2 (n m : nat) : list (list A) := repeat (zeros m) n.
Definition identity (n : nat) : list (list A) :=
  map (fun i => map (fun j => if Nat.eqb i j then one else zero) (seq 0 n)) (seq 0 n).

(* connector.scatter(indices, updates, shape) for a 2-D shape: zeros, then the updates
   (NumPy / JAX: item assignment; tf.scatter_nd agrees when no index is repeated) *)
Definition scatter2 (indices : list (nat * nat)) (updates : list A) (n m : nat) :=
  upd2_many (zeros2 n m) (combine indices updates).
(* ... and for a 1-D shape *)
Definition scatter1 (indices : list nat) (updates : list A) (n : nat) :=
  upd_many (zeros n) (combine indices updates).

(* connector.block([[a, b], [c, d]]) *)
Fixpoint happ (a b : list (list A)) : list (list A) :=
  match a, b with
  | r :: a', s :: b' => (r ++ s) :: happ a' b'
  | _, _ => []
  end.
Definition block2 (a b c d : list (list A)) : list (list A) := happ a b ++ happ c d.

(* connector.block_diag of a list of matrices *)
Definition ncols (M : list (list A)) : nat := length (hd [] M).
Fixpoint block_diag_from (left total : nat) (Ms : list (list (list A))) : list (list A) :=
  match Ms with
  | [] => []
  | M :: r =>
      map (fun row => zeros left ++ row ++ zeros (total - left - ncols M)) M
      ++ block_diag_from (left + ncols M) total r
  end.
Definition block_diag (Ms : list (list (list A))) : list (list A) :=
  block_diag_from 0 (fold_right (fun M s => ncols M + s) 0 Ms) Ms.

(* BuiltinConnector.embed_in_identity(matrix, ix_(idx, idx), dim) *)
Definition embed_in_identity (M : list (list A)) (rows cols : list nat) (dim : nat) :=
  assign_ix (identity dim) rows cols M.
(* TensorflowConnector.embed_in_identity: scatter of the matrix entries, then of a 1 for every
   diagonal position that is not among the written indices *)
Definition pair_eqb (p q : nat * nat) : bool := Nat.eqb (fst p) (fst q) && Nat.eqb (snd p) (snd q).
Definition embed_in_identity_tf (M : list (list A)) (rows cols : list nat) (dim : nat) :=
  let idx := combine (concat (bc_rows rows cols)) (concat (bc_cols rows cols)) in
  let diag := filter (fun p => negb (existsb (pair_eqb p) idx)) (map (fun i => (i, i)) (seq 0 dim)) in
  scatter2 (idx ++ diag) (concat M ++ map (fun _ => one) diag) dim dim.

(* connector.transpose *)
Definition transpose (M : list (list A)) : list (list A) :=
  map (fun j => map (fun row => nth j row zero) M) (seq 0 (ncols M)).

(* BuiltinConnector.gather_along_axis_1(array, indices) = array[:, indices], indices 2-D *)
Definition gather_axis1 (M : list (list A)) (idx : list (list nat)) : list (list (list A)) :=
  map (fun row => map (fun irow => map (fun c => nth c row zero) irow) idx) M.

(* accumulator: BuiltinConnector appends and ignores the index; tf.TensorArray writes slot
   [index] of an array of [size] slots and stack reads the slots in order *)
Definition acc_list_new : list (list A) := [].
Definition acc_list_write (acc : list (list A)) (index : nat) (v : list A) := acc ++ [v].
Definition acc_list_stack (acc : list (list A)) : list (list A) := acc.
Definition acc_arr_new (size : nat) : list (option (list A)) := repeat None size.
Definition acc_arr_write (acc : list (option (list A))) (index : nat) (v : list A) :=
  upd acc index (Some v).
Definition acc_arr_stack (acc : list (option (list A))) : list (list A) :=
  map (fun s => match s with Some v => v | None => [] end) acc.
(* the way piquasso/_math/gate_matrices.py uses it: rows 0, 1, 2, ... in this order *)
Definition fill_list (rows : list (list A)) : list (list A) :=
  acc_list_stack (fold_left (fun acc p => acc_list_write acc (fst p) (snd p))
                            (combine (seq 0 (length rows)) rows) acc_list_new).
Definition fill_arr (rows : list (list A)) : list (list A) :=
  acc_arr_stack (fold_left (fun acc p => acc_arr_write acc (fst p) (snd p))
                           (combine (seq 0 (length rows)) rows) (acc_arr_new (length rows))).

(* ------------------------------------------------- bosonic representation of an interferometer *)
Definition sum (l : list A) : A := fold_right add zero l.
Fixpoint map3 {X Y Z W} (f : X -> Y -> Z -> W) (a : list X) (b : list Y) (c : list Z) : list W :=
  match a, b, c with
  | x :: a', y :: b', z :: c' => f x y z :: map3 f a' b' c'
  | _, _, _ => []
  end.
Fixpoint map2 {X Y W} (f : X -> Y -> W) (a : list X) (b : list Y) : list W :=
  match a, b with
  | x :: a', y :: b' => f x y :: map2 f a' b'
  | _, _ => []
  end.

(* one level n of the helper index tuple of
   fock/simulation_steps.py:calculate_interferometer_helper_indices *)
Record level := {
  l_si  : list (list nat);   (* subspace_indices            I x J *)
  l_fnz : list nat;          (* first_nonzero_indices       K     *)
  l_fsi : list nat;          (* first_subspace_indices      K     *)
  l_sq  : list (list A);     (* sqrt_occupation_numbers     I x J *)
  l_sqf : list A             (* sqrt_first_occupation_numbers  K  *)
}.

(* connector.py:BuiltinConnector.calculate_interferometer_on_fock_space, loop body:
     first_part = interferometer[first_nonzero_indices]
     second     = gather_along_axis_1(prev[first_subspace_indices], subspace_indices)
     matrix     = einsum("ij,kj,kij->ki", sqrt_occ, first_part, second)
     new        = matrix / sqrt_first_occ[:, None] *)
Definition generic_level (U prev : list (list A)) (h : level) : list (list A) :=
  let first_part := map (fun r => nth r U []) (l_fnz h) in
  let second := gather_axis1 (map (fun r => nth r prev []) (l_fsi h)) (l_si h) in
  let matrix :=
    map2 (fun fp_k sec_k =>
            map2 (fun sq_i sec_ki => sum (map3 (fun a b c => mul (mul a b) c) sq_i fp_k sec_ki))
                 (l_sq h) sec_k)
         first_part second in
  map2 (fun row den => map (fun x => div x den) row) matrix (l_sqf h).

(* numpy_/interferometer.py:calculate_interferometer_on_fock_space, loop body (loops k, j, i;
   representation[k, i] += (U[fnz[k], j] / den) * sq[i, j] * prev_indexed[si[i, j]]) *)
Definition numba_row (U prev : list (list A)) (h : level) (k : nat) : list A :=
  let nI := length (l_sq h) in
  let nJ := length (hd [] (l_sq h)) in
  let den := nth k (l_sqf h) zero in
  let prow := nth (nth k (l_fsi h) O) prev [] in
  fold_left
    (fun (row : list A) (j : nat) =>
       let contrib := div (get2 U (nth k (l_fnz h) O) j) den in
       map2 (fun (acc : A) (i : nat) =>
               add acc (mul (mul contrib (get2 (l_sq h) i j))
                            (nth (nth j (nth i (l_si h) []) O) prow zero)))
            row (seq 0 nI))
    (seq 0 nJ) (zeros nI).
Definition numba_level (U prev : list (list A)) (h : level) : list (list A) :=
  map (numba_row U prev h) (seq 0 (length (l_fnz h))).

(* the list of all n-particle representations, [[1]] and U first *)
Fixpoint reps_from (step : list (list A) -> list (list A) -> level -> list (list A))
         (U prev : list (list A)) (hs : list level) : list (list (list A)) :=
  match hs with
  | [] => []
  | h :: r => let new := step U prev h in new :: reps_from step U new r
  end.
Definition generic_reps (U : list (list A)) (hs : list level) :=
  [[one]] :: U :: reps_from generic_level U U hs.
Definition numba_reps (U : list (list A)) (hs : list level) :=
  [[one]] :: U :: reps_from numba_level U U hs.

(* common specification of one level, entry (k, i) *)
Definition spec_entry (U prev : list (list A)) (h : level) (k i : nat) : A :=
  let nJ := length (hd [] (l_sq h)) in
  sum (map (fun j =>
         div (mul (mul (get2 (l_sq h) i j) (get2 U (nth k (l_fnz h) O) j))
                  (nth (nth j (nth i (l_si h) []) O) (nth (nth k (l_fsi h) O) prev []) zero))
             (nth k (l_sqf h) zero))
       (seq 0 nJ)).

(* --------------------------------------------- fermionic (Laplace) representation, 3 variants *)
Definition zget (M : list (list A)) (i j : Z) : A := get2 M (Z.to_nat i) (Z.to_nat j).
Fixpoint delete_nth {B} (k : nat) (l : list B) : list B :=
  match l, k with
  | [], _ => []
  | _ :: r, O => r
  | a :: r, S k' => a :: delete_nth k' r
  end.
Definition sign (l : nat) (x : A) : A := if Nat.even l then x else opp x.
Definition arange (n : nat) : list Z := map Z.of_nat (seq 0 n).
Definition fq_walk (n d : nat) : list (list Z) :=
  iterate_list (fun fq => next_fq fq (Z.of_nat d)) (Z.to_nat (f_subspace_dim (Z.of_nat d) (Z.of_nat n)))
               (arange n).

(* connectors/_utils.py:precalculate_fermionic_passive_linear_indices *)
Definition precalc (n d : nat) : list (list Z) * list (list Z) :=
  let walk := fq_walk n d in
  (map (fun fq => map (fun l => nth l fq 0%Z) (seq 0 n)) walk,   (* laplace_indices[row, l] = fq[l] *)
   map (fun fq => map (fun l => f_subspace_index_fq (delete_nth l fq) (Z.of_nat d)) (seq 0 n)) walk).

(* connections.py:calculate_interferometer_on_fermionic_fock_space (generic: walks the
   first-quantised rows and columns with next_first_quantized; sum_ = 0.0; sum_ += ...) *)
Definition fermi_generic_level (M prev : list (list A)) (n d : nat) : list (list A) :=
  map (fun fq_row =>
         let matrix_row_idx := nth 0 fq_row 0%Z in
         let deleted_row_idx := f_subspace_index_fq (tl fq_row) (Z.of_nat d) in
         map (fun fq_col =>
                fold_left (fun s l =>
                   add s (mul (sign l (zget M matrix_row_idx (nth l fq_col 0%Z)))
                              (zget prev deleted_row_idx
                                    (f_subspace_index_fq (delete_nth l fq_col) (Z.of_nat d)))))
                  (seq 0 n) zero)
             (fq_walk n d))
      (fq_walk n d).

(* numpy_/connections.py (numba: precomputed tables, representation[row, col] += ...) *)
Definition fermi_numba_level (M prev : list (list A)) (n d : nat) : list (list A) :=
  let '(lap, del) := precalc n d in
  map (fun row_idx =>
         let matrix_row_idx := nth 0 (nth row_idx lap []) 0%Z in
         let deleted_row_idx := nth 0 (nth row_idx del []) 0%Z in
         map (fun col_idx =>
                fold_left (fun s l =>
                   add s (mul (sign l (zget M matrix_row_idx (nth l (nth col_idx lap []) 0%Z)))
                              (zget prev deleted_row_idx (nth l (nth col_idx del []) 0%Z))))
                  (seq 0 n) zero)
             (seq 0 (length lap)))
      (seq 0 (length lap)).

(* jax_/connections.py (vectorised: signs * matrix[rows][:, lap] * prev[drows][:, del],
   summed over the last axis) *)
Definition fermi_jax_level (M prev : list (list A)) (n d : nat) : list (list A) :=
  let '(lap, del) := precalc n d in
  let matrix_row_indices := map (fun r => nth 0 r 0%Z) lap in
  let deleted_row_indices := map (fun r => nth 0 r 0%Z) del in
  map2 (fun mr dr =>
          map2 (fun lap_c del_c =>
                  sum (map3 (fun l a b => mul (sign l (zget M mr a)) (zget prev dr b))
                            (seq 0 n) lap_c del_c))
               lap del)
       matrix_row_indices deleted_row_indices.

Fixpoint fermi_from (step : list (list A) -> list (list A) -> nat -> nat -> list (list A))
         (M prev : list (list A)) (d n count : nat) : list (list (list A)) :=
  match count with
  | O => []
  | S c => let new := step M prev n d in new :: fermi_from step M new d (S n) c
  end.
Definition fermi_reps (step : list (list A) -> list (list A) -> nat -> nat -> list (list A))
           (M : list (list A)) (cutoff : nat) : list (list (list A)) :=
  match cutoff with
  | O => [[[one]]]          (* the code has no branch for cutoff 0; it returns [[1]], M *)
  | 1 => [[[one]]]
  | 2 => [[[one]]; M]
  | _ => [[one]] :: M :: fermi_from step M M (length M) 2 (cutoff - 2)
  end.

(* ------------------------------------------------ simulation steps written over a connector *)
(* the operations a step takes from its connector *)
Record connector := {
  c_assign_mat : list A -> list (list nat) -> list (list A) -> list A;
  c_assign_list : list A -> list nat -> list A -> list A;
  c_reps : list (list A) -> list level -> list (list (list A))
}.

Definition matvec (T : list (list A)) (v : list A) : list A :=
  map (fun row => sum (map2 mul row v)) T.
(* einsum("ij,jk->ik", T, X) *)
Definition matmul (T X : list (list A)) : list (list A) :=
  map (fun row => map (fun k => sum (map2 (fun t xr => mul t (nth k xr zero)) row X))
                      (seq 0 (ncols X))) T.
Definition take_mat (v : list A) (idx : list (list nat)) : list (list A) :=
  map (map (fun k => nth k v zero)) idx.

(* passive_linear.py:_calculate_state_vector_after_interferometer
     for n, indices in enumerate(index_list):
         new = connector.assign(new, indices, einsum("ij,jk->ik", T[n], state_vector[indices])) *)
Definition apply_reps (c : connector) (sv : list A) (Ts : list (list (list A)))
           (index_list : list (list (list nat))) : list A :=
  fold_left (fun new p => c_assign_mat c new (snd p) (matmul (fst p) (take_mat sv (snd p))))
            (combine Ts index_list) (zeros (length sv)).

(* passive_linear.py:_do_apply_passive_linear: representation, then application *)
Definition passive_step (c : connector) (sv : list A) (U : list (list A)) (hs : list level)
           (index_list : list (list (list nat))) : list A :=
  apply_reps c sv (c_reps c U hs) index_list.

(* gaussian/simulation_steps.py:_apply_passive_linear, mean vector:
     m = connector.assign(m, (modes,), T @ m[modes,]) *)
Definition gaussian_mean_step (c : connector) (m : list A) (T : list (list A)) (modes : list nat) :=
  c_assign_list c m modes (matvec T (map (fun k => nth k m zero) modes)).

(* the reference connector (NumPy semantics) and the variant with the generic recurrence *)
Definition numpy_connector : connector :=
  {| c_assign_mat := assign_mat; c_assign_list := assign_list; c_reps := numba_reps |}.
Definition generic_connector : connector :=
  {| c_assign_mat := assign_mat; c_assign_list := assign_list; c_reps := generic_reps |}.

End Ops.
