(* C04 -- model of the native permanent kernels (definitions only).

   Transcribes, function by function:
     src/utils.hpp:binomialCoeff
     src/n_aryGrayCodeCounter.hpp:n_aryGrayCodeCounter::{initialize,next,set_offset_max}
     src/permanent.cpp:permanent_cpp
     src/permanent_laplace.cpp:permanent_laplace_cpp
   over an arbitrary commutative ring (operations passed explicitly; run at the Gaussian
   integers, see [Zi] at the end).  Multiplicities and Gray digits are [nat] (the C++ [int]s
   are non-negative on every in-scope input); the integer binomial weight is a [Z] with an
   explicit width [w] (bits of the C++ integer type of [binomial_coeff]): every multiplication
   and addition of that type whose exact result does not fit returns [Overflow] (signed overflow
   is undefined behaviour in C++; the model does not guess a wrapped value).
   The final division by 2^(n-1) is returned as the exponent. *)
From Coq Require Import ZArith List Bool InitialRing.
From PV Require Import Comb.Binom.
Import ListNotations.
Local Close Scope Z_scope.
Local Open Scope nat_scope.

Inductive outcome (X : Type) : Type :=
| Ok (x : X)
| Overflow        (* a signed operation of the weight's integer type left its range *)
| DivByZero       (* integer division by zero in the weight update *)
| BadInput.       (* the thrown "Number of input and output states should be equal" *)
Arguments Ok {X} x.
Arguments Overflow {X}.
Arguments DivByZero {X}.
Arguments BadInput {X}.

Definition obind {X Y} (o : outcome X) (f : X -> outcome Y) : outcome Y :=
  match o with Ok x => f x | Overflow => Overflow | DivByZero => DivByZero | BadInput => BadInput end.

(* ------------------------------------------------------------------ integers of width w *)
Definition fits (w : Z) (z : Z) : bool := ((- 2 ^ (w - 1) <=? z) && (z <? 2 ^ (w - 1)))%Z.
Definition chk (w : Z) (z : Z) : outcome Z := if fits w z then Ok z else Overflow.

Local Open Scope Z_scope.
(* src/utils.hpp:binomialCoeff<TInt>, the loop
     result = (result / i) * (n - k + i) + (result % i) * (n - k + i) / i
   with i counting 1..k; [fuel] is the number of remaining iterations. *)
Fixpoint binomialCoeff_loop (w : Z) (fuel : nat) (i nk result : Z) : outcome Z :=
  match fuel with
  | O => Ok result
  | S fuel' =>
      obind (chk w ((result / i) * (nk + i))) (fun t1 =>
      obind (chk w ((result mod i) * (nk + i))) (fun t2 =>
      obind (chk w (t1 + t2 / i)) (fun r' =>
      binomialCoeff_loop w fuel' (i + 1) nk r')))
  end.

Definition binomialCoeff (w : Z) (n k : Z) : outcome Z :=
  if ((k <? 0) || (n <? 0) || (n <? k))%Z then Ok 0%Z
  else if ((k =? 0) || (k =? n))%Z then Ok 1%Z
  else let k' := if (n - k <? k)%Z then (n - k)%Z else k in
       binomialCoeff_loop w (Z.to_nat k') 1 (n - k') 1.

Local Close Scope Z_scope.
(* ------------------------------------------------------------------ Gray counter *)
(* counter_chain for an offset: chain[i] = temp % limits[i]; temp /= limits[i]
   (n_aryGrayCodeCounter::initialize, first loop) *)
Fixpoint chain_of (limits : list nat) (off : nat) : list nat :=
  match limits with
  | [] => []
  | n :: t => (off mod n) :: chain_of t (off / n)
  end.

(* n_aryGrayCodeCounter::initialize, second loop, run from the top digit down over
   (limit, chain digit) pairs: code = parity ? limit-1-chain : chain; parity ^= code & 1 *)
Fixpoint gray_top (lc : list (nat * nat)) (parity : bool) : list nat :=
  match lc with
  | [] => []
  | (n, a) :: t =>
      let code := if parity then n - 1 - a else a in
      code :: gray_top t (xorb parity (Nat.odd code))
  end.

Definition gray_of_chain (limits chain : list nat) : list nat :=
  rev (gray_top (rev (combine limits chain)) false).

Definition gray_of (limits : list nat) (off : nat) : list nat :=
  gray_of_chain limits (chain_of limits off).

Record gstate := { g_chain : list nat; g_code : list nat; g_offset : nat; g_offset_max : nat }.

(* constructor with initial offset + set_offset_max *)
Definition gray_init (limits : list nat) (initial_offset offset_max : nat) : gstate :=
  let ch := chain_of limits initial_offset in
  {| g_chain := ch; g_code := gray_of_chain limits ch;
     g_offset := initial_offset; g_offset_max := offset_max |}.

(* n_aryGrayCodeCounter::next, the while loop over counter_chain *)
Fixpoint incr (limits chain : list nat) : list nat :=
  match limits, chain with
  | n :: lt, a :: ct =>
      if a <? n - 1 then (a + 1) :: ct
      else if a =? n - 1 then 0 :: incr lt ct
      else a :: incr lt ct
  | _, _ => chain
  end.

(* n_aryGrayCodeCounter::next, the scan from the top digit for the first digit whose new
   Gray value differs; entries are (limit, new chain digit, old gray digit), [i] is the
   index of the head *)
Fixpoint scan_top (l : list (nat * nat * nat)) (i : nat) (parity : bool) : option (nat * nat * nat) :=
  match l with
  | [] => None
  | (n, a, g) :: t =>
      let nv := if parity then n - 1 - a else a in
      if nv =? g then scan_top t (i - 1) (xorb parity (Nat.odd nv))
      else Some (i, g, nv)
  end.

Fixpoint set_nth {X} (i : nat) (v : X) (l : list X) : list X :=
  match l, i with
  | [], _ => []
  | _ :: t, O => v :: t
  | x :: t, S i' => x :: set_nth i' v t
  end.

(* next: None = "returns 1" (offset >= offset_max); otherwise the new state and
   (changed_index, prev_value, value) -- (0,0,0), the caller's initial values, when no digit
   changed *)
Definition gray_next (limits : list nat) (s : gstate) : option (gstate * (nat * nat * nat)) :=
  if s.(g_offset_max) <=? s.(g_offset) then None
  else
    let ch := incr limits s.(g_chain) in
    let l := rev (combine (combine limits ch) s.(g_code)) in
    match scan_top l (length l - 1) false with
    | Some (i, pv, nv) =>
        Some ({| g_chain := ch; g_code := set_nth i nv s.(g_code);
                 g_offset := S s.(g_offset); g_offset_max := s.(g_offset_max) |}, (i, pv, nv))
    | None =>
        Some ({| g_chain := ch; g_code := s.(g_code);
                 g_offset := S s.(g_offset); g_offset_max := s.(g_offset_max) |}, (0, 0, 0))
    end.

(* ------------------------------------------------------------------ ring-generic part *)
Section Ring.
Variable A : Type.
Variables (rO rI : A) (radd rmul rsub : A -> A -> A) (ropp : A -> A).
(* width (bits) of the TInt of the binomialCoeff<TInt> call; [w] below is the width of the
   variable binomial_coeff *)
Variable wb : Z.

Definition ofZ : Z -> A := gen_phiZ rO rI radd rmul ropp.

Fixpoint rpow (x : A) (n : nat) : A :=
  match n with O => rI | S n' => rmul x (rpow x n') end.

Definition sumA (l : list A) : A := fold_right radd rO l.

Fixpoint vadd (u v : list A) : list A :=
  match u, v with
  | x :: u', y :: v' => radd x y :: vadd u' v'
  | _, _ => []
  end.

Definition vscale (k : A) (v : list A) : list A := map (rmul k) v.

Fixpoint remove_nth {X} (j : nat) (l : list X) : list X :=
  match l, j with
  | [], _ => []
  | _ :: t, O => t
  | x :: t, S j' => x :: remove_nth j' t
  end.

(* ---- the defining sum.  Permanent by expansion along the first row; [avail] lists the
   column index used by each still-available column of the (column-)expanded matrix. *)
Fixpoint perm_aux (rows : list (list A)) (avail : list nat) : A :=
  match rows with
  | [] => rI
  | row :: rest =>
      sumA (map (fun k => rmul (nth (nth k avail 0) row rO) (perm_aux rest (remove_nth k avail)))
                (seq 0 (length avail)))
  end.

Fixpoint expand {X} (l : list X) (mult : list nat) : list X :=
  match l, mult with
  | x :: l', m :: mult' => repeat x m ++ expand l' mult'
  | _, _ => []
  end.

(* permanent of M with row i repeated r_i times and column j repeated c_j times *)
Definition perm_def (M : list (list A)) (r c : list nat) : A :=
  perm_aux (expand M r) (expand (seq 0 (length c)) c).

(* ---- pieces of permanent_cpp *)
Definition sum_nat (l : list nat) : nat := fold_right Nat.add 0 l.

(* the first loop of permanent_cpp: index of the smallest non-zero multiplicity *)
Fixpoint min_scan (rows : list nat) (i : nat) (minelem min_idx : nat) : nat * nat :=
  match rows with
  | [] => (minelem, min_idx)
  | x :: t =>
      if (minelem =? 0) || ((x <? minelem) && negb (x =? 0))
      then min_scan t (S i) x i
      else min_scan t (S i) minelem min_idx
  end.

Fixpoint dec_nth (i : nat) (l : list nat) : list nat :=
  match l, i with
  | [], _ => []
  | x :: t, O => (x - 1) :: t
  | x :: t, S i' => x :: dec_nth i' t
  end.

(* prod_j colsum_j ^ c_j   (the colsum_prod loops, without the sign) *)
Fixpoint prod_pow (colsum : list A) (cols : list nat) : A :=
  match colsum, cols with
  | x :: cs, c :: ct => rmul (rpow x c) (prod_pow cs ct)
  | _, _ => rI
  end.

(* what is accumulated per Gray code: permanent_cpp one product, permanent_laplace_cpp one
   product per column l with exponent cols[l]-1 in place l *)
Definition prods_perm (cols : list nat) (colsum : list A) : list A := [prod_pow colsum cols].
Definition prods_laplace (cols : list nat) (colsum : list A) : list A :=
  map (fun l => prod_pow colsum (dec_nth l cols)) (seq 0 (length cols)).

Definition sgn (par : bool) : A := if par then ropp rI else rI.

(* initial column sums: row 0 + sum_i A(i+1,.) * (r_i - 2 g_i) *)
Fixpoint colsum_init (row0 : list A) (rest : list (list A)) (r g : list nat) : list A :=
  match rest, r, g with
  | row :: rest', ri :: r', gi :: g' =>
      colsum_init (vadd row0 (vscale (ofZ (Z.of_nat ri - 2 * Z.of_nat gi)) row)) rest' r' g'
  | _, _, _ => row0
  end.

(* initial weight: binomial_coeff *= binomialCoeff(r_i, g_i), in the weight's type *)
Fixpoint binom_init (w : Z) (acc : Z) (r g : list nat) : outcome Z :=
  match r, g with
  | ri :: r', gi :: g' =>
      obind (binomialCoeff wb (Z.of_nat ri) (Z.of_nat gi)) (fun b =>
      obind (chk w (acc * b)) (fun acc' => binom_init w acc' r' g'))
  | _, _ => Ok acc
  end.

(* the incremental weight update of the Gray loop *)
Definition binom_step (w : Z) (b : Z) (rm pv nv : nat) : outcome Z :=
  if nv <? pv then
    obind (chk w (b * Z.of_nat pv)) (fun t =>
      if rm - nv =? 0 then DivByZero else Ok (t / Z.of_nat (rm - nv))%Z)
  else
    obind (chk w (b * Z.of_nat (rm - pv))) (fun t =>
      if nv =? 0 then DivByZero else Ok (t / Z.of_nat nv)%Z).

Record pstate := { p_colsum : list A; p_binom : Z; p_par : bool; p_acc : list A }.

Definition addend (F : list A -> list A) (colsum : list A) (par : bool) (b : Z) : list A :=
  vscale (rmul (sgn par) (ofZ b)) (F colsum).

(* state of a job before its Gray loop *)
Definition job_init (w : Z) (F : list A -> list A) (row0 : list A) (rest : list (list A))
           (r g : list nat) : outcome pstate :=
  let cs := colsum_init row0 rest r g in
  obind (binom_init w 1 r g) (fun b =>
  let par := Nat.odd (sum_nat g) in
  Ok {| p_colsum := cs; p_binom := b; p_par := par;
        p_acc := addend F cs par b |}).

(* one iteration of the Gray loop, given the counter's report (changed_index, prev, value) *)
Definition job_step (w : Z) (F : list A -> list A) (rest : list (list A)) (r : list nat)
           (st : pstate) (chg : nat * nat * nat) : outcome pstate :=
  let '(idx, pv, nv) := chg in
  let par := negb st.(p_par) in
  let row2 := vscale (radd rI rI) (nth idx rest []) in                       (* mtx2 row *)
  let cs := vadd st.(p_colsum) (vscale (ofZ (Z.of_nat pv - Z.of_nat nv)) row2) in
  obind (binom_step w st.(p_binom) (nth idx r 0) pv nv) (fun b =>
  Ok {| p_colsum := cs; p_binom := b; p_par := par;
        p_acc := vadd st.(p_acc) (addend F cs par b) |}).

(* for (i = initial_offset+1; i < offset_max+1; i++) { if (next()) break; ... } *)
Fixpoint job_loop (w : Z) (F : list A -> list A) (limits : list nat) (rest : list (list A))
         (r : list nat) (fuel : nat) (gs : gstate) (st : pstate) : outcome pstate :=
  match fuel with
  | O => Ok st
  | S fuel' =>
      match gray_next limits gs with
      | None => Ok st
      | Some (gs', chg) =>
          obind (job_step w F rest r st chg) (fun st' =>
          job_loop w F limits rest r fuel' gs' st')
      end
  end.

(* one job: offsets initial_offset .. offset_max *)
Definition run_job (w : Z) (F : list A -> list A) (row0 : list A) (rest : list (list A))
           (r : list nat) (initial_offset offset_max : nat) : outcome (list A) :=
  let limits := map S r in
  let gs := gray_init limits initial_offset offset_max in
  obind (job_init w F row0 rest r gs.(g_code)) (fun st =>
  obind (job_loop w F limits rest r (offset_max - initial_offset) gs st) (fun st' =>
  Ok st'.(p_acc))).

(* the job partition: work_batch = idx_max / concurrency, job j covers
   [j*batch, (j+1)*batch - 1], the last one up to idx_max - 1 *)
Definition job_bounds (idx_max conc j : nat) : nat * nat :=
  let batch := idx_max / conc in
  (j * batch, if j =? conc - 1 then idx_max - 1 else (j + 1) * batch - 1).

Fixpoint sum_jobs (zero : list A) (l : list (outcome (list A))) : outcome (list A) :=
  match l with
  | [] => Ok zero
  | o :: t => obind o (fun x => obind (sum_jobs zero t) (fun y => Ok (vadd x y)))
  end.

Definition run_all (w : Z) (threads : nat) (F : list A -> list A) (nout : nat)
           (row0 : list A) (rest : list (list A)) (r : list nat) : outcome (list A) :=
  let idx_max := fold_right Nat.mul 1 (map S r) in
  let conc := Nat.min (threads * 4) idx_max in
  sum_jobs (repeat rO nout)
    (map (fun j => let '(a, b) := job_bounds idx_max conc j in run_job w F row0 rest r a b)
         (seq 0 conc)).

(* the row split shared by both kernels: rows_ = 1 :: rows with rows[min_idx] -= 1,
   mtx_ = A(min_idx,.) :: A *)
Definition split_row (M : list (list A)) (rows : list nat) : option (list A * list (list A) * list nat) :=
  let '(minelem, min_idx) := min_scan rows 0 0 0 in
  if (0 <? length rows) && negb (minelem =? 0)
  then Some (nth min_idx M [], M, dec_nth min_idx rows)
  else None.

(* src/permanent.cpp:permanent_cpp.  Result (numerator, e): the returned value is
   numerator / 2^e. *)
Definition permanent_cpp (w : Z) (threads : nat) (M : list (list A)) (rows cols : list nat)
  : outcome (A * nat) :=
  let sp := split_row M rows in
  let sum_rows := sum_nat rows in
  let sum_cols := sum_nat cols in
  if negb (sum_rows =? sum_cols) then BadInput
  else
    let nrows := match sp with Some _ => S (length M) | None => length M end in
    if (nrows =? 0) || (length cols =? 0) || (sum_rows =? 0) || (sum_cols =? 0) then Ok (rI, 0)
    else match sp with
    | None =>
        (* only reachable with one row in the C++ code (A.rows == 1): product of the row *)
        if nrows =? 1 then Ok (prod_pow (nth 0 M []) cols, 0) else Ok (rI, 0)
    | Some (row0, rest, r) =>
        obind (run_all w threads (prods_perm cols) 1 row0 rest r) (fun res =>
        Ok (nth 0 res rO, sum_rows - 1))
    end.

(* src/permanent_laplace.cpp:permanent_laplace_cpp *)
Definition permanent_laplace_cpp (w : Z) (threads : nat) (M : list (list A)) (rows cols : list nat)
  : outcome (list A * nat) :=
  let sum_rows := sum_nat rows in
  let sum_cols := sum_nat cols in
  if (length M =? 0) || (length cols =? 0) || (sum_rows =? 0) || (sum_cols =? 0) then Ok ([rI], 0)
  else match split_row M rows with
  | None => Ok ([rI], 0)      (* unreachable: sum_rows <> 0 gives a non-zero minimum *)
  | Some (row0, rest, r) =>
      obind (run_all w threads (prods_laplace cols) (length cols) row0 rest r) (fun res =>
      Ok (res, sum_rows - 1))
  end.

(* ---- the specification the loop is proved against: the Glynn/BBFG sum with
   multiplicities, written as a plain sum over the box prod_i [0..r_i] *)
Definition binom_prod (r g : list nat) : Z :=
  fold_right Z.mul 1%Z (map (fun '(ri, gi) => binom ri gi) (combine r g)).

Definition glynn_term (F : list A -> list A) (row0 : list A) (rest : list (list A)) (r g : list nat) : list A :=
  addend F (colsum_init row0 rest r g) (Nat.odd (sum_nat g)) (binom_prod r g).

Fixpoint box (r : list nat) : list (list nat) :=
  match r with
  | [] => [[]]
  | ri :: r' => flat_map (fun g' => map (fun gi => gi :: g') (seq 0 (S ri))) (box r')
  end.

Definition vsum (nout : nat) (l : list (list A)) : list A := fold_right vadd (repeat rO nout) l.

Definition glynn_sum (F : list A -> list A) (nout : nat) (row0 : list A) (rest : list (list A)) (r : list nat) : list A :=
  vsum nout (map (glynn_term F row0 rest r) (box r)).

End Ring.

(* ------------------------------------------------------------------ Gaussian integers *)
Definition Zi : Type := (Z * Z)%type.
Definition zi0 : Zi := (0, 0)%Z.
Definition zi1 : Zi := (1, 0)%Z.
Definition ziadd (x y : Zi) : Zi := (fst x + fst y, snd x + snd y)%Z.
Definition zimul (x y : Zi) : Zi := (fst x * fst y - snd x * snd y, fst x * snd y + snd x * fst y)%Z.
Definition ziopp (x : Zi) : Zi := (- fst x, - snd x)%Z.
Definition zisub (x y : Zi) : Zi := (fst x - fst y, snd x - snd y)%Z.

Definition permanent_cpp_zi := permanent_cpp Zi zi0 zi1 ziadd zimul ziopp.
Definition permanent_laplace_cpp_zi := permanent_laplace_cpp Zi zi0 zi1 ziadd zimul ziopp.
Definition perm_def_zi := perm_def Zi zi0 zi1 ziadd zimul.
