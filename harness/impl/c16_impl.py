"""Implementation side of C16: index lists for gates on mode subsets, gather/scatter
application, and whole programs on every simulator (for relabelling / commutation runs)."""
import json
import sys
import warnings

import numpy as np

warnings.simplefilter("ignore")

import piquasso as pq  # noqa: E402
import piquasso.fermionic as pf  # noqa: E402
from piquasso._simulators.fock import simulation_steps as fs  # noqa: E402
from piquasso._simulators.connectors import connections as cn  # noqa: E402
import importlib  # noqa: E402

pl = importlib.import_module("piquasso._simulators.fock.pure.simulation_steps.passive_linear")
from piquasso._math import indices as ix  # noqa: E402


def cplx(a):
    a = np.asarray(a)
    return np.stack([a.real, a.imag], axis=-1).tolist()


def uncplx(x):
    a = np.asarray(x, dtype=float)
    return a[..., 0] + 1j * a[..., 1]


def cols(m):
    return np.asarray(m).T.astype(int).tolist()


GATES = {
    "BS": lambda p: pq.Beamsplitter(theta=p[0], phi=p[1]),
    "PS": lambda p: pq.Phaseshifter(phi=p[0]),
    "BS50": lambda p: pq.Beamsplitter5050(),
    "MZ": lambda p: pq.MachZehnder(int_=p[0], ext=p[1]),
    "F": lambda p: pq.Fourier(),
    "K": lambda p: pq.Kerr(xi=p[0]),
    "CK": lambda p: pq.CrossKerr(xi=p[0]),
    "IF": lambda p: pq.Interferometer(uncplx(p[0])),
    "SQ": lambda p: pq.Squeezing(r=p[0], phi=p[1]),
    "SQ2": lambda p: pq.Squeezing2(r=p[0], phi=p[1]),
    "D": lambda p: pq.Displacement(r=p[0], phi=p[1]),
    "QP": lambda p: pq.QuadraticPhase(s=p[0]),
    "VAC": lambda p: pq.Vacuum(),
    "SV": lambda p: pq.StateVector(p[0], coefficient=(p[1][0] + 1j * p[1][1]) if len(p) > 1 else 1.0),
    "DM": lambda p: pq.DensityMatrix(ket=tuple(p[0]), bra=tuple(p[1]), coefficient=p[2][0] + 1j * p[2][1]),
    "PNM": lambda p: pq.ParticleNumberMeasurement(),
    "LOSS": lambda p: pq.Loss(transmissivity=np.array(p[0])),
    "IXX": lambda p: pf.IsingXX(phi=p[0]),
    "CP": lambda p: pf.ControlledPhase(phi=p[0]),
}


def make_sim(name, d, cutoff):
    cfg = pq.Config(cutoff=cutoff)
    if name == "purefock":
        return pq.PureFockSimulator(d=d, config=cfg)
    if name == "fock":
        return pq.FockSimulator(d=d, config=cfg)
    if name == "gaussian":
        return pq.GaussianSimulator(d=d, config=cfg)
    if name == "passive":
        return pq.SamplingSimulator(d=d, config=cfg)
    if name == "fgaussian":
        return pf.GaussianSimulator(d=d, config=cfg)
    if name == "ffock":
        return pf.PureFockSimulator(d=d, config=cfg)
    raise ValueError(name)


def state_data(name, st):
    if name in ("purefock", "ffock"):
        return {"sv": cplx(st.state_vector)}
    if name == "fock":
        return {"dm": cplx(st.density_matrix)}
    if name == "gaussian":
        return {"mean": np.asarray(st.xpxp_mean_vector).tolist(),
                "cov": np.asarray(st.xpxp_covariance_matrix).tolist()}
    if name == "passive":
        return {"U": cplx(st.interferometer),
                "occ": [np.asarray(o).astype(int).tolist() for o in st._occupation_numbers],
                "coef": cplx(np.asarray(st._coefficients, dtype=complex))}
    if name == "fgaussian":
        return {"cov": np.asarray(st.covariance_matrix).real.tolist()}
    raise ValueError(name)


def run_program(case):
    name, d, cutoff = case["sim"], case["d"], case.get("cutoff", 4)
    try:
        sim = make_sim(name, d, cutoff)
        instrs = []
        for g, p, m in case["instrs"]:
            ins = GATES[g](p)
            instrs.append(ins.on_modes(*m) if len(m) else ins)
        prog = pq.Program(instructions=instrs)
        shots = case.get("shots", 1)
        res = sim.execute(prog, shots=shots)
        out = {}
        br = res.branches
        out["branches"] = [[[int(x) for x in b.outcome], float(b.frequency)] for b in br]
        if len(br) == 1 and br[0].state is not None:
            out["state"] = state_data(name, br[0].state)
        return out
    except Exception as e:  # reported, judged by the check
        return {"err": type(e).__name__, "msg": str(e)[:200]}


def main():
    req = json.load(sys.stdin)
    out = {}
    out["index_lists"] = [
        [cols(m) for m in fs.nb_calculate_index_list_for_appling_interferometer(tuple(ms), d, c)]
        for d, c, ms in req.get("index_lists", [])
    ]
    out["f_index_lists"] = [
        [cols(m) for m in cn._nb_calculate_index_list_for_appling_interferometer(tuple(ms), d, c)]
        for d, c, ms in req.get("f_index_lists", [])
    ]
    out["siml"] = [
        [cols(m) for m in fs.nb_calculate_state_index_matrix_list(d, c, mode)]
        for d, c, mode in req.get("siml", [])
    ]
    out["proj"] = [
        [int(x) for x in fs.get_projection_operator_indices(d, c, tuple(ms), np.array(bv, dtype=int))]
        for d, c, ms, bv in req.get("proj", [])
    ]
    out["aux"] = [[int(x) for x in ix.get_auxiliary_modes(d, tuple(ms))] for d, ms in req.get("aux", [])]
    # gather/scatter application with rational real data (exact in float64)
    app = []
    connector = pq.NumpyConnector()
    for d, c, ms, state, mats in req.get("apply", []):
        il = fs.nb_calculate_index_list_for_appling_interferometer(tuple(ms), d, c)
        sv = np.array(state, dtype=float)
        Ts = [np.array(m, dtype=float).reshape(len(m), len(m)) for m in mats]
        new = pl._calculate_state_vector_after_interferometer(sv, Ts, il, connector)
        app.append([float(x) for x in new])
    out["apply"] = app
    from piquasso.api.simulator import Simulator
    out["remap"] = []
    for active, ms in req.get("remap", []):
        pos = Simulator._remap_modes(tuple(active), tuple(ms))
        out["remap"].append([[int(x) for x in pos],
                             [int(x) for x in Simulator._remap_modes_inverse(tuple(active), pos)],
                             [int(x) for x in Simulator._delete_modes_from_active(tuple(active), pos)]])
    out["map_modes"] = []
    for reg, ms in req.get("map_modes", []):
        ins = pq.Phaseshifter(0.1)
        ins._modes = tuple(ms)  # bypass the arity validation of the setter
        out["map_modes"].append([int(x) for x in pq.Program._map_modes(pq.Q(*reg), ins)])
    out["programs"] = [run_program(c) for c in req.get("programs", [])]
    print(json.dumps(out))


main()
