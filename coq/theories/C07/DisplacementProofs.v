(* C07 — displacement gates shift the quadrature means by sqrt(2 hbar) alpha. *)
From Coq Require Import List Arith Reals Psatz.
From PV Require Import C07.CxBase C07.RealOps C07.GatesGen C07.MomentsModel C07.GatesModel.
Import ListNotations.
Open Scope R_scope.

(* displacement: the xxpp mean moves by sqrt(2 hbar) (Re alpha, Im alpha) on the displaced mode *)
Lemma nth_map_seq' : forall (X : Type) (g : nat -> X) n i dflt,
  (i < n)%nat -> List.nth i (map g (seq O n)) dflt = g i.
Proof.
  intros X g n i dflt H.
  rewrite nth_indep with (d' := g O) by (rewrite map_length, seq_length; exact H).
  rewrite map_nth. rewrite seq_nth by exact H. reflexivity.
Qed.

Lemma nth_map_default : forall (X Y : Type) (f : X -> Y) (l : list X) i dx dy,
  (i < length l)%nat -> List.nth i (map f l) dy = f (List.nth i l dx).
Proof.
  intros. rewrite (nth_indep _ dy (f dx)) by (rewrite map_length; assumption). apply map_nth.
Qed.

Theorem displacement_shift : forall (d j : nat) (rr phi hbar : R) (st : gstate (A := Cx R)),
  (j < d)%nat -> length (st_m st) = d -> 0 <= hbar ->
  let s2h := sqrt 2 * sqrt hbar in
  let st' := step ROps d (ODisplacement rr (cos phi) (sin phi) [j]) st in
  let mean := xxpp_mean ROps s2h (st_m st) in
  let mean' := xxpp_mean ROps s2h (st_m st') in
  s2h = sqrt (2 * hbar) /\
  st_C st' = st_C st /\ st_G st' = st_G st /\
  List.nth j mean' 0 = List.nth j mean 0 + sqrt (2 * hbar) * (rr * cos phi) /\
  List.nth (d + j) mean' 0 = List.nth (d + j) mean 0 + sqrt (2 * hbar) * (rr * sin phi) /\
  forall i, (i < d)%nat -> i <> j ->
    List.nth i mean' 0 = List.nth i mean 0 /\ List.nth (d + i) mean' 0 = List.nth (d + i) mean 0.
Proof.
  intros d j rr phi hbar st Hj Hlen Hh s2h st' mean mean'.
  assert (Es : s2h = sqrt (2 * hbar)) by (unfold s2h; rewrite sqrt_mult by lra; reflexivity).
  split; [exact Es|]. split; [reflexivity|]. split; [reflexivity|].
  rewrite <- Es.
  assert (Hm' : forall i, (i < d)%nat ->
            List.nth i (st_m st') (c0 ROps) =
            if Nat.eqb i j then cadd ROps (List.nth i (st_m st) (c0 ROps)) (cmul ROps (creal ROps rr) (cexpi (cos phi) (sin phi)))
            else List.nth i (st_m st) (c0 ROps)).
  { intros i Hi. unfold st', step, apply_displacement, assign_vec, mkv. simpl st_m.
    rewrite nth_map_seq' by exact Hi. simpl pos.
    destruct (Nat.eqb i j) eqn:E; [|reflexivity].
    apply Nat.eqb_eq in E. subst i. unfold getv, read_vec, mkv. simpl. reflexivity. }
  assert (Hlen' : length (st_m st') = d).
  { unfold st', step, apply_displacement, assign_vec, mkv. simpl st_m.
    rewrite map_length, seq_length. reflexivity. }
  assert (Hx : forall (m : list (Cx R)) i, length m = d -> (i < d)%nat ->
            List.nth i (xxpp_mean ROps s2h m) 0 = fst (List.nth i m (c0 ROps)) * s2h /\
            List.nth (d + i) (xxpp_mean ROps s2h m) 0 = snd (List.nth i m (c0 ROps)) * s2h).
  { intros m i Hl Hi. unfold xxpp_mean. unfold Cx in *. split.
    - rewrite app_nth1 by (rewrite map_length, Hl; exact Hi).
      rewrite (nth_map_default _ _ (fun z : R * R => omul ROps (fst z) s2h) m i (c0 ROps) 0)
        by (rewrite Hl; exact Hi).
      reflexivity.
    - rewrite app_nth2 by (rewrite map_length, Hl; apply Nat.le_add_r). rewrite map_length, Hl.
      replace (d + i - d)%nat with i by (rewrite Nat.add_comm; symmetry; apply Nat.add_sub).
      rewrite (nth_map_default _ _ (fun z : R * R => omul ROps (snd z) s2h) m i (c0 ROps) 0)
        by (rewrite Hl; exact Hi).
      reflexivity. }
  unfold mean, mean'. split; [|split].
  - destruct (Hx (st_m st') j Hlen' Hj) as [-> _]. destruct (Hx (st_m st) j Hlen Hj) as [-> _].
    rewrite (Hm' j Hj), Nat.eqb_refl. cbn. ring.
  - destruct (Hx (st_m st') j Hlen' Hj) as [_ ->]. destruct (Hx (st_m st) j Hlen Hj) as [_ ->].
    rewrite (Hm' j Hj), Nat.eqb_refl. cbn. ring.
  - intros i Hi Hne.
    destruct (Hx (st_m st') i Hlen' Hi) as [-> ->]. destruct (Hx (st_m st) i Hlen Hi) as [-> ->].
    rewrite (Hm' i Hi). destruct (Nat.eqb_spec i j); [contradiction|]. split; reflexivity.
Qed.
