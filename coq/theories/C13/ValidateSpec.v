(* C13 — the declarative well-formedness predicate: a transcription of the property's list of
   rules, written without reference to the validator's loops.  Definitions only. *)
From Coq Require Import ZArith List Bool.
From PV Require Import C13.SimTypes C13.ValidateModel.
Import ListNotations.
Open Scope Z_scope.

(* shots is None, a positive int, or True (bool is an int in Python) *)
Definition ShotsOK (s : shots_t) : Prop :=
  s = SNone \/ (exists n, s = SInt n /\ 0 < n) \/ s = SBool true.

(* the simulator implements exactly this class *)
Definition Supported (T : simtab) (i : instr) : Prop := In (c_id (i_cls i)) (s_imap T).

(* every mode index lies in 0..d-1 *)
Definition InRange (d : Z) (i : instr) : Prop := forall m, In m (i_modes i) -> 0 <= m < d.

(* no mode is named twice *)
Definition Distinct (i : instr) : Prop := NoDup (i_modes i).

(* preparations, then everything else *)
Definition PrepsFirst (p : list instr) : Prop :=
  exists pre post, p = pre ++ post /\
    Forall (fun i => is_prep i = true) pre /\ Forall (fun i => is_prep i = false) post.

Definition IsInstance (i : instr) (classes : list Z) : Prop :=
  exists a, In a (c_anc (i_cls i)) /\ In a classes.

(* a measurement that is not the last instruction is of a class allowed mid-circuit *)
Definition MeasLast (T : simtab) (p : list instr) : Prop :=
  forall pre i post, p = pre ++ i :: post -> post <> [] -> is_meas i = true ->
    IsInstance i (s_mid T).

(* mode m has been measured by one of the instructions [pre] (a measurement without modes
   measures every mode) *)
Definition Measured (pre : list instr) (m : Z) : Prop :=
  exists k, In k pre /\ is_meas k = true /\ (i_modes k = [] \/ In m (i_modes k)).

(* no instruction addresses a mode that an earlier measurement has consumed *)
Definition ActiveModes (p : list instr) : Prop :=
  forall pre i post, p = pre ++ i :: post -> forall m, In m (i_modes i) -> ~ Measured pre m.

(* an instruction registered without modes acts on all modes still alive; if its class fixes
   NUMBER_OF_MODES, that is how many must be alive *)
Definition ActiveArity (d : Z) (p : list instr) : Prop :=
  forall pre i post, p = pre ++ i :: post -> i_modes i = [] ->
  forall n, c_nmodes (i_cls i) = Some n ->
  exists alive, NoDup alive /\ (forall m, In m alive <-> (0 <= m < d /\ ~ Measured pre m)) /\
                n = Z.of_nat (length alive).

(* with shots=None every measurement is of a class that supports it *)
Definition ShotsNoneOK (T : simtab) (s : shots_t) (p : list instr) : Prop :=
  s = SNone -> forall i, In i p -> is_meas i = true -> IsInstance i (s_none T).

(* a given initial state is of the simulator's state class and has d modes *)
Definition InitOK (T : simtab) (d : Z) (init : option (Z * Z)) : Prop :=
  match init with None => True | Some (c, d') => c = s_state T /\ d' = d end.

(* parameters known up front satisfy the instruction's documented constraints *)
Definition ParamsOK (validate : bool) (p : list instr) : Prop :=
  validate = true -> forall i, In i p -> i_resolved i = true -> i_pvalid i = true.

Record WellFormedAt (T : simtab) (r : request) (d : Z) : Prop := mkwf {
  wf_shots : ShotsOK (r_shots r);
  wf_d : eff_d (r_simd r) (r_prog r) = Some d;
  wf_supported : Forall (Supported T) (r_prog r);
  wf_range : Forall (InRange d) (r_prog r);
  wf_distinct : Forall Distinct (r_prog r);
  wf_preps : PrepsFirst (r_prog r);
  wf_meas : MeasLast T (r_prog r);
  wf_active : ActiveModes (r_prog r);
  wf_arity : ActiveArity d (r_prog r);
  wf_none : ShotsNoneOK T (r_shots r) (r_prog r);
  wf_init : InitOK T d (r_init r);
  wf_params : ParamsOK (r_validate r) (r_prog r)
}.

Definition WellFormed (T : simtab) (r : request) : Prop := exists d, WellFormedAt T r d.

(* the number of modes: given and non-zero, or one more than the largest mode addressed *)
Definition DSpec (simd : option Z) (p : list instr) (d : Z) : Prop :=
  (simd = Some d /\ d <> 0) \/
  ((simd = None \/ simd = Some 0) /\
   (forall i m, In i p -> In m (i_modes i) -> m < d) /\
   (exists i m, In i p /\ In m (i_modes i) /\ d = m + 1)).

(* an oracle that never raises *)
Definition Benign (Orc : oracle) : Prop :=
  forall n, a_cond (Orc n) <> None /\ a_resolve (Orc n) = true /\ a_valid (Orc n) = true /\
            a_step (Orc n) <> None.
