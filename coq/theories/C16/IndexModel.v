(* C16 - executable model of the index machinery used to apply a gate on a subset of modes.
   Definitions only (no proofs).

   piquasso/_math/indices.py                       : get_auxiliary_modes
   piquasso/_simulators/fock/simulation_steps.py   : nb_calculate_index_list_for_appling_interferometer,
                                                     nb_calculate_state_index_matrix_list,
                                                     get_projection_operator_indices
   piquasso/_simulators/connectors/connections.py  : _nb_calculate_index_list_for_appling_interferometer
                                                     (fermionic twin, same loops over the fermionic basis)
   piquasso/_simulators/fock/pure/simulation_steps/passive_linear.py :
                                                     _calculate_state_vector_after_interferometer *)
From Coq Require Import ZArith List Bool Lia.
From PV Require Import Comb.FockModel Comb.FermiModel.
Import ListNotations.
Open Scope Z_scope.

(* ---- in-place writes into a buffer (numpy item assignment) ---- *)
Fixpoint upd {X} (l : list X) (i : nat) (x : X) : list X :=
  match l, i with
  | [], _ => []
  | _ :: r, O => x :: r
  | a :: r, S j => a :: upd r j x
  end.

(* for idx, mode in enumerate(modes): buf[mode] = vals[idx] *)
Definition scatter {X} (buf : list X) (ms : list nat) (vals : list X) : list X :=
  fold_left (fun b mx => upd b (fst mx) (snd mx)) (combine ms vals) buf.

(* v[modes,] *)
Definition gather {X} (dflt : X) (v : list X) (ms : list nat) : list X :=
  map (fun m => nth m v dflt) ms.

Definition gz := gather 0.

Definition mem_nat (i : nat) (ms : list nat) : bool := existsb (Nat.eqb i) ms.

(* indices.py:get_auxiliary_modes  = np.delete(np.arange(d), modes) : ascending complement *)
Definition aux_modes (d : nat) (ms : list nat) : list nat :=
  filter (fun i => negb (mem_nat i ms)) (seq 0 d).

Definition zeros (d : nat) : list Z := repeat 0 d.

(* a[lo:hi] *)
Definition slice {X} (l : list X) (lo hi : Z) : list X :=
  skipn (Z.to_nat lo) (firstn (Z.to_nat hi) l).

(* ---- nb_calculate_index_list_for_appling_interferometer ----
   The buffer all_occupation_numbers is shared by all iterations, as in the code:
   the loops thread it through.  One matrix per particle number n on the addressed modes;
   the matrix is produced column by column (idx1 = auxiliary vector), each column running
   over the n-particle vectors on the addressed modes (idx2).  The model returns every
   matrix as the list of its COLUMNS (numpy: matrix.T.tolist()). *)
Section IndexList.
  Variable index_of : list Z -> Z.        (* get_index_in_fock_space / get_fock_space_index *)

  (* for idx2, u in enumerate(n_particle_subspace): write u on modes; index *)
  Fixpoint column_loop (ms : list nat) (buf : list Z) (us : list (list Z)) : list Z * list Z :=
    match us with
    | [] => (buf, [])
    | u :: r =>
        let buf' := scatter buf ms u in
        let '(b, col) := column_loop ms buf' r in
        (b, index_of buf' :: col)
    end.

  (* for idx1, w in enumerate(auxiliary_subspace[:auxiliary_size]): write w on auxiliary modes *)
  Fixpoint matrix_loop (ms aux : list nat) (buf : list Z) (us ws : list (list Z))
    : list Z * list (list Z) :=
    match ws with
    | [] => (buf, [])
    | w :: r =>
        let buf1 := scatter buf aux w in
        let '(buf2, col) := column_loop ms buf1 us in
        let '(b, cols) := matrix_loop ms aux buf2 us r in
        (b, col :: cols)
    end.

  Variable space : nat -> nat -> list (list Z)  (* get_fock_space_basis(d, cutoff) *).
  Variable dim : Z -> Z -> Z.                   (* cutoff_fock_space_dim(cutoff, d) *)

  (* for n in range(cutoff) *)
  Fixpoint n_loop (ms aux : list nat) (k daux : nat) (cutoff : nat) (buf : list Z) (ns : list nat)
    : list (list (list Z)) :=
    match ns with
    | [] => []
    | n :: r =>
        let subspace := space k cutoff in
        let auxiliary_subspace := space daux cutoff in
        let us := slice subspace (dim (Z.of_nat n) (Z.of_nat k)) (dim (Z.of_nat n + 1) (Z.of_nat k)) in
        let ws := firstn (Z.to_nat (dim (Z.of_nat cutoff - Z.of_nat n) (Z.of_nat daux))) auxiliary_subspace in
        let '(buf', m) := matrix_loop ms aux buf us ws in
        m :: n_loop ms aux k daux cutoff buf' r
    end.

  Definition index_list_gen (ms : list nat) (d cutoff : nat) : list (list (list Z)) :=
    let k := length ms in
    n_loop ms (aux_modes d ms) k (d - k) cutoff (zeros d) (seq 0 cutoff).
End IndexList.

(* bosonic instance: fock/simulation_steps.py *)
Definition index_list (ms : list nat) (d cutoff : nat) : list (list (list Z)) :=
  index_list_gen fock_index basis cutoff_dim ms d cutoff.

(* fermionic instance: connectors/connections.py (basis of 0/1 vectors, fermionic index,
   fermionic cutoff dimension takes (d, cutoff) in this order) *)
Definition f_index_list (ms : list nat) (d cutoff : nat) : list (list (list Z)) :=
  index_list_gen f_index (fun d c => f_basis d (Z.of_nat c)) (fun c d => f_cutoff_dim d c) ms d cutoff.

(* ---- the clean specification the theorems are about ---- *)
(* occupation vector on d modes with u on the addressed modes and w on the auxiliary ones *)
Definition merge (d : nat) (ms : list nat) (u w : list Z) : list Z :=
  scatter (scatter (zeros d) (aux_modes d ms) w) ms u.

Definition index_list_spec (ms : list nat) (d cutoff : nat) : list (list (list Z)) :=
  let k := length ms in
  map (fun n =>
         map (fun w => map (fun u => fock_index (merge d ms u w)) (sector k n))
             (basis (d - k) (cutoff - n)))
      (seq 0 cutoff).

Definition flatten3 {X} (l : list (list (list X))) : list X := concat (concat l).

(* ---- nb_calculate_state_index_matrix_list(d, cutoff, mode) ----
   one matrix per auxiliary particle number n: rows j < cutoff - n (occupation of `mode`),
   columns i over the n-particle auxiliary vectors.  Returned as the list of columns. *)
Fixpoint siml_j_loop (mode : nat) (buf : list Z) (js : list nat) : list Z * list Z :=
  match js with
  | [] => (buf, [])
  | j :: r =>
      let buf' := upd buf mode (Z.of_nat j) in
      let '(b, col) := siml_j_loop mode buf' r in
      (b, fock_index buf' :: col)
  end.

Fixpoint siml_i_loop (mode : nat) (aux : list nat) (buf : list Z) (limit : nat) (ws : list (list Z))
  : list Z * list (list Z) :=
  match ws with
  | [] => (buf, [])
  | w :: r =>
      let buf1 := scatter buf aux w in
      let '(buf2, col) := siml_j_loop mode buf1 (seq 0 limit) in
      let '(b, cols) := siml_i_loop mode aux buf2 limit r in
      (b, col :: cols)
  end.

Fixpoint siml_n_loop (mode : nat) (aux : list nat) (d cutoff : nat) (buf : list Z) (ns : list nat)
  : list (list (list Z)) :=
  match ns with
  | [] => []
  | n :: r =>
      let ws := slice (basis (d - 1) cutoff) (cutoff_dim (Z.of_nat n) (Z.of_nat (d - 1)))
                      (cutoff_dim (Z.of_nat n + 1) (Z.of_nat (d - 1))) in
      let '(buf', m) := siml_i_loop mode aux buf (cutoff - n) ws in
      m :: siml_n_loop mode aux d cutoff buf' r
  end.

Definition state_index_matrix_list (d cutoff mode : nat) : list (list (list Z)) :=
  siml_n_loop mode (aux_modes d [mode]) d cutoff (zeros d) (seq 0 cutoff).

Definition state_index_matrix_list_spec (d cutoff mode : nat) : list (list (list Z)) :=
  map (fun n =>
         map (fun w => map (fun j => fock_index (merge d [mode] [Z.of_nat j] w)) (seq 0 (cutoff - n)))
             (sector (d - 1) n))
      (seq 0 cutoff).

(* ---- get_projection_operator_indices(d, cutoff, modes, basis_vector) ----
   basis[:, modes] = basis_vector ; basis[:, auxiliary_modes] = auxiliary_subspace ;
   vectorised index (int32 accumulators: None on overflow, see Comb.FockModel). *)
Definition projection_indices (d cutoff : nat) (ms : list nat) (bv : list Z) : list (option Z) :=
  let new_cutoff := Z.to_nat (Z.of_nat cutoff - sumZ bv) in
  let boxes := (d - length ms)%nat in
  map (fun w => fock_index_arr (merge d ms bv w)) (basis boxes new_cutoff).

Definition projection_indices_spec (d cutoff : nat) (ms : list nat) (bv : list Z) : list Z :=
  map (fun w => fock_index (merge d ms bv w))
      (basis (d - length ms) (Z.to_nat (Z.of_nat cutoff - sumZ bv))).

(* ---- _calculate_state_vector_after_interferometer ----
   new = empty_like(state); for n, indices: new[indices] = T_n @ state[indices]
   (einsum "ij,jk->ik"); matrices given by columns as above: column c of `indices` is the
   list over i of indices[i, c]. *)
Section Apply.
  Variable A : Type.
  Variable (a0 : A) (aadd amul : A -> A -> A).

  Definition dot (r x : list A) : A :=
    fold_right aadd a0 (map (fun p => amul (fst p) (snd p)) (combine r x)).

  Definition matvec (T : list (list A)) (x : list A) : list A := map (fun r => dot r x) T.

  Definition zposs (col : list Z) : list nat := map Z.to_nat col.

  (* one column of one sector: new[col] = T @ state[col] *)
  Definition apply_column (T : list (list A)) (state : list A) (new : list A) (col : list Z) : list A :=
    scatter new (zposs col) (matvec T (gather a0 state (zposs col))).

  Definition apply_sector (T : list (list A)) (state : list A) (new : list A) (cols : list (list Z)) : list A :=
    fold_left (apply_column T state) cols new.

  Definition apply_index_list (il : list (list (list Z))) (Ts : list (list (list A)))
             (state : list A) : list A :=
    fold_left (fun new p => apply_sector (snd p) state new (fst p)) (combine il Ts)
              (repeat a0 (length state)).
End Apply.
