"""C20 helpers that must run under the interpreter whose `ast` piquasso uses:
serialisation of a CPython eval-mode tree to a term of coq/theories/C20/Ast.v, an independent
recogniser of the property's grammar, and a magnitude bound used to skip resource-hungry cases.

Fail-closed: a node class or field the serialiser does not know raises SerialiseError."""
import ast
import math


class SerialiseError(Exception):
    pass


BINOP = {"Add", "Sub", "Mult", "MatMult", "Div", "Mod", "Pow", "LShift", "RShift", "BitOr",
         "BitXor", "BitAnd", "FloorDiv"}
UNARYOP = {"Invert", "Not", "UAdd", "USub"}
BOOLOP = {"And", "Or"}
CMPOP = {"Eq": "Eq", "NotEq": "NotEq", "Lt": "Lt", "LtE": "LtE", "Gt": "Gt", "GtE": "GtE",
         "Is": "Is", "IsNot": "IsNot", "In": "In_", "NotIn": "NotIn"}
CTX = {"Load", "Store", "Del"}
OTHER = {"NamedExpr", "Lambda", "IfExp", "Dict", "Set", "ListComp", "SetComp", "DictComp",
         "GeneratorExp", "Await", "Yield", "YieldFrom", "Call", "FormattedValue", "JoinedStr",
         "Attribute", "Starred", "comprehension", "arguments", "arg", "keyword"}


def coq_z(n):
    return "(%d)" % n if n < 0 else "%d" % n


def coq_string(s):
    if '"' in s or "\\" in s or "\n" in s:
        raise SerialiseError("identifier not representable: %r" % s)
    return '"%s"' % s


def coq_spec_float(x):
    if math.isnan(x):
        return "S754_nan"
    if math.isinf(x):
        return "(S754_infinity %s)" % ("true" if x < 0 else "false")
    sign = "true" if math.copysign(1.0, x) < 0 else "false"
    if x == 0:
        return "(S754_zero %s)" % sign
    m, e = math.frexp(abs(x))
    mi = int(m * (1 << 53))
    ei = e - 53
    assert math.ldexp(mi, ei) == abs(x)
    # subnormals: strip trailing zero bits so that the mantissa stays canonical enough for SF2Prim
    while mi % 2 == 0 and ei < -1074:
        mi //= 2
        ei += 1
    return "(S754_finite %s %d %s)" % (sign, mi, coq_z(ei))


def coq_const(v):
    if v is True or v is False:
        return "(CBool %s)" % ("true" if v else "false")
    if type(v) is int:
        return "(CInt %s)" % coq_z(v)
    if type(v) is float:
        return "(CFloat %s)" % coq_spec_float(v)
    if type(v) is complex:
        return "CComplex"
    if type(v) is str:
        return "CStr"
    if type(v) is bytes:
        return "CBytes"
    if v is None:
        return "CNone"
    if v is Ellipsis:
        return "CEllipsis"
    raise SerialiseError("constant of type %s" % type(v).__name__)


def _ctx(c):
    n = type(c).__name__
    if n not in CTX:
        raise SerialiseError("context " + n)
    return n


def _list(xs):
    return "[" + "; ".join(xs) + "]"


def _opt(e):
    return "None" if e is None else "(Some %s)" % ser(e)


def ser(n):
    """ast node -> Coq term of type expr (iterative depth is bounded by the parser's own limits)."""
    t = type(n)
    name = t.__name__
    if t is ast.Constant:
        return "(Constant %s)" % coq_const(n.value)
    if t is ast.Name:
        return "(Name %s %s)" % (coq_string(n.id), _ctx(n.ctx))
    if t is ast.Tuple:
        return "(Tuple %s %s)" % (_list([ser(e) for e in n.elts]), _ctx(n.ctx))
    if t is ast.List:
        return "(EList %s %s)" % (_list([ser(e) for e in n.elts]), _ctx(n.ctx))
    if t is ast.UnaryOp:
        o = type(n.op).__name__
        if o not in UNARYOP:
            raise SerialiseError("unary operator " + o)
        return "(UnaryOp %s %s)" % (o, ser(n.operand))
    if t is ast.BinOp:
        o = type(n.op).__name__
        if o not in BINOP:
            raise SerialiseError("binary operator " + o)
        return "(BinOp %s %s %s)" % (ser(n.left), o, ser(n.right))
    if t is ast.BoolOp:
        o = type(n.op).__name__
        if o not in BOOLOP:
            raise SerialiseError("boolean operator " + o)
        return "(BoolOp %s %s)" % (o, _list([ser(e) for e in n.values]))
    if t is ast.Compare:
        ops = []
        for o in n.ops:
            on = type(o).__name__
            if on not in CMPOP:
                raise SerialiseError("comparison operator " + on)
            ops.append(CMPOP[on])
        return "(Compare %s %s %s)" % (ser(n.left), _list(ops), _list([ser(e) for e in n.comparators]))
    if t is ast.Subscript:
        return "(Subscript %s %s %s)" % (ser(n.value), ser(n.slice), _ctx(n.ctx))
    if t is ast.Slice:
        return "(Slice %s %s %s)" % (_opt(n.lower), _opt(n.upper), _opt(n.step))
    if name in OTHER:
        kids = []
        for c in ast.iter_child_nodes(n):
            if isinstance(c, (ast.expr_context, ast.operator, ast.unaryop, ast.boolop, ast.cmpop)):
                continue
            kids.append(ser(c))
        return "(Other O%s %s)" % (name[0].upper() + name[1:], _list(kids))
    raise SerialiseError("node class " + name)


def parse(src):
    """What Expression.__init__ parses: ast.parse(src.strip(), mode='eval')."""
    return ast.parse(src.strip(), mode="eval")


# ---------------------------------------------------------------- independent grammar recogniser
G_BIN = (ast.Add, ast.Sub, ast.Mult, ast.Div, ast.Mod, ast.Pow, ast.BitXor)
G_UN = (ast.UAdd, ast.USub, ast.Not)
G_CMP = (ast.Eq, ast.NotEq, ast.Lt, ast.LtE, ast.Gt, ast.GtE)


def _proper_slice(s):
    return all(p is None or in_grammar(p) for p in (s.lower, s.upper, s.step))


def in_grammar(n):
    """The language of the property text, written by recursion on the expression only (no
    ast.walk, no whitelist of classes): numbers and booleans, x, displays, indexing/slicing,
    + - * / % ** ^, unary + - not, the six comparisons, and/or."""
    t = type(n)
    if t is ast.Constant:
        return type(n.value) in (int, float, bool)
    if t is ast.Name:
        return n.id == "x" and type(n.ctx) is ast.Load
    if t in (ast.Tuple, ast.List):
        return type(n.ctx) is ast.Load and all(in_grammar(e) for e in n.elts)
    if t is ast.UnaryOp:
        return type(n.op) in G_UN and in_grammar(n.operand)
    if t is ast.BinOp:
        return type(n.op) in G_BIN and in_grammar(n.left) and in_grammar(n.right)
    if t is ast.BoolOp:
        return type(n.op) in (ast.And, ast.Or) and all(in_grammar(e) for e in n.values)
    if t is ast.Compare:
        return (all(type(o) in G_CMP for o in n.ops) and in_grammar(n.left)
                and all(in_grammar(e) for e in n.comparators))
    if t is ast.Subscript:
        if type(n.ctx) is not ast.Load or not in_grammar(n.value):
            return False
        s = n.slice
        if type(s) is ast.Slice:
            return _proper_slice(s)
        if type(s) is ast.Tuple and any(type(e) is ast.Slice for e in s.elts):
            return type(s.ctx) is ast.Load and all(
                _proper_slice(e) if type(e) is ast.Slice else in_grammar(e) for e in s.elts)
        return in_grammar(s)
    return False


def offender(n):
    """Name of the first construct (breadth-first) that puts a tree outside the grammar."""
    for m in ast.walk(n):
        t = type(m)
        if t is ast.Constant:
            if type(m.value) not in (int, float, bool):
                return "Constant:" + type(m.value).__name__
        elif t is ast.Name:
            if m.id != "x":
                return "Name:other"
        elif isinstance(m, (ast.operator, ast.unaryop, ast.cmpop)):
            if t not in G_BIN + G_UN + G_CMP:
                return t.__name__
        elif isinstance(m, ast.expr_context):
            if t is not ast.Load:
                return t.__name__
        elif t not in (ast.Tuple, ast.List, ast.UnaryOp, ast.BinOp, ast.BoolOp, ast.Compare,
                       ast.Subscript, ast.Slice, ast.And, ast.Or):
            return t.__name__
    return "?"


def has_slice_in_tuple(n):
    for m in ast.walk(n):
        if isinstance(m, ast.Subscript) and isinstance(m.slice, ast.Tuple) and any(
                isinstance(e, ast.Slice) for e in m.slice.elts):
            return True
    return False


# ---------------------------------------------------------------- magnitude bound
INF = float("inf")
LIMIT = 1 << 2048


def bound(n, xb=4):
    """Upper bound on |value| and on the length of any value of a grammar expression when the
    outcome tuple has at most xb entries of magnitude at most xb.  INF = do not evaluate."""
    t = type(n)
    if t is ast.Constant:
        v = n.value
        if isinstance(v, float):
            return INF if (math.isinf(v) or math.isnan(v)) else max(1, int(abs(v)) + 1)
        return max(1, abs(int(v)))
    if t is ast.Name:
        return xb
    if t in (ast.Tuple, ast.List):
        return max([len(n.elts), 1] + [bound(e, xb) for e in n.elts])
    if t is ast.UnaryOp:
        return bound(n.operand, xb)
    if t is ast.BinOp:
        a, b = bound(n.left, xb), bound(n.right, xb)
        if a == INF or b == INF:
            return INF
        if t is ast.BinOp and type(n.op) is ast.Pow:
            if b > 64 or a > (1 << 64):
                return INF
            r = max(a, 2) ** b
        elif type(n.op) is ast.Mult:
            r = a * b
        else:
            r = a + b + 1  # + - / % ^ : bounded by the sum (1/0.5 doubles: covered by entries >= 0.5)
            if type(n.op) is ast.Div:
                r = 2 * a + 1
        return r if r <= LIMIT else INF
    if t is ast.BoolOp:
        return max(bound(e, xb) for e in n.values)
    if t is ast.Compare:
        return max([bound(n.left, xb)] + [bound(e, xb) for e in n.comparators])
    if t is ast.Subscript:
        parts = [bound(n.value, xb)]
        s = n.slice
        for e in ([s.lower, s.upper, s.step] if type(s) is ast.Slice else [s]):
            if e is not None:
                parts.append(bound(e, xb))
        return max(parts)
    if t is ast.Slice:
        return max([1] + [bound(e, xb) for e in (n.lower, n.upper, n.step) if e is not None])
    return INF
