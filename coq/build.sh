#!/bin/bash
# full .vo build of the Coq development (or of the given targets)
set -e
cd "$(dirname "$0")"
{ cat _CoqProject.head; find theories -name '*.v' | sort; } > _CoqProject
coq_makefile -f _CoqProject -o Makefile.coq >/dev/null
if [ $# -eq 0 ]; then
  timeout 3000 make -f Makefile.coq -j16 2>&1
else
  timeout 3000 make -f Makefile.coq -j16 "$@" 2>&1
fi
