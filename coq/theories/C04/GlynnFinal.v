(* C04 -- the Glynn/BBFG identity with multiplicities in the exact form used by the model
   ([glynn_mult_statement] of C04/FinalProofs.v), proved from the plain Glynn formula
   (C04/GlynnPlain.v) and the grouping of sign vectors (C04/GlynnMult.v); consequently the
   two formerly partial theorems hold without any hypothesis. *)
From Coq Require Import ZArith List Bool Lia ZifyBool Ring Permutation.
From PV Require Import Comb.Binom C04.PermModel C04.PermProofs C04.LoopProofs C04.GrayProofs C04.SumProofs
  C04.FinalProofs C04.LaplaceProofs C04.GlynnPlain C04.GlynnMult.
Import ListNotations.
Local Close Scope Z_scope.
Local Open Scope nat_scope.

(* ---- expanded lists *)
Lemma map_repeat' {X Y} (f : X -> Y) x : forall k, map f (repeat x k) = repeat (f x) k.
Proof. induction k as [|k IH]; cbn; [reflexivity|]. now rewrite IH. Qed.

Lemma map_expand {X Y} (f : X -> Y) : forall l m, map f (expand l m) = expand (map f l) m.
Proof.
  induction l as [|x l IH]; intros [|k m]; cbn [expand map]; try reflexivity.
  now rewrite map_app, map_repeat', IH.
Qed.

Lemma length_expand {X} : forall (l : list X) m, length l = length m -> length (expand l m) = sum_nat m.
Proof.
  induction l as [|x l IH]; intros [|k m] H; cbn in H; try lia; [reflexivity|].
  cbn [expand]. rewrite app_length, repeat_length, IH, sum_nat_cons by lia. reflexivity.
Qed.

Lemma expand_split {X} (d : X) : forall l m i0, length l = length m -> i0 < length m -> 1 <= nth i0 m 0 ->
  exists R1 R2, expand l m = R1 ++ nth i0 l d :: R2 /\ expand l (dec_nth i0 m) = R1 ++ R2.
Proof.
  induction l as [|x l IH]; intros [|k m] i0 Hl Hi Hge; cbn in Hl, Hi; try lia.
  destruct i0 as [|i0].
  - cbn [nth] in *. exists [], (repeat x (k - 1) ++ expand l m). cbn [dec_nth expand app]. split; [|reflexivity].
    destruct k; [lia|]. replace (S k - 1) with k by lia. reflexivity.
  - cbn [nth] in *. destruct (IH m i0 ltac:(lia) ltac:(lia) Hge) as (R1 & R2 & E1 & E2).
    exists (repeat x k ++ R1), R2. cbn [dec_nth expand]. rewrite E1, E2, !app_assoc. auto.
Qed.

Section Final.
Variable A : Type.
Variables (rO rI : A) (radd rmul rsub : A -> A -> A) (ropp : A -> A).
Hypothesis Rth : ring_theory rO rI radd rmul rsub ropp (@eq A).
Add Ring AringF : Rth.

Notation sumA' := (sumA A rO radd).
Notation ofZ' := (ofZ A rO rI radd rmul ropp).
Notation pw' := (pw A rI rmul).
Notation Gd' := (Gd A rI radd rmul rsub).
Notation permF' := (permF A rO rI radd rmul).
Notation colf' := (colf A rO rI radd rmul ropp).
Notation vadd' := (vadd A radd).
Notation vscale' := (vscale A rmul).
Notation colsum' := (colsum_init A rO rI radd rmul ropp).
Notation two := (radd rI rI).

(* a row as a function of the column *)
Definition fn (l : list A) : nat -> A := fun j => nth j l rO.

Lemma fn_vadd : forall u v j, length u = length v -> fn (vadd' u v) j = radd (fn u j) (fn v j).
Proof.
  unfold fn. induction u as [|a u IH]; intros [|b v] j H; cbn in H; try lia.
  - destruct j; cbn; ring.
  - destruct j; cbn; [reflexivity|]. apply IH. lia.
Qed.

Lemma fn_vscale k : forall v j, fn (vscale' k v) j = rmul k (fn v j).
Proof.
  unfold fn, vscale. induction v as [|b v IH]; intros j; [destruct j; cbn; ring|].
  destruct j; cbn; [reflexivity|]. apply IH.
Qed.

Lemma vadd_len : forall u v, length u = length v -> length (vadd' u v) = length u.
Proof. induction u as [|a u IH]; intros [|b v] H; cbn in *; try lia. rewrite IH; lia. Qed.

Lemma colf_ext : forall Mf u u' r g, (forall j, u j = u' j) -> forall j, colf' u Mf r g j = colf' u' Mf r g j.
Proof.
  induction Mf as [|rho Mf IH]; intros u u' r g H j; [apply H|].
  destruct r as [|ri r]; [apply H|]. destruct g as [|gi g]; [apply H|].
  cbn [colf]. apply IH. intros. now rewrite H.
Qed.

(* the column sums of the model, as functions *)
Lemma colsum_fn : forall rest row0 r g,
  Forall (fun row => length row = length row0) rest ->
  length (colsum' row0 rest r g) = length row0 /\
  forall j, fn (colsum' row0 rest r g) j = colf' (fn row0) (map fn rest) r g j.
Proof.
  induction rest as [|row rest IH]; intros row0 r g Hall; [split; reflexivity|].
  destruct r as [|ri r]; [split; reflexivity|]. destruct g as [|gi g]; [split; reflexivity|].
  inversion Hall as [|? ? Hrow Hall']; subst.
  cbn [colsum_init map colf].
  set (row0' := vadd' row0 (vscale' (ofZ' (Z.of_nat ri - 2 * Z.of_nat gi)) row)).
  assert (L : length row0' = length row0).
  { unfold row0'. apply vadd_len. unfold vscale. now rewrite map_length. }
  destruct (IH row0' r g) as [H1 H2].
  { rewrite L. exact Hall'. }
  split; [now rewrite H1|].
  intros j. rewrite H2. apply colf_ext. intros k. unfold row0'.
  rewrite fn_vadd by (unfold vscale; now rewrite map_length). now rewrite fn_vscale.
Qed.

(* products of powers of the column sums as a product over the expanded list of columns *)
Lemma pw_app x : forall a b, pw' x (a ++ b) = rmul (pw' x a) (pw' x b).
Proof. induction a as [|j a IH]; intros b; cbn; [ring|]. rewrite IH. ring. Qed.

Lemma pw_repeat x j : forall c, pw' x (repeat j c) = rpow A rI rmul (x j) c.
Proof. induction c as [|c IH]; cbn; [reflexivity|]. now rewrite IH. Qed.

Lemma pw_expand (f : nat -> A) : forall ct s,
  pw' f (expand (seq s (length ct)) ct) = prod_pow A rI rmul (map f (seq s (length ct))) ct.
Proof.
  induction ct as [|c ct IH]; intros s; [reflexivity|].
  cbn [length seq expand map prod_pow]. now rewrite pw_app, pw_repeat, IH.
Qed.

Lemma map_fn_seq cs : map (fn cs) (seq 0 (length cs)) = cs.
Proof.
  apply (nth_ext _ _ rO rO); [now rewrite map_length, seq_length|].
  intros n Hn. rewrite map_length, seq_length in Hn. now rewrite nth_map_seq.
Qed.

Lemma prod_pow_pw cs ct : length cs = length ct ->
  prod_pow A rI rmul cs ct = pw' (fn cs) (expand (seq 0 (length ct)) ct).
Proof. intros H. rewrite pw_expand, <- H, map_fn_seq. reflexivity. Qed.

(* the defining permanent with rows as functions *)
Lemma perm_aux_permF : forall rows av, perm_aux A rO rI radd rmul rows av = permF' (map fn rows) av.
Proof.
  induction rows as [|row rows IH]; intros av; [reflexivity|].
  cbn [perm_aux map permF]. f_equal. apply map_ext. intros k. now rewrite IH.
Qed.

Lemma vsum_singletons {X} (t : X -> A) : forall l,
  vsum A rO radd 1 (map (fun g => [t g]) l) = [sumA' (map t l)].
Proof.
  induction l as [|x l IH]; [reflexivity|].
  cbn [map]. change (vsum A rO radd 1 ([t x] :: map (fun g => [t g]) l))
    with (vadd' [t x] (vsum A rO radd 1 (map (fun g => [t g]) l))).
  now rewrite IH.
Qed.

(* ---- the Glynn/BBFG identity with multiplicities *)
Theorem glynn_mult_proved : glynn_mult_statement A rO rI radd rmul ropp.
Proof.
  intros M rows cols i0 Hlen Hrows Hsum Hi0 Hge.
  set (av := expand (seq 0 (length cols)) cols).
  set (row0 := nth i0 M []).
  set (r' := dec_nth i0 rows).
  assert (Lav : length av = sum_nat cols) by (apply length_expand; now rewrite seq_length).
  assert (Lrow0 : length row0 = length cols).
  { unfold row0. rewrite Forall_forall in Hrows. apply Hrows. apply nth_In. lia. }
  (* right-hand side: the model's Glynn sum is the signed sum over the expanded rows *)
  assert (RHS : nth 0 (glynn_sum A rO rI radd rmul ropp (prods_perm A rI rmul cols) 1 row0 M r') rO
                = Gd' (expand (map fn M) r') (fn row0) av).
  { unfold glynn_sum.
    rewrite (map_ext (glynn_term A rO rI radd rmul ropp (prods_perm A rI rmul cols) row0 M r')
               (fun g => [rmul (rmul (sg A rI ropp (sum_nat g)) (ofZ' (binom_prod r' g)))
                               (pw' (colf' (fn row0) (map fn M) r' g) av)])).
    2:{ intros g.
        destruct (colsum_fn M row0 r' g) as [H1 H2].
        { rewrite Lrow0. exact Hrows. }
        unfold glynn_term, addend, prods_perm, vscale. cbn [map]. f_equal. f_equal.
        rewrite prod_pow_pw by lia. fold av. now apply pw_ext. }
    rewrite vsum_singletons. cbn [nth].
    rewrite (Gd_expand A rO rI radd rmul rsub ropp Rth); [reflexivity|].
    unfold r'. now rewrite map_length, dec_nth_length. }
  rewrite RHS.
  (* left-hand side: plain Glynn on the expanded matrix, then move the split row to the base *)
  unfold perm_def. fold av. rewrite perm_aux_permF, map_expand.
  destruct (expand_split (fn []) (map fn M) rows i0) as (R1 & R2 & E1 & E2);
    [now rewrite map_length | exact Hi0 | exact Hge |].
  rewrite (map_nth fn M [] i0) in E1. fold row0 in E1. fold r' in E2.
  assert (Lexp : length (expand (map fn M) rows) = sum_nat rows)
    by (apply length_expand; now rewrite map_length).
  pose proof (Gd_rotate A rO rI radd rmul rsub ropp Rth R1 R2 (fn row0) av) as Hrot.
  rewrite <- E1, <- E2 in Hrot.
  destruct (expand (map fn M) rows) as [|h tl] eqn:EX.
  { destruct R1; discriminate. }
  cbn [length] in Lexp.
  rewrite <- Hrot by (cbn [length]; lia).
  rewrite (glynn_plain A rO rI radd rmul rsub ropp Rth tl h av) by lia.
  replace (sum_nat rows - 1) with (length tl) by lia. reflexivity.
Qed.

(* ---- the kernels equal the defining sums: no hypothesis left *)
Theorem perm_loop_correct wb w threads M rows cols num e :
  length M = length rows -> Forall (fun row => length row = length cols) M ->
  1 <= threads -> weight_n wb w (sum_nat rows) ->
  permanent_cpp A rO rI radd rmul ropp wb w threads M rows cols = Ok (num, e) ->
  rmul (rpow A rI rmul two e) (perm_def A rO rI radd rmul M rows cols) = num.
Proof. exact (perm_loop_correct_partial A rO rI radd rmul rsub ropp Rth wb glynn_mult_proved w threads M rows cols num e). Qed.

Theorem laplace_correct wb w threads M rows cols l e :
  length M = length rows -> Forall (fun row => length row = length cols) M ->
  1 <= threads -> weight_n wb w (sum_nat rows) ->
  1 <= sum_nat rows -> sum_nat cols = S (sum_nat rows) ->
  permanent_laplace_cpp A rO rI radd rmul ropp wb w threads M rows cols = Ok (l, e) ->
  forall j, j < length cols -> 1 <= nth j cols 0 ->
    rmul (rpow A rI rmul two e) (perm_def A rO rI radd rmul M rows (dec_nth j cols)) = nth j l rO.
Proof. exact (laplace_correct_partial A rO rI radd rmul rsub ropp Rth wb glynn_mult_proved w threads M rows cols l e). Qed.

End Final.
