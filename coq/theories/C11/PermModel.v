(* C11 (b) — model of the body of permanent_cpp / permanent_laplace_cpp
   (/repo/src/permanent.cpp, /repo/src/permanent_laplace.cpp) over a ring given by its
   operations, with the job loop of GrayModel.v.  Definitions only.
   The `int` arithmetic of binomial_coeff is modelled with unbounded Z (its overflow is the
   subject of C04, not of this property). *)
From Coq Require Import ZArith List Bool.
From PV Require Import C11.GrayModel.
Import ListNotations.
Open Scope Z_scope.

(* utils.hpp:binomialCoeff<int> *)
Fixpoint binom_loop (fuel : nat) (i n k result : Z) : Z :=
  match fuel with
  | O => result
  | S f =>
      if k <? i then result
      else binom_loop f (i + 1) n k
             ((result / i) * (n - k + i) + (result mod i) * (n - k + i) / i)
  end.
Definition binomialCoeff (n k : Z) : Z :=
  if (k <? 0) || (n <? 0) || (n <? k) then 0
  else if (k =? 0) || (k =? n) then 1
  else let k' := if n - k <? k then n - k else k in
       binom_loop (Z.to_nat k') 1 n k' 1.

Section Perm.
  Variable R : Type.
  Variable rO rI : R.
  Variable radd rmul : R -> R -> R.
  Variable ofZ : Z -> R.                       (* static_cast<T>(int) *)

  Fixpoint rpow (x : R) (n : nat) : R :=
    match n with O => rI | S m => rmul (rpow x m) x end.

  Definition row := list R.

  (* permanent_cpp, the block "if (rows.size() > 0 && minelem != 0)": find the first row of
     least non-zero multiplicity, put a copy of it in front with multiplicity 1 and take
     one from its multiplicity *)
  Fixpoint find_min (rows : list Z) (i : nat) (minelem : Z) (min_idx : nat) : Z * nat :=
    match rows with
    | [] => (minelem, min_idx)
    | r :: rest =>
        if (minelem =? 0) || ((r <? minelem) && negb (r =? 0))
        then find_min rest (S i) r i
        else find_min rest (S i) minelem min_idx
    end.

  Definition preprocess (A : list row) (rows : list Z) : list row * list Z :=
    let '(minelem, min_idx) := find_min rows 0 0 0 in
    match rows with
    | [] => (A, rows)
    | _ => if minelem =? 0 then (A, rows)
           else (nth min_idx A [] :: A,
                 1 :: upd rows min_idx (nth min_idx rows 0 - 1))
    end.

  (* the running state of one job *)
  Record pstate := mkP { p_colsum : list R; p_binom : Z; p_parity : Z }.

  (* "calculate the initial column sum and binomial coefficient" (A is the expanded matrix:
     row 0 has multiplicity 1, rows 1.. carry the Gray digits) *)
  Fixpoint init_colsum (cs : list R) (Arest : list row) (mult g : list Z) : list R :=
    match Arest, mult, g with
    | a :: Ar, m :: ms, x :: gs =>
        init_colsum (map (fun '(c, aij) => radd c (rmul aij (ofZ (m - 2 * x)))) (combine cs a))
                    Ar ms gs
    | _, _, _ => cs
    end.

  Fixpoint init_binom (mult g : list Z) : Z :=
    match mult, g with
    | m :: ms, x :: gs => binomialCoeff m x * init_binom ms gs
    | _, _ => 1
    end.

  Definition p_init (A : list row) (rows : list Z) (g : list Z) : pstate :=
    mkP (init_colsum (hd [] A) (tl A) (tl rows) g)
        (init_binom (tl rows) g)
        (if Z.even (sumZl g) then 1 else -1).

  (* the update inside "iterate over gray codes" *)
  Definition p_step (A : list row) (rows : list Z) (s : pstate) (i : nat) (pv v : Z) : pstate :=
    let arow := nth (S i) A [] in
    let m := nth (S i) rows 0 in
    mkP (map (fun '(c, aij) => radd c (rmul (rmul aij (ofZ 2)) (ofZ (pv - v))))
             (combine (p_colsum s) arow))
        (if v <? pv then p_binom s * pv / (m - v) else p_binom s * (m - pv) / v)
        (- p_parity s).

  (* permanent.cpp: colsum_prod * binomial_coeff, colsum_prod = parity * prod colsum_j^cols_j *)
  Fixpoint colprod (acc : R) (cs : list R) (cols : list Z) : R :=
    match cs, cols with
    | c :: cr, k :: kr => colprod (rmul acc (rpow c (Z.to_nat k))) cr kr
    | _, _ => acc
    end.
  Definition p_addend (cols : list Z) (s : pstate) : R :=
    rmul (colprod (ofZ (p_parity s)) (p_colsum s) cols) (ofZ (p_binom s)).

  (* permanent_laplace.cpp: one product per column l, with cols[l] - 1 in place of cols[l] *)
  Definition dec_at (cols : list Z) (l : nat) : list Z := upd cols l (nth l cols 0 - 1).
  Definition l_addend (cols : list Z) (s : pstate) : list R :=
    map (fun l => rmul (colprod (ofZ (p_parity s)) (p_colsum s) (dec_at cols l)) (ofZ (p_binom s)))
        (seq 0 (length cols)).

  Definition vadd (a b : list R) : list R := map (fun '(x, y) => radd x y) (combine a b).

  Definition lims_of (rows : list Z) : list Z := map (fun m => m + 1) (tl rows).

  (* sum over the jobs, before the final division by 2^(sum_rows-1) *)
  Definition perm_jobs (guard : bool) (hc : Z) (A : list row) (rows cols : list Z) : option R :=
    let '(A', rows') := preprocess A rows in
    let lims := lims_of rows' in
    jobs_total 64 R rO radd pstate (p_init A' rows') (p_step A' rows') (p_addend cols) lims
               (concurrency guard hc (prodZ lims)).

  Definition laplace_jobs (guard : bool) (hc : Z) (A : list row) (rows cols : list Z)
    : option (list R) :=
    let '(A', rows') := preprocess A rows in
    let lims := lims_of rows' in
    jobs_total 64 (list R) (map (fun _ => rO) cols) vadd pstate
               (p_init A' rows') (p_step A' rows') (l_addend cols) lims
               (concurrency guard hc (prodZ lims)).

  (* the state as a function of the Gray code alone (the "direct" state of JobProofs) *)
  Definition p_direct := p_init.
End Perm.

(* Gaussian integers, to run the model *)
Definition gi := (Z * Z)%type.
Definition gi_add (a b : gi) : gi := (fst a + fst b, snd a + snd b).
Definition gi_mul (a b : gi) : gi :=
  (fst a * fst b - snd a * snd b, fst a * snd b + snd a * fst b).
Definition gi_ofZ (z : Z) : gi := (z, 0).
Definition gi_eqb (a b : gi) : bool := (fst a =? fst b) && (snd a =? snd b).

Definition perm_jobs_gi := perm_jobs gi (0, 0) (1, 0) gi_add gi_mul gi_ofZ.
Definition laplace_jobs_gi := laplace_jobs gi (0, 0) (1, 0) gi_add gi_mul gi_ofZ.
