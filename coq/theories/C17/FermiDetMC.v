(* C17 - MathComp side: the first-row Laplace recursion on index lists used by the model
   (FermiRepModel.lminor) is MathComp's determinant of the restricted matrix. *)
From mathcomp Require Import all_ssreflect all_algebra.
From PV Require C17.FermiRepModel.

Set Implicit Arguments.
Unset Strict Implicit.
Unset Printing Implicit Defensive.

Import GRing.Theory.
Local Open Scope ring_scope.

Lemma Lnth T (d : T) (l : seq T) k : List.nth k l d = nth d l k.
Proof. by elim: l k => [|a l IH] [|k] //=. Qed.

Lemma lengthE T (l : seq T) : List.length l = size l.
Proof. by elim: l => [|a l IH] //=. Qed.

Lemma appE T (l1 l2 : seq T) : List.app l1 l2 = l1 ++ l2.
Proof. by elim: l1 => [|a l1 IH] //=; rewrite IH. Qed.

Lemma firstnE T (l : seq T) k : List.firstn k l = take k l.
Proof. by elim: k l => [|k IH] [|a l] //=; rewrite IH. Qed.

Lemma skipnE T (l : seq T) k : List.skipn k l = drop k l.
Proof. by elim: k l => [|k IH] [|a l] //=. Qed.

Lemma del_nthE T (l : seq T) k : FermiRepModel.del_nth k l = take k l ++ drop k.+1 l.
Proof. by rewrite /FermiRepModel.del_nth appE firstnE skipnE. Qed.

Lemma nth_del T (x0 : T) (s : seq T) k i :
  (k < size s)%N -> nth x0 (take k s ++ drop k.+1 s) i = nth x0 s (bump k i).
Proof.
move=> Hk; rewrite nth_cat size_take Hk /bump.
case: ltnP => Hik.
  by rewrite nth_take // leqNgt Hik add0n.
by rewrite nth_drop ?Hik add1n addSn subnKC.
Qed.

Lemma evenE k : (Nat.even k = ~~ odd k) * (Nat.even k.+1 = odd k).
Proof.
elim: k => [//|k [IH1 IH2]]; split; first by rewrite IH2 /= negbK.
by rewrite /= IH1.
Qed.

Section Det.
Variable R : comRingType.

Local Notation lsum := (FermiRepModel.lap_sum R 0 +%R).
Local Notation lmin := (FermiRepModel.lminor R 0 1 +%R *%R -%R).
Local Notation sg := (FermiRepModel.sgn R 1 -%R).

Lemma lsumE n (f : nat -> R) : lsum n f = \sum_(0 <= k < n) f k.
Proof.
rewrite /FermiRepModel.lap_sum.
elim: n => [|n IH]; first by rewrite big_geq.
by rewrite List.seq_S List.fold_left_app /= IH big_nat_recr.
Qed.

Lemma sgE k : sg k = (-1) ^+ k.
Proof.
rewrite /FermiRepModel.sgn (evenE k).1 -signr_odd.
by case: (odd k); rewrite ?expr1 ?expr0.
Qed.

Theorem lminor_det n : forall (Uf : BinNums.Z -> BinNums.Z -> R) (rs cs : seq BinNums.Z),
  size rs = n -> size cs = n ->
  lmin Uf rs cs =
  \det (\matrix_(i < n, j < n) Uf (nth BinNums.Z0 rs i) (nth BinNums.Z0 cs j)).
Proof.
elim: n => [|n IH] Uf rs cs.
  by case: rs => // _ _; rewrite det_mx00.
case: rs => [//|r0 rs] /eqP; rewrite eqSS => /eqP Hrs Hcs.
have -> : lmin Uf (r0 :: rs) cs =
          lsum (List.length cs)
               (fun k => (sg k * Uf r0 (List.nth k cs BinNums.Z0)) *
                         lmin Uf rs (FermiRepModel.del_nth k cs)) by [].
rewrite lengthE Hcs lsumE big_mkord (expand_det_row _ ord0).
apply: eq_bigr => j _.
have Hj : (j < size cs)%N by rewrite Hcs.
have Hsz : size (FermiRepModel.del_nth j cs) = n.
  rewrite del_nthE size_cat size_take size_drop Hj Hcs subSS subnKC //.
  by rewrite -ltnS.
rewrite sgE Lnth (IH Uf rs _ Hrs Hsz) /cofactor !mxE /= add0n.
rewrite [_ * Uf _ _]mulrC -mulrA; congr (_ * (_ * _)).
congr (\det _); apply/matrixP => i k; rewrite !mxE /=.
by rewrite del_nthE nth_del // /bump leq0n add1n.
Qed.

End Det.
