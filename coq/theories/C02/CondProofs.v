(* C02 — sampling.py:_sample_dist_output_conditioned_on_postselection: the law of the whole
   sequence of draws is the product law of the photons conditioned on "exactly r_j photons in
   post-selected mode j" (telescoping over the photons with the post-selection table). *)
From Coq Require Import Reals Lra List Bool Arith Lia RealField.
From PV Require Import Base.CasesLib C02.DistModel C02.DistProofs C02.PostselectModel
  C02.TruncPolyModel C02.TruncPolyProofs C02.ImperfectModel C02.ShotsProofs C02.DistTableProofs C02.DyneProofs.
Import ListNotations.
Open Scope R_scope.

Lemma rsum_scale : forall (l : list R) f, rsum (map (fun q => q * f) l) = rsum l * f.
Proof. induction l as [|x l IH]; intros f; [cbn; lra|]. rewrite map_cons, !rsum_cons, IH. (nr; lra). Qed.

Lemma rsum_nonneg : forall l : list R, Forall (fun x => 0 <= x) l -> 0 <= rsum l.
Proof. induction 1 as [|x l Hx HF IH]; [cbn; lra|]. rewrite rsum_cons. (nr; lra). Qed.

Lemma nth_le_rsum : forall (l : list R) i, Forall (fun x => 0 <= x) l -> nth i l 0 <= rsum l.
Proof.
  induction l as [|x l IH]; intros i HF.
  - destruct i; cbn; lra.
  - inversion HF as [|? ? Hx HF']; subst. rewrite rsum_cons. destruct i as [|i]; simpl nth.
    + pose proof (rsum_nonneg l HF'). (nr; lra).
    + specialize (IH i HF'). (nr; lra).
Qed.

Lemma ps_weights_sum : forall (next : arr RN) rem ps s0,
  rsum (ps_weights (N:=RN) next rem s0 ps) = lin_terms (N:=RN) next rem s0 ps.
Proof.
  intros next rem ps. induction ps as [|q ps IH]; intros s0; [reflexivity|].
  cbn [ps_weights lin_terms]. rewrite rsum_cons, IH. f_equal.
  destruct (nth s0 rem O) as [|x]; reflexivity.
Qed.

Lemma ps_weights_nth : forall (next : arr RN) rem ps s0 j, (j < length ps)%nat ->
  nth j (ps_weights (N:=RN) next rem s0 ps) 0 =
  nth j ps 0 * (if (1 <=? nth (s0 + j) rem O)%nat then next (dec_at (s0 + j) rem) else 0).
Proof.
  intros next rem ps. induction ps as [|q ps IH]; intros s0 j H; simpl in H; [lia|].
  cbn [ps_weights]. destruct j as [|j].
  - rewrite Nat.add_0_r. simpl nth. destruct (nth s0 rem O) as [|x]; simpl; nr; [symmetry; apply Rmult_0_r | reflexivity].
  - simpl nth. assert (Hj : (j < length ps)%nat) by (apply Nat.succ_lt_mono; exact H). etransitivity; [apply (IH (S s0) j Hj)|].
    replace (S s0 + j)%nat with (s0 + S j)%nat by (rewrite Nat.add_succ_r; reflexivity). reflexivity.
Qed.

Lemma ps_weights_length : forall (next : arr RN) rem ps s0, length (ps_weights (N:=RN) next rem s0 ps) = length ps.
Proof. intros next rem ps. induction ps; intros; simpl; auto. Qed.

Lemma tele_step : forall w t T tg : R, T <> 0 -> t <> 0 -> w * t / T * (tg / t) = w * tg / T.
Proof. intros. field. split; assumption. Qed.
Lemma tele_zero : forall w T M : R, w * 0 / T * M = w * 0 / T.
Proof. intros. unfold Rdiv. ring. Qed.

Ltac tlia := cbn [T RN] in *; lia.

Section Cond.
  Variable K k : nat.      (* numbers of non-post-selected and of post-selected modes *)

  Definition photon : Type := (list R * list R)%type.   (* |U[non_ps, m]|^2 , |U[ps, m]|^2 *)
  Definition loss (ph : photon) : R := 1 - rsum (fst ph) - rsum (snd ph).

  Definition photon_ok (ph : photon) : Prop :=
    length (fst ph) = K /\ length (snd ph) = k /\
    Forall (fun x => 0 <= x) (fst ph) /\ Forall (fun x => 0 <= x) (snd ph) /\ 0 <= loss ph.

  (* the table entry of the remaining photons *)
  Definition Tb (photons : list photon) : arr RN :=
    hd (delta (N:=RN) k) (dist_table (N:=RN) k (map snd photons)).

  (* remaining[axis] -= 1 when a post-selected mode was drawn *)
  Definition rem_after (i : nat) (rem : list nat) : list nat :=
    if (i <=? K)%nat then rem else dec_at (i - K - 1) rem.

  (* the sampler as a program: the weights are the model's photon_weights (compared with the
     implementation's by the correspondence check), normalised by the categorical draw *)
  Fixpoint cond_sampler (photons : list photon) (rem : list nat) : rdist (list nat) :=
    match photons with
    | [] => dret []
    | ph :: rest =>
        let W := photon_weights (N:=RN) (Tb rest) rem (fst ph) (snd ph) in
        dbind (choice (N:=RN) (combine (seq 0 (length W)) W))
              (fun i => dmap (cons i) (cond_sampler rest (rem_after i rem)))
    end.

  (* the unconditioned product law of the photons *)
  Definition w (ph : photon) (i : nat) : R :=
    if (i <? K)%nat then nth i (fst ph) 0
    else if (i =? K)%nat then loss ph else nth (i - K - 1) (snd ph) 0.
  Fixpoint seq_prob (photons : list photon) (s : list nat) : R :=
    match photons, s with
    | ph :: pr, i :: sr => w ph i * seq_prob pr sr
    | _, _ => 1
    end.
  (* photons landed in every post-selected mode *)
  Fixpoint ps_counts (s : list nat) : list nat :=
    match s with
    | [] => repeat O k
    | i :: sr => if (i <=? K)%nat then ps_counts sr else inc_nat (i - K - 1) (ps_counts sr)
    end.
  (* P(sequence = s and the post-selected counts are rem) under the product law *)
  Definition target (photons : list photon) (s : list nat) (rem : list nat) : R :=
    if idx_eqb (ps_counts s) rem then seq_prob photons s else 0.

  Definition fut (next : arr RN) (rem : list nat) (i : nat) : R :=
    if (i <=? K)%nat then next rem
    else if (1 <=? nth (i - K - 1) rem O)%nat then next (dec_at (i - K - 1) rem) else 0.

  Lemma Tb_cons : forall ph rest rem,
    Tb (ph :: rest) rem = (1 - rsum (snd ph)) * Tb rest rem + lin_terms (N:=RN) (Tb rest) rem 0 (snd ph).
  Proof.
    intros. unfold Tb at 1. cbn [map dist_table hd]. rewrite trunc_mul_correct_R.
    unfold product_coeff. reflexivity.
  Qed.

  Lemma W_total : forall ph rest rem,
    rsum (photon_weights (N:=RN) (Tb rest) rem (fst ph) (snd ph)) = Tb (ph :: rest) rem.
  Proof.
    intros. rewrite Tb_cons. unfold photon_weights.
    rewrite rsum_app, rsum_scale. cbn [app]. rewrite rsum_cons, ps_weights_sum. (nr; lra).
  Qed.

  Lemma W_length : forall ph rest rem, photon_ok ph ->
    length (photon_weights (N:=RN) (Tb rest) rem (fst ph) (snd ph)) = (K + 1 + k)%nat.
  Proof.
    intros ph rest rem (H1 & H2 & _). unfold photon_weights.
    rewrite app_length, map_length. cbn [app length]. rewrite ps_weights_length. cbn [T RN] in *. lia.
  Qed.

  Lemma W_nth : forall ph rest rem i, photon_ok ph -> (i < K + 1 + k)%nat ->
    nth i (photon_weights (N:=RN) (Tb rest) rem (fst ph) (snd ph)) 0 = w ph i * fut (Tb rest) rem i.
  Proof.
    intros ph rest rem i (H1 & H2 & _) Hi. unfold photon_weights, w, fut. cbn [T RN n0 n1 nadd nmul nsub] in *.
    destruct (Nat.ltb_spec i K) as [Hlt|Hge].
    - rewrite app_nth1 by (rewrite map_length; tlia).
      etransitivity; [apply (nth_map_lt R R (fun q => q * Tb rest rem) (fst ph) i 0 0); tlia|]. destruct (Nat.leb_spec i K); [reflexivity | tlia].
    - rewrite app_nth2 by (rewrite map_length; tlia). rewrite map_length, H1.
      destruct (Nat.eqb_spec i K) as [->|Hne].
      + rewrite Nat.sub_diag. simpl nth. rewrite Nat.leb_refl. unfold loss. reflexivity.
      + destruct (Nat.leb_spec i K); [tlia|].
        remember (i - K - 1)%nat as j eqn:Ej.
        replace (i - K)%nat with (S j) by tlia. cbn [app nth].
        etransitivity; [apply ps_weights_nth; tlia|]. simpl plus. reflexivity.
  Qed.

  Lemma nth_nonneg : forall (l : list R) i, Forall (fun x => 0 <= x) l -> 0 <= nth i l 0.
  Proof.
    induction l as [|x l IH]; intros i HF; [destruct i; simpl; lra|].
    inversion HF; subst. destruct i; simpl; auto.
  Qed.

  Lemma w_nonneg : forall ph i, photon_ok ph -> 0 <= w ph i.
  Proof.
    intros ph i (_ & _ & Hn & Hp & Hl). unfold w.
    destruct (i <? K)%nat; [apply nth_nonneg; exact Hn|].
    destruct (i =? K)%nat; [exact Hl | apply nth_nonneg; exact Hp].
  Qed.

  Lemma fut_nonneg : forall (next : arr RN) rem i, (forall r', 0 <= next r') -> 0 <= fut next rem i.
  Proof.
    intros next rem i H. unfold fut. destruct (i <=? K)%nat; [apply H|].
    destruct (1 <=? nth (i - K - 1) rem O)%nat; [apply H | lra].
  Qed.

  Lemma lin_terms_nonneg : forall (next : arr RN) rem ps s0,
    (forall r', 0 <= next r') -> Forall (fun x => 0 <= x) ps -> 0 <= lin_terms (N:=RN) next rem s0 ps.
  Proof.
    intros next rem ps. induction ps as [|q ps IH]; intros s0 Hn HF; cbn [lin_terms]; [cbn; lra|].
    inversion HF as [|? ? Hq HF']; subst. specialize (IH (S s0) Hn HF').
    assert (0 <= (if (1 <=? nth s0 rem O)%nat then q * next (dec_at s0 rem) else 0)).
    { destruct (1 <=? nth s0 rem O)%nat; [apply Rmult_le_pos; auto | lra]. }
    cbn [T RN n0 n1 nadd nmul nsub] in *. lra.
  Qed.

  Lemma one_minus_ps : forall ph, photon_ok ph -> 0 <= 1 - rsum (snd ph).
  Proof.
    intros ph (_ & _ & Hn & _ & Hl). unfold loss in Hl. pose proof (rsum_nonneg _ Hn). lra.
  Qed.

  Lemma Tb_nonneg : forall photons, Forall photon_ok photons -> forall rem, 0 <= Tb photons rem.
  Proof.
    induction photons as [|ph rest IH]; intros HF rem.
    - unfold Tb. cbn [map dist_table hd]. unfold delta. destruct (idx_eqb rem (repeat O k)); cbn; lra.
    - inversion HF as [|? ? Hok HF']; subst. rewrite Tb_cons.
      pose proof (one_minus_ps ph Hok). pose proof (IH HF' rem).
      assert (0 <= lin_terms (N:=RN) (Tb rest) rem 0 (snd ph)).
      { apply lin_terms_nonneg; [apply IH; exact HF' | apply Hok]. }
      assert (0 <= (1 - rsum (snd ph)) * Tb rest rem) by (apply Rmult_le_pos; auto).
      lra.
  Qed.

  Lemma ps_weights_nonneg : forall (next : arr RN) rem ps s0,
    (forall r', 0 <= next r') -> Forall (fun x => 0 <= x) ps ->
    Forall (fun x => 0 <= x) (ps_weights (N:=RN) next rem s0 ps).
  Proof.
    intros next rem ps. induction ps as [|q ps IH]; intros s0 Hn HF; cbn [ps_weights]; [constructor|].
    inversion HF as [|? ? Hq HF']; subst. constructor; [|apply IH; auto].
    destruct (Nat.eqb (nth s0 rem O) O); [cbn; lra | apply Rmult_le_pos; auto].
  Qed.

  Lemma W_nonneg : forall ph rest rem, photon_ok ph -> Forall photon_ok rest ->
    Forall (fun x => 0 <= x) (photon_weights (N:=RN) (Tb rest) rem (fst ph) (snd ph)).
  Proof.
    intros ph rest rem Hok HF. pose proof (Tb_nonneg rest HF) as HT.
    destruct Hok as (_ & _ & Hn & Hp & Hl). unfold photon_weights.
    apply Forall_app. split; [|constructor].
    - apply Forall_forall. intros x Hx. apply in_map_iff in Hx. destruct Hx as [q [<- Hq]].
      apply Rmult_le_pos; [|apply HT]. rewrite Forall_forall in Hn. apply Hn. exact Hq.
    - apply Rmult_le_pos; [exact Hl | apply HT].
    - apply ps_weights_nonneg; auto.
  Qed.

  Definition tfut (rest : list photon) (s : list nat) (rem : list nat) (i : nat) : R :=
    if (i <=? K)%nat then target rest s rem
    else if (1 <=? nth (i - K - 1) rem O)%nat then target rest s (dec_at (i - K - 1) rem) else 0.

  Lemma target_cons : forall ph rest i s rem, length rem = k -> (i < K + 1 + k)%nat ->
    target (ph :: rest) (i :: s) rem = w ph i * tfut rest s rem i.
  Proof.
    intros ph rest i s rem Hr Hi. unfold tfut, target. cbn [ps_counts seq_prob].
    destruct (Nat.leb_spec i K) as [Hle|Hgt].
    - cbv iota. destruct (idx_eqb (ps_counts s) rem); lra.
    - cbv iota. rewrite inc_event by lia.
      destruct (1 <=? nth (i - K - 1) rem O)%nat; simpl andb; [|lra].
      destruct (idx_eqb (ps_counts s) (dec_at (i - K - 1) rem)); lra.
  Qed.

  Lemma target_dom : forall photons, Forall photon_ok photons ->
    forall s rem, length s = length photons -> Forall (fun i => (i < K + 1 + k)%nat) s -> length rem = k ->
    0 <= target photons s rem <= Tb photons rem.
  Proof.
    induction photons as [|ph rest IH]; intros HF s rem Hs Hin Hr.
    - destruct s; try discriminate. unfold target, Tb. cbn [ps_counts seq_prob map dist_table hd].
      unfold delta. rewrite (idx_eqb_sym rem). destruct (idx_eqb (repeat O k) rem); cbn; lra.
    - destruct s as [|i s]; try discriminate. inversion HF as [|? ? Hok HF']; subst.
      inversion Hin as [|? ? Hi Hin']; subst. simpl in Hs.
      rewrite target_cons by auto.
      pose proof (w_nonneg ph i Hok) as Hw.
      assert (Hb : 0 <= tfut rest s rem i <= fut (Tb rest) rem i).
      { assert (Hs' : length s = length rest) by lia.
        unfold tfut, fut. destruct (i <=? K)%nat.
        - exact (IH HF' s rem Hs' Hin' Hr).
        - destruct (1 <=? nth (i - K - 1) rem O)%nat; [|lra].
          assert (Hr2 : length (dec_at (i - K - 1) rem) = k) by (rewrite length_dec_at; exact Hr).
          exact (IH HF' s _ Hs' Hin' Hr2). }
      assert (Hnth : w ph i * fut (Tb rest) rem i <= Tb (ph :: rest) rem).
      { rewrite <- W_total, <- (W_nth ph rest rem i Hok Hi). apply nth_le_rsum. apply W_nonneg; auto. }
      assert (0 <= w ph i * tfut rest s rem i) by (apply Rmult_le_pos; lra).
      assert (w ph i * tfut rest s rem i <= w ph i * fut (Tb rest) rem i) by (apply Rmult_le_compat_l; lra).
      lra.
  Qed.

  Lemma rem_after_length : forall i rem, length (rem_after i rem) = length rem.
  Proof. intros. unfold rem_after. destruct (i <=? K)%nat; [reflexivity | apply length_dec_at]. Qed.

  (* The law of the whole sequence of draws: P(sequence = s and post-selected counts = rem) under
     the product law, divided by the table entry, which by dist_table_correct is the probability
     of "post-selected counts = rem".  Post-selections of probability zero are excluded. *)
  Theorem conditioned_dist_law : forall photons, Forall photon_ok photons ->
    forall s rem, length s = length photons -> Forall (fun i => (i < K + 1 + k)%nat) s -> length rem = k ->
    Tb photons rem <> 0 ->
    mass (cond_sampler photons rem) (eqlN s) = target photons s rem / Tb photons rem.
  Proof.
    induction photons as [|ph rest IH]; intros HF s rem Hs Hin Hr HT.
    - destruct s; try discriminate. cbn [cond_sampler]. rewrite mass_dret.
      revert HT. unfold target, Tb. cbn [ps_counts seq_prob map dist_table hd]. unfold delta.
      rewrite (idx_eqb_sym rem). unfold eqlN, eqlA. simpl list_eqb.
      destruct (idx_eqb (repeat O k) rem); cbn; intros HT; [field; lra | lra].
    - destruct s as [|i s]; try discriminate. inversion HF as [|? ? Hok HF']; subst.
      inversion Hin as [|? ? Hi Hin']; subst. simpl in Hs.
      cbn [cond_sampler]. cbv zeta. rewrite mass_dbind.
      set (W := photon_weights (N:=RN) (Tb rest) rem (fst ph) (snd ph)).
      set (M := mass (cond_sampler rest (rem_after i rem)) (eqlN s)).
      rewrite (map_ext _ (fun ap : nat * R => snd ap * (if Nat.eqb (fst ap) i then M else 0))).
      2:{ intros [a p]. cbn [fst snd]. unfold eqlN. rewrite mass_cons_event.
          destruct (Nat.eqb_spec a i); [subst; reflexivity | reflexivity]. }
      pose proof (sum_indicator nat (fun a => Nat.eqb a i) M (choice (N:=RN) (combine (seq 0 (length W)) W))) as Hsum.
      cbv beta in Hsum. rewrite Hsum, categorical_law, total_combine_seq.
      pose proof (mass_seq_hit W 0 i) as Hh. change (0 + i)%nat with i in Hh.
      match goal with |- ?m / _ * _ = _ => replace m with (nth i W 0) by (symmetry; exact Hh) end.
      unfold W. rewrite W_total, (W_nth ph rest rem i Hok Hi), (target_cons ph rest i s rem Hr Hi).
      assert (Hlen' : length (rem_after i rem) = k) by (rewrite rem_after_length; exact Hr).
      assert (Hs' : length s = length rest) by lia.
      (* the three situations of the drawn index *)
      unfold fut, tfut. unfold M, rem_after.
      destruct (i <=? K)%nat eqn:Eik.
      + destruct (Req_dec (Tb rest rem) 0) as [Hz|Hnz].
        * pose proof (target_dom rest HF' s rem Hs' Hin' Hr) as Hd. rewrite Hz in Hd.
          replace (target rest s rem) with 0 by lra. rewrite Hz. apply tele_zero.
        * rewrite (IH HF' s rem Hs' Hin' Hr Hnz). apply tele_step; assumption.
      + destruct (1 <=? nth (i - K - 1) rem O)%nat.
        * assert (Hr2 : length (dec_at (i - K - 1) rem) = k) by (rewrite length_dec_at; exact Hr).
          destruct (Req_dec (Tb rest (dec_at (i - K - 1) rem)) 0) as [Hz|Hnz].
          -- pose proof (target_dom rest HF' s _ Hs' Hin' Hr2) as Hd. rewrite Hz in Hd.
             replace (target rest s (dec_at (i - K - 1) rem)) with 0 by lra. rewrite Hz. apply tele_zero.
          -- rewrite (IH HF' s _ Hs' Hin' Hr2 Hnz). apply tele_step; assumption.
        * apply tele_zero.
  Qed.
End Cond.

(* the denominator is the probability of the post-selected event under the product law *)
Lemma Tb_is_postselection_probability : forall K k (photons : list (photon)) rem,
  length rem = k -> Forall (photon_ok K k) photons ->
  Tb k photons rem = mass (place k (map snd photons)) (counts_are rem).
Proof.
  intros K k photons rem Hr HF. unfold Tb. apply dist_table_head; [exact Hr|].
  apply Forall_forall. intros q Hq. apply in_map_iff in Hq. destruct Hq as [ph [<- Hin]].
  rewrite Forall_forall in HF. apply (HF ph Hin).
Qed.
