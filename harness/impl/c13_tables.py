"""C13 translator, implementation side: introspects the imported piquasso package and prints
the per-simulator tables as JSON.  Fails closed: anything unexpected raises."""
import json
import sys

import piquasso  # noqa: F401
import piquasso.fermionic  # noqa: F401
from piquasso.api.instruction import Gate, Instruction, Measurement, Preparation
from piquasso.api.simulator import Simulator
from piquasso.api.state import State


def subclasses(c):
    for s in c.__subclasses__():
        yield s
        yield from subclasses(s)


def qual(c):
    return c.__module__ + "." + c.__qualname__


def main():
    json.load(sys.stdin)
    sims = [s for s in dict.fromkeys(subclasses(Simulator)) if "_instruction_map" in vars(s) or
            isinstance(getattr(s, "_instruction_map", None), dict)]
    classes = {}

    def add(c):
        if not (isinstance(c, type) and issubclass(c, Instruction)):
            raise TypeError("table entry %r is not an Instruction class" % (c,))
        classes[qual(c)] = c

    for c in subclasses(Instruction):
        add(c)
    out_sims = []
    for s in sims:
        imap = s._instruction_map
        if not isinstance(imap, dict):
            raise TypeError("%s._instruction_map is not a dict" % s.__name__)
        mid = s._measurement_classes_allowed_mid_circuit
        non = s._measurement_classes_allowed_with_shots_none
        if not isinstance(mid, tuple) or not isinstance(non, tuple):
            raise TypeError("%s: measurement tables must be tuples" % s.__name__)
        for c in list(imap) + list(mid) + list(non):
            add(c)
        for f in imap.values():
            if not callable(f):
                raise TypeError("%s: simulation step %r not callable" % (s.__name__, f))
        st = s._state_class
        if not (isinstance(st, type) and issubclass(st, State)):
            raise TypeError("%s._state_class is not a State class" % s.__name__)
        out_sims.append({"name": s.__name__, "qual": qual(s), "imap": [qual(c) for c in imap],
                         "mid": [qual(c) for c in mid], "none": [qual(c) for c in non],
                         "state": qual(st)})
    out_cls = []
    for q in sorted(classes):
        c = classes[q]
        kinds = [k for k, b in (("KPrep", Preparation), ("KGate", Gate), ("KMeas", Measurement))
                 if issubclass(c, b)]
        if len(kinds) > 1:
            raise TypeError("%s derives from several of Preparation/Gate/Measurement" % q)
        n = c.NUMBER_OF_MODES
        if n is not None and (type(n) is not int or n < 0):
            raise TypeError("%s.NUMBER_OF_MODES = %r" % (q, n))
        anc = [qual(b) for b in c.__mro__ if isinstance(b, type) and issubclass(b, Instruction)
               and b is not Instruction]
        for a in anc:
            if a not in classes:
                raise TypeError("ancestor %s of %s unknown" % (a, q))
        out_cls.append({"qual": q, "name": c.__name__, "kind": kinds[0] if kinds else "KOther",
                        "nmodes": n, "anc": anc})
    # source facts the model relies on (checked textually by the harness as well)
    print(json.dumps({"classes": out_cls, "sims": sorted(out_sims, key=lambda s: s["qual"])}))


main()
