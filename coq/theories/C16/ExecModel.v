(* C16 - the executor's mode bookkeeping (piquasso/api/simulator.py:_do_execute_instructions,
   _remap_modes, _remap_modes_inverse, _delete_modes_from_active; piquasso/api/program.py:_map_modes)
   with the simulation steps as an oracle.  Definitions only. *)
From Coq Require Import ZArith List Bool Lia.
From PV Require Import C16.IndexModel.
Import ListNotations.
Local Open Scope nat_scope.

(* tuple.index *)
Fixpoint index_of (x : nat) (l : list nat) : nat :=
  match l with
  | [] => 0
  | a :: r => if Nat.eqb a x then 0 else S (index_of x r)
  end.

(* Simulator._remap_modes: labels -> positions among the active modes *)
Definition remap_modes (active ms : list nat) : list nat := map (fun m => index_of m active) ms.

(* Simulator._remap_modes_inverse: positions -> labels *)
Definition remap_modes_inverse (active pos : list nat) : list nat := map (fun i => nth i active 0) pos.

(* Simulator._delete_modes_from_active *)
Definition delete_modes_from_active (active pos : list nat) : list nat :=
  filter (fun m => negb (mem_nat m (remap_modes_inverse active pos))) active.

(* Program._map_modes(register, instruction) *)
Definition map_modes (register ms : list nat) : list nat :=
  match register, ms with
  | [], _ => ms
  | _, [] => register
  | _, _ => map (fun m => nth m register 0) ms
  end.

Section Exec.
  Variables S G : Type.
  (* a simulation step: state, instruction (gate/measurement with its parameters), POSITIONS it
     acts on -> sub-branches (outcome of this instruction, new state) *)
  Variable step : S -> G -> list nat -> list (list Z * S).

  Record instr := { is_meas : bool; gate : G; imodes : list nat }.

  Definition branch := (list Z * S)%type.

  (* one instruction on every branch: outcome tuples are concatenated in program order *)
  Definition apply_to_branches (g : G) (pos : list nat) (bs : list branch) : list branch :=
    flat_map (fun b => map (fun sb => (fst b ++ fst sb, snd sb)) (step (snd b) g pos)) bs.

  Fixpoint exec (active : list nat) (bs : list branch) (prog : list instr) : option (list branch) :=
    match prog with
    | [] => Some bs
    | i :: rest =>
        let ms := match imodes i with [] => active | _ => imodes i end in
        if forallb (fun m => mem_nat m active) ms then
          let pos := remap_modes active ms in
          let bs' := apply_to_branches (gate i) pos bs in
          exec (if is_meas i then delete_modes_from_active active pos else active) bs' rest
        else None   (* ValueError: some modes are not active *)
    end.

  Definition relabel_instr (pi : nat -> nat) (i : instr) : instr :=
    {| is_meas := is_meas i; gate := gate i; imodes := map pi (imodes i) |}.
End Exec.
