(* C20 — Condition and parameter expressions are safe and mean what Python means.
   Only statements closed by [exact]; models in C20/ExprModel.v (piquasso's _validate/_eval and
   the language-reference evaluator py_eval), proofs in C20/ExprProofs.v, re-proved on every
   run against C20/WhitelistGen.v (regenerated from piquasso/core/_expressions.py). *)
From Coq Require Import ZArith List String Bool PrimFloat SpecFloat.
From PV Require Import C20.Ast C20.WhitelistGen C20.ExprModel C20.ExprProofs C20.PyValue C20.PyValueProofs.
Import ListNotations.
Open Scope string_scope.

(* 1. On every tree the parser can return, _validate accepts exactly the grammar of the
   property: numbers and booleans, x, displays, indexing/slicing, + - * / % ** ^, unary + - not,
   the six comparisons, and/or. *)
Theorem C20_validate_iff_grammar : forall t,
  shape t = true -> (validate t = true <-> InGrammar t).
Proof. exact validate_iff_grammar. Qed.
Print Assumptions C20_validate_iff_grammar.

(* ... every expression of the grammar is accepted (and has the parser's shape) ... *)
Theorem C20_grammar_accepted : forall t, InGrammar t -> validate_tree t = true /\ shape t = true.
Proof. exact grammar_accepted. Qed.
Print Assumptions C20_grammar_accepted.

(* ... and every other operator, node class, name or constant type is rejected wherever it
   occurs in the tree (FloorDiv, MatMult, shifts, bit-and/or, Invert, is, in; calls, attributes,
   lambdas, comprehensions, f-strings, walrus, starred, conditional expressions; names other
   than x; str/bytes/complex/None/Ellipsis constants). *)
Theorem C20_rejected_operators : forall l r e es,
  (forall o, ~ In o grammar_binops -> validate (BinOp l o r) = false) /\
  (forall o, ~ In o grammar_unaryops -> validate (UnaryOp o e) = false) /\
  (forall o ops1 ops2, ~ In o grammar_cmpops -> validate (Compare l (ops1 ++ o :: ops2) es) = false).
Proof. exact rejected_operators. Qed.
Print Assumptions C20_rejected_operators.

Theorem C20_rejected_nodes : forall k ch id cx c,
  (k <> OIndex -> validate (Other k ch) = false) /\
  (id <> "x" -> validate (Name id cx) = false) /\
  (const_ok c = false -> validate (Constant c) = false).
Proof. exact rejected_nodes. Qed.
Print Assumptions C20_rejected_nodes.

(* 2. For every semantics of the primitive operations (the functions of [operator], truthiness,
   subscription, construction of tuples, lists and slice objects) in which True/False have their
   truth values and the six comparisons return True or False: on every accepted expression and
   every outcome x, Expression(src)(x) — value or exception — is what the evaluation rules of the
   Python language reference give (short-circuit and/or returning the deciding operand, chained
   comparisons with each operand evaluated once, left-to-right order). *)
Theorem C20_eval_agrees :
  forall (value exn : Type) (of_const : const -> value) (v_tuple v_list : list value -> value)
         (v_slice : value -> value -> value -> value) (v_none v_true v_false : value)
         (call : opfun -> list value -> ExprModel.pres value exn) (truth : value -> bool)
         (getitem : value -> value -> ExprModel.pres value exn) (name_error : exn),
  truth v_true = true -> truth v_false = false ->
  (forall o a b c, In o grammar_cmpops -> call (spec_cmpop o) [a; b] = POk c ->
                   c = v_true \/ c = v_false) ->
  forall body x, shape body = true -> validate_tree body = true ->
    pq_call value exn of_const v_tuple v_list v_slice v_none v_true v_false call truth getitem
            body (Some x)
    = py_eval value exn of_const v_tuple v_list v_slice v_none call truth getitem name_error
              x PExpr body.
Proof. exact call_agrees. Qed.
Print Assumptions C20_eval_agrees.

(* 3. No accepted expression reaches an InvalidExpression("Unsupported ...") branch of _eval when
   it is called — for every primitive semantics, no hypothesis. *)
Theorem C20_eval_total :
  forall (value exn : Type) (of_const : const -> value) (v_tuple v_list : list value -> value)
         (v_slice : value -> value -> value -> value) (v_none v_true v_false : value)
         (call : opfun -> list value -> ExprModel.pres value exn) (truth : value -> bool)
         (getitem : value -> value -> ExprModel.pres value exn),
  forall body arg u, shape body = true -> validate_tree body = true ->
    pq_call value exn of_const v_tuple v_list v_slice v_none v_true v_false call truth getitem
            body arg <> Unsupported u.
Proof. exact eval_total. Qed.
Print Assumptions C20_eval_total.

(* 4. Acceptance is decided on the tree alone; a rejected tree yields no callable, whatever the
   primitives are (validate has no access to x or to any primitive). *)
Theorem C20_reject_no_eval :
  forall (value exn : Type) (of_const : const -> value) (v_tuple v_list : list value -> value)
         (v_slice : value -> value -> value -> value) (v_none v_true v_false : value)
         (call : opfun -> list value -> ExprModel.pres value exn) (truth : value -> bool)
         (getitem : value -> value -> ExprModel.pres value exn) body,
  (validate_tree body = false ->
   pq_expression value exn of_const v_tuple v_list v_slice v_none v_true v_false call truth
                 getitem body = None) /\
  (validate_tree body = true ->
   pq_expression value exn of_const v_tuple v_list v_slice v_none v_true v_false call truth
                 getitem body
   = Some (pq_call value exn of_const v_tuple v_list v_slice v_none v_true v_false call truth
                   getitem body)).
Proof. exact reject_no_eval. Qed.
Print Assumptions C20_reject_no_eval.

(* The executable instance used by the correspondence run (Python ints, bools, IEEE floats,
   tuples, lists, None, slices) satisfies the hypotheses of 2: there model = specification. *)
Theorem C20_instance_agrees : forall body x,
  shape body = true -> validate_tree body = true -> run_pq body (Some x) = run_py body x.
Proof. exact run_agrees. Qed.
Print Assumptions C20_instance_agrees.

(* ---- non-vacuity: concrete expressions, evaluated by the model *)
Definition X := Name "x" Load.
Definition I (z : Z) := Constant (CInt z).
Definition at_ (i : Z) := Subscript X (I i) Load.
Definition neg1 := UnaryOp USub (I 1).

(* 0 < x[0] < x[9] on x = (0,): the falsy first comparison stops the chain before x[9] *)
Example C20_ex_chain_short_circuit :
  let e := Compare (I 0) [Lt; Lt] [at_ 0; at_ 9] in
  validate_tree e = true /\ shape e = true /\
  run_pq e (Some (VTuple [VInt 0])) = Ok (VBool false) /\
  run_pq e (Some (VTuple [VInt 1])) = Raise IndexError.
Proof. vm_compute. repeat split. Qed.

(* not x[0] or x[1:] == (1, 0) *)
Example C20_ex_condition :
  let e := BoolOp Or [UnaryOp Not (at_ 0);
                      Compare (Subscript X (Slice (Some (I 1)) None None) Load) [Eq]
                              [Tuple [I 1; I 0] Load]] in
  validate_tree e = true /\
  run_pq e (Some (VTuple [VInt 2; VInt 1; VInt 0])) = Ok (VBool true) /\
  run_pq e (Some (VTuple [VInt 2; VInt 1; VInt 1])) = Ok (VBool false) /\
  run_pq e (Some (VTuple [VInt 0])) = Ok (VBool true).
Proof. vm_compute. repeat split. Qed.

(* and/or return the deciding operand: x[0] and x[1] on (2, 0.5) is 0.5; 0 or () is () *)
Example C20_ex_deciding_operand :
  run_pq (BoolOp And [at_ 0; at_ 1]) (Some (VTuple [VInt 2; VFloat 0.5])) = Ok (VFloat 0.5) /\
  run_pq (BoolOp Or [I 0; Tuple [] Load]) None = Ok (VTuple []).
Proof. vm_compute. repeat split. Qed.

(* x[-1] and x[::-2] (negative index, slice with step) *)
Example C20_ex_negative_index_and_step :
  let x4 := Some (VTuple [VInt 0; VInt 1; VInt 2; VInt 3]) in
  run_pq (Subscript X neg1 Load) x4 = Ok (VInt 3) /\
  run_pq (Subscript X (Slice None None (Some (UnaryOp USub (I 2)))) Load) x4
    = Ok (VTuple [VInt 3; VInt 1]).
Proof. vm_compute. repeat split. Qed.

(* x[1:2, 0] is accepted and means what Python means: TypeError from the subscription, not an
   "unsupported node" (the finding repaired by fixes/C20-slice-in-subscript-tuple.diff) *)
Example C20_ex_slice_list :
  let e := Subscript X (Tuple [Slice (Some (I 1)) (Some (I 2)) None; I 0] Load) Load in
  validate_tree e = true /\ shape e = true /\
  run_pq e (Some (VTuple [VInt 0; VInt 1])) = Raise TypeError.
Proof. vm_compute. repeat split. Qed.

(* rejected: x.__class__, len(x), x // 2, x is 1, 'a', y, a lambda *)
Example C20_ex_rejected :
  validate_tree (Other OAttribute [X]) = false /\
  validate_tree (Other OCall [Name "len" Load; X]) = false /\
  validate_tree (BinOp X FloorDiv (I 2)) = false /\
  validate_tree (Compare X [Is] [I 1]) = false /\
  validate_tree (Constant CStr) = false /\
  validate_tree (Name "y" Load) = false /\
  validate_tree (BoolOp And [I 1; Other OLambda [I 0]]) = false.
Proof. vm_compute. repeat split. Qed.
