"""Implementation side of C03: runs adaptive programs on the real simulators, recording
what every simulation step returned (the oracle answers the model replays), and the
sequential-vs-joint measurement experiments.

stdin: {"cases": [...], "proj": [...], "seqjoint": [...]}; stdout (last line): JSON."""
import json
import random
import sys
import warnings
from fractions import Fraction

import numpy as np

warnings.simplefilter("ignore")

import piquasso as pq  # noqa: E402
from piquasso.api.branch import Branch  # noqa: E402
from piquasso.api import exceptions as pqexc  # noqa: E402

CMP = {"lt": "<", "le": "<=", "gt": ">", "ge": ">=", "eq": "==", "ne": "!="}


# ------------------------------------------------------------------ expressions
def num_src(q):
    n, d = q
    if d == 1:
        return repr(int(n))
    return repr(n / d)  # dyadic: exact


def cond_src(c):
    k = c[0]
    if k == "cmp":
        return "x[%d] %s %s" % (c[1], CMP[c[2]], num_src(c[3]))
    if k == "and":
        return "(%s) and (%s)" % (cond_src(c[1]), cond_src(c[2]))
    if k == "or":
        return "(%s) or (%s)" % (cond_src(c[1]), cond_src(c[2]))
    if k == "not":
        return "not (%s)" % cond_src(c[1])
    raise ValueError(k)


def pexpr_src(p):
    return "%s * x[%d] + %s" % (num_src(p["a"]), p["idx"], num_src(p["b"]))


def as_callable(src, form):
    if form == "lambda":
        return eval("lambda x: " + src, {"__builtins__": {}})
    return src


# ------------------------------------------------------------------ programs
def unit(t):
    """rational point of the unit circle -> angle: cos = (1-t^2)/(1+t^2)"""
    return 2.0 * float(np.arctan(t))


PARAM_NAME = {"PS": "phi", "BS": "theta", "SQ": "r", "D": "r", "KERR": "xi"}


def build_instruction(spec):
    k = spec["k"]
    a = spec.get("args", {})
    par = None
    if spec.get("pexpr"):
        par = as_callable(pexpr_src(spec["pexpr"]), spec.get("pform", "str"))
    if k == "NS":
        ins = pq.NumberState(a["n"], coefficient=complex(a.get("re", 1.0), a.get("im", 0.0)))
    elif k == "DM":
        ins = pq.DensityMatrix(ket=tuple(a["ket"]), bra=tuple(a["bra"])) * complex(a.get("re", 1.0), a.get("im", 0.0))
    elif k == "VAC":
        ins = pq.Vacuum()
    elif k == "PS":
        ins = pq.Phaseshifter(phi=par if par is not None else a["phi"])
    elif k == "BS":
        ins = pq.Beamsplitter(theta=par if par is not None else a["theta"], phi=a.get("phi", 0.0))
    elif k == "BS50":
        ins = pq.Beamsplitter5050()
    elif k == "SQ":
        ins = pq.Squeezing(r=par if par is not None else a["r"], phi=a.get("phi", 0.0))
    elif k == "D":
        ins = pq.Displacement(r=par if par is not None else a["r"], phi=a.get("phi", 0.0))
    elif k == "KERR":
        ins = pq.Kerr(xi=par if par is not None else a["xi"])
    elif k == "LOSS":
        ins = pq.Loss(transmissivity=np.array(a["t"]))
    elif k == "PNM":
        ins = pq.ParticleNumberMeasurement()
    elif k == "IPNM":
        ins = pq.ImperfectParticleNumberMeasurement(np.array(a["matrix"], dtype=float))
    elif k == "THR":
        ins = pq.ThresholdMeasurement()
    elif k == "HOM":
        ins = pq.HomodyneMeasurement(phi=a.get("phi", 0.0))
    elif k == "HET":
        ins = pq.HeterodyneMeasurement()
    elif k == "GD":
        ins = pq.GeneraldyneMeasurement(np.array(a["cov"], dtype=float))
    elif k == "POST":
        ins = pq.PostSelectPhotons(photon_counts=tuple(a["counts"]))
    elif k == "FNS":  # fermionic
        ins = pq.NumberState(a["n"], coefficient=complex(a.get("re", 1.0), a.get("im", 0.0)))
    elif k == "FINT":
        th = a["theta"]
        c, s = np.cos(th), np.sin(th)
        ins = pq.Interferometer(np.array([[c, -s], [s, c]], dtype=complex))
    elif k == "FSV":
        ins = pq.StateVector(a["n"], coefficient=complex(a.get("re", 1.0), a.get("im", 0.0)))
    else:
        raise ValueError("unknown instruction kind " + k)
    if spec.get("modes") is not None and len(spec["modes"]) > 0:
        ins = ins.on_modes(*spec["modes"])
    if spec.get("cond"):
        ins = ins.when(as_callable(cond_src(spec["cond"]), spec.get("cform", "str")))
    return ins


def simulator_class(name):
    if name == "purefock":
        return pq.PureFockSimulator
    if name == "fock":
        return pq.FockSimulator
    if name == "passive":
        return pq.PassiveSimulator
    if name == "gaussian":
        return pq.GaussianSimulator
    if name == "fermionic_fock":
        return pq.fermionic.PureFockSimulator
    if name == "fermionic_gaussian":
        return pq.fermionic.GaussianSimulator
    raise ValueError(name)


EXC_CODES = [
    (pqexc.InvalidParameter, 1), (pqexc.InvalidModes, 2), (pqexc.InvalidProgram, 3),
    (pqexc.InvalidSimulation, 4), (pqexc.InvalidState, 5),
    (pqexc.NotImplementedCalculation, 6), (pqexc.PiquassoException, 7),
]


def exc_code(e):
    for cls, c in EXC_CODES:
        if type(e) is cls:
            return c
    for cls, c in EXC_CODES:
        if isinstance(e, cls):
            return c
    return {"ValueError": 10, "IndexError": 11, "TypeError": 12, "KeyError": 13,
            "ZeroDivisionError": 14, "AttributeError": 15}.get(type(e).__name__, 19)


def qpair(x):
    """exact value of an int / numpy number / float / Fraction as [num, den]"""
    if isinstance(x, Fraction):
        return [x.numerator, x.denominator]
    if isinstance(x, (int, np.integer)):
        return [int(x), 1]
    f = Fraction(float(x))
    return [f.numerator, f.denominator]


class Recorder:
    def __init__(self, instructions, specs):
        self.calls = []
        self.ids = {}
        self.keep = []
        self.next = 1
        self.idx = {id(ins): n for n, ins in enumerate(instructions)}
        self.specs = specs

    def sid(self, obj):
        return self.ids.get(id(obj), 0)

    def wrap(self, step):
        rec = self

        def wrapped(state, instruction, shots):
            n = rec.idx.get(id(instruction), -1)
            spec = rec.specs[n] if n >= 0 else {}
            entry = {
                "state": rec.sid(state),
                "instr": n,
                "modes": [int(m) for m in instruction.modes],
                "param": None,
                "shots": None if shots is None else int(shots),
                "shots_type": type(shots).__name__,
            }
            if spec.get("pexpr"):
                entry["param"] = qpair(instruction.params[PARAM_NAME[spec["k"]]])
            rec.calls.append(entry)
            try:
                subs = step(state, instruction, shots)
            except Exception as e:  # recorded, then re-raised unchanged
                entry["error"] = exc_code(e)
                raise
            out = []
            for b in subs:
                i = rec.next
                rec.next += 1
                rec.keep.append(b)
                rec.ids[id(b)] = i
                if b.state is not None:
                    rec.keep.append(b.state)
                    rec.ids[id(b.state)] = i
                out.append({
                    "id": i,
                    "outcome": [qpair(v) for v in b.outcome],
                    "freq": qpair(b.frequency),
                    "freq_type": type(b.frequency).__name__,
                    "d": 0 if b.state is None else int(b.state.d),
                })
            entry["subs"] = out
            return subs

        return wrapped


def recording_simulator(cls, rec):
    base_prop = cls._instruction_map

    def _map(self):
        base = base_prop.fget(self) if isinstance(base_prop, property) else base_prop
        return {k: rec.wrap(v) for k, v in base.items()}

    return type("Recording" + cls.__name__, (cls,), {"_instruction_map": property(_map)})


def unshuffle(samples, seed):
    """Result.samples shuffles with random.Random(seed_sequence): undo it"""
    n = len(samples)
    idx = list(range(n))
    random.Random(seed).shuffle(idx)
    pre = [None] * n
    for pos, orig in enumerate(idx):
        pre[orig] = samples[pos]
    return pre


def run_case(case):
    specs = case["instrs"]
    out = {"calls": [], "error": None}
    try:
        instructions = [build_instruction(s) for s in specs]
    except Exception as e:
        out["build_error"] = "%s: %s" % (type(e).__name__, e)
        return out
    rec = Recorder(instructions, specs)
    cls = recording_simulator(simulator_class(case["sim"]), rec)
    cfg = dict(seed_sequence=case["seed"])
    if case.get("cutoff") is not None:
        cfg["cutoff"] = case["cutoff"]
    cfg.update(case.get("config", {}))
    config = pq.Config(**cfg)
    sim = cls(d=case["d"], config=config)
    program = pq.Program(instructions=instructions)
    modes_before = [tuple(i.modes) for i in instructions]
    try:
        result = sim.execute(program, shots=case["shots"])
    except Exception as e:
        out["calls"] = rec.calls
        code = exc_code(e)
        msg = str(e)
        if isinstance(e, ValueError) and "are not active" in msg:
            code = -1
        elif type(e) is pqexc.PiquassoException and "evaluating the condition" in msg:
            code = -2
        elif isinstance(e, pqexc.InvalidParameter) and "does not support 'shots=None'" in msg:
            code = -3
        out["error"] = code
        out["error_text"] = ("%s: %s" % (type(e).__name__, msg))[:300]
        return out
    out["calls"] = rec.calls
    out["modes_restored"] = modes_before == [tuple(i.modes) for i in instructions]
    brs = []
    for b in result.branches:
        brs.append({
            "id": rec.ids.get(id(b), 0),
            "outcome": [qpair(v) for v in b.outcome],
            "freq": qpair(b.frequency),
            "freq_type": type(b.frequency).__name__,
            "d": None if b.state is None else int(b.state.d),
            "cutoff": None if b.state is None or not hasattr(b.state._config, "cutoff") else int(b.state._config.cutoff),
            "int_outcome": all(isinstance(v, (int, np.integer)) for v in b.outcome),
        })
    out["branches"] = brs
    if case["shots"] is not None:
        samples = result.samples
        out["n_samples"] = len(samples)
        out["samples_pre"] = [[qpair(v) for v in s] for s in unshuffle(samples, config.seed_sequence)]
        try:
            counts = result.get_counts()
            out["counts"] = [[[qpair(v) for v in k], int(c)] for k, c in counts.items()]
            out["counts_value_types"] = sorted({type(c).__name__ for c in counts.values()})
        except NotImplementedError:
            out["counts"] = None
        except Exception as e:
            out["counts"] = None
            out["counts_error"] = "%s: %s" % (type(e).__name__, e)
        out["outcome_map"] = [[[qpair(v) for v in k], qpair(v["frequency"])]
                              for k, v in result.outcome_map.items()]
    else:
        out["outcome_map"] = [[[qpair(v) for v in k], qpair(v["frequency"])]
                              for k, v in result.outcome_map.items()]
        try:
            result.samples
            out["samples_none_raises"] = False
        except pqexc.NotImplementedCalculation:
            out["samples_none_raises"] = True
    return out


# ------------------------------------------------------------------ projective experiments
def state_amplitudes(state, simname):
    """non-zero entries of a branch state vector: [occupation vector, re, im] (exact floats)"""
    if state is None:
        return None
    if simname == "purefock":
        from piquasso._math.fock import get_fock_space_basis
        basis = get_fock_space_basis(d=state.d, cutoff=state._config.cutoff)
    elif simname == "fermionic_fock":
        from piquasso.fermionic._utils import get_fock_space_basis
        basis = get_fock_space_basis(state.d, state._config.cutoff)
    elif simname == "fock":
        from piquasso._math.fock import get_fock_space_basis
        basis = get_fock_space_basis(d=state.d, cutoff=state._config.cutoff)
        m = np.asarray(state.density_matrix)
        out = []
        for i, kv in enumerate(basis):
            for j, bv in enumerate(basis):
                x = m[i, j]
                if abs(x) > 1e-13:
                    out.append([[int(k) for k in kv], [int(k) for k in bv], qpair(x.real), qpair(x.imag)])
        return {"dentries": out, "dim": int(m.shape[0]), "basis_len": int(len(basis))}
    else:
        return None
    v = np.asarray(state.state_vector)
    out = []
    for vec, x in zip(basis, v):
        if abs(x) > 1e-13:
            out.append([[int(k) for k in vec], qpair(x.real), qpair(x.imag)])
    return {"entries": out, "dim": int(len(v)), "basis_len": int(len(basis))}


def run_proj(case):
    """rational-amplitude state, a sequence of measurements with shots=None; returns the
    branches with their exact-float weights and state vectors"""
    specs = case["instrs"]
    out = {}
    try:
        instructions = [build_instruction(s) for s in specs]
        cfg = dict(seed_sequence=case.get("seed", 0), cutoff=case["cutoff"])
        sim = simulator_class(case["sim"])(d=case["d"], config=pq.Config(**cfg))
        result = sim.execute(pq.Program(instructions=instructions), shots=case.get("shots"))
    except Exception as e:
        out["error"] = "%s: %s" % (type(e).__name__, str(e)[:300])
        return out
    brs = []
    for b in result.branches:
        brs.append({
            "outcome": [int(v) for v in b.outcome],
            "freq": qpair(b.frequency),
            "d": None if b.state is None else int(b.state.d),
            "cutoff": None if b.state is None else int(b.state._config.cutoff),
            "state": state_amplitudes(b.state, case["sim"]),
        })
    out["branches"] = brs
    return out


def run_seqjoint(case):
    """the same circuit followed by (a) one joint measurement, (b) the split measured one
    part after the other; returns the outcome->weight maps (shots=None), outcomes of (b)
    re-ordered to the mode order of (a)"""
    out = {}
    try:
        res = []
        for variant in ("joint", "seq"):
            specs = case["prefix"] + case[variant]
            instructions = [build_instruction(s) for s in specs]
            cfg = dict(seed_sequence=case.get("seed", 0))
            if case.get("cutoff") is not None:
                cfg["cutoff"] = case["cutoff"]
            sim = simulator_class(case["sim"])(d=case["d"], config=pq.Config(**cfg))
            result = sim.execute(pq.Program(instructions=instructions), shots=None)
            m = {}
            for b in result.branches:
                key = tuple(int(v) for v in b.outcome)
                m[key] = m.get(key, 0.0) + float(b.frequency)
            norm = None
            res.append(m)
        out["joint"] = [[list(k), v] for k, v in sorted(res[0].items())]
        out["seq"] = [[list(k), v] for k, v in sorted(res[1].items())]
    except Exception as e:
        out["error"] = "%s: %s" % (type(e).__name__, str(e)[:300])
    return out


def run_norm(case):
    """exact weights against the measured state's own probabilities and norm: the prefix is
    executed alone to obtain the pre-measurement state, then prefix + measurement"""
    out = {}
    try:
        cfg = dict(seed_sequence=case.get("seed", 0))
        if case.get("cutoff") is not None:
            cfg["cutoff"] = case["cutoff"]
        cfg.update(case.get("config", {}))

        def sim():
            return simulator_class(case["sim"])(d=case["d"], config=pq.Config(**cfg))

        pre = sim().execute(pq.Program(instructions=[build_instruction(s) for s in case["prefix"]]), shots=None)
        if len(pre.branches) != 1 or pre.branches[0].state is None:
            out["error"] = "prefix did not give one state"
            return out
        state = pre.branches[0].state
        out["prefix_weight"] = float(pre.branches[0].frequency)
        out["norm"] = float(np.real(state.norm))
        gone = [m for s in case["prefix"] if s["k"] == "POST" for m in s["modes"]]
        active = [m for m in range(case["d"]) if m not in gone]
        pos = [active.index(m) for m in case["modes"]]
        marg = {}
        for vec, p in state.fock_probabilities_map.items():
            key = tuple(int(vec[i]) for i in pos)
            marg[key] = marg.get(key, 0.0) + float(np.real(p))
        out["marginal"] = [[list(k), v] for k, v in sorted(marg.items())]
        out["state_d"] = int(state.d)
        full = pq.Program(instructions=[build_instruction(s) for s in case["prefix"]]
                          + [build_instruction({"k": "PNM", "modes": case["modes"], "args": {}})])
        res = sim().execute(full, shots=None)
        w = {}
        for b in res.branches:
            key = tuple(int(v) for v in b.outcome)
            w[key] = w.get(key, 0.0) + float(b.frequency)
        out["weights"] = [[list(k), v] for k, v in sorted(w.items())]
    except Exception as e:
        out["error"] = "%s: %s" % (type(e).__name__, str(e)[:300])
    return out


def probe_strict_cond_meas():
    """does this tree refuse a conditioned measurement that is not the last instruction?"""
    try:
        prog = pq.Program(instructions=[
            pq.NumberState([0, 1, 0]),
            pq.ParticleNumberMeasurement().on_modes(0),
            pq.ParticleNumberMeasurement().on_modes(1).when("x[0] > 0"),
            pq.ParticleNumberMeasurement().on_modes(2),
        ])
        pq.PureFockSimulator(d=3, config=pq.Config(cutoff=4)).validate(prog)
        return False
    except pqexc.InvalidSimulation as e:
        return "conditional measurement" in str(e)
    except Exception:
        return False


def main():
    req = json.load(sys.stdin)
    out = {
        "cases": [run_case(c) for c in req.get("cases", [])],
        "proj": [run_proj(c) for c in req.get("proj", [])],
        "seqjoint": [run_seqjoint(c) for c in req.get("seqjoint", [])],
        "norm": [run_norm(c) for c in req.get("norm", [])],
        "piquasso_file": pq.__file__,
        "strict_cond_meas": probe_strict_cond_meas(),
    }
    print(json.dumps(out))


main()
