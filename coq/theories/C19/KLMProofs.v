(* C19 — the CZ block of _cz_on_two_bosonic_qubits as a 4-mode network: the network matrix built
   from the EMITTED list emitted_cz and the gates.py blocks (both in the regenerated EncodeGen.v),
   and the transition amplitudes (permanents of its sub-matrices) as explicit polynomials in
   (cos, sin) of the two fixed angles, over an arbitrary commutative ring.  The explicit matrix and
   polynomials were read off the model once (sympy) and are re-proved on every run: a changed
   order, mode, angle symbol or sign in the emitted list breaks these lemmas. *)
From Coq Require Import ZArith QArith List Bool Arith Ring.
From PV Require Import C19.DRBase C19.EncodeGen C19.DRModel.
Import ListNotations.
Open Scope nat_scope.

Section KLM.
  Context {A : Type} (O : ops A).
  Hypothesis Rth : ring_theory (o0 O) (o1 O) (oadd O) (omul O)
                     (fun x y => oadd O x (oopp O y)) (oopp O) (@eq A).
  Add Ring Aring : Rth.
  Variables c1 s1 c2 s2 : A.
  Local Notation "x + y" := (oadd O x y).
  Local Notation "x * y" := (omul O x y).
  Local Notation "- x" := (oopp O x).

  Ltac struct_eq :=
    repeat match goal with
           | |- Some _ = Some _ => apply f_equal
           | |- cons _ _ = cons _ _ => apply (f_equal2 (@cons _))
           | |- pair _ _ = pair _ _ => apply (f_equal2 (@pair _ _))
           | |- nil = nil => reflexivity
           end.

  (* the 4x4 matrix of the network (rows: output modes, columns: input modes); modes 0,1 are the
     |1> rails of the two qubits, modes 2,3 the ancillas *)
  Definition klm_matrix : @cmat A :=
    [[(- (c1 * c1), o0 O); (- (c1 * s1), o0 O); (- (c1 * s1), o0 O); (- (s1 * s1), o0 O)];
     [(c1 * s1, o0 O); (- (c1 * c1), o0 O); (s1 * s1, o0 O); (- (c1 * s1), o0 O)];
     [(- (s1 * c2), o0 O); (s1 * s2, o0 O); (c1 * c2, o0 O); (- (c1 * s2), o0 O)];
     [(- (s1 * s2), o0 O); (- (s1 * c2), o0 O); (c1 * s2, o0 O); (c1 * c2, o0 O)]].

  Lemma klm_network_matrix : cz_network O (c1, s1) (c2, s2) = Some klm_matrix.
  Proof. unfold klm_matrix. cbv -[oadd omul oopp o0 o1 ohh]. struct_eq; ring. Qed.

  Definition klm_amp (x y o0' o1' : nat) : option (@cplx A) :=
    option_map (fun u => amp_num O u [x; y; 1; 1] [o0'; o1'; 1; 1]) (cz_network O (c1, s1) (c2, s2)).
  Definition klm_poly_00_00 : A :=
    c1 * c1 * c2 * c2 + - (c1 * c1 * s2 * s2).
  Lemma klm_amp_00_00 : klm_amp 0 0 0 0 = Some (klm_poly_00_00, o0 O).
  Proof. unfold klm_amp. rewrite klm_network_matrix. unfold klm_poly_00_00, klm_matrix. cbv -[oadd omul oopp o0 o1 ohh]. struct_eq; ring. Qed.
  Definition klm_poly_01_01 : A :=
    - (c1 * c1 * c1 * c1 * c2 * c2) + c1 * c1 * c1 * c1 * s2 * s2 + c1 * c1 * s1 * s1 * c2 * c2 + - (c1 * c1 * s1 * s1 * s2 * s2) + c1 * s1 * s1 * s1 * c2 * s2 + c1 * s1 * s1 * s1 * c2 * s2.
  Lemma klm_amp_01_01 : klm_amp 0 1 0 1 = Some (klm_poly_01_01, o0 O).
  Proof. unfold klm_amp. rewrite klm_network_matrix. unfold klm_poly_01_01, klm_matrix. cbv -[oadd omul oopp o0 o1 ohh]. struct_eq; ring. Qed.
  Definition klm_poly_01_10 : A :=
    - (c1 * c1 * c1 * s1 * c2 * c2) + c1 * c1 * c1 * s1 * s2 * s2 + - (c1 * c1 * s1 * s1 * c2 * s2) + - (c1 * c1 * s1 * s1 * c2 * s2) + c1 * s1 * s1 * s1 * c2 * c2 + - (c1 * s1 * s1 * s1 * s2 * s2).
  Lemma klm_amp_01_10 : klm_amp 0 1 1 0 = Some (klm_poly_01_10, o0 O).
  Proof. unfold klm_amp. rewrite klm_network_matrix. unfold klm_poly_01_10, klm_matrix. cbv -[oadd omul oopp o0 o1 ohh]. struct_eq; ring. Qed.
  Definition klm_poly_10_01 : A :=
    c1 * c1 * c1 * s1 * c2 * c2 + - (c1 * c1 * c1 * s1 * s2 * s2) + c1 * c1 * s1 * s1 * c2 * s2 + c1 * c1 * s1 * s1 * c2 * s2 + - (c1 * s1 * s1 * s1 * c2 * c2) + c1 * s1 * s1 * s1 * s2 * s2.
  Lemma klm_amp_10_01 : klm_amp 1 0 0 1 = Some (klm_poly_10_01, o0 O).
  Proof. unfold klm_amp. rewrite klm_network_matrix. unfold klm_poly_10_01, klm_matrix. cbv -[oadd omul oopp o0 o1 ohh]. struct_eq; ring. Qed.
  Definition klm_poly_10_10 : A :=
    - (c1 * c1 * c1 * c1 * c2 * c2) + c1 * c1 * c1 * c1 * s2 * s2 + c1 * c1 * s1 * s1 * c2 * c2 + - (c1 * c1 * s1 * s1 * s2 * s2) + c1 * s1 * s1 * s1 * c2 * s2 + c1 * s1 * s1 * s1 * c2 * s2.
  Lemma klm_amp_10_10 : klm_amp 1 0 1 0 = Some (klm_poly_10_10, o0 O).
  Proof. unfold klm_amp. rewrite klm_network_matrix. unfold klm_poly_10_10, klm_matrix. cbv -[oadd omul oopp o0 o1 ohh]. struct_eq; ring. Qed.
  Definition klm_poly_11_02 : A :=
    - (c1 * c1 * c1 * c1 * c1 * s1 * c2 * c2) + - (c1 * c1 * c1 * c1 * c1 * s1 * c2 * c2) + c1 * c1 * c1 * c1 * c1 * s1 * s2 * s2 + c1 * c1 * c1 * c1 * c1 * s1 * s2 * s2 + - (c1 * c1 * c1 * c1 * s1 * s1 * c2 * s2) + - (c1 * c1 * c1 * c1 * s1 * s1 * c2 * s2) + - (c1 * c1 * c1 * c1 * s1 * s1 * c2 * s2) + - (c1 * c1 * c1 * c1 * s1 * s1 * c2 * s2) + c1 * c1 * c1 * s1 * s1 * s1 * c2 * c2 + c1 * c1 * c1 * s1 * s1 * s1 * c2 * c2 + c1 * c1 * c1 * s1 * s1 * s1 * c2 * c2 + c1 * c1 * c1 * s1 * s1 * s1 * c2 * c2 + - (c1 * c1 * c1 * s1 * s1 * s1 * s2 * s2) + - (c1 * c1 * c1 * s1 * s1 * s1 * s2 * s2) + - (c1 * c1 * c1 * s1 * s1 * s1 * s2 * s2) + - (c1 * c1 * c1 * s1 * s1 * s1 * s2 * s2) + c1 * c1 * s1 * s1 * s1 * s1 * c2 * s2 + c1 * c1 * s1 * s1 * s1 * s1 * c2 * s2 + c1 * c1 * s1 * s1 * s1 * s1 * c2 * s2 + c1 * c1 * s1 * s1 * s1 * s1 * c2 * s2 + - (c1 * s1 * s1 * s1 * s1 * s1 * c2 * c2) + - (c1 * s1 * s1 * s1 * s1 * s1 * c2 * c2) + c1 * s1 * s1 * s1 * s1 * s1 * s2 * s2 + c1 * s1 * s1 * s1 * s1 * s1 * s2 * s2.
  Lemma klm_amp_11_02 : klm_amp 1 1 0 2 = Some (klm_poly_11_02, o0 O).
  Proof. unfold klm_amp. rewrite klm_network_matrix. unfold klm_poly_11_02, klm_matrix. cbv -[oadd omul oopp o0 o1 ohh]. struct_eq; ring. Qed.
  Definition klm_poly_11_11 : A :=
    c1 * c1 * c1 * c1 * c1 * c1 * c2 * c2 + - (c1 * c1 * c1 * c1 * c1 * c1 * s2 * s2) + - (c1 * c1 * c1 * c1 * s1 * s1 * c2 * c2) + - (c1 * c1 * c1 * c1 * s1 * s1 * c2 * c2) + - (c1 * c1 * c1 * c1 * s1 * s1 * c2 * c2) + c1 * c1 * c1 * c1 * s1 * s1 * s2 * s2 + c1 * c1 * c1 * c1 * s1 * s1 * s2 * s2 + c1 * c1 * c1 * c1 * s1 * s1 * s2 * s2 + - (c1 * c1 * c1 * s1 * s1 * s1 * c2 * s2) + - (c1 * c1 * c1 * s1 * s1 * s1 * c2 * s2) + - (c1 * c1 * c1 * s1 * s1 * s1 * c2 * s2) + - (c1 * c1 * c1 * s1 * s1 * s1 * c2 * s2) + - (c1 * c1 * c1 * s1 * s1 * s1 * c2 * s2) + - (c1 * c1 * c1 * s1 * s1 * s1 * c2 * s2) + - (c1 * c1 * c1 * s1 * s1 * s1 * c2 * s2) + - (c1 * c1 * c1 * s1 * s1 * s1 * c2 * s2) + c1 * c1 * s1 * s1 * s1 * s1 * c2 * c2 + c1 * c1 * s1 * s1 * s1 * s1 * c2 * c2 + c1 * c1 * s1 * s1 * s1 * s1 * c2 * c2 + - (c1 * c1 * s1 * s1 * s1 * s1 * s2 * s2) + - (c1 * c1 * s1 * s1 * s1 * s1 * s2 * s2) + - (c1 * c1 * s1 * s1 * s1 * s1 * s2 * s2) + - (s1 * s1 * s1 * s1 * s1 * s1 * c2 * c2) + s1 * s1 * s1 * s1 * s1 * s1 * s2 * s2.
  Lemma klm_amp_11_11 : klm_amp 1 1 1 1 = Some (klm_poly_11_11, o0 O).
  Proof. unfold klm_amp. rewrite klm_network_matrix. unfold klm_poly_11_11, klm_matrix. cbv -[oadd omul oopp o0 o1 ohh]. struct_eq; ring. Qed.
  Definition klm_poly_11_20 : A :=
    c1 * c1 * c1 * c1 * c1 * s1 * c2 * c2 + c1 * c1 * c1 * c1 * c1 * s1 * c2 * c2 + - (c1 * c1 * c1 * c1 * c1 * s1 * s2 * s2) + - (c1 * c1 * c1 * c1 * c1 * s1 * s2 * s2) + c1 * c1 * c1 * c1 * s1 * s1 * c2 * s2 + c1 * c1 * c1 * c1 * s1 * s1 * c2 * s2 + c1 * c1 * c1 * c1 * s1 * s1 * c2 * s2 + c1 * c1 * c1 * c1 * s1 * s1 * c2 * s2 + - (c1 * c1 * c1 * s1 * s1 * s1 * c2 * c2) + - (c1 * c1 * c1 * s1 * s1 * s1 * c2 * c2) + - (c1 * c1 * c1 * s1 * s1 * s1 * c2 * c2) + - (c1 * c1 * c1 * s1 * s1 * s1 * c2 * c2) + c1 * c1 * c1 * s1 * s1 * s1 * s2 * s2 + c1 * c1 * c1 * s1 * s1 * s1 * s2 * s2 + c1 * c1 * c1 * s1 * s1 * s1 * s2 * s2 + c1 * c1 * c1 * s1 * s1 * s1 * s2 * s2 + - (c1 * c1 * s1 * s1 * s1 * s1 * c2 * s2) + - (c1 * c1 * s1 * s1 * s1 * s1 * c2 * s2) + - (c1 * c1 * s1 * s1 * s1 * s1 * c2 * s2) + - (c1 * c1 * s1 * s1 * s1 * s1 * c2 * s2) + c1 * s1 * s1 * s1 * s1 * s1 * c2 * c2 + c1 * s1 * s1 * s1 * s1 * s1 * c2 * c2 + - (c1 * s1 * s1 * s1 * s1 * s1 * s2 * s2) + - (c1 * s1 * s1 * s1 * s1 * s1 * s2 * s2).
  Lemma klm_amp_11_20 : klm_amp 1 1 2 0 = Some (klm_poly_11_20, o0 O).
  Proof. unfold klm_amp. rewrite klm_network_matrix. unfold klm_poly_11_20, klm_matrix. cbv -[oadd omul oopp o0 o1 ohh]. struct_eq; ring. Qed.
  (* all transitions with the ancillas found in (1,1): the eight (input, output) pairs with the
     photon number of the data modes conserved *)
  Definition klm_poly (x y o0' o1' : nat) : A :=
    match x, y, o0', o1' with
    | 0, 0, 0, 0 => klm_poly_00_00
    | 0, 1, 0, 1 => klm_poly_01_01
    | 0, 1, 1, 0 => klm_poly_01_10
    | 1, 0, 0, 1 => klm_poly_10_01
    | 1, 0, 1, 0 => klm_poly_10_10
    | 1, 1, 0, 2 => klm_poly_11_02
    | 1, 1, 1, 1 => klm_poly_11_11
    | 1, 1, 2, 0 => klm_poly_11_20
    | _, _, _, _ => o0 O
    end.
  Definition klm_cases : list (nat * nat * nat * nat) :=
    [(0, 0, 0, 0); (0, 1, 0, 1); (0, 1, 1, 0); (1, 0, 0, 1); (1, 0, 1, 0); (1, 1, 0, 2); (1, 1, 1, 1); (1, 1, 2, 0)].
  Theorem klm_network_poly : forall x y o0' o1', In (x, y, o0', o1') klm_cases ->
    klm_amp x y o0' o1' = Some (klm_poly x y o0' o1', o0 O).
  Proof.
    intros x y a b H. simpl in H.
    repeat (destruct H as [H | H]; [inversion H; subst; clear H | ]); try contradiction.
    - exact klm_amp_00_00.
    - exact klm_amp_01_01.
    - exact klm_amp_01_10.
    - exact klm_amp_10_01.
    - exact klm_amp_10_10.
    - exact klm_amp_11_02.
    - exact klm_amp_11_11.
    - exact klm_amp_11_20.
  Qed.
End KLM.
