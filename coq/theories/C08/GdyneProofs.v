(* C08 tier B — the conditional state of a general-dyne measurement is physical
   (Schur complement), in the block form used by
   simulation_steps.py:_get_generaldyne_evolved_state:
     A = cov_outer, C = cov_correlation, B = cov_measured + hbar*detection noise, K = B^-1,
     new covariance = A - C K C^T. *)
From Coq Require Import Reals Lra Lia List Arith Bool Psatz.
From PV Require Import C08.PhysModel C08.PhysProofs.
Open Scope R_scope.

(* rectangular bilinear form  u^T C w,  C : no x k *)
Definition bilr (no k : nat) (C : nat -> nat -> R) (u w : nat -> R) : R :=
  rsum no (fun i => rsum k (fun j => u i * C i j * w j)).

Lemma bilr_dot no k C u w : bilr no k C u w = dot k (rtmv no C u) w.
Proof.
  unfold bilr, dot, tmv. cbn. rewrite sumn_swap. apply sumn_ext; intros j _.
  rewrite sumn_scale_r. apply sumn_ext; intros i _. ring.
Qed.
Lemma dot_comm n u w : dot n u w = dot n w u.
Proof. apply sumn_ext; intros i _. ring. Qed.
Lemma dot_opp_r n u w : dot n u (fun j => - w j) = - dot n u w.
Proof.
  unfold dot. replace (- rsum n (fun i => u i * w i)) with ((-1) * rsum n (fun i => u i * w i)) by ring.
  rewrite sumn_scale_l. apply sumn_ext; intros i _. ring.
Qed.
Lemma mv_fid n c j : (j < n)%nat -> rmv n (fid ROps) c j = c j.
Proof.
  intros Hj. unfold mv, fid. cbn.
  rewrite (sumn_ext n _ (fun l => if Nat.eqb l j then c l else 0)).
  - apply sumn_delta; assumption.
  - intros l _. rewrite (Nat.eqb_sym j l). destruct (Nat.eqb l j); ring.
Qed.
Lemma mv_ext n F G c j :
  (forall l, (l < n)%nat -> F j l = G j l) -> rmv n F c j = rmv n G c j.
Proof. intros H. apply sumn_ext; intros l Hl. rewrite H by assumption. reflexivity. Qed.
Lemma mv_opp n F c j : rmv n F (fun l => - c l) j = - rmv n F c j.
Proof.
  unfold mv. cbn.
  replace (- rsum n (fun k => F j k * c k)) with ((-1) * rsum n (fun k => F j k * c k)) by ring.
  rewrite sumn_scale_l. apply sumn_ext; intros l _. ring.
Qed.

Section Schur.
Variables (no k : nat) (A C B K : nat -> nat -> R).
Hypothesis HK : forall j l, (j < k)%nat -> (l < k)%nat -> fmul ROps k B K j l = fid ROps j l.

Let cvec (u : nat -> R) : nat -> R := rtmv no C u.
Let kc (u : nat -> R) : nat -> R := rmv k K (cvec u).
Let xm (u : nat -> R) : nat -> R := fun j => - kc u j.
Definition schur : nat -> nat -> R := fsub ROps A (fmul ROps k (fmul ROps k C K) (ftr C)).

Lemma cross_term u : bilr no k C u (xm u) = - rbil k K (cvec u) (cvec u).
Proof.
  rewrite bilr_dot. unfold xm. rewrite dot_opp_r. rewrite bil_dot. reflexivity.
Qed.
Lemma BK_cancel u j : (j < k)%nat -> rmv k B (kc u) j = cvec u j.
Proof.
  intros Hj. unfold kc. rewrite <- mv_fmul.
  rewrite (mv_ext k _ (fid ROps)) by (intros l Hl; apply HK; assumption).
  apply mv_fid; assumption.
Qed.
Lemma meas_term u : rbil k B (xm u) (xm u) = rbil k K (cvec u) (cvec u).
Proof.
  rewrite bil_dot.
  rewrite (dot_ext k _ _ (fun j => - cvec u j)).
  2:{ intros j Hj. unfold xm. rewrite mv_opp. rewrite BK_cancel by assumption. reflexivity. }
  rewrite dot_opp_r. unfold xm.
  rewrite (dot_comm k (fun j => - kc u j)). rewrite dot_opp_r. rewrite Ropp_involutive.
  rewrite bil_dot. reflexivity.
Qed.
Lemma schur_form u w :
  rbil no schur u w = rbil no A u w - rbil k K (cvec u) (cvec w).
Proof.
  unfold schur.
  assert (E: rbil no (fsub ROps A (fmul ROps k (fmul ROps k C K) (ftr C))) u w
             = rbil no A u w - rbil no (fmul ROps k (fmul ROps k C K) (ftr C)) u w).
  { unfold bil, fsub. rewrite <- sumn_sub. apply sumn_ext; intros i _.
    rewrite <- sumn_sub. apply sumn_ext; intros j _. cbn. ring. }
  rewrite E. f_equal.
  (* u^T (C K C^T) w = (C^T u)^T K (C^T w) *)
  rewrite (bil_dot k K). unfold bil, dot.
  rewrite (sumn_ext no _ (fun i => rsum k (fun l => u i * C i l * rmv k K (cvec w) l))).
  - rewrite sumn_swap. apply sumn_ext; intros l _.
    change (cvec u l) with (rsum no (fun i => C i l * u i)).
    rewrite sumn_scale_r. apply sumn_ext; intros i _. ring.
  - intros i _.
    rewrite (sumn_ext no _ (fun j => rsum k (fun b => u i * fmul ROps k C K i b * (C j b * w j)))).
    2:{ intros j _. unfold fmul at 1. unfold ftr. cbn [omul oadd osub ROps].
        rewrite sumn_scale_l, sumn_scale_r. apply sumn_ext; intros b _. ring. }
    rewrite sumn_swap.
    rewrite (sumn_ext k _ (fun b => u i * fmul ROps k C K i b * cvec w b)).
    2:{ intros b _. rewrite <- sumn_scale_l. reflexivity. }
    rewrite (sumn_ext k _ (fun b => rsum k (fun l => u i * C i l * (K l b * cvec w b)))).
    2:{ intros b _. unfold fmul. cbn [omul oadd osub ROps].
        rewrite sumn_scale_l, sumn_scale_r. apply sumn_ext; intros l _. ring. }
    rewrite sumn_swap. apply sumn_ext; intros l _.
    change (rmv k K (cvec w) l) with (rsum k (fun b => K l b * cvec w b)).
    rewrite sumn_scale_l. reflexivity.
Qed.
End Schur.

(* If [[A + i hbar Omega_o, C], [C^T, B]] >= 0 (real form below: the state satisfies the
   uncertainty relation and the detection noise N = B - cov_measured satisfies
   N - i hbar Omega_m >= 0, added together), B K = 1 and K is symmetric, then the conditional
   covariance A - C K C^T is symmetric and satisfies the uncertainty relation. *)
Theorem generaldyne_conditional_phys (d_o k : nat) (hbar : R) (A C B K : nat -> nat -> R) :
  symF (2 * d_o) A -> symF k K ->
  (forall j l, (j < k)%nat -> (l < k)%nat -> fmul ROps k B K j l = fid ROps j l) ->
  (forall uo vo um vm,
     0 <= rbil (2 * d_o) A uo uo + rbil (2 * d_o) A vo vo - 2 * hbar * romg d_o uo vo
          + 2 * (bilr (2 * d_o) k C uo um + bilr (2 * d_o) k C vo vm)
          + (rbil k B um um + rbil k B vm vm)) ->
  PhysF d_o hbar (schur k A C K).
Proof.
  intros HA HKs HBK H. split.
  - intros i j Hi Hj. unfold schur, fsub, fmul, ftr. cbn. rewrite (HA i j Hi Hj). f_equal.
    (* sum_b (sum_l C_il K_lb) C_jb = sum_b (sum_l C_jl K_lb) C_ib *)
    rewrite (sumn_ext k _ (fun b => rsum k (fun l => C i l * K l b * C j b))).
    2:{ intros b _. rewrite sumn_scale_r. reflexivity. }
    rewrite sumn_swap. apply sumn_ext; intros l Hl.
    rewrite sumn_scale_r. apply sumn_ext; intros b Hb. cbn. rewrite (HKs l b Hl Hb). ring.
  - intros uo vo.
    specialize (H uo vo (fun j => - rmv k K (rtmv (2 * d_o) C uo) j)
                  (fun j => - rmv k K (rtmv (2 * d_o) C vo) j)).
    pose proof (cross_term (2 * d_o) k C K uo) as E1.
    pose proof (cross_term (2 * d_o) k C K vo) as E2.
    pose proof (meas_term (2 * d_o) k C B K HBK uo) as E3.
    pose proof (meas_term (2 * d_o) k C B K HBK vo) as E4.
    cbv beta zeta in E1, E2, E3, E4.
    rewrite E1, E2, E3, E4 in H.
    rewrite !(schur_form (2 * d_o) k A C K). cbv beta zeta. lra.
Qed.
