(* C15 — the nulling passes make the matrix upper triangular (every d, every ring), a
   unitary upper-triangular matrix is diagonal with unit entries, hence
   inverse_clements (clements U) = U for every unitary U. *)
From Coq Require Import List Arith Bool Lia Ring.
From PV Require Import C15.ClementsModel C15.MatProofs C15.ClementsProofs.
Import ListNotations.

Section Nulling.
Context {A : Type} {O : ROps A} {L : RLaws O}.
Local Open Scope rng_scope.
Add Ring Aring3 : (rth (RLaws := L)).

Variable angles : A -> A -> A * A * A.
Variable phase : A -> A.
Hypothesis angles_unit : forall x y, let '(c, s, e) := angles x y in coef_ok c s e.
(* the nulling equation of _get_angles: tan(theta) e^{i phi} = other / elim, including the
   branch elim = 0 -> (c, s, e) = (0, 1, 1) *)
Hypothesis angles_null : forall x y, let '(c, s, e) := angles x y in e * s * x = c * y.
Hypothesis phase_unit : forall z, z * z^* = r1 -> phase z = z.

(* entries at distance >= k below the diagonal vanish *)
Definition lowz (d k : nat) (U : mat A) : Prop :=
  forall r q, (r < d)%nat -> (q < d)%nat -> (q + k <= r)%nat -> get U r q = r0.

(* ------------------------------------------------------------ direct pass (rows) *)
Lemma apply_direct_nulls : forall d column U, (column + 1 < d)%nat ->
  wf d U -> lowz d (column + 2) U ->
  lowz d (column + 1) (snd (apply_direct angles d column U)).
Proof.
  intros d column U Hcol HU Hlow. unfold apply_direct.
  set (n := (d - 1 - column)%nat).
  pose (P := fun (j : nat) (st : list (BS A) * mat A) =>
    forall r q, (r < d)%nat -> (q < d)%nat ->
      ((q + column + 2 <= r)%nat \/ (r = q + column + 1 /\ q < j)%nat) -> get (snd st) r q = r0).
  assert (HP : P n (fold_left (direct_step angles d column) (seq 0 n) ([], U))).
  { apply fold_seq_inv.
    - intros r q Hr Hq [H|[_ H]]; [|lia]. simpl. apply Hlow; lia.
    - intros j [ops U1] Hj IH. unfold P in *. simpl snd in *. unfold direct_step.
      pose proof (angles_null (get U1 (column + j)%nat j) (- get U1 (column + j + 1)%nat j)) as Hn.
      destruct (angles _ _) as [[c s] e]. simpl snd.
      intros r q Hr Hq Hcond. unfold embed; simpl.
      rewrite emb2_mul_l by (try assumption; lia).
      assert (H0 : forall q', (q' < d)%nat -> (q' < j)%nat ->
                get U1 (column + j)%nat q' = r0 /\ get U1 (column + j + 1)%nat q' = r0).
      { intros q' Hq' Hlt. split; apply IH; lia. }
      destruct (Nat.eqb_spec r (column + j)) as [->|Hr0];
        [|destruct (Nat.eqb_spec r (column + j + 1)) as [->|Hr1]].
      + destruct (H0 q Hq ltac:(lia)) as [E1 E2]. rewrite E1, E2. ring.
      + destruct (Nat.eq_dec q j) as [->|Hqj].
        * replace (c * get U1 (column + j + 1)%nat j) with (- (c * - get U1 (column + j + 1)%nat j)) by ring.
          rewrite <- Hn. ring.
        * destruct (H0 q Hq ltac:(lia)) as [E1 E2]. rewrite E1, E2. ring.
      + apply IH; try assumption. destruct Hcond as [H|[H1 H2]]; [now left|right; lia]. }
  intros r q Hr Hq Hle. apply HP; try assumption.
  destruct (Nat.eq_dec r (q + column + 1)); [right; unfold n; lia|left; lia].
Qed.

(* ------------------------------------------------------------ inverse pass (columns) *)
Lemma apply_inverse_nulls : forall d column U, (column + 1 < d)%nat ->
  wf d U -> lowz d (column + 2) U ->
  lowz d (column + 1) (snd (apply_inverse angles d column U)).
Proof.
  intros d column U Hcol HU Hlow. unfold apply_inverse.
  set (n := (d - 1 - column)%nat).
  pose (P := fun (j : nat) (st : list (BS A) * mat A) =>
    forall r q, (r < d)%nat -> (q < d)%nat ->
      ((q + column + 2 <= r)%nat \/ (r = q + column + 1 /\ j <= q)%nat) -> get (snd st) r q = r0).
  assert (HP : P 0%nat (fold_left (inverse_step angles d column) (rev (seq 0 n)) ([], U))).
  { apply fold_rev_seq_inv.
    - intros r q Hr Hq [H|[H1 H2]]; [|unfold n in *; lia]. simpl. apply Hlow; lia.
    - intros j [ops U1] Hj IH. unfold P in *. simpl snd in *. unfold inverse_step.
      pose proof (angles_null (get U1 (column + j + 1)%nat (j + 1)%nat) (get U1 (column + j + 1)%nat j)) as Hn.
      pose proof (angles_unit (get U1 (column + j + 1)%nat (j + 1)%nat) (get U1 (column + j + 1)%nat j)) as Hu.
      destruct (angles _ _) as [[c s] e]. simpl snd. destruct Hu as (Hc & Hs & Hcs & He).
      intros r q Hr Hq Hcond.
      rewrite embed_adj by (unfold validm; simpl; unfold n in *; lia). simpl.
      rewrite emb2_mul_r by (try assumption; unfold n in *; lia).
      rewrite !conj_mul, !conj_opp, Hc, Hs.
      assert (H0 : forall r', (r' < d)%nat -> (column + j + 2 <= r')%nat ->
                get U1 r' j = r0 /\ get U1 r' (j + 1)%nat = r0).
      { intros r' Hr' Hlt. split; apply IH; unfold n in *; lia. }
      destruct (Nat.eqb_spec q j) as [->|Hq0];
        [|destruct (Nat.eqb_spec q (j + 1)) as [->|Hq1]].
      + destruct (Nat.eq_dec r (column + j + 1)) as [->|Hrj].
        * replace (get U1 (column + j + 1)%nat j * (e^* * c))
            with (e^* * (c * get U1 (column + j + 1)%nat j)) by ring.
          rewrite <- Hn. pose proof (unit_comm _ He) as He'.
          transitivity ((e^* * e - r1) * (s * get U1 (column + j + 1)%nat (j + 1)%nat)); [ring|].
          rewrite He'. ring.
        * destruct (H0 r Hr ltac:(lia)) as [E1 E2]. rewrite E1, E2. ring.
      + destruct (H0 r Hr ltac:(lia)) as [E1 E2]. rewrite E1, E2. ring.
      + apply IH; try assumption. destruct Hcond as [H|[H1 H2]]; [now left|right; lia]. }
  intros r q Hr Hq Hle. apply HP; try assumption.
  destruct (Nat.eq_dec r (q + column + 1)); [right; lia|left; lia].
Qed.

(* ------------------------------------------------------------ all columns *)
Lemma wf_apply_direct : forall d column U, wf d U -> wf d (snd (apply_direct angles d column U)).
Proof.
  intros d column U HU. pose proof (apply_direct_spec angles angles_unit d column U HU) as H.
  destruct (apply_direct angles d column U) as [ops U']. destruct H as [-> _]. apply wf_mmul.
Qed.
Lemma wf_apply_inverse : forall d column U, wf d U -> wf d (snd (apply_inverse angles d column U)).
Proof.
  intros d column U HU. pose proof (apply_inverse_spec angles angles_unit d column U HU) as H.
  destruct (apply_inverse angles d column U) as [ops U']. destruct H as [-> _]. apply wf_mmul.
Qed.

(* theorem 4: after the elimination every entry below the diagonal is zero *)
Theorem nulling_makes_triangular : forall d U, wf d U ->
  lowz d 1 (snd (eliminate angles d U)).
Proof.
  intros d U HU. unfold eliminate.
  pose (P := fun (col : nat) (st : list (BS A) * list (BS A) * mat A) =>
    wf d (snd st) /\ lowz d (col + 1) (snd st)).
  assert (HP : P 0%nat (fold_left (column_step angles d) (rev (seq 0 (d - 1))) ([], [], U))).
  { apply fold_rev_seq_inv.
    - split; [exact HU|]. intros r q Hr Hq Hle. lia.
    - intros col [[first last] U1] Hcol [Hw Hl]. simpl snd in *. unfold column_step.
      replace (S col + 1)%nat with (col + 2)%nat in Hl by lia.
      destruct (Nat.even col).
      + pose proof (apply_direct_nulls d col U1 ltac:(lia) Hw Hl) as H1.
        pose proof (wf_apply_direct d col U1 Hw) as H2.
        destruct (apply_direct angles d col U1) as [ops U']. split; assumption.
      + pose proof (apply_inverse_nulls d col U1 ltac:(lia) Hw Hl) as H1.
        pose proof (wf_apply_inverse d col U1 Hw) as H2.
        destruct (apply_inverse angles d col U1) as [ops U']. split; assumption. }
  exact (proj2 HP).
Qed.

(* ------------------------------------------------------------ unitary + triangular => diagonal *)
Lemma unitary_triangular_diag : forall d R,
  mmul d (madj d R) R = mid d -> lowz d 1 R -> is_diag_unit d R.
Proof.
  intros d R HRR Hlow.
  assert (Hent : forall m k, (m < d)%nat -> (k < d)%nat ->
            sumn d (fun r => (get R r m)^* * get R r k) = if (m =? k)%nat then r1 else r0).
  { intros m k Hm Hk. rewrite <- (get_mid d m k) by assumption. rewrite <- HRR.
    rewrite get_mmul by assumption. apply sumn_ext. intros r Hr. now rewrite get_madj. }
  assert (Hrow : forall m, (m < d)%nat ->
            (forall k, (k < d)%nat -> k <> m -> get R m k = r0) /\
            get R m m * (get R m m)^* = r1).
  { induction m as [m IH] using lt_wf_ind. intros Hm.
    assert (Hcolm : forall r, (r < d)%nat -> r <> m -> get R r m = r0).
    { intros r Hr Hne. destruct (Nat.lt_ge_cases r m).
      - apply (IH r); try assumption; lia.
      - apply Hlow; lia. }
    assert (Hsum : forall k, (k < d)%nat ->
              (get R m m)^* * get R m k = if (m =? k)%nat then r1 else r0).
    { intros k Hk. rewrite <- (Hent m k Hm Hk).
      symmetry. apply (sumn_one d m (fun r => (get R r m)^* * get R r k)); [assumption|].
      intros r Hr Hne. rewrite (Hcolm r Hr Hne). rewrite conj_0. ring. }
    assert (Hmm : get R m m * (get R m m)^* = r1).
    { pose proof (Hsum m Hm) as H. rewrite Nat.eqb_refl in H. rewrite <- H. ring. }
    split; [|exact Hmm].
    intros k Hk Hne. pose proof (Hsum k Hk) as H.
    destruct (Nat.eqb_spec m k); [lia|].
    transitivity ((get R m m * (get R m m)^* ) * get R m k); [rewrite Hmm; ring|].
    transitivity (get R m m * ((get R m m)^* * get R m k)); [ring|]. rewrite H. ring. }
  split.
  - intros i j Hi Hj Hne. apply (proj1 (Hrow i Hi)); [assumption|lia].
  - intros i Hi. apply (proj2 (Hrow i Hi)).
Qed.

(* ------------------------------------------------------------ clements is correct *)
Theorem clements_correct : forall d U, unitary d U ->
  inverse_clements d (clements angles phase d U) = U.
Proof.
  intros d U HU. pose proof HU as (HwU & _ & _).
  apply (clements_recompose angles phase angles_unit phase_unit); [assumption|].
  pose proof (eliminate_spec angles angles_unit d U HwU) as Hel.
  pose proof (nulling_makes_triangular d U HwU) as Htri.
  destruct (eliminate angles d U) as [[first last] R]. simpl snd in *.
  destruct Hel as (HR & Hf & Hl).
  apply unitary_triangular_diag; [|assumption].
  assert (HRu : unitary d R).
  { rewrite HR. apply unitary_mmul; [apply unitary_mmul; [now apply unitary_prodl|assumption]|].
    apply unitary_madj. now apply unitary_prodl. }
  exact (proj1 (proj2 HRu)).
Qed.

End Nulling.
