(* C15 — "glue" lemmas: the algebraic post-processing that takagi and williamson
   (piquasso/_math/decompositions.py) apply to the outputs of svd / schur / sqrtm, over any
   commutative ring with involution and any dimension.  The behaviour of the library routines
   is NOT modelled: it appears as hypotheses on their outputs (the contracts), which the check
   evaluates numerically on the real outputs of every run (certificate check). *)
From Coq Require Import List Arith Bool Lia Ring.
From PV Require Import C15.ClementsModel C15.MatProofs.
Import ListNotations.

Section Glue.
Context {A : Type} {O : ROps A} {L : RLaws O}.
Local Open Scope rng_scope.


(* ------------------------------------------------------------------ takagi *)
(* decompositions.py:takagi   V, S, W^dagger = svd(M);  Q = block_diag(sqrt(V_b^T W_b));
   returns S, V @ conj(Q).
   Contracts / structural facts, all checked numerically per run:
     M = M^T;  M = V S W^dagger;  V^dagger V = 1;  S real diagonal (S^T = S, conj S = S);
     Q S = S Q (Q is block diagonal over equal singular values);  Q Q^dagger = 1;
     Q Q = V^T W;  S Q^T = S Q (Q is symmetric wherever S is not zero). *)
Theorem takagi_glue : forall d (M V S W Q : mat A),
  wf d V -> wf d S -> wf d W -> wf d Q ->
  mtr d M = M ->
  M = mmul d (mmul d V S) (madj d W) ->
  mmul d (madj d V) V = mid d ->
  mtr d S = S -> mconj d S = S ->
  mmul d Q S = mmul d S Q ->
  mmul d Q (madj d Q) = mid d ->
  mmul d Q Q = mmul d (mtr d V) W ->
  mmul d S (mtr d Q) = mmul d S Q ->
  let U := mmul d V (mconj d Q) in
  mmul d (mmul d U S) (mtr d U) = M /\ mmul d (madj d U) U = mmul d (mtr d Q) (mconj d Q).
Proof.
  intros d M V S W Q HwV HwS HwW HwQ Hsym Hsvd HV HSt HSc Hcomm HQu HQQ HQs U.
  (* conjugated versions of the hypotheses on Q *)
  assert (Hcomm' : mmul d (mconj d Q) S = mmul d S (mconj d Q)).
  { rewrite <- HSc at 1. rewrite <- mconj_mmul, Hcomm, mconj_mmul, HSc. reflexivity. }
  assert (HQs' : mmul d S (mtr d (mconj d Q)) = mmul d S (mconj d Q)).
  { rewrite mtr_mconj. rewrite <- HSc. rewrite <- !mconj_mmul. now rewrite HQs. }
  (* from M = M^T:  S W^dagger = conj(V^T W) S V^T *)
  assert (HSW : mmul d S (madj d W) = mmul d (mmul d (mconj d (mmul d (mtr d V) W)) S) (mtr d V)).
  { assert (H1 : mmul d (madj d V) M = mmul d S (madj d W)).
    { rewrite Hsvd. rewrite <- !mmul_assoc. rewrite HV.
      rewrite mmul_id_l by assumption. reflexivity. }
    rewrite <- H1. rewrite <- Hsym at 1. rewrite Hsvd at 1.
    rewrite !mtr_mmul. rewrite HSt.
    rewrite (madj_conj_tr d W), mtr_mconj, mtr_mtr by assumption.
    rewrite <- !mmul_assoc. f_equal. f_equal.
    rewrite mconj_mmul. f_equal. now rewrite madj_conj_tr. }
  assert (HZ : mmul d (mconj d Q) (mconj d Q) = mconj d (mmul d (mtr d V) W))
    by (rewrite <- mconj_mmul; now rewrite HQQ).
  assert (HZS : mmul d (mconj d (mmul d (mtr d V) W)) S = mmul d S (mconj d (mmul d (mtr d V) W))).
  { rewrite <- HZ. rewrite mmul_assoc, Hcomm', <- mmul_assoc, Hcomm', mmul_assoc. reflexivity. }
  split.
  - unfold U. rewrite mtr_mmul.
    transitivity (mmul d V (mmul d (mmul d (mconj d Q) (mmul d S (mtr d (mconj d Q)))) (mtr d V))).
    { now rewrite ?mmul_assoc. }
    rewrite HQs'.
    transitivity (mmul d V (mmul d (mmul d (mmul d (mconj d Q) S) (mconj d Q)) (mtr d V))).
    { now rewrite ?mmul_assoc. }
    rewrite Hcomm'.
    transitivity (mmul d V (mmul d (mmul d S (mmul d (mconj d Q) (mconj d Q))) (mtr d V))).
    { now rewrite ?mmul_assoc. }
    rewrite HZ, <- HZS, <- HSW. rewrite Hsvd. now rewrite ?mmul_assoc.
  - unfold U. rewrite madj_mmul, madj_conj_tr, mtr_mconj, mconj_mconj by apply wf_mk.
    rewrite mmul_assoc, <- (mmul_assoc d (madj d V)), HV, mmul_id_l by apply wf_mk.
    reflexivity.
Qed.

(* the unitarity part: Q symmetric and unitary => U^dagger U = 1 *)
Corollary takagi_glue_unitary : forall d (V Q : mat A),
  wf d Q -> mmul d (madj d V) V = mid d -> mtr d Q = Q -> mmul d Q (madj d Q) = mid d ->
  let U := mmul d V (mconj d Q) in mmul d (madj d U) U = mid d.
Proof.
  intros d V Q HwQ HV HQt HQu U. unfold U.
  rewrite madj_mmul, madj_conj_tr, mtr_mconj, mconj_mconj by apply wf_mk.
  rewrite mmul_assoc, <- (mmul_assoc d (madj d V)), HV, mmul_id_l by apply wf_mk.
  rewrite HQt. rewrite <- HQu. f_equal. rewrite madj_conj_tr, HQt. reflexivity.
Qed.

(* ------------------------------------------------------------------ williamson *)
(* decompositions.py:williamson   R = sqrtm(M).real, Ri = inv(R), T, K = schur(Ri Om Ri),
   B = basis_change (a permutation), G = sqrt(inverse_diagonal_matrix), Dg = diagonal_matrix,
   returns S = R K B G and Dg.  Contracts / structural facts (checked numerically per run):
     R R = M, R^T = R, R Ri = 1 = Ri R;  K K^T = 1;  B B^T = 1;  Ri Om Ri = K T K^T;
     B^T T B = G Om G  (the normal form [[0,E],[-E,0]] with G^2 = diag(E,E));
     G^T = G;  G Dg G = 1. *)
Theorem williamson_glue : forall d (M R Ri K T B G Dg Om : mat A),
  wf d R -> wf d K -> wf d T -> wf d Om ->
  mmul d R R = M -> mtr d R = R ->
  mmul d R Ri = mid d -> mmul d Ri R = mid d ->
  mmul d K (mtr d K) = mid d ->
  mmul d B (mtr d B) = mid d ->
  mmul d (mmul d Ri Om) Ri = mmul d (mmul d K T) (mtr d K) ->
  mmul d (mmul d (mtr d B) T) B = mmul d (mmul d G Om) G ->
  mtr d G = G ->
  mmul d (mmul d G Dg) G = mid d ->
  let S := mmul d (mmul d (mmul d R K) B) G in
  mmul d (mmul d S Dg) (mtr d S) = M /\ mmul d (mmul d S Om) (mtr d S) = Om.
Proof.
  intros d M R Ri K T B G Dg Om HwR HwK HwT HwOm HRR HRt HRRi HRiR HK HB Hschur Hnf HGt HGD S.
  assert (HSt : mtr d S = mmul d G (mmul d (mtr d B) (mmul d (mtr d K) R))).
  { unfold S. rewrite !mtr_mmul, HGt, HRt. now rewrite ?mmul_assoc. }
  split.
  - rewrite HSt. unfold S.
    transitivity (mmul d (mmul d (mmul d R K) B)
                    (mmul d (mmul d (mmul d G Dg) G) (mmul d (mtr d B) (mmul d (mtr d K) R)))).
    { now rewrite ?mmul_assoc. }
    rewrite HGD, mmul_id_l by apply wf_mmul.
    transitivity (mmul d (mmul d R K) (mmul d (mmul d B (mtr d B)) (mmul d (mtr d K) R))).
    { now rewrite ?mmul_assoc. }
    rewrite HB, mmul_id_l by apply wf_mmul.
    transitivity (mmul d R (mmul d (mmul d K (mtr d K)) R)).
    { now rewrite ?mmul_assoc. }
    rewrite HK, mmul_id_l by assumption. exact HRR.
  - rewrite HSt. unfold S.
    transitivity (mmul d (mmul d (mmul d R K) B)
                    (mmul d (mmul d (mmul d G Om) G) (mmul d (mtr d B) (mmul d (mtr d K) R)))).
    { now rewrite ?mmul_assoc. }
    rewrite <- Hnf.
    transitivity (mmul d (mmul d R K)
                    (mmul d (mmul d (mmul d B (mtr d B)) T)
                       (mmul d (mmul d B (mtr d B)) (mmul d (mtr d K) R)))).
    { now rewrite ?mmul_assoc. }
    rewrite HB, !mmul_id_l by (try apply wf_mmul; assumption).
    transitivity (mmul d R (mmul d (mmul d (mmul d K T) (mtr d K)) R)).
    { now rewrite ?mmul_assoc. }
    rewrite <- Hschur.
    transitivity (mmul d (mmul d R Ri) (mmul d Om (mmul d Ri R))).
    { now rewrite ?mmul_assoc. }
    rewrite HRRi, HRiR, mmul_id_r, mmul_id_l by assumption. reflexivity.
Qed.

End Glue.
