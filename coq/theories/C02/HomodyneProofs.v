(* C02 — the homodyne pre-rotation: the model of homodyne_measurement (rotate the measured modes
   by phi, then call the general-dyne sampler with detection covariance diag(z^2, 1/z^2)) hands
   over the mean and covariance of the rotated quadratures x_phi = c x + s p and its conjugate
   -s x + c p of every measured mode.  Real numbers. *)
From Coq Require Import Reals Lra List Bool Arith Lia.
From PV Require Import C02.DistModel C02.DistProofs C02.DyneModel C02.DyneProofs.
Import ListNotations.
Open Scope R_scope.

Ltac rn := cbn [T RN n0 n1 nadd nmul nsub ndiv] in *.

Definition rdot (a b : list R) : R := dot RN a b.

Lemma rdot_cons : forall x a y b, rdot (x :: a) (y :: b) = x * y + rdot a b.
Proof. intros. unfold rdot, dot. cbn [combine map fst snd]. rewrite rsum_cons. reflexivity. Qed.

Lemma rdot_nil_l : forall b, rdot [] b = 0.
Proof. reflexivity. Qed.

Lemma rdot_comm : forall a b, rdot a b = rdot b a.
Proof.
  induction a as [|x a IH]; intros [|y b]; try reflexivity.
  rewrite !rdot_cons, IH. lra.
Qed.

(* dot product of a vector given by a function on indices s, s+1, ... with v *)
Definition dotf (f : nat -> R) (s : nat) (v : list R) : R := rdot (map f (seq s (length v))) v.

Lemma dotf_cons : forall f s x v, dotf f s (x :: v) = f s * x + dotf f (S s) v.
Proof. intros. unfold dotf. cbn [length seq map]. apply rdot_cons. Qed.

Lemma dotf_zero : forall f v s,
  (forall j, (s <= j < s + length v)%nat -> f j = 0) -> dotf f s v = 0.
Proof.
  intros f v. induction v as [|x v IH]; intros s H; [reflexivity|].
  rewrite dotf_cons, IH, H.
  - lra.
  - simpl length. lia.
  - intros j Hj. apply H. simpl length. lia.
Qed.

Lemma dotf_one : forall f v s p, (s <= p < s + length v)%nat ->
  (forall j, (s <= j < s + length v)%nat -> j <> p -> f j = 0) ->
  dotf f s v = f p * nth (p - s) v 0.
Proof.
  intros f v. induction v as [|x v IH]; intros s p Hp H; [simpl in Hp; lia|].
  rewrite dotf_cons. simpl length in *. destruct (Nat.eq_dec s p) as [->|Hne].
  - rewrite dotf_zero; [rewrite Nat.sub_diag; simpl; lra|].
    intros j Hj. apply H; lia.
  - rewrite (H s) by lia. rewrite (IH (S s) p) by (try lia; intros j Hj Hjp; apply H; lia).
    replace (p - s)%nat with (S (p - S s)) by lia. simpl nth. lra.
Qed.

Lemma dotf_two : forall f v s p, (s <= p)%nat -> (p + 1 < s + length v)%nat ->
  (forall j, (s <= j < s + length v)%nat -> j <> p -> j <> (p + 1)%nat -> f j = 0) ->
  dotf f s v = f p * nth (p - s) v 0 + f (p + 1)%nat * nth (p + 1 - s) v 0.
Proof.
  intros f v. induction v as [|x v IH]; intros s p Hs Hp H; [simpl in Hp; lia|].
  rewrite dotf_cons. simpl length in *. destruct (Nat.eq_dec s p) as [->|Hne].
  - rewrite (dotf_one f v (S p) (p + 1)) by (try lia; intros j Hj Hjp; apply H; lia).
    rewrite Nat.sub_diag. replace (p + 1 - p)%nat with 1%nat by lia.
    replace (p + 1 - S p)%nat with O by lia. simpl nth. lra.
  - rewrite (H s) by lia. rewrite (IH (S s) p) by (try lia; intros j Hj Hjp Hjq; apply H; lia).
    replace (p - s)%nat with (S (p - S s)) by lia.
    replace (p + 1 - s)%nat with (S (p + 1 - S s)) by lia. simpl nth. lra.
Qed.

Lemma existsb_in : forall m modes, In m modes -> existsb (Nat.eqb m) modes = true.
Proof. intros. apply existsb_exists. exists m. split; [assumption | apply Nat.eqb_refl]. Qed.

Lemma div2_even : forall m, ((2 * m) / 2 = m)%nat.
Proof. intros. rewrite Nat.mul_comm. apply Nat.div_mul. lia. Qed.
Lemma div2_odd : forall m, ((2 * m + 1) / 2 = m)%nat.
Proof. intros. rewrite (Nat.mul_comm 2 m), Nat.div_add_l by lia. simpl. lia. Qed.
Lemma mod2_even : forall m, ((2 * m) mod 2 = 0)%nat.
Proof. intros. rewrite Nat.mul_comm. apply Nat.mod_mul. lia. Qed.
Lemma mod2_odd : forall m, ((2 * m + 1) mod 2 = 1)%nat.
Proof. intros. rewrite Nat.add_comm, (Nat.mul_comm 2 m), Nat.mod_add by lia. reflexivity. Qed.

(* row 2m+e of the rotation, for a measured mode m *)
Lemma rot_entry_row : forall (c s : R) modes m e j, In m modes -> (e < 2)%nat ->
  rot_entry RN c s modes (2 * m + e) j =
  if Nat.eqb j (2 * m) then (if Nat.eqb e 0 then c else - s)
  else if Nat.eqb j (2 * m + 1) then (if Nat.eqb e 0 then s else c) else 0.
Proof.
  intros c s modes m e j Hin He. unfold rot_entry.
  pose proof (Nat.div_mod j 2 ltac:(lia)) as Hj.
  pose proof (Nat.mod_upper_bound j 2 ltac:(lia)) as Hm.
  destruct e as [|[|e]]; try lia; rn.
  - rewrite Nat.add_0_r, div2_even, mod2_even, (existsb_in m modes Hin).
    destruct (Nat.eqb_spec (2 * m) j), (Nat.eqb_spec j (2 * m)), (Nat.eqb_spec j (2 * m + 1)),
      (Nat.eqb_spec m (j / 2)); try lia; simpl; try reflexivity.
  - rewrite div2_odd, mod2_odd, (existsb_in m modes Hin).
    destruct (Nat.eqb_spec (2 * m + 1) j), (Nat.eqb_spec j (2 * m)), (Nat.eqb_spec j (2 * m + 1)),
      (Nat.eqb_spec m (j / 2)); try lia; simpl; try reflexivity; try lra.
Qed.

(* the rotated quadratures: e = 0 is x_phi = c x + s p, e = 1 its conjugate -s x + c p *)
Definition rotq (c s : R) (e : nat) (x p : R) : R :=
  if Nat.eqb e 0 then c * x + s * p else - s * x + c * p.

Lemma rot_row_dot : forall c s modes m e (v : list R), In m modes -> (e < 2)%nat ->
  (2 * m + 1 < length v)%nat ->
  rdot (map (fun j => rot_entry RN c s modes (2 * m + e) j) (seq 0 (length v))) v =
  rotq c s e (nth (2 * m) v 0) (nth (2 * m + 1) v 0).
Proof.
  intros c s modes m e v Hin He Hl.
  change (dotf (fun j => rot_entry RN c s modes (2 * m + e) j) 0 v =
          rotq c s e (nth (2 * m) v 0) (nth (2 * m + 1) v 0)).
  rewrite (dotf_two _ v 0 (2 * m)); try lia.
  - rewrite !Nat.sub_0_r, !rot_entry_row by assumption.
    rewrite Nat.eqb_refl. destruct (Nat.eqb_spec (2 * m + 1) (2 * m)); [lia|]. rewrite Nat.eqb_refl.
    unfold rotq. destruct (Nat.eqb e 0); lra.
  - intros j Hj H1 H2. rewrite rot_entry_row by assumption.
    destruct (Nat.eqb_spec j (2 * m)); [lia|]. destruct (Nat.eqb_spec j (2 * m + 1)); [lia | reflexivity].
Qed.

Lemma rot_mat_row : forall c s modes dim a, (a < dim)%nat ->
  nth a (rot_mat RN c s modes dim) [] = map (fun j => rot_entry RN c s modes a j) (seq 0 dim).
Proof.
  intros. unfold rot_mat.
  etransitivity; [apply (nth_map_lt nat (list R) (fun i => map (fun j => rot_entry RN c s modes i j) (seq 0 dim)) (seq 0 dim) a O []); rewrite seq_length; assumption|].
  rewrite seq_nth by assumption. reflexivity.
Qed.

Lemma rot_mat_length : forall c s modes dim, length (rot_mat RN c s modes dim) = dim.
Proof. intros. unfold rot_mat. rewrite map_length. apply seq_length. Qed.

(* the mean handed to the sampler: the rotated quadratures of every measured mode, in program order *)
Theorem homodyne_mean_arg_spec : forall (c s : R) (mu : list R) modes i e,
  (i < length modes)%nat -> (e < 2)%nat -> (2 * nth i modes O + 1 < length mu)%nat ->
  nth (2 * i + e) (homodyne_mean_arg (N:=RN) c s mu modes) 0 =
  rotq c s e (nth (2 * nth i modes O) mu 0) (nth (2 * nth i modes O + 1) mu 0).
Proof.
  intros c s mu modes i e Hi He Hl. unfold homodyne_mean_arg.
  destruct (dyne_mean_arg_spec RN (mat_vec RN (rot_mat RN c s modes (length mu)) mu) modes) as [_ Hs].
  etransitivity; [apply Hs; lia|].
  destruct (xpxp_indices_nth modes i Hi) as [H0 H1].
  assert (Hidx : nth (2 * i + e) (xpxp_indices modes) O = (2 * nth i modes O + e)%nat).
  { destruct e as [|[|e]]; try lia. rewrite !Nat.add_0_r. exact H0. }
  rewrite Hidx. set (m := nth i modes O) in *.
  unfold mat_vec.
  etransitivity; [apply (nth_map_lt (list R) R (fun r => dot RN r mu) (rot_mat RN c s modes (length mu)) (2 * m + e) [] 0); rewrite rot_mat_length; lia|].
  rewrite rot_mat_row by lia.
  apply rot_row_dot; [apply nth_In; exact Hi | exact He | exact Hl].
Qed.

(* ---- covariance *)
Lemma mget_mat_mul : forall (A B : list (list R)) a j, (a < length A)%nat -> (j < length (hd [] B))%nat ->
  mget (N:=RN) (mat_mul RN A B) a j = rdot (nth a A []) (col RN B j).
Proof.
  intros A B a j Ha Hj. unfold mget, mat_mul.
  assert (E1 : nth a (map (fun r : list R => map (fun j0 => dot RN r (col RN B j0)) (seq 0 (length (hd [] B)))) A) []
               = map (fun j0 => dot RN (nth a A []) (col RN B j0)) (seq 0 (length (hd [] B)))).
  { apply (nth_map_lt (list R) (list R) (fun r => map (fun j0 => dot RN r (col RN B j0)) (seq 0 (length (hd [] B)))) A a [] []). exact Ha. }
  etransitivity; [apply (f_equal (fun l => nth j l 0) E1)|].
  etransitivity; [apply (nth_map_lt nat R (fun j0 => dot RN (nth a A []) (col RN B j0)) (seq 0 (length (hd [] B))) j O 0); rewrite seq_length; exact Hj|].
  rewrite seq_nth by exact Hj. reflexivity.
Qed.

Lemma mat_mul_length : forall (A B : list (list R)), length (mat_mul RN A B) = length A.
Proof. intros. unfold mat_mul. apply map_length. Qed.

Lemma mat_mul_row_length : forall (A B : list (list R)) a, (a < length A)%nat ->
  length (nth a (mat_mul RN A B) []) = length (hd [] B).
Proof.
  intros A B a Ha. unfold mat_mul.
  assert (E1 : nth a (map (fun r : list R => map (fun j0 => dot RN r (col RN B j0)) (seq 0 (length (hd [] B)))) A) []
               = map (fun j0 => dot RN (nth a A []) (col RN B j0)) (seq 0 (length (hd [] B)))).
  { apply (nth_map_lt (list R) (list R) (fun r => map (fun j0 => dot RN r (col RN B j0)) (seq 0 (length (hd [] B)))) A a [] []). exact Ha. }
  etransitivity; [apply (f_equal (@length R) E1)|]. etransitivity; [apply map_length|]. apply seq_length.
Qed.

Lemma col_length : forall (M : list (list R)) j, length (col RN M j) = length M.
Proof. intros. unfold col. apply map_length. Qed.

Lemma col_nth : forall (M : list (list R)) j p, (p < length M)%nat -> nth p (col RN M j) 0 = mget (N:=RN) M p j.
Proof.
  intros M j p Hp. unfold col, mget.
  apply (nth_map_lt (list R) R (fun r => nth j r 0) M p [] 0). exact Hp.
Qed.

Lemma hd_rot_length : forall c s modes n, (0 < n)%nat -> length (hd [] (rot_mat RN c s modes n)) = n.
Proof.
  intros c s modes n Hn. pose proof (rot_mat_row c s modes n 0 Hn) as Hr.
  destruct (rot_mat RN c s modes n) as [|r0 rest] eqn:E.
  - pose proof (rot_mat_length c s modes n) as Hl. rewrite E in Hl. simpl in Hl. lia.
  - simpl in Hr. simpl hd. rewrite Hr. etransitivity; [apply map_length|]. apply seq_length.
Qed.

(* column b of the transposed rotation is row b of the rotation *)
Lemma col_transpose_rot : forall c s modes n b, (b < n)%nat ->
  col RN (transpose RN (rot_mat RN c s modes n)) b = map (fun j => rot_entry RN c s modes b j) (seq 0 n).
Proof.
  intros c s modes n b Hb. unfold transpose. rewrite hd_rot_length by lia.
  unfold col at 1. rewrite map_map. apply map_ext_in. intros j Hj. apply in_seq in Hj.
  rewrite col_nth by (rewrite rot_mat_length; exact Hb).
  unfold mget. rewrite rot_mat_row by exact Hb.
  etransitivity; [apply (nth_map_lt nat R (fun j0 => rot_entry RN c s modes b j0) (seq 0 n) j O 0); rewrite seq_length; lia|].
  rewrite seq_nth by lia. reflexivity.
Qed.

Lemma hd_transpose_rot_length : forall c s modes n, (0 < n)%nat ->
  length (hd [] (transpose RN (rot_mat RN c s modes n))) = n.
Proof.
  intros c s modes n Hn. unfold transpose. rewrite hd_rot_length by lia.
  destruct n as [|n]; [lia|]. cbn [seq map hd]. rewrite col_length. apply rot_mat_length.
Qed.

Section RotCov.
  Variables c s : R.
  Variable modes : list nat.
  Variable sigma : list (list R).
  Let n := length sigma.
  Hypothesis square : Forall (fun r => length r = n) sigma.

  Lemma hd_sigma_length : (0 < n)%nat -> length (hd [] sigma) = n.
  Proof.
    intros Hn. unfold n in *. destruct sigma as [|r0 rest]; [simpl in Hn; lia|].
    inversion square; subst. simpl hd. assumption.
  Qed.

  (* (R sigma)[2m+e][k] *)
  Lemma rot_sigma_entry : forall m e k, In m modes -> (e < 2)%nat -> (2 * m + 1 < n)%nat -> (k < n)%nat ->
    mget (N:=RN) (mat_mul RN (rot_mat RN c s modes n) sigma) (2 * m + e) k =
    rotq c s e (mget (N:=RN) sigma (2 * m) k) (mget (N:=RN) sigma (2 * m + 1) k).
  Proof.
    intros m e k Hin He Hm Hk.
    rewrite mget_mat_mul by (rewrite ?rot_mat_length, ?hd_sigma_length; lia).
    rewrite rot_mat_row by lia.
    rewrite <- (col_nth sigma k (2 * m)) by (fold n; lia).
    rewrite <- (col_nth sigma k (2 * m + 1)) by (fold n; lia).
    replace n with (length (col RN sigma k)) by (apply col_length).
    apply rot_row_dot; [exact Hin | exact He | rewrite col_length; fold n; lia].
  Qed.

  (* (R sigma R^T)[2ma+ea][2mb+eb]: rotate the column index, then the row index *)
  Theorem rot_conj_entry : forall ma ea mb eb, In ma modes -> In mb modes -> (ea < 2)%nat -> (eb < 2)%nat ->
    (2 * ma + 1 < n)%nat -> (2 * mb + 1 < n)%nat ->
    mget (N:=RN) (mat_mul RN (mat_mul RN (rot_mat RN c s modes n) sigma) (transpose RN (rot_mat RN c s modes n)))
         (2 * ma + ea) (2 * mb + eb) =
    rotq c s eb
      (rotq c s ea (mget (N:=RN) sigma (2 * ma) (2 * mb)) (mget (N:=RN) sigma (2 * ma + 1) (2 * mb)))
      (rotq c s ea (mget (N:=RN) sigma (2 * ma) (2 * mb + 1)) (mget (N:=RN) sigma (2 * ma + 1) (2 * mb + 1))).
  Proof.
    intros ma ea mb eb Ha Hb Hea Heb Hma Hmb.
    set (A := mat_mul RN (rot_mat RN c s modes n) sigma).
    assert (HA : length A = n) by (unfold A; rewrite mat_mul_length; apply rot_mat_length).
    assert (Hrow : length (nth (2 * ma + ea) A []) = n).
    { unfold A. rewrite mat_mul_row_length by (rewrite rot_mat_length; lia). apply hd_sigma_length. lia. }
    assert (Hh : length (hd [] (transpose RN (rot_mat RN c s modes n))) = n) by (apply hd_transpose_rot_length; lia).
    rewrite mget_mat_mul; [| cbn [T RN] in *; lia | cbn [T RN] in *; lia].
    rewrite col_transpose_rot by lia. rewrite rdot_comm.
    replace (seq 0 n) with (seq 0 (length (nth (2 * ma + ea) A []))) by (f_equal; exact Hrow).
    etransitivity; [apply (rot_row_dot c s modes mb eb (nth (2 * ma + ea) A []) Hb Heb); cbn [T RN] in *; lia|].
    change (nth (2 * mb) (nth (2 * ma + ea) A []) 0) with (mget (N:=RN) A (2 * ma + ea) (2 * mb)).
    change (nth (2 * mb + 1) (nth (2 * ma + ea) A []) 0) with (mget (N:=RN) A (2 * ma + ea) (2 * mb + 1)).
    unfold A. rewrite !rot_sigma_entry by (assumption || lia). reflexivity.
  Qed.
End RotCov.

Lemma xpxp_index_at : forall modes i e, (i < length modes)%nat -> (e < 2)%nat ->
  nth (2 * i + e) (xpxp_indices modes) O = (2 * nth i modes O + e)%nat.
Proof.
  intros modes i e Hi He. destruct (xpxp_indices_nth modes i Hi) as [H0 H1].
  destruct e as [|[|e]]; try lia. rewrite !Nat.add_0_r. exact H0.
Qed.

(* the covariance handed to the sampler: the covariance of the rotated quadratures of the measured
   modes plus hbar * diag(z^2, 1/z^2) per mode, halved by the repaired code *)
Theorem homodyne_cov_arg_spec : forall halved (hbar c s z : R) (sigma : list (list R)) modes ia ea ib eb,
  Forall (fun r => length r = length sigma) sigma ->
  (ia < length modes)%nat -> (ib < length modes)%nat -> (ea < 2)%nat -> (eb < 2)%nat ->
  (2 * nth ia modes O + 1 < length sigma)%nat -> (2 * nth ib modes O + 1 < length sigma)%nat ->
  mget (N:=RN) (homodyne_cov_arg (N:=RN) halved hbar c s z sigma modes) (2 * ia + ea) (2 * ib + eb) =
  let ma := nth ia modes O in
  let mb := nth ib modes O in
  let S := rotq c s eb
             (rotq c s ea (mget (N:=RN) sigma (2 * ma) (2 * mb)) (mget (N:=RN) sigma (2 * ma + 1) (2 * mb)))
             (rotq c s ea (mget (N:=RN) sigma (2 * ma) (2 * mb + 1)) (mget (N:=RN) sigma (2 * ma + 1) (2 * mb + 1))) in
  let D := block_diag_entry (N:=RN) (homodyne_detection_cov (N:=RN) z) (2 * ia + ea) (2 * ib + eb) in
  if halved then (S + hbar * D) / 2 else S + hbar * D.
Proof.
  intros halved hbar c s z sigma modes ia ea ib eb Hsq Hia Hib Hea Heb Hma Hmb.
  unfold homodyne_cov_arg. cbv zeta.
  destruct (dyne_cov_arg_spec RN halved hbar
              (mat_mul RN (mat_mul RN (rot_mat RN c s modes (length sigma)) sigma)
                       (transpose RN (rot_mat RN c s modes (length sigma))))
              (homodyne_detection_cov (N:=RN) z) modes) as [_ Hs].
  etransitivity; [apply Hs; lia|]. cbv zeta.
  rewrite !xpxp_index_at by assumption.
  rewrite (rot_conj_entry c s modes sigma Hsq (nth ia modes O) ea (nth ib modes O) eb)
    by (try apply nth_In; assumption).
  destruct halved; reflexivity.
Qed.
