"""Implementation side of C12.

Sections of the request (all optional):
  stub   - scripted executor runs: piquasso's own Simulator.execute on a stub simulator whose
           simulation steps, _validate hooks, parameter callables, Expression evaluation and
           conditions read a script (one event per call).  Every call is logged with what it
           saw.  Output per run: the flat integer encoding of (result, program left behind,
           trace) in the format of C12/ExecModel.v:ser_run, plus observations of the
           caller's other objects (Config, initial state, global random).
  real   - the shipped simulators with real instructions and fault injection.
  arrays - matrix entry points with C / Fortran / strided / read-only buffers.
  globals- who writes the process-global `random` state.
"""
import copy
import hashlib
import json
import random
import sys
import warnings
from fractions import Fraction

import numpy as np

warnings.simplefilter("ignore")

import piquasso as pq  # noqa: E402
from piquasso.api.branch import Branch  # noqa: E402
from piquasso.api.instruction import Gate, Instruction, Measurement, Preparation  # noqa: E402
from piquasso.core import _expressions  # noqa: E402

ERR = {
    "InvalidParameter": 1, "InvalidSimulation": 2, "InvalidModes": 3, "InvalidState": 4,
    "InvalidProgram": 5, "ValueError": 6, "PiquassoException": 7, "Injected": 8,
    "InactiveModes": 9,
}


class Injected(Exception):
    pass


def err_code(e):
    return ERR.get(type(e).__name__, 99)


# ----------------------------------------------------------------------------- script
class Script:
    def __init__(self):
        self.events = []
        self.pos = 0
        self.log = []
        self.index_of = {}     # id(instruction) -> index in the program
        self.callables = {}    # ident -> ScriptedCallable

    def load(self, events):
        self.events = list(events)
        self.pos = 0
        self.log = []

    def pop(self):
        """next event: None = raise, else (z, subs)"""
        if self.pos >= len(self.events):
            self.pos += 1
            raise Injected("script exhausted")
        e = self.events[self.pos]
        self.pos += 1
        if e is None:
            raise Injected("scripted fault at call %d" % (self.pos - 1))
        return e


S = Script()


def outcome_list(outcome):
    return [int(x) for x in outcome]


class ScriptedCallable:
    """A caller's callable (parameter or condition). ident = 100*idx + name, name 50 = condition."""

    def __init__(self, ident):
        self.ident = ident

    def __call__(self, x):
        idx, name = divmod(self.ident, 100)
        if name == 50:
            S.log.append([0, idx] + ser_list(outcome_list(x)))
            z, _ = S.pop()
            return z != 0
        S.log.append([1, idx, name] + ser_list(outcome_list(x)))
        z, _ = S.pop()
        return z

    def __deepcopy__(self, memo):
        return self


_orig_expr_call = _expressions.Expression.__call__


def _scripted_expr_call(self, x=None):
    src = self._src
    if not src.isdigit():
        return _orig_expr_call(self, x)
    return ScriptedCallable(int(src))(x if x is not None else tuple())


# ----------------------------------------------------------------------------- encodings
def ser_list(xs):
    return [len(xs)] + [int(x) for x in xs]


def ser_pval(v):
    if isinstance(v, str):
        return [1, int(v)]
    if isinstance(v, _expressions.Expression):
        return [2, int(v._src)]
    if isinstance(v, ScriptedCallable):
        if S.callables.get(v.ident) is not v:
            return [3, -1]          # not the caller's object
        return [3, v.ident]
    if isinstance(v, np.ndarray):
        return [0, int(v.flat[0])]
    if callable(v):
        return [3, -2]
    return [0, int(v)]


def ser_params(ps):
    out = [len(ps)]
    for k, v in ps.items():
        out += [int(k[1:])] + ser_pval(v)
    return out


def ser_cond(c):
    if c is None:
        return [0]
    if isinstance(c, _expressions.Expression):
        return [1, int(c._src)]
    if isinstance(c, ScriptedCallable):
        return [1, c.ident]
    return [1, -1]


def ser_instr(i):
    return ser_list(i.modes) + ser_params(i.params) + ser_cond(i.condition)


def ser_prog(instrs):
    out = [len(instrs)]
    for i in instrs:
        out += ser_instr(i)
    return out


# ----------------------------------------------------------------------------- stub simulator
class _StubStateBase(pq.State):
    def __init__(self, d, connector, config=None):
        super().__init__(connector=connector, config=config)
        self._d = d
        self.data = np.arange(d + 3, dtype=float)

    @property
    def d(self):
        return self._d

    @property
    def fock_probabilities(self):
        return np.array([1.0])

    def validate(self):
        pass

    def get_particle_detection_probability(self, occupation_number):
        return 1.0


class StubState(_StubStateBase):
    pass


class OtherState(_StubStateBase):
    pass


def _stub_validate(self, connector):
    idx = S.index_of.get(id(self), -1)
    S.log.append([2, idx] + ser_list(self.modes) + ser_params(self.params))
    S.pop()


def stub_step(state, instruction, shots):
    """A scripted simulation step.  Logs what it sees (CStep of the model): the instruction's
    modes and params at the time of the call and the outcome of the branch it runs on."""
    idx = S.index_of.get(id(instruction), -1)
    oc = outcome_list(getattr(state, "_c12_outcome", ()))
    S.log.append([3, idx] + ser_list(instruction.modes) + ser_params(instruction.params) + ser_list(oc))
    state.data += 1.0                      # a step works in place on the state it is given
    _, subs = S.pop()
    n = max(len(subs), 1)
    return [Branch(state=state if k == 0 else state.copy(), outcome=tuple(o), frequency=Fraction(1, n))
            for k, o in enumerate(subs)]


_CLASSES = {}


def stub_class(kind, known, nmodes, mid_ok, none_ok):
    key = (kind, known, nmodes, mid_ok, none_ok)
    if key not in _CLASSES:
        base = {"P": Preparation, "G": Gate, "M": Measurement}[kind]
        name = "Stub%s%d" % (kind, len(_CLASSES))
        _CLASSES[key] = type(name, (base,), {"NUMBER_OF_MODES": nmodes, "_validate": _stub_validate})
    return _CLASSES[key]


class StubSimulator(pq.Simulator):
    _state_class = StubState
    _default_connector_class = pq.NumpyConnector

    @property
    def _instruction_map(self):
        return {c: stub_step for k, c in _CLASSES.items() if k[1]}

    @property
    def _measurement_classes_allowed_mid_circuit(self):
        return tuple(c for k, c in _CLASSES.items() if k[3])

    @property
    def _measurement_classes_allowed_with_shots_none(self):
        return tuple(c for k, c in _CLASSES.items() if k[4])


def build_program(spec):
    S.index_of = {}
    S.callables = {}
    keep = []
    instrs = []
    for idx, isp in enumerate(spec):
        cls = stub_class(isp["kind"], isp["known"], isp["nmodes"], isp["mid_ok"], isp["none_ok"])
        params = {}
        for name, (tag, val) in isp["params"]:
            if tag == 0:
                v = val
            elif tag == 1:
                v = str(val)
            elif tag == 2:
                v = _expressions.Expression(str(val))
            else:
                v = ScriptedCallable(val)
                S.callables[val] = v
            params["p%d" % name] = v
        ins = cls(params=params)
        if isp["modes"]:
            ins._modes = tuple(isp["modes"])
        if isp["cond"] is not None:
            tag, val = isp["cond"]
            if tag == 1:
                ins.when(str(val))
            else:
                c = ScriptedCallable(val)
                S.callables[val] = c
                ins.when(c)
        S.index_of[id(ins)] = idx
        instrs.append(ins)
        keep.append(ins)
    return pq.Program(instructions=instrs)


def config_snapshot(cfg):
    d = {k: repr(v) for k, v in cfg.__dict__.items() if k != "rng"}
    d["rng"] = json.dumps(cfg.rng.bit_generator.state, sort_keys=True, default=str)
    return d


def run_once(sim, prog, events, shots, init):
    """One execute call under the script; returns flat encoding parts."""
    S.load(events)
    try:
        res = sim.execute(prog, shots=shots, initial_state=init)
        r = [0, len(res.branches)]
        for b in res.branches:
            r += ser_list(outcome_list(b.outcome))
    except Exception as e:  # noqa: BLE001
        r = [err_code(e)]
        if r == [99]:
            r = [99, type(e).__name__]
    return r


def install_outcome_probe():
    """Log the outcome of the branch a step runs on: wrap Simulator._apply_instruction_to_branches
    so that every branch's state carries its outcome (attribute), which stub_step reads."""
    orig = pq.Simulator._apply_instruction_to_branches

    def wrapped(self, branches, instruction, shots):
        for b in branches:
            try:
                b.state._c12_outcome = tuple(b.outcome)
            except Exception:  # noqa: BLE001
                pass
        return orig(self, branches, instruction, shots)

    pq.Simulator._apply_instruction_to_branches = wrapped


def stub_section(cases):
    _expressions.Expression.__call__ = _scripted_expr_call
    install_outcome_probe()
    out = []
    for case in cases:
        spec = case["prog"]
        base = [None if e is None else (e[0], e[1]) for e in case["hist"]]
        shots = case["shots"]
        runs = []

        def one(events, rerun):
            prog = build_program(spec)
            before = ser_prog(prog.instructions)
            cfg = pq.Config(validate=case["validate"], seed_sequence=5, cutoff=3)
            cfg_before = config_snapshot(cfg)
            sim = StubSimulator(d=case["sim_d"], config=cfg)
            init = None
            init_before = None
            if case["init"] is not None:
                right, d0 = case["init"]
                init = (StubState if right else OtherState)(d=d0, connector=pq.NumpyConnector(), config=cfg)
                init_before = (init.data.tobytes(), config_snapshot(init._config))
            rnd = random.getstate()
            r = run_once(sim, prog, events, shots, init)
            ser = r + ser_prog(prog.instructions)
            flat_log = [len(S.log)] + [x for e in S.log for x in e]
            rec = {"ser": ser + flat_log, "ncalls": len(S.log), "before": before,
                   "after": ser_prog(prog.instructions), "result": r, "obs": []}
            if config_snapshot(cfg) != cfg_before:
                rec["obs"].append("user-config-changed")
            if init is not None and (init.data.tobytes(), config_snapshot(init._config)) != init_before:
                rec["obs"].append("initial-state-changed")
            if random.getstate() != rnd:
                rec["obs"].append("global-random-changed")
            if rerun is not None:
                r2 = run_once(sim, prog, rerun, shots, init)
                rec["rerun"] = r2 + ser_prog(prog.instructions) + [len(S.log)] + [x for e in S.log for x in e]
            return rec

        clean = one(base, None)
        n = clean["ncalls"]
        runs.append(clean)
        for p in range(n):
            events = base[:p] + [None]
            runs.append(one(events, base))
        out.append({"runs": runs, "ncalls": n})
    return out


def main():
    req = json.load(sys.stdin)
    out = {}
    if "stub" in req:
        out["stub"] = stub_section(req["stub"])
    if "real" in req:
        import c12_real
        out["real"] = c12_real.real_section(req["real"])
    if "initstate" in req:
        import c12_real
        out["initstate"] = c12_real.initstate_section(req["initstate"])
    if "arrays" in req:
        import c12_real
        out["arrays"] = c12_real.arrays_section(req["arrays"])
    if "globals" in req:
        import c12_real
        out["globals"] = c12_real.globals_section(req["globals"])
    print(json.dumps(out))


main()
