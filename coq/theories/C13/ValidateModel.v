(* C13 — model of program construction and of the validator / executor skeleton of
   piquasso/api/simulator.py (repaired code: see /verif/fixes/C13-*.diff).
   Definitions only; the proofs are in ValidateProofs.v.  Stdlib style. *)
From Coq Require Import ZArith List Bool String.
From PV Require Import C13.SimTypes.
Import ListNotations.
Open Scope Z_scope.

(* ------------------------------------------------------------------ exceptions *)
(* api/exceptions.py (the classes the validator raises) and the one builtin class *)
Inductive exn :=
| InvalidParameter | InvalidSimulation | InvalidModes | InvalidProgram | InvalidState
| PiquassoException | ValueError
| InactiveModes.   (* api/exceptions.py (repair): subclass of InvalidModes and of ValueError *)

Definition exn_code (e : exn) : Z :=
  match e with
  | InvalidParameter => 1 | InvalidSimulation => 2 | InvalidModes => 3 | InvalidProgram => 4
  | InvalidState => 5 | PiquassoException => 6 | ValueError => 7 | InactiveModes => 8
  end.

Definition is_piquasso (e : exn) : bool := match e with ValueError => false | _ => true end.

(* Every place where the code can refuse a request, in the order in which the code reaches
   them.  The R... rules are checked before the loop; the L... ones are the checks that
   remain inside the loop of _do_execute_instructions / _apply_instruction_to_branches;
   the D... ones depend on measurement outcomes or on numerics. *)
Inductive rule :=
| RShots         (* execute_instructions: shots not a positive int and not None *)
| RNoD           (* _try_to_infer_d_from_instructions *)
| RExist         (* _validate_instruction_existence / _get_simulation_step *)
| RRange         (* _validate_instruction_modes: mode < 0 or mode >= d *)
| RRepeated      (* _validate_instruction_modes: repeated mode (repair) *)
| RPrepFirst     (* _validate_preparations_at_beginning *)
| RMeasLast      (* _validate_measurements_at_end *)
| RActiveArity   (* _validate_active_modes (repair): all-mode instruction, wrong NUMBER_OF_MODES *)
| RActive        (* _validate_active_modes (repair): mode already measured *)
| RShotsNone     (* _validate_shots_none_support (repair) *)
| RInitType      (* _validate_initial_state: isinstance *)
| RInitD         (* _validate_initial_state: d *)
| RParams        (* _validate_resolved_parameters (repair): Instruction._validate *)
| LArity         (* loop: modes setter on active_modes -> _validate_modes *)
| LInactive      (* loop: bare ValueError *)
| LExist         (* loop: _get_simulation_step *)
| LShotsNone     (* loop: shots=None support *)
| DCond          (* _is_condition_met raised *)
| DResolve       (* _resolve_params raised *)
| DParams        (* _validate of outcome-dependent parameters *)
| DStep.         (* the simulation step itself raised *)

Definition rule_code (r : rule) : Z :=
  match r with
  | RShots => 1 | RNoD => 2 | RExist => 3 | RRange => 4 | RRepeated => 5 | RPrepFirst => 6
  | RMeasLast => 7 | RActiveArity => 8 | RActive => 9 | RShotsNone => 10 | RInitType => 11
  | RInitD => 12 | RParams => 13 | LArity => 14 | LInactive => 15 | LExist => 16
  | LShotsNone => 17 | DCond => 18 | DResolve => 19 | DParams => 20 | DStep => 21
  end.

(* the exception class table *)
Definition exn_of (r : rule) : exn :=
  match r with
  | RShots => InvalidParameter
  | RNoD => InvalidSimulation
  | RExist => InvalidSimulation
  | RRange => InvalidModes
  | RRepeated => InvalidModes
  | RPrepFirst => InvalidSimulation
  | RMeasLast => InvalidSimulation
  | RActiveArity => InvalidProgram
  | RActive => InactiveModes
  | RShotsNone => InvalidParameter
  | RInitType => InvalidState
  | RInitD => InvalidState
  | RParams => InvalidParameter
  | LArity => InvalidProgram
  | LInactive => ValueError
  | LExist => InvalidSimulation
  | LShotsNone => InvalidParameter
  | DCond => PiquassoException
  | DResolve => InvalidParameter
  | DParams => InvalidParameter
  | DStep => ValueError
  end.

(* a refusal that can be decided from the request alone *)
Definition structural (r : rule) : bool :=
  match r with DCond | DResolve | DParams | DStep => false | _ => true end.

(* ------------------------------------------------------------------ instructions *)
Record instr := mkinstr {
  i_cls : cls;
  i_modes : list Z;       (* () when no modes were registered *)
  i_resolved : bool;      (* Instruction._is_resolved: no callable / string parameter *)
  i_pvalid : bool         (* Instruction._validate(connector) returns for the given params *)
}.

Definition is_prep (i : instr) : bool := kind_eqb (c_kind (i_cls i)) KPrep.
Definition is_meas (i : instr) : bool := kind_eqb (c_kind (i_cls i)) KMeas.

(* isinstance(instruction, tuple_of_classes) *)
Definition isinstance (i : instr) (classes : list Z) : bool :=
  existsb (fun a => memz a classes) (c_anc (i_cls i)).

(* Simulator._get_simulation_step: [type(instruction) is instruction_class] *)
Definition supported (T : simtab) (i : instr) : bool := memz (c_id (i_cls i)) (s_imap T).

(* Instruction._validate_modes *)
Definition arity_ok (c : cls) (modes : list Z) : bool :=
  match c_nmodes c with
  | None => true
  | Some n => Z.of_nat (List.length modes) =? n
  end.

Fixpoint distinctb (l : list Z) : bool :=
  match l with
  | [] => true
  | x :: r => negb (memz x r) && distinctb r
  end.

(* ------------------------------------------------------------------ construction *)
(* api/mode.py:Q.__init__ — Q(all) / Q(m1, m2, ...) *)
Inductive qarg := QAll | QModes (l : list Z).

Definition q_init (a : qarg) : exn + list Z :=
  match a with
  | QAll => inr []
  | QModes l =>
      if existsb (fun m => m <? 0) l then inl InvalidModes
      else if negb (distinctb l) then inl InvalidModes
      else inr l
  end.

(* api/instruction.py:Instruction.on_modes — [if modes is not tuple(): self.modes = modes],
   the setter calling _validate_modes *)
Definition on_modes (i : instr) (modes : list Z) : exn + instr :=
  match modes with
  | [] => inr i
  | _ => if arity_ok (i_cls i) modes
         then inr (mkinstr (i_cls i) modes (i_resolved i) (i_pvalid i))
         else inl InvalidProgram
  end.

(* how one instruction reaches the program: [Q(...) | instr], [instr.on_modes(...)] in a
   list given to Program(instructions=...), or bare *)
Inductive reg := ViaQ (a : qarg) | ViaOnModes (l : list Z) | Bare.

Definition register (r : reg) (i : instr) : exn + instr :=
  match r with
  | ViaQ a => match q_init a with inl e => inl e | inr l => on_modes i l end
  | ViaOnModes l => on_modes i l
  | Bare => inr i
  end.

(* the [with pq.Program()] block: the first failing registration aborts it *)
Fixpoint build (script : list (reg * instr)) : exn + list instr :=
  match script with
  | [] => inr []
  | (r, i) :: rest =>
      match register r i with
      | inl e => inl e
      | inr i' => match build rest with inl e => inl e | inr p => inr (i' :: p) end
      end
  end.

(* ------------------------------------------------------------------ the request *)
Inductive shots_t := SInt (n : Z) | SBool (b : bool) | SNone | SOther.

(* [isinstance(shots, int) and shots > 0] or [shots is None]; bool is a subclass of int *)
Definition shots_ok (s : shots_t) : bool :=
  match s with
  | SInt n => 0 <? n
  | SBool b => b
  | SNone => true
  | SOther => false
  end.

Definition shots_is_none (s : shots_t) : bool := match s with SNone => true | _ => false end.

Record request := mkreq {
  r_simd : option Z;                 (* Simulator(d=...) *)
  r_validate : bool;                 (* config.validate *)
  r_shots : shots_t;
  r_init : option (Z * Z);           (* initial_state: (identity of its class, its d) *)
  r_prog : list instr
}.

(* ------------------------------------------------------------------ d inference *)
Definition maxl (x : Z) (l : list Z) : Z := fold_left Z.max l x.

(* simulator.py:_infer_number_of_modes_from_instructions *)
Definition infer_step (acc : option Z) (i : instr) : option Z :=
  match i_modes i with
  | [] => acc
  | m :: r =>
      let mx := maxl m r in
      match acc with
      | None => Some (mx + 1)
      | Some n => if (n =? 0) || (n <=? mx) then Some (mx + 1) else Some n
      end
  end.

Definition infer_d (p : list instr) : option Z := fold_left infer_step p None.

(* Simulator._try_to_infer_d_from_instructions: [self.d or infer(...)] *)
Definition eff_d (simd : option Z) (p : list instr) : option Z :=
  match simd with
  | Some n => if n =? 0 then infer_d p else Some n
  | None => infer_d p
  end.

(* ------------------------------------------------------------------ validators *)
Definition first_fail {A} (bad : A -> bool) (l : list A) : bool := existsb bad l.

(* _validate_instruction_existence *)
Definition check_exist (T : simtab) (p : list instr) : bool := forallb (supported T) p.

(* _validate_instruction_modes: range, then (repair) distinctness, per instruction, in order *)
Definition in_range (d : Z) (i : instr) : bool :=
  forallb (fun m => (0 <=? m) && (m <? d)) (i_modes i).

Fixpoint check_modes (d : Z) (p : list instr) : option rule :=
  match p with
  | [] => None
  | i :: rest =>
      if negb (in_range d i) then Some RRange
      else if negb (distinctb (i_modes i)) then Some RRepeated
      else check_modes d rest
  end.

(* _validate_preparations_at_beginning: for each preparation, any earlier non-preparation *)
Fixpoint check_prep_from (before : list instr) (p : list instr) : bool :=
  match p with
  | [] => true
  | i :: rest =>
      if is_prep i && existsb (fun j => negb (is_prep j)) before then false
      else check_prep_from (before ++ [i]) rest
  end.
Definition check_prep (p : list instr) : bool := check_prep_from [] p.

(* _validate_measurements_at_end: enumerate, [index != len(instructions) - 1] *)
Fixpoint check_meas_from (T : simtab) (len : nat) (index : nat) (p : list instr) : bool :=
  match p with
  | [] => true
  | i :: rest =>
      if is_meas i && negb (Nat.eqb index (len - 1)) && negb (isinstance i (s_mid T))
      then false
      else check_meas_from T len (S index) rest
  end.
Definition check_meas (T : simtab) (p : list instr) : bool :=
  check_meas_from T (List.length p) 0 p.

(* range(d) *)
Definition range (d : Z) : list Z := map Z.of_nat (seq 0 (Z.to_nat d)).

(* active modes after a measurement (on original labels) *)
Definition drop_measured (active : list Z) (i : instr) : list Z :=
  match i_modes i with
  | [] => []
  | ms => filter (fun m => negb (memz m ms)) active
  end.

(* _validate_active_modes (repair): the register shrinks at every measurement *)
Fixpoint check_active (active : list Z) (p : list instr) : option rule :=
  match p with
  | [] => None
  | i :: rest =>
      match i_modes i with
      | [] => if arity_ok (i_cls i) active then
                check_active (if is_meas i then drop_measured active i else active) rest
              else Some RActiveArity
      | ms => if forallb (fun m => memz m active) ms then
                check_active (if is_meas i then drop_measured active i else active) rest
              else Some RActive
      end
  end.

(* _validate_shots_none_support (repair) *)
Definition none_ok (T : simtab) (s : shots_t) (i : instr) : bool :=
  negb (is_meas i && shots_is_none s && negb (isinstance i (s_none T))).
Definition check_shots_none (T : simtab) (s : shots_t) (p : list instr) : bool :=
  forallb (none_ok T s) p.

(* _validate_initial_state; [isinstance(initial_state, self._state_class)] is modelled for
   the exact state classes (no state class of the package derives from another one's) *)
Definition check_init (T : simtab) (d : Z) (init : option (Z * Z)) : option rule :=
  match init with
  | None => None
  | Some (c, d') => if negb (c =? s_state T) then Some RInitType
                    else if negb (d' =? d) then Some RInitD else None
  end.

(* _validate_resolved_parameters (repair): config.validate, resolved instructions only *)
Definition param_ok (i : instr) : bool := negb (i_resolved i) || i_pvalid i.
Definition check_params (validate : bool) (p : list instr) : bool :=
  negb validate || forallb param_ok p.

(* execute_instructions up to the call of _do_execute_instructions: the first failing rule *)
Definition validate_upfront (T : simtab) (r : request) : option rule :=
  if negb (shots_ok (r_shots r)) then Some RShots else
  match eff_d (r_simd r) (r_prog r) with
  | None => Some RNoD
  | Some d =>
      let p := r_prog r in
      if negb (check_exist T p) then Some RExist else
      match check_modes d p with
      | Some e => Some e
      | None =>
          if negb (check_prep p) then Some RPrepFirst else
          if negb (check_meas T p) then Some RMeasLast else
          match check_active (range d) p with
          | Some e => Some e
          | None =>
              if negb (check_shots_none T (r_shots r) p) then Some RShotsNone else
              match check_init T d (r_init r) with
              | Some e => Some e
              | None => if negb (check_params (r_validate r) p) then Some RParams else None
              end
          end
      end
  end.

(* ------------------------------------------------------------------ the loop *)
(* What the outside world answers when the executor visits one (instruction, branch) pair:
   does the condition hold (None: evaluating it raised), do outcome-dependent parameters
   resolve and validate, and what does the simulation step return (None: it raised;
   Some k: k sub-branches). *)
Record answer := mkans {
  a_cond : option bool;
  a_resolve : bool;
  a_valid : bool;
  a_step : option nat
}.

Definition oracle := nat -> answer.

Inductive outcome :=
| Done (branches : nat) (steps : nat) (visits : nat)
| Refused (r : rule) (steps : nat).

(* Simulator._remap_modes / _remap_modes_inverse / _delete_modes_from_active *)
Fixpoint index_of (m : Z) (l : list Z) : nat :=
  match l with
  | [] => 0
  | x :: r => if x =? m then 0%nat else S (index_of m r)
  end.
Definition remap (active modes : list Z) : list nat := map (fun m => index_of m active) modes.
Definition remap_inverse (active : list Z) (idx : list nat) : list Z :=
  map (fun k => nth k active (-1)) idx.
Definition delete_from_active (active : list Z) (idx : list nat) : list Z :=
  filter (fun m => negb (memz m (remap_inverse active idx))) active.

(* _apply_instruction_to_branches, the [for branch in branches] loop:
   [todo] branches still to visit, [acc] branches already produced *)
Fixpoint visit_branches (Orc : oracle) (validate : bool) (i : instr)
         (todo : nat) (ctr : nat) (acc : nat) (steps : nat) : (nat * nat * nat) + (rule * nat) :=
  match todo with
  | O => inl (acc, ctr, steps)
  | S todo' =>
      let a := Orc ctr in
      match a_cond a with
      | None => inr (DCond, steps)
      | Some false => visit_branches Orc validate i todo' (S ctr) (S acc) steps
      | Some true =>
          if negb (i_resolved i) && negb (a_resolve a) then inr (DResolve, steps) else
          if validate && negb (i_resolved i) && negb (a_valid a) then inr (DParams, steps) else
          match a_step a with
          | None => inr (DStep, S steps)
          | Some k => visit_branches Orc validate i todo' (S ctr) (acc + k)%nat (S steps)
          end
      end
  end.

(* _do_execute_instructions *)
Fixpoint exec_loop (T : simtab) (Orc : oracle) (validate : bool) (s : shots_t)
         (p : list instr) (active : list Z) (branches ctr steps : nat) : outcome :=
  match p with
  | [] => Done branches steps ctr
  | i :: rest =>
      let modes := match i_modes i with [] => active | ms => ms end in
      if match i_modes i with [] => negb (arity_ok (i_cls i) active) | _ => false end
      then Refused LArity steps else
      if existsb (fun m => negb (memz m active)) modes then Refused LInactive steps else
      let idx := remap active modes in
      if negb (supported T i) then Refused LExist steps else
      if is_meas i && shots_is_none s && negb (isinstance i (s_none T))
      then Refused LShotsNone steps else
      match visit_branches Orc validate i branches ctr 0 steps with
      | inr (r, st) => Refused r st
      | inl (br', ctr', st') =>
          exec_loop T Orc validate s rest
                    (if is_meas i then delete_from_active active idx else active)
                    br' ctr' st'
      end
  end.

(* Simulator.execute / execute_instructions *)
Definition run (T : simtab) (Orc : oracle) (r : request) : outcome :=
  match validate_upfront T r with
  | Some e => Refused e 0
  | None =>
      match eff_d (r_simd r) (r_prog r) with
      | None => Refused RNoD 0
      | Some d => exec_loop T Orc (r_validate r) (r_shots r) (r_prog r) (range d) 1 0 0
      end
  end.

(* Simulator.validate(program) *)
Definition validate_program (T : simtab) (simd : option Z) (p : list instr) : option rule :=
  match eff_d simd p with
  | None => Some RNoD
  | Some d =>
      if negb (check_exist T p) then Some RExist else
      match check_modes d p with
      | Some e => Some e
      | None =>
          if negb (check_prep p) then Some RPrepFirst else
          if negb (check_meas T p) then Some RMeasLast else check_active (range d) p
      end
  end.

(* program construction followed by execution: what the user sees *)
Inductive verdict :=
| VBuildError (e : exn)
| VRefused (r : rule) (steps : nat)
| VDone (branches steps visits : nat).

Definition submit (T : simtab) (Orc : oracle) (simd : option Z) (validate : bool)
           (s : shots_t) (init : option (Z * Z)) (script : list (reg * instr)) : verdict :=
  match build script with
  | inl e => VBuildError e
  | inr p =>
      match run T Orc (mkreq simd validate s init p) with
      | Refused r n => VRefused r n
      | Done b n v => VDone b n v
      end
  end.

(* oracle built from a recorded history (used by the correspondence runs) *)
Definition oracle_of (h : list answer) : oracle :=
  fun n => nth n h (mkans (Some true) true true (Some 1%nat)).
