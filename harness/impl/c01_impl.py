"""Implementation side of C01: runs piquasso's simulators / kernels on the requested inputs.

Request (JSON on stdin):
  tables : [{d, cutoff, U}]                 -> helper indices and Fock representation tables
  slos   : [{U, s}]                         -> passive/utils.py:calculate_state_vector
  passive: [{d, cutoff, s, gates}]          -> PureFock / Fock / Passive simulators on |s>
  active : [{d, cutoff, hbar, prep, gates, sims, nmax}] -> differential between simulators
Complex numbers travel as [re, im]; gates as {"g": class name, "modes": [...], "kw": {...}}
where a matrix-valued keyword is {"matrix": [[ [re,im], ...], ...]}.
"""
import json
import sys
import warnings

import numpy as np

warnings.filterwarnings("ignore")

import piquasso as pq  # noqa: E402
from piquasso._math.fock import get_fock_space_basis, cutoff_fock_space_dim  # noqa: E402


def cplx(m):
    a = np.array(m, dtype=float)
    return a[..., 0] + 1j * a[..., 1]


def enc(z):
    z = np.asarray(z)
    return np.stack([np.real(z), np.imag(z)], axis=-1).tolist()


def err(e):
    return {"error": type(e).__name__, "msg": str(e)[:300]}


def mk_gate(g):
    kw = {}
    for k, v in g.get("kw", {}).items():
        if isinstance(v, dict) and "matrix" in v:
            kw[k] = cplx(v["matrix"])
        elif isinstance(v, dict) and "complex" in v:
            kw[k] = complex(v["complex"][0], v["complex"][1])
        else:
            kw[k] = v
    return getattr(pq, g["g"])(**kw)


def do_tables(req):
    from piquasso._simulators.fock.simulation_steps import calculate_interferometer_helper_indices
    from piquasso._simulators.connectors.numpy_.interferometer import (
        calculate_interferometer_on_fock_space,
    )

    out = []
    for c in req:
        d, cutoff = c["d"], c["cutoff"]
        U = cplx(c["U"]).astype(np.complex128)
        rec = {}
        try:
            h = calculate_interferometer_helper_indices(d=d, cutoff=cutoff)
            reps = calculate_interferometer_on_fock_space(U, h)
            rec["reps"] = [enc(r) for r in reps]
            rec["sub"] = [np.asarray(x).tolist() for x in h[0]]
            rec["first_nz"] = [np.asarray(x).tolist() for x in h[1]]
            rec["first_sub"] = [np.asarray(x).tolist() for x in h[2]]
            rec["occ"] = [np.rint(np.asarray(x) ** 2).astype(int).tolist() for x in h[3]]
            rec["occ_err"] = max([float(np.max(np.abs(np.asarray(x) ** 2 - np.rint(np.asarray(x) ** 2)))) for x in h[3]] + [0.0])
            rec["first_occ"] = [np.rint(np.asarray(x) ** 2).astype(int).tolist() for x in h[4]]
        except Exception as e:  # noqa: BLE001
            rec = err(e)
        out.append(rec)
    return out


def do_slos(req):
    from piquasso._simulators.passive.utils import calculate_state_vector
    from piquasso._simulators.connectors import NumpyConnector

    conn = NumpyConnector()
    cfg = pq.Config()
    out = []
    for c in req:
        U = cplx(c["U"]).astype(np.complex128)
        try:
            post = c.get("post")
            pdata = (tuple(post[0]), tuple(post[1])) if post else ((), ())
            v = calculate_state_vector(U, np.array(c["s"], dtype=int), pdata, cfg, conn)
            rec = {"v": enc(v)}
            if post:
                from piquasso._math.combinatorics import partitions_bounded_k

                rec["basis"] = np.asarray(partitions_bounded_k(
                    boxes=len(c["s"]), particles=int(sum(c["s"])), constrained_boxes=post[0],
                    max_per_box=post[1], k_limit=0)).tolist()
            out.append(rec)
        except Exception as e:  # noqa: BLE001
            out.append(err(e))
    return out


def do_pbk(req):
    from piquasso._math.combinatorics import partitions_bounded_k

    out = []
    for c in req:
        try:
            r = partitions_bounded_k(boxes=c["boxes"], particles=c["particles"], constrained_boxes=c["modes"],
                                     max_per_box=c["maxs"], k_limit=c["klimit"])
            out.append({"rows": np.asarray(r).tolist()})
        except Exception as e:  # noqa: BLE001
            out.append(err(e))
    return out


def build_program(prep, gates):
    with pq.Program() as p:
        for ins in prep:
            ins()
        for g in gates:
            pq.Q(*g["modes"]) | mk_gate(g)
    return p


def observe(state, d, cutoff, n, want_sv, probe):
    """Observables of a final state, restricted to what the harness compares."""
    rec = {}
    basis = get_fock_space_basis(d=d, cutoff=cutoff)
    lo = cutoff_fock_space_dim(d=d, cutoff=n)
    hi = cutoff_fock_space_dim(d=d, cutoff=n + 1)
    try:
        rec["probs"] = np.asarray(state.fock_probabilities, dtype=float).tolist()
    except Exception as e:  # noqa: BLE001
        rec["probs"] = err(e)
    if want_sv:
        try:
            rec["sv"] = enc(np.asarray(state.state_vector))
        except Exception as e:  # noqa: BLE001
            rec["sv"] = err(e)
    try:
        dm = np.asarray(state.density_matrix)
        blk = dm[lo:hi, lo:hi]
        rec["dm_block"] = enc(blk)
        rest = dm.copy()
        rest[lo:hi, lo:hi] = 0
        rec["dm_rest"] = float(np.max(np.abs(rest))) if rest.size else 0.0
        rec["dm_shape"] = list(dm.shape)
    except Exception as e:  # noqa: BLE001
        rec["dm_block"] = err(e)
    try:
        rec["pdp"] = [float(state.get_particle_detection_probability(np.array(basis[i]))) for i in probe]
    except Exception as e:  # noqa: BLE001
        rec["pdp"] = err(e)
    return rec


def do_passive(req):
    out = []
    for c in req:
        d, cutoff, s = c["d"], c["cutoff"], c["s"]
        n = int(sum(s))
        dim = int(cutoff_fock_space_dim(d=d, cutoff=cutoff))
        lo = int(cutoff_fock_space_dim(d=d, cutoff=n))
        hi = int(cutoff_fock_space_dim(d=d, cutoff=n + 1))
        probe = list(range(lo, min(hi, dim)))
        rec = {"dim": dim, "lo": lo, "hi": hi}
        sims = {
            "pure": (pq.PureFockSimulator, [lambda: pq.Q(all) | pq.NumberState(s)]),
            "fock": (pq.FockSimulator, [lambda: pq.Q(all) | pq.DensityMatrix(ket=tuple(s), bra=tuple(s))]),
            "passive": (pq.PassiveSimulator, [lambda: pq.Q(all) | pq.NumberState(s)]),
        }
        for name, (Sim, prep) in sims.items():
            try:
                prog = build_program(prep, c["gates"])
                sim = Sim(d=d, config=pq.Config(cutoff=cutoff))
                st = sim.execute(prog).state
                r = observe(st, d, cutoff, n, name != "fock", probe)
                if name == "passive":
                    r["interferometer"] = enc(st.interferometer)
                rec[name] = r
            except Exception as e:  # noqa: BLE001
                rec[name] = err(e)
        out.append(rec)
    return out


def do_active(req):
    out = []
    for c in req:
        d, cutoff, hbar, nmax = c["d"], c["cutoff"], c["hbar"], c["nmax"]
        hi = int(cutoff_fock_space_dim(d=d, cutoff=min(nmax + 1, cutoff)))
        rec = {"hi": hi}
        table = {"gaussian": pq.GaussianSimulator, "pure": pq.PureFockSimulator, "fock": pq.FockSimulator}
        for name in c["sims"]:
            try:
                prog = build_program([lambda: pq.Q(all) | pq.Vacuum()], c["gates"])
                # the Gaussian state is exact whatever the cutoff, which only selects the
                # listed basis states: list just the compared sectors there
                cut = min(nmax + 1, cutoff) if name == "gaussian" else c.get("cutoffs", {}).get(name, cutoff)
                sim = table[name](d=d, config=pq.Config(cutoff=cut, hbar=hbar))
                st = sim.execute(prog).state
                r = {}
                r["probs"] = np.asarray(st.fock_probabilities, dtype=float)[:hi].tolist()
                dm = np.asarray(st.density_matrix)
                r["dm"] = enc(dm[:hi, :hi])
                basis = get_fock_space_basis(d=d, cutoff=cut)
                r["pdp"] = [float(st.get_particle_detection_probability(np.array(basis[i]))) for i in range(hi)]
                rec[name] = r
            except Exception as e:  # noqa: BLE001
                rec[name] = err(e)
        out.append(rec)
    return out


def main():
    import time

    req = json.load(sys.stdin)
    out = {"timing": {}}
    for key, fn in (("tables", do_tables), ("slos", do_slos), ("pbk", do_pbk), ("passive", do_passive), ("active", do_active)):
        if key in req:
            t0 = time.time()
            out[key] = fn(req[key])
            out["timing"][key] = round(time.time() - t0, 1)
    print(json.dumps(out))


main()
