(* C12 - proofs about the heap model: the executor writes only to its own copies. *)
From Coq Require Import ZArith List Bool Arith Lia.
From PV Require Import C12.HeapModel.
Import ListNotations.

Lemma upd_same : forall A (f : nat -> A) k v, upd f k v k = v.
Proof. intros. unfold upd. rewrite Nat.eqb_refl. reflexivity. Qed.
Lemma upd_other : forall A (f : nat -> A) k v i, i <> k -> upd f k v i = f i.
Proof. intros. unfold upd. destruct (Nat.eqb i k) eqn:E; auto. apply Nat.eqb_eq in E. contradiction. Qed.

(* h is a heap reached from the caller's heap h0: every object that existed keeps its
   content, except the states of the two generators (numpy Generator, random.Random) that
   Config.copy shares with the caller's Config by design *)
Record frame (fixed : bool) (shared spy : option nat) (h0 h : heap) : Prop := mkF {
  f_nrng : h_nrng h0 <= h_nrng h;
  f_npy : h_npy h0 <= h_npy h;
  f_ncfg : h_ncfg h0 <= h_ncfg h;
  f_nst : h_nst h0 <= h_nst h;
  f_cfg : forall c, c < h_ncfg h0 -> h_cfg h c = h_cfg h0 c;
  f_st : forall s, s < h_nst h0 -> h_st h s = h_st h0 s;
  f_rng : forall r, r < h_nrng h0 -> Some r <> shared -> h_rng h r = h_rng h0 r;
  f_py : forall r, r < h_npy h0 -> Some r <> spy -> h_py h r = h_py h0 r;
  f_glob : fixed = true -> h_global h = h_global h0
}.

Lemma frame_refl : forall fx sh sp h, frame fx sh sp h h.
Proof. intros. constructor; auto. Qed.

Definition rng_of (h : heap) (w : nat) : nat := c_rng (h_cfg h (s_cfg (h_st h w))).
Definition py_of (h : heap) (w : nat) : nat := c_py (h_cfg h (s_cfg (h_st h w))).

(* the working state is one of the executor's own objects, and the generators it draws
   from are its own or the shared ones *)
Definition wok (shared spy : option nat) (h0 h : heap) (w : nat) : Prop :=
  h_nst h0 <= w
  /\ (h_nrng h0 <= rng_of h w \/ Some (rng_of h w) = shared)
  /\ (h_npy h0 <= py_of h w \/ Some (py_of h w) = spy).

Ltac hsimpl := unfold alloc_rng, alloc_py, alloc_cfg, alloc_st, config_copy, write_state, draw_np,
  draw_py, seed_global in *; simpl in *.

Lemma frame_alloc_cfg : forall fx sh sp h0 h c, frame fx sh sp h0 h -> frame fx sh sp h0 (snd (alloc_cfg c h)).
Proof.
  intros fx sh sp h0 h c F. destruct F. hsimpl. constructor; simpl; auto.
  intros c0 Hc. rewrite upd_other; auto. lia.
Qed.

Lemma run_steps_frame : forall fx sh sp h0 evs w h,
  frame fx sh sp h0 h -> wok sh sp h0 h w ->
  frame fx sh sp h0 (snd (run_steps fx w evs h)).
Proof.
  intros fx sh sp h0. induction evs as [|e r IH]; intros w h F W; simpl; auto.
  destruct W as [Wn [Wr Wp]].
  destruct e.
  - (* HWrite *)
    apply IH.
    + destruct F. unfold write_state. constructor; simpl; auto.
      intros s Hs. rewrite upd_other; auto. lia.
    + unfold wok, rng_of, py_of, write_state in *. simpl. rewrite upd_same. simpl. auto.
  - (* HDrawNp *)
    apply IH.
    + destruct F. unfold draw_np. constructor; simpl; auto.
      intros r0 Hr Hs. fold (rng_of h w). rewrite upd_other; auto.
      intro E. subst r0. destruct Wr as [Wr|Wr]; [lia | congruence].
    + unfold wok, rng_of, py_of, draw_np in *. simpl. auto.
  - (* HDrawPy *)
    apply IH.
    + destruct F. unfold draw_py. destruct fx; constructor; simpl; auto; try discriminate.
      intros r0 Hr Hs. fold (py_of h w). rewrite upd_other; auto.
      intro E. subst r0. destruct Wp as [Wp|Wp]; [lia | congruence].
    + unfold wok, rng_of, py_of, draw_py in *. destruct fx; simpl; auto.
  - (* HFork *)
    unfold state_deepcopy. hsimpl.
    apply IH.
    + destruct F. constructor; simpl; auto; try lia.
      * intros c Hc. rewrite upd_other; auto. lia.
      * intros s Hs. rewrite upd_other; auto. lia.
      * intros r0 Hr Hs. rewrite upd_other; auto. lia.
      * intros r0 Hr Hs. rewrite upd_other; auto. lia.
    + unfold wok, rng_of, py_of. simpl. rewrite upd_same. simpl. rewrite upd_same. simpl.
      destruct F. split; [lia | split; left; lia].
  - (* HNewFrom *)
    unfold state_new. hsimpl.
    apply IH.
    + destruct F. constructor; simpl; auto; try lia.
      * intros c Hc. rewrite upd_other; auto. lia.
      * intros s Hs. rewrite upd_other; auto. lia.
    + unfold wok, rng_of, py_of in *. simpl. rewrite upd_same. simpl. rewrite upd_same.
      destruct F. split; [lia | split; assumption].
Qed.

Definition shared_of (h0 : heap) (uc : option nat) : option nat :=
  match uc with Some c => Some (c_rng (h_cfg h0 c)) | None => None end.
Definition shared_py_of (h0 : heap) (uc : option nat) : option nat :=
  match uc with Some c => Some (c_py (h_cfg h0 c)) | None => None end.

Theorem exec_heap_frame : forall fx uc ui ur evs h0,
  (forall c, uc = Some c -> c < h_ncfg h0) ->
  (forall s, ui = Some s -> s < h_nst h0) ->
  (fx = true \/ uc <> None) ->   (* before the repair Simulator() itself seeds `random` *)
  frame fx (shared_of h0 uc) (shared_py_of h0 uc) h0 (exec_heap fx uc ui ur evs h0).
Proof.
  intros fx uc ui ur evs h0 HC HS HG. unfold exec_heap.
  set (sh := shared_of h0 uc). set (sp := shared_py_of h0 uc).
  assert (S1 : frame fx sh sp h0 (snd (sim_new fx uc ur h0))
               /\ (let h1 := snd (sim_new fx uc ur h0) in
                   let sc := fst (sim_new fx uc ur h0) in
                   (h_nrng h0 <= c_rng (h_cfg h1 sc) \/ Some (c_rng (h_cfg h1 sc)) = sh)
                   /\ (h_npy h0 <= c_py (h_cfg h1 sc) \/ Some (c_py (h_cfg h1 sc)) = sp))).
  { destruct uc as [c|]; simpl.
    - split; [apply frame_alloc_cfg; apply frame_refl|].
      rewrite upd_same. split; right; reflexivity.
    - unfold config_new. hsimpl. destruct HG as [HG|HG]; [|congruence]. subst fx. simpl.
      split.
      + constructor; simpl; auto.
        * intros c Hc. rewrite upd_other; auto. lia.
        * intros r Hr _. rewrite upd_other; auto. lia.
        * intros r Hr _. rewrite upd_other; auto. lia.
      + rewrite upd_same. simpl. split; left; lia. }
  destruct (sim_new fx uc ur h0) as [sc h1] eqn:E1. simpl in S1.
  destruct S1 as [F1 [Hr1 Hp1]].
  destruct ui as [s|].
  - unfold state_deepcopy. hsimpl.
    apply run_steps_frame.
    + destruct F1. constructor; simpl; auto; try lia.
      * intros c Hc. rewrite upd_other; auto. lia.
      * intros s0 Hs0. rewrite upd_other; auto. lia.
      * intros r0 Hr Hs0. rewrite upd_other; auto. lia.
      * intros r0 Hr Hs0. rewrite upd_other; auto. lia.
    + unfold wok, rng_of, py_of. simpl. rewrite upd_same. simpl. rewrite upd_same. simpl.
      destruct F1. pose proof (HS s eq_refl). split; [lia | split; left; lia].
  - unfold state_new. hsimpl.
    apply run_steps_frame.
    + destruct F1. constructor; simpl; auto; try lia.
      * intros c Hc. rewrite upd_other; auto. lia.
      * intros s0 Hs0. rewrite upd_other; auto. lia.
    + unfold wok, rng_of, py_of. simpl. rewrite upd_same. simpl. rewrite upd_same.
      destruct F1. split; [lia | split; assumption].
Qed.

(* the caller's Config object: every attribute and the identity of its two generators *)
Theorem caller_config_untouched : forall fx c ui ur evs h0,
  c < h_ncfg h0 ->
  (forall s, ui = Some s -> s < h_nst h0) ->
  h_cfg (exec_heap fx (Some c) ui ur evs h0) c = h_cfg h0 c.
Proof.
  intros fx c ui ur evs h0 Hc HS.
  assert (F : frame fx (shared_of h0 (Some c)) (shared_py_of h0 (Some c)) h0
                    (exec_heap fx (Some c) ui ur evs h0)).
  { apply exec_heap_frame; auto.
    - intros c' E. inversion E; subst. assumption.
    - right. discriminate. }
  destruct F. auto.
Qed.

(* the caller's initial_state: its arrays, its Config and - unless they are the very objects
   shared with the simulator's config - the states of its generators *)
Theorem initial_state_untouched : forall fx uc s ur evs h0,
  (forall c, uc = Some c -> c < h_ncfg h0) ->
  s < h_nst h0 -> s_cfg (h_st h0 s) < h_ncfg h0 ->
  rng_of h0 s < h_nrng h0 -> py_of h0 s < h_npy h0 ->
  (fx = true \/ uc <> None) ->
  let h := exec_heap fx uc (Some s) ur evs h0 in
  h_st h s = h_st h0 s /\ h_cfg h (s_cfg (h_st h0 s)) = h_cfg h0 (s_cfg (h_st h0 s))
  /\ (Some (rng_of h0 s) <> shared_of h0 uc -> h_rng h (rng_of h0 s) = h_rng h0 (rng_of h0 s))
  /\ (Some (py_of h0 s) <> shared_py_of h0 uc -> h_py h (py_of h0 s) = h_py h0 (py_of h0 s)).
Proof.
  intros fx uc s ur evs h0 HC Hs Hcs Hrs Hps HG h.
  assert (F : frame fx (shared_of h0 uc) (shared_py_of h0 uc) h0 h).
  { apply exec_heap_frame; auto. intros s' E. inversion E; subst. assumption. }
  destruct F. repeat split; auto.
Qed.

(* repaired tree: nothing piquasso does reaches the `random` module's state *)
Theorem global_random_untouched : forall uc ui ur evs h0,
  (forall c, uc = Some c -> c < h_ncfg h0) ->
  (forall s, ui = Some s -> s < h_nst h0) ->
  h_global (exec_heap true uc ui ur evs h0) = h_global h0.
Proof.
  intros uc ui ur evs h0 HC HS.
  assert (F : frame true (shared_of h0 uc) (shared_py_of h0 uc) h0 (exec_heap true uc ui ur evs h0)).
  { apply exec_heap_frame; auto. }
  destruct F. auto.
Qed.

Theorem config_new_keeps_global : forall s h, h_global (snd (config_new true s h)) = h_global h.
Proof. intros. reflexivity. Qed.

(* before the repair: creating a Config, or one Fock-space measurement, writes it *)
Definition heap0 : heap :=
  mkH (fun _ => 0%Z) 0 (fun _ => 0%Z) 0 (fun _ => mkC 0 0 0) 0 (fun _ => mkS 0 0) 0 0%Z.

Theorem global_random_written_refuted_on_current :
  (exists s h, h_global (snd (config_new false s h)) <> h_global h)
  /\ (exists h c evs, c < h_ncfg h /\
        h_global (exec_heap false (Some c) None 0%Z evs h) <> h_global h).
Proof.
  split.
  - exists 5%Z, heap0. simpl. discriminate.
  - exists (snd (config_new false 0%Z heap0)), 0, [HDrawPy]. split; [simpl; lia|].
    vm_compute. discriminate.
Qed.

(* by design (Config.copy keeps rng and _python_rng): the states of the caller's Config's
   generators advance when the simulator draws *)
Theorem caller_rng_shared_by_design :
  exists h c, c < h_ncfg h /\
    h_rng (exec_heap true (Some c) None 0%Z [HDrawNp] h) (c_rng (h_cfg h c)) <> h_rng h (c_rng (h_cfg h c))
    /\ h_py (exec_heap true (Some c) None 0%Z [HDrawPy] h) (c_py (h_cfg h c)) <> h_py h (c_py (h_cfg h c)).
Proof.
  exists (snd (config_new true 0%Z heap0)), 0. split; [simpl; lia|].
  split; vm_compute; discriminate.
Qed.

(* State.copy hands out fresh cells: a new state object with its own Config and its own two
   generators, carrying the content of the original (this is what the differential run checks
   with numpy.shares_memory on every array that steps modify) *)
Theorem state_deepcopy_fresh : forall s h,
  let w := fst (state_deepcopy s h) in
  let h' := snd (state_deepcopy s h) in
  w = h_nst h /\ s_cfg (h_st h' w) = h_ncfg h /\ rng_of h' w = h_nrng h /\ py_of h' w = h_npy h
  /\ s_data (h_st h' w) = s_data (h_st h s)
  /\ (forall s0, s0 < h_nst h -> h_st h' s0 = h_st h s0).
Proof.
  intros s h. unfold state_deepcopy, rng_of, py_of. hsimpl.
  repeat rewrite upd_same. simpl. repeat rewrite upd_same. simpl.
  repeat split; auto. intros s0 Hs. rewrite upd_other; auto. lia.
Qed.
